-------------------------------- MODULE Task --------------------------------
(***************************************************************************)
(* QXmppPromise<T> / QXmppTask<T> hand-over (src/base/QXmppPromise.h,      *)
(* QXmppTask.h, QXmppTask.cpp).  All copies of a promise and of the tasks  *)
(* obtained from it share one TaskData {context, continuation, result,     *)
(* finished}.  The specification has one action per public operation and   *)
(* models the *mechanism* (the continuation slot `cont`, the stored value  *)
(* `stored`, the finished flag) separately from the *history* ghost `due`  *)
(* ("then and finish have both happened and the context was alive at the   *)
(* later of the two"), so that the properties of C13 relate the two.       *)
(*                                                                         *)
(* The API is single-consumer: at most one then() per task family          *)
(* (assumption stated in DESIGN.md, C13).  The class is single-threaded, so *)
(* a continuation body is one atomic step; what can go wrong is what the   *)
(* library touches after the body returns, hence the re-entrant bodies.    *)
(***************************************************************************)
EXTENDS Naturals, Sequences, TLC

CONSTANTS MaxRefs,      \* bound on live copies of each handle kind
          Kinds,        \* subset of {"void","copy","move"}
          Bodies,       \* what the continuation body does: "none","destroyCtx","dropOthers"
          MaxHist       \* bound on the number of operations of a behaviour

VARIABLES kind,         \* result type of this promise/task family
          fin,          \* TaskData::finished
          stored,       \* TaskData::result != nullptr
          cont,         \* TaskData::continuation set
          ctx,          \* "alive" | "dead": the QObject passed as context
          runs, got,    \* how often the user continuation ran / the value it saw
          pRefs, tRefs, \* live promise / task handles
          valLive,      \* a heap copy of the result exists
          capLive,      \* a copy of the user continuation (with its captures) exists
          thenDone, finVal, due,   \* ghosts (history)
          hist          \* sequence of operations performed (behaviour export)

mvars == <<kind, fin, stored, cont, ctx, runs, got, pRefs, tRefs, valLive, capLive, thenDone, finVal, due>>
vars  == <<mvars, hist>>

Refs == pRefs + tRefs
Vals(k) == IF k = "void" THEN {0} ELSE {1, 2}

Init ==
    /\ kind \in Kinds
    /\ fin = FALSE /\ stored = FALSE /\ cont = FALSE
    /\ ctx = "alive"
    /\ runs = 0 /\ got = 0
    /\ pRefs = 1 /\ tRefs = 0
    /\ valLive = FALSE /\ capLive = FALSE
    /\ thenDone = FALSE /\ finVal = 0 /\ due = FALSE
    /\ hist = <<>>

Log(r) == hist' = Append(hist, r)

(* --- handle bookkeeping ------------------------------------------------ *)
\* TaskData is freed with the last handle: ~TaskData frees the result, the
\* std::function member frees the continuation.
FreeIfLast(p, t) ==
    IF p + t = 0 THEN valLive' = FALSE /\ capLive' = FALSE
                 ELSE UNCHANGED <<valLive, capLive>>

CopyPromise ==
    /\ pRefs >= 1 /\ pRefs < MaxRefs
    /\ pRefs' = pRefs + 1
    /\ Log([a |-> "CopyPromise"])
    /\ UNCHANGED <<kind, fin, stored, cont, ctx, runs, got, tRefs, valLive, capLive, thenDone, finVal, due>>

MakeTask ==   \* promise.task() or a copy of an existing task
    /\ Refs >= 1 /\ tRefs < MaxRefs
    /\ tRefs' = tRefs + 1
    /\ Log([a |-> "MakeTask"])
    /\ UNCHANGED <<kind, fin, stored, cont, ctx, runs, got, pRefs, valLive, capLive, thenDone, finVal, due>>

DropPromise ==
    /\ pRefs >= 1
    /\ pRefs' = pRefs - 1
    /\ FreeIfLast(pRefs - 1, tRefs)
    /\ Log([a |-> "DropPromise"])
    /\ UNCHANGED <<kind, fin, stored, cont, ctx, runs, got, tRefs, thenDone, finVal, due>>

DropTask ==
    /\ tRefs >= 1
    /\ tRefs' = tRefs - 1
    /\ FreeIfLast(pRefs, tRefs - 1)
    /\ Log([a |-> "DropTask"])
    /\ UNCHANGED <<kind, fin, stored, cont, ctx, runs, got, pRefs, thenDone, finVal, due>>

DestroyCtx ==
    /\ ctx = "alive"
    /\ ctx' = "dead"
    /\ Log([a |-> "DestroyCtx"])
    /\ UNCHANGED <<kind, fin, stored, cont, runs, got, pRefs, tRefs, valLive, capLive, thenDone, finVal, due>>

\* everything goes away at once (end of the owning scope)
DropAll ==
    /\ pRefs' = 0 /\ tRefs' = 0 /\ ctx' = "dead"
    /\ valLive' = FALSE /\ capLive' = FALSE
    /\ Log([a |-> "DropAll"])
    /\ UNCHANGED <<kind, fin, stored, cont, runs, got, thenDone, finVal, due>>

(* --- the user continuation runs: body b, executing on handle kind h ---- *)
\* "dropOthers": the body drops every handle except the one whose member
\* function is currently executing (h = "p" for finish, "t" for then).
BodyEffect(b, h) ==
    /\ ctx' = IF b = "destroyCtx" THEN "dead" ELSE ctx
    /\ pRefs' = IF b = "dropOthers" THEN (IF h = "p" THEN 1 ELSE 0) ELSE pRefs
    /\ tRefs' = IF b = "dropOthers" THEN (IF h = "t" THEN 1 ELSE 0) ELSE tRefs

NoBody == UNCHANGED <<ctx, pRefs, tRefs>>

(* --- QXmppTask::then ---------------------------------------------------- *)
Then(b) ==
    /\ tRefs >= 1 /\ ctx = "alive" /\ ~thenDone
    /\ thenDone' = TRUE
    /\ Log([a |-> "Then", b |-> b])
    /\ IF fin
       THEN \* already finished: run now from the stored value, then reset it
            /\ IF kind = "void" \/ stored
               THEN /\ runs' = runs + 1 /\ got' = finVal
                    /\ BodyEffect(b, "t")
               ELSE /\ UNCHANGED <<runs, got>> /\ NoBody
            /\ stored' = FALSE /\ valLive' = FALSE
            /\ due' = TRUE
            /\ UNCHANGED <<cont, capLive>>      \* the functor dies with the call
       ELSE \* register context + wrapper
            /\ cont' = TRUE /\ capLive' = TRUE
            /\ due' = FALSE
            /\ NoBody
            /\ UNCHANGED <<runs, got, stored, valLive>>
    /\ UNCHANGED <<kind, fin, finVal>>

(* --- QXmppPromise::finish ------------------------------------------------ *)
Finish(v, b) ==
    /\ pRefs >= 1 /\ ~fin /\ v \in Vals(kind)
    /\ fin' = TRUE /\ finVal' = v
    /\ Log([a |-> "Finish", v |-> v, b |-> b])
    /\ IF cont
       THEN IF ctx = "alive"
            THEN \* wrapper: context alive -> f(value); then clears the slot
                 /\ runs' = runs + 1 /\ got' = v
                 /\ BodyEffect(b, "p")
                 /\ cont' = FALSE /\ capLive' = FALSE
                 /\ due' = TRUE
                 /\ UNCHANGED <<stored, valLive>>
            ELSE \* context dead: nothing runs, the slot keeps the wrapper
                 /\ NoBody
                 /\ UNCHANGED <<runs, got, cont, capLive, stored, valLive, due>>
       ELSE \* nobody waiting: keep a heap copy of the value
            /\ stored' = (kind # "void") /\ valLive' = (kind # "void")
            /\ NoBody
            /\ UNCHANGED <<runs, got, cont, capLive, due>>
    /\ UNCHANGED <<kind, thenDone>>

Next ==
    \/ CopyPromise \/ MakeTask \/ DropPromise \/ DropTask \/ DestroyCtx \/ DropAll
    \/ \E b \in Bodies : Then(b)
    \/ \E b \in Bodies : \E v \in Vals(kind) : Finish(v, b)

Spec == Init /\ [][Next]_vars

(* --- properties (C13) ---------------------------------------------------- *)
\* written as operators over the observable quantities so that TaskTrace can
\* evaluate the same predicates on what the implementation reported
P_AtMostOnce(r)        == r <= 1
P_Value(r, g, fv)      == r = 1 => g = fv
P_ExactlyOnce(r, d)    == (r = 1) <=> d
P_Released(refs, lv, lc) == refs = 0 => (lv = 0 /\ lc = 0)

B2N(b) == IF b THEN 1 ELSE 0

AtMostOnce  == P_AtMostOnce(runs)
ValueSeen   == P_Value(runs, got, finVal)
ExactlyOnce == P_ExactlyOnce(runs, due)
Released    == P_Released(Refs, B2N(valLive), B2N(capLive))
TypeOK ==
    /\ kind \in {"void", "copy", "move"} /\ fin \in BOOLEAN /\ stored \in BOOLEAN /\ cont \in BOOLEAN
    /\ ctx \in {"alive", "dead"} /\ runs \in Nat /\ pRefs \in 0..MaxRefs /\ tRefs \in 0..MaxRefs
    /\ (stored => fin) /\ (valLive <=> stored /\ Refs > 0) /\ (capLive => cont)

\* never after the context has died (action property)
NoRunAfterDeath == [][ctx = "dead" => runs' = runs]_vars

\* re-initialisation used by the trace specification at an execution boundary
Reinit(k) ==
    /\ kind' = k
    /\ fin' = FALSE /\ stored' = FALSE /\ cont' = FALSE
    /\ ctx' = "alive"
    /\ runs' = 0 /\ got' = 0
    /\ pRefs' = 1 /\ tRefs' = 0
    /\ valLive' = FALSE /\ capLive' = FALSE
    /\ thenDone' = FALSE /\ finVal' = 0 /\ due' = FALSE
    /\ hist' = <<>>

Bound == Len(hist) <= MaxHist
View  == mvars          \* hist is an observation variable: hidden from state identity
=============================================================================
