-------------------------------- MODULE Task --------------------------------
(***************************************************************************)
(* QXmppPromise<T> / QXmppTask<T> hand-over (src/base/QXmppPromise.h,      *)
(* QXmppTask.h, QXmppTask.cpp).  All copies of a promise and of the tasks  *)
(* obtained from it share one TaskData {context, continuation, result,     *)
(* finished}.  The specification has one action per public operation and   *)
(* models the *mechanism* (the continuation slot `cont`, the stored value  *)
(* `stored`, the finished flag) separately from the *history* ghost `due`  *)
(* ("then and finish have both happened and the context was alive at the   *)
(* later of the two"), so that the properties of C13 relate the two.       *)
(*                                                                         *)
(* The API is single-consumer: at most one then() per task family          *)
(* (assumption stated in DESIGN.md, C13).  The class is single-threaded, so *)
(* a continuation body is one atomic step; what can go wrong is what the   *)
(* library touches after the body returns, hence the re-entrant bodies.    *)
(***************************************************************************)
EXTENDS Naturals, Sequences, TLC

CONSTANTS MaxRefs,      \* bound on live copies of each handle kind
          Kinds,        \* subset of {"void","copy","move"}
          Bodies,       \* what the continuation body does: "none","destroyCtx","dropOthers","refinish","reThen"
          MaxHist       \* bound on the number of operations of a behaviour

VARIABLES kind,         \* result type of this promise/task family
          fin,          \* TaskData::finished
          stored,       \* TaskData::result != nullptr
          cont,         \* TaskData::continuation set
          selfCap,      \* the stored continuation captured a copy of its own task (a reference cycle
                        \* that only the wrapper's self-clearing after the run breaks)
          ctx,          \* "alive" | "dead": the QObject passed as context
          runs, got,    \* how often the user continuation ran / the value it saw
          pRefs, tRefs, \* live promise / task handles
          valLive,      \* a heap copy of the result exists
          capLive,      \* a copy of the user continuation (with its captures) exists
          thenDone, finVal, due,   \* ghosts (history)
          hist          \* sequence of operations performed (behaviour export)

mvars == <<kind, fin, stored, cont, selfCap, ctx, runs, got, pRefs, tRefs, valLive, capLive, thenDone, finVal, due>>
vars  == <<mvars, hist>>

Refs == pRefs + tRefs
Vals(k) == IF k = "void" THEN {0} ELSE {1, 2}

Init ==
    /\ kind \in Kinds
    /\ fin = FALSE /\ stored = FALSE /\ cont = FALSE /\ selfCap = FALSE
    /\ ctx = "alive"
    /\ runs = 0 /\ got = 0
    /\ pRefs = 1 /\ tRefs = 0
    /\ valLive = FALSE /\ capLive = FALSE
    /\ thenDone = FALSE /\ finVal = 0 /\ due = FALSE
    /\ hist = <<>>

Log(r) == hist' = Append(hist, r)

(* --- handle bookkeeping ------------------------------------------------ *)
\* TaskData is freed with its last reference: ~TaskData frees the result, the
\* std::function member frees the continuation. References are the live handles plus,
\* while it is stored, a continuation that captured a copy of its own task.
DataAlive(p, t, c, sc) == p + t > 0 \/ (c /\ sc)
\* last conjunct of every action: what is alive follows from the new state
Settle ==
    /\ valLive' = (stored' /\ DataAlive(pRefs', tRefs', cont', selfCap'))
    /\ capLive' = (cont' /\ DataAlive(pRefs', tRefs', cont', selfCap'))

CopyPromise ==
    /\ pRefs >= 1 /\ pRefs < MaxRefs
    /\ pRefs' = pRefs + 1
    /\ Log([a |-> "CopyPromise"])
    /\ UNCHANGED <<kind, fin, stored, cont, selfCap, ctx, runs, got, tRefs, thenDone, finVal, due>>
    /\ Settle

MakeTask ==   \* promise.task() or a copy of an existing task
    /\ Refs >= 1 /\ tRefs < MaxRefs
    /\ tRefs' = tRefs + 1
    /\ Log([a |-> "MakeTask"])
    /\ UNCHANGED <<kind, fin, stored, cont, selfCap, ctx, runs, got, pRefs, thenDone, finVal, due>>
    /\ Settle

DropPromise ==
    /\ pRefs >= 1
    /\ pRefs' = pRefs - 1
    /\ Log([a |-> "DropPromise"])
    /\ UNCHANGED <<kind, fin, stored, cont, selfCap, ctx, runs, got, tRefs, thenDone, finVal, due>>
    /\ Settle

DropTask ==
    /\ tRefs >= 1
    /\ tRefs' = tRefs - 1
    /\ Log([a |-> "DropTask"])
    /\ UNCHANGED <<kind, fin, stored, cont, selfCap, ctx, runs, got, pRefs, thenDone, finVal, due>>
    /\ Settle

DestroyCtx ==
    /\ ctx = "alive"
    /\ ctx' = "dead"
    /\ Log([a |-> "DestroyCtx"])
    /\ UNCHANGED <<kind, fin, stored, cont, selfCap, runs, got, pRefs, tRefs, thenDone, finVal, due>>
    /\ Settle

\* everything goes away at once (end of the owning scope)
DropAll ==
    /\ pRefs' = 0 /\ tRefs' = 0 /\ ctx' = "dead"
    /\ Log([a |-> "DropAll"])
    /\ UNCHANGED <<kind, fin, stored, cont, selfCap, runs, got, thenDone, finVal, due>>
    /\ Settle

(* --- the user continuation runs: body b, executing on handle kind h ---- *)
\* "dropOthers": the body drops every handle except the one whose member
\* function is currently executing (h = "p" for finish, "t" for then).
\* "refinish": the body re-enters the family through a second completion source guarded
\* by isFinished() (`if (!promise.task().isFinished()) promise.finish(other)`, the idiom of the
\* library's own managers).  finish() sets the finished flag *before* it hands the value over and
\* then() only runs a body directly when the flag is already set, so the guard always sees a
\* finished task and the second completion never happens: no effect here.
\* An implementation that marks the task finished only after the hand-over runs the
\* continuation a second time, with the other value.
\* "reThen": the body attaches a second continuation to a copy of its own task.  At that moment the
\* task is finished and its value is being (or has been) handed over, so for a non-void task there
\* is nothing to run it with: the second continuation neither runs nor is kept (the call returns,
\* the closure is released); a void task runs it at once.  Nothing of the family changes -- in
\* particular the continuation that is executing stays alive until it returns.  (The harness
\* re-enters only from a continuation run by finish(); one run directly by then() executes while
\* the stored value is still being handed over.)
\* `seen` is the finished flag as the body reads it.
BodyEffect(b, h, seen) ==
    /\ (b = "refinish" => seen)
    /\ ctx' = IF b = "destroyCtx" THEN "dead" ELSE ctx
    /\ pRefs' = IF b = "dropOthers" THEN (IF h = "p" THEN 1 ELSE 0) ELSE pRefs
    /\ tRefs' = IF b = "dropOthers" THEN (IF h = "t" THEN 1 ELSE 0) ELSE tRefs

NoBody == UNCHANGED <<ctx, pRefs, tRefs>>

(* --- QXmppTask::then ---------------------------------------------------- *)
\* sc: the continuation captures a copy of the task it is attached to
Then(b, sc) ==
    /\ tRefs >= 1 /\ ctx = "alive" /\ ~thenDone
    /\ thenDone' = TRUE
    /\ Log([a |-> "Then", b |-> b, sc |-> sc])
    /\ IF fin
       THEN \* already finished: run now from the stored value, then reset it
            /\ IF kind = "void" \/ stored
               THEN /\ runs' = runs + 1 /\ got' = finVal
                    /\ BodyEffect(b, "t", fin)
               ELSE /\ UNCHANGED <<runs, got>> /\ NoBody
            /\ stored' = FALSE
            /\ due' = TRUE
            /\ UNCHANGED <<cont, selfCap>>      \* the functor (and what it captured) dies with the call
       ELSE \* register context + wrapper
            /\ cont' = TRUE /\ selfCap' = sc
            /\ due' = FALSE
            /\ NoBody
            /\ UNCHANGED <<runs, got, stored>>
    /\ UNCHANGED <<kind, fin, finVal>>
    /\ Settle

\* A second then() on a family whose first continuation has been dealt with and whose value is gone
\* (single-consumer API: see the module comment).  Same reasoning as "reThen": a non-void task has
\* no value left, the continuation is neither run nor stored; a void task runs it at once.  No
\* variable of the family changes; sc: the closure captures a copy of the task (if it were stored
\* it would keep the shared state alive for ever).
ThenLate(sc) ==
    /\ tRefs >= 1 /\ ctx = "alive" /\ thenDone /\ fin /\ ~cont /\ ~stored
    /\ Log([a |-> "ThenLate", sc |-> sc])
    /\ UNCHANGED <<kind, fin, stored, cont, selfCap, ctx, runs, got, pRefs, tRefs, thenDone, finVal, due>>
    /\ Settle

\* A second then() on a family that is NOT finished yet replaces the registered continuation and the
\* context it was registered with (documented: a task has one continuation, the last one attached).
\* The new continuation comes with a context object of its own, alive at that moment; the replaced
\* continuation is released and never runs; what happens to the OLD context object afterwards
\* (old = "destroy": the harness deletes it right after the call) no longer matters.
ThenReplace(sc, old) ==
    /\ tRefs >= 1 /\ thenDone /\ ~fin /\ cont
    /\ ctx' = "alive" /\ selfCap' = sc /\ due' = FALSE
    /\ Log([a |-> "ThenReplace", sc |-> sc, old |-> old])
    /\ UNCHANGED <<kind, fin, stored, cont, runs, got, pRefs, tRefs, thenDone, finVal>>
    /\ Settle

(* --- QXmppPromise::finish ------------------------------------------------ *)
Finish(v, b) ==
    /\ pRefs >= 1 /\ ~fin /\ v \in Vals(kind)
    /\ fin' = TRUE /\ finVal' = v
    /\ Log([a |-> "Finish", v |-> v, b |-> b])
    /\ IF cont
       THEN IF ctx = "alive"
            THEN \* wrapper: context alive -> f(value); then clears the slot (releasing the
                 \* closure and whatever it captured, a copy of its own task included)
                 /\ runs' = runs + 1 /\ got' = v
                 /\ BodyEffect(b, "p", fin')
                 /\ cont' = FALSE /\ selfCap' = FALSE
                 /\ due' = TRUE
                 /\ UNCHANGED stored
            ELSE \* context dead: nothing runs, the slot keeps the wrapper
                 /\ NoBody
                 /\ UNCHANGED <<runs, got, cont, selfCap, stored, due>>
       ELSE \* nobody waiting: keep a heap copy of the value
            /\ stored' = (kind # "void")
            /\ NoBody
            /\ UNCHANGED <<runs, got, cont, selfCap, due>>
    /\ UNCHANGED <<kind, thenDone>>
    /\ Settle

Next ==
    \/ CopyPromise \/ MakeTask \/ DropPromise \/ DropTask \/ DestroyCtx \/ DropAll
    \/ \E b \in Bodies : \E sc \in BOOLEAN : Then(b, sc)
    \/ \E sc \in BOOLEAN : ThenLate(sc)
    \/ \E sc \in BOOLEAN : \E old \in {"keep", "destroy"} : ThenReplace(sc, old)
    \/ \E b \in Bodies : \E v \in Vals(kind) : Finish(v, b)

Spec == Init /\ [][Next]_vars

(* --- properties (C13) ---------------------------------------------------- *)
\* written as operators over the observable quantities so that TaskTrace can
\* evaluate the same predicates on what the implementation reported
P_AtMostOnce(r)        == r <= 1
P_Value(r, g, fv)      == r = 1 => g = fv
P_ExactlyOnce(r, d)    == (r = 1) <=> d
\* held: a self-capturing continuation is still stored and has not run (the cycle the user
\* built keeps the shared state alive until finish() runs and clears it)
P_Released(refs, held, lv, lc) == (refs = 0 /\ ~held) => (lv = 0 /\ lc = 0)
\* a continuation attached when no value is left never runs (it would run without the value)
P_NoValueNoRun(k, r2)  == k # "void" => r2 = 0

B2N(b) == IF b THEN 1 ELSE 0

AtMostOnce  == P_AtMostOnce(runs)
ValueSeen   == P_Value(runs, got, finVal)
ExactlyOnce == P_ExactlyOnce(runs, due)
Released    == P_Released(Refs, cont /\ selfCap, B2N(valLive), B2N(capLive))
TypeOK ==
    /\ kind \in {"void", "copy", "move"} /\ fin \in BOOLEAN /\ stored \in BOOLEAN /\ cont \in BOOLEAN
    /\ ctx \in {"alive", "dead"} /\ runs \in Nat /\ pRefs \in 0..MaxRefs /\ tRefs \in 0..MaxRefs
    /\ (stored => fin) /\ (valLive => stored) /\ (capLive => cont) /\ (selfCap => cont)
    /\ (runs >= 1 => ~(cont /\ selfCap) \/ ~thenDone)    \* a continuation that ran has released itself

\* never after the context has died (action property)
NoRunAfterDeath == [][ctx = "dead" => runs' = runs]_vars

\* re-initialisation used by the trace specification at an execution boundary
Reinit(k) ==
    /\ kind' = k
    /\ fin' = FALSE /\ stored' = FALSE /\ cont' = FALSE /\ selfCap' = FALSE
    /\ ctx' = "alive"
    /\ runs' = 0 /\ got' = 0
    /\ pRefs' = 1 /\ tRefs' = 0
    /\ valLive' = FALSE /\ capLive' = FALSE
    /\ thenDone' = FALSE /\ finVal' = 0 /\ due' = FALSE
    /\ hist' = <<>>

Bound == Len(hist) <= MaxHist
View  == mvars          \* hist is an observation variable: hidden from state identity
=============================================================================
