SPECIFICATION Spec
CONSTANTS
  Classes = {"OwnBare", "OwnBareCase", "OwnFullSelf", "OwnFullOther", "OwnBareSlash", "OwnBareSpace", "Domain", "SuffixLookalike", "PrefixLookalike", "Truncated", "Empty", "Contact", "ContactFull", "OwnAsResource", "Homoglyph"}
  Wrappers = {"none", "sent", "received", "sentBody", "recvBody", "privSent", "both", "nestedSent", "nestedRecv", "emptyCarbon", "fwdWrongNs", "msgWrongNs", "fwdOnly", "wrongNs"}
  Inners = {"chatIn", "chatOut", "spoof", "noBody", "error", "rich"}
  Gens = {"v1", "v2"}
  JidCfgs = {"plain", "nores", "mixed"}
  Estabs = {"configured"}
  Hows = {}
  MaxHist = 99
VIEW TourView
ACTION_CONSTRAINT EmitBehaviour
CHECK_DEADLOCK FALSE
