\* Not part of the check: makes TLC exhibit a single flipped bit in the protected bytes after which the
\* specification's own (strict) decoder accepts, because the bytes no longer carry MESSAGE-INTEGRITY.
SPECIFICATION Spec
CONSTANTS
  Mode = "rotate"
  Variants = {0}
  KeyLens <- KeyLensAll
  AddrMode = "off"
  TamperMode = "singles"
  TamperVariants = {0}
  TamperAllVariants = {}
  HoldMode = "none"
  Aliased = {}
  HelperKeyMax = 0
  HelperTexts = {0}
INVARIANTS NoReframing
VIEW View
CHECK_DEADLOCK FALSE
