SPECIFICATION Spec
CONSTANTS
  MaxSet = 2
  Bases <- BasesNone
  Ordered = TRUE
INVARIANTS TypeOK NoLeak Partition Recovered
VIEW View
CHECK_DEADLOCK FALSE
