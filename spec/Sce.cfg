SPECIFICATION Spec
CONSTANTS
  MaxSet = 2
  Bases <- BasesNone
  SendModes <- NoSends
  PlainApis <- NoSends
  Ordered = TRUE
INVARIANTS TypeOK NoLeak Partition Recovered
VIEW View
CHECK_DEADLOCK FALSE
