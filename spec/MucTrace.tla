------------------------------ MODULE MucTrace ------------------------------
(***************************************************************************)
(* Trace validation for Muc.  The trace (ndjson, written by `qxv muc`)      *)
(* holds per step the event with its arguments (the *inputs*: what the user,*)
(* the MUC service or the session did) and `o`, what the real QXmppClient + *)
(* QXmppMucManager + rooms reported afterwards:                             *)
(*  {"e":"PresAv","a":"PresAv","src":"r1","n":"n1","c":"self","it":"mod",   *)
(*   "o":{"conn":true,"msig":[],"sent":["disco:r1"],                        *)
(*        "rooms":{"r1":{"joined":true,"nick":"n1","parts":["n1"],          *)
(*                       "subj":"","name":"","acts":9,                       *)
(*                       "sig":["acts:9","added:n1","pchg","joined"]},       *)
(*                 "r2":{...}}}}                                             *)
(*  joined/nick/parts/subj/name/acts  isJoined(), nickName(), participants()*)
(*        (resource part; "-" = the bare room JID), subject(), name(),      *)
(*        allowedActions() of each managed room after the step              *)
(*  sig   the signals of the room during the step, in emission order        *)
(*  msig  QXmppMucManager::invitationReceived                               *)
(*  sent  what the client wrote during the step (abstract descriptions)     *)
(*                                                                          *)
(* Three layers per line (docs/BUILDING-A-CHECK.md):                        *)
(*  model    Muc's step for the logged event if the environment assumption  *)
(*           `Enabled` holds in the model state, else the model stutters;   *)
(*  monitor  `mon.ref.st`: the reference rooms, obtained by applying        *)
(*           RoomStep to the logged events only (total: no enabling         *)
(*           condition), and `mon.po`, the previous observation.  The invariants of the     *)
(*           extension (P_* of Muc) are evaluated on reference + observation;*)
(*           an execution with a failing predicate is a conformance failure;*)
(*  compare  model projection vs observation, including the order of the    *)
(*           signals: a mismatch only marks the execution diverged.         *)
(***************************************************************************)
EXTENDS Muc, Integers, Json, CSV, IOUtils

TraceLog == ndJsonDeserialize(IOEnv.QXV_TRACE)

VARIABLES l, cid, mon, fl, nfail, fails, fflag, ndiv, divs, dflag, ncases, naborts

tvars == <<vars, l, cid, mon, fl, nfail, fails, fflag, ndiv, divs, dflag, ncases, naborts>>

ObsRoom(o, r) == LET x == o.rooms[r] IN
    [joined |-> x.joined, nick |-> x.nick, parts |-> Range(x.parts), subj |-> x.subj, name |-> x.name, acts |-> x.acts]
Obs0 == [joined |-> FALSE, nick |-> "", parts |-> {}, subj |-> "", name |-> "", acts |-> 0]
Mon0 == [ref |-> Out0, po |-> [r \in Rooms |-> Obs0]]     \* ref.st = the reference rooms

TInit ==
    /\ Init
    /\ l = 1 /\ cid = "" /\ mon = Mon0 /\ fl = {} /\ nfail = 0 /\ fails = <<>> /\ fflag = FALSE
    /\ ndiv = 0 /\ divs = <<>> /\ dflag = FALSE /\ ncases = 0 /\ naborts = 0

\* the event of a line: the line without the observation
Ev(ln) == [f \in DOMAIN ln \ {"o", "e"} |-> ln[f]]

(* model projection, in the shape of the logged observation *)
Proj == [conn |-> conn, msig |-> out.msig, sent |-> out.sent,
         rooms |-> [r \in Rooms |-> [st |-> Obs(rm[r]), sig |-> out.sig[r]]]]
ObsProj(o) == [conn |-> o.conn, msig |-> o.msig, sent |-> o.sent,
               rooms |-> [r \in Rooms |-> [st |-> ObsRoom(o, r), sig |-> o.rooms[r].sig]]]

(* the invariants of the extension on reference (g0 -> g1) and observation *)
FailedRoom(g0, g1, e, r, po, ob, sig, refsig) ==
    {p \in {"Joined", "Parts", "Nick", "Subject", "Attrs", "JoinLeft", "PartSigs", "OtherSigs", "Isolated"} :
        CASE p = "Joined"    -> ~P_Joined(Ghost(g1), ob.joined)
          [] p = "Parts"     -> ~P_Parts(Ghost(g1), ob.parts)
          [] p = "Nick"      -> ~P_Nick(Ghost(g1), ob.nick)
          [] p = "Subject"   -> ~P_Subject(Ghost(g1), ob.subj)
          [] p = "Attrs"     -> ~(ob.name = g1.name /\ ob.acts = g1.acts)
          [] p = "JoinLeft"  -> ~P_JoinLeft(Ghost(g0), Ghost(g1), e, r, sig)
          [] p = "PartSigs"  -> ~P_PartSigs(Ghost(g0), Ghost(g1), e, r, sig)
          [] p = "OtherSigs" -> ~P_OtherSigs(refsig, sig)
          [] p = "Isolated"  -> ~P_Isolated(e, r, po, ob, sig)}

\* m: monitor before the step, n: after it (n.ref = reaction of the reference rooms m.ref.st to e)
Failed(m, n, e, o) ==
    UNION {{[room |-> r, prop |-> p] :
                p \in FailedRoom(m.ref.st[r], n.ref.st[r], e, r, m.po[r], n.po[r], o.rooms[r].sig, n.ref.sig[r])} : r \in Rooms}
       \cup (IF o.sent # n.ref.sent THEN {[room |-> "", prop |-> "Sent"]} ELSE {})
       \cup (IF o.msig # n.ref.msig THEN {[room |-> "", prop |-> "Invite"]} ELSE {})

MonNext(m, e, o) == [ref |-> StepOut(m.ref.st, e), po |-> [r \in Rooms |-> ObsRoom(o, r)]]

ResetStep(ln) ==
    /\ Reinit
    /\ cid' = ln.case /\ mon' = Mon0 /\ fl' = {} /\ dflag' = FALSE /\ fflag' = FALSE /\ ncases' = ncases + 1
    /\ UNCHANGED <<nfail, fails, ndiv, divs, naborts>>

AbortStep(ln) ==
    /\ naborts' = naborts + 1
    /\ UNCHANGED <<vars, cid, mon, fl, nfail, fails, fflag, ndiv, divs, dflag, ncases>>

\* The record of the first failing step of an execution goes to the side file QXV_FAILS (one JSON
\* line each); the state keeps the count and the first few only, so that it stays small.
OpStep(ln) ==
    LET e == Ev(ln)
        o == ln.o
    IN /\ IF Enabled(e) THEN Apply(e) ELSE UNCHANGED vars
       /\ mon' = MonNext(mon, e, o)
       /\ fl' = Failed(mon, mon', e, o)
       /\ fflag' = (fflag \/ fl' # {})
       /\ nfail' = IF fl' # {} /\ ~fflag THEN nfail + 1 ELSE nfail
       /\ fails' = IF fl' # {} /\ ~fflag /\ Len(fails) < 10
                   THEN Append(fails, [case |-> cid, line |-> l, e |-> e.a, props |-> fl']) ELSE fails
       /\ (fl' # {} /\ ~fflag) => CSVWrite("%1$s", <<ToJson([case |-> cid, line |-> l, e |-> e.a, props |-> fl'])>>, IOEnv.QXV_FAILS)
       /\ LET d == Proj' # ObsProj(o) IN
            /\ dflag' = (dflag \/ d)
            /\ ndiv' = IF d /\ ~dflag THEN ndiv + 1 ELSE ndiv
            /\ divs' = IF d /\ ~dflag /\ Len(divs) < 10
                       THEN Append(divs, [case |-> cid, line |-> l, e |-> e.a, model |-> Proj', impl |-> ObsProj(o)]) ELSE divs
       /\ UNCHANGED <<cid, ncases, naborts>>

TNext ==
    /\ l <= Len(TraceLog)
    /\ l' = l + 1
    /\ LET ln == TraceLog[l] IN
        IF ln.e = "Reset" THEN ResetStep(ln)
        ELSE IF ln.e \in {"Abort", "Crash"} THEN AbortStep(ln)
        ELSE OpStep(ln)

TSpec == TInit /\ [][TNext]_tvars

Summary == [cases |-> ncases, lines |-> l - 1, nfail |-> nfail, fails |-> fails, ndiv |-> ndiv, divs |-> divs, aborts |-> naborts]
Done == l <= Len(TraceLog) \/ CSVWrite("%1$s", <<ToJson(Summary)>>, IOEnv.QXV_SUMMARY)
=============================================================================
