----------------------------- MODULE IqDispatch -----------------------------
(***************************************************************************)
(* Dispatch of an incoming <iq/> by a connected QXmppClient (property C08). *)
(*                                                                         *)
(* Code path: QXmppOutgoingClient::handleElement -> elementReceived ->       *)
(* QXmppClient::_q_elementReceived -> StanzaPipeline::process over the       *)
(* installed extensions in order; the first one whose handleStanza() returns *)
(* true owns the stanza.  If none does, QXmppOutgoingClient::handleStanza    *)
(* answers get/set with a feature-not-implemented error, hands result/error  *)
(* to iqReceived() and *rejects* an <iq/> whose type is absent or unknown    *)
(* ("Unexpected element received", the stream is closed) -- modelled as it   *)
(* is, as the named outcome "Reject".                                        *)
(*                                                                         *)
(* The model is table driven: an IQ is [type t, payload kind p, sender class *)
(* f, id kind k]; every extension is a row function                          *)
(*     Row(e, t, p, f) \in {"Reply", "Consume", "Pass"}                      *)
(* ("Reply": returns true and sends one result/error to the sender;          *)
(*  "Consume": returns true and sends nothing; "Pass": returns false).       *)
(* The rows describe the *intended* behaviour of the bundled managers: a     *)
(* manager answers the requests it implements and passes every other request *)
(* on (so that the fallback error is sent); it never answers a response.     *)
(*                                                                         *)
(* Stage 0 of the pipeline is the client's own request tracker              *)
(* (OutgoingIqManager::handleStanza, called from handleElement before any    *)
(* extension sees the stanza).  The client may have one tracked request of   *)
(* its own outstanding (action SendRequest: QXmppClient::sendIq to a peer);  *)
(* an incoming <iq/> that carries the id of that request (id kind "pending") *)
(* is taken as its response -- the task completes, nothing else sees the     *)
(* stanza -- iff its type is result/error and its sender is the peer the     *)
(* request went to (or absent: the server answering on the peer's behalf).   *)
(* Ids are unique per sender only, so an incoming *request* may carry the    *)
(* same id (two QXmpp endpoints number their ids qxmpp1, qxmpp2, ... and     *)
(* collide naturally): it must go down the pipeline like any other request.  *)
(***************************************************************************)
EXTENDS Naturals, Sequences, FiniteSets, TLC

CONSTANTS Types,      \* subset of {"get","set","result","error","absent","garbage"}
          Payloads,   \* payload kinds (see AllPayloads)
          Froms,      \* sender classes
          IdKinds,    \* {"fresh","dup","empty","pending"}; "pending" = the id of the client's own outstanding request,
                      \* "dup" = the id of the previous IQ whose id kind was not "pending"
          Peers,      \* sender classes the client may have sent a tracked request to (subset of Froms \ {"Empty"})
          ExtSets,    \* {"none","default","all","allrev"}
          Deferred,   \* BOOLEAN: the deferred-reply machinery (file offers) is part of the behaviours
          MaxHosts,   \* most stream hosts in one hosts offer
          MaxHist

VARIABLES ext,        \* installed extension set of this client
          open,       \* the stream is open (FALSE after a Reject)
          pending,    \* "none", or the sender class of the peer the client's outstanding tracked request went to
          last,       \* outcome of the last IQ: [t, replies, tdone] (who handled it is not kept: it is a function
                      \* of the step, see Dispatch, and keeping it only multiplies the states)
          \* --- deferred replies (see the section "requests whose reply is deferred") ---
          job,        \* incoming file-transfer job: "none","offered","started","transfer","finished"
          conn,       \* stream hosts still to be tried, the one being connected to included (0: no attempt pending)
          rq,         \* [DTags -> [st, n]]: deferred requests, st in {"none","pending","done"}, n = replies sent so far
          hist

dvars == <<job, conn, rq>>
mvars == <<ext, open, pending, last, dvars>>
vars  == <<mvars, hist>>

Req  == {"get", "set"}
Resp == {"result", "error"}

AllPayloads ==
    {"none", "text", "unknown", "unknownQuery", "version", "discoInfo", "discoInfoNode", "discoItems", "time", "ping",
     "vcard", "roster", "rosterEmpty", "archiveChat", "archiveList", "archivePref", "archiveRetrieve", "block", "unblock",
     "blocklist", "private", "mamFin", "mamQuery", "mucAdmin", "mucOwner", "register", "rpc", "rpcBad", "ibbOpen",
     "ibbData", "ibbClose", "bytestreams", "si", "siBadProfile", "uploadRequest", "uploadSlot", "jingle", "pubsub",
     "pubsubOwner", "bind", "session", "carbonsEnable", "extdisco", "pushEnable", "mixJoin", "bob", "errorOnly",
     "version+unknown", "unknown+version", "unknown+vcard", "unknown+si"}

(* --- shape of a payload: first child element, and children found by tag ---- *)
FirstKind(p) ==
    CASE p = "version+unknown" -> "version"
      [] p \in {"unknown+version", "unknown+vcard", "unknown+si"} -> "unknown"
      [] p = "text" -> "none"
      [] OTHER -> p
\* some managers look for their element among all children (by tag name), not at the first child only
HasKind(p, k) ==
    \/ p = k
    \/ p = "version+unknown" /\ k \in {"version", "unknown"}
    \/ p = "unknown+version" /\ k \in {"version", "unknown"}
    \/ p = "unknown+vcard"   /\ k \in {"vcard", "unknown"}
    \/ p = "unknown+si"      /\ k \in {"si", "unknown"}

\* senders the roster manager trusts: no from, or a JID whose bare part is the own bare JID
RosterTrusted == {"Empty", "OwnBare", "OwnFullSelf", "OwnFullOther"}

(* --- extension rows --------------------------------------------------------- *)
\* Only extensions that look at <iq/> elements are rows; the harness installs every bundled
\* manager it can construct, the others (message / presence / pubsub-event handlers) are "Pass".
DefaultOrder == <<"Roster", "VCard", "Version", "EntityTime", "Discovery">>
ExtraOrder   == <<"Archive", "Blocking", "Bookmark", "Mam", "Muc", "Registration", "Rpc", "Transfer", "UploadRequest">>
Reverse(s)   == [k \in 1..Len(s) |-> s[Len(s) + 1 - k]]

Order(x) ==
    CASE x = "none"    -> <<>>
      [] x = "default" -> DefaultOrder
      [] x = "all"     -> DefaultOrder \o ExtraOrder
      [] x = "allrev"  -> Reverse(ExtraOrder) \o DefaultOrder

\* answers requests it implements, keeps responses of its namespace for itself
AnswerOrKeep(t)  == IF t \in Req THEN "Reply" ELSE "Consume"
\* implements no request of its namespace: requests go on to the fallback, responses are kept
PassOrKeep(t)    == IF t \in Req THEN "Pass" ELSE "Consume"

Row(e, t, p, f) ==
    LET fc == FirstKind(p) IN
    CASE e = "Roster" ->
            IF fc \in {"roster", "rosterEmpty"} /\ f \in RosterTrusted
            THEN (IF t = "set" THEN "Reply" ELSE IF t = "get" THEN "Pass" ELSE "Consume")
            ELSE "Pass"
      [] e = "VCard" ->
            IF fc = "vcard" THEN PassOrKeep(t) ELSE "Pass"
      [] e = "Version" ->
            IF fc = "version" THEN AnswerOrKeep(t) ELSE "Pass"
      [] e = "EntityTime" ->
            IF fc = "time" THEN AnswerOrKeep(t) ELSE "Pass"
      [] e = "Discovery" ->
            IF fc \in {"discoInfo", "discoInfoNode", "discoItems"}
            THEN (IF t \in Req THEN "Reply" ELSE IF t \in Resp THEN "Consume" ELSE "Pass")
            ELSE "Pass"
      [] e = "Archive" ->
            IF HasKind(p, "archiveChat") \/ fc \in {"archiveList", "archivePref"} THEN PassOrKeep(t) ELSE "Pass"
      [] e = "Blocking" ->
            IF fc \in {"block", "unblock"} /\ t \in Req THEN "Reply" ELSE "Pass"
      [] e = "Bookmark" ->
            IF fc = "private" THEN PassOrKeep(t) ELSE "Pass"
      [] e = "Mam" ->
            IF HasKind(p, "mamFin") THEN PassOrKeep(t) ELSE "Pass"
      [] e = "Muc" -> "Pass"      \* only results for rooms it has joined
      [] e = "Registration" ->
            IF fc = "register" THEN PassOrKeep(t) ELSE "Pass"
      [] e = "Rpc" ->
            IF HasKind(p, "rpc") \/ HasKind(p, "rpcBad")
            THEN (IF t = "set" THEN "Reply" ELSE IF t \in Resp THEN "Consume" ELSE "Pass")
            ELSE "Pass"
      [] e = "Transfer" ->
            IF fc \in {"ibbOpen", "ibbData", "ibbClose"} THEN (IF t = "set" THEN "Reply" ELSE "Pass")
            ELSE IF fc = "bytestreams" \/ HasKind(p, "si") \/ HasKind(p, "siBadProfile")
                 THEN (IF t = "set" THEN "Reply" ELSE IF t = "get" THEN "Pass" ELSE "Consume")
            ELSE "Pass"
      [] e = "UploadRequest" ->
            IF fc \in {"uploadRequest", "uploadSlot"} THEN PassOrKeep(t) ELSE "Pass"
      [] OTHER -> "Pass"

(* --- the pipeline: first extension that does not pass owns the stanza -------- *)
Claimers(x, t, p, f) == {k \in 1..Len(Order(x)) : Row(Order(x)[k], t, p, f) # "Pass"}

Dispatch(x, t, p, f) ==
    LET cl == Claimers(x, t, p, f) IN
    IF cl # {}
    THEN LET k == CHOOSE k \in cl : \A j \in cl : k <= j
         IN [owner |-> Order(x)[k], act |-> Row(Order(x)[k], t, p, f)]
    ELSE \* QXmppOutgoingClient::handleStanza
         IF t \in Req THEN [owner |-> "fallback", act |-> "Reply"]        \* feature-not-implemented
         ELSE IF t \in Resp THEN [owner |-> "stream", act |-> "Consume"]  \* iqReceived()
         ELSE [owner |-> "stream", act |-> "Reject"]                      \* unexpected element: stream closed

\* the whole dispatch function as a constant table (TLC evaluates it once)
DispatchTable == [x \in ExtSets, t \in Types, p \in Payloads, f \in Froms |-> Dispatch(x, t, p, f)]

NoIq == [t |-> "none", replies |-> 0, tdone |-> FALSE]

DTags == {"offer", "hosts", "second"}
NoRq == [g \in DTags |-> [st |-> "none", n |-> 0]]

Init ==
    /\ ext \in ExtSets
    /\ open = TRUE
    /\ pending = "none"
    /\ last = NoIq
    /\ job = "none" /\ conn = 0 /\ rq = NoRq
    /\ hist = <<>>

Log(r) == hist' = Append(hist, r)

(* --- the client issues a tracked request of its own (QXmppClient::sendIq) ------ *)
SendRequest(peer) ==
    /\ open /\ pending = "none"
    /\ pending' = peer
    /\ Log([a |-> "SendRequest", peer |-> peer])
    /\ UNCHANGED <<ext, open, last, dvars>>

\* stage 0, OutgoingIqManager::handleStanza: is this <iq/> the response to the outstanding request?
IsTrackedResponse(t, f, k) ==
    /\ pending # "none" /\ k = "pending"
    /\ t \in Resp                           \* a request is never a response, whatever its id
    /\ f = pending \/ f = "Empty"           \* from the peer asked, or from the server on its behalf

(* --- an <iq/> arrives on the open stream -------------------------------------- *)
Recv(t, p, f, k) ==
    /\ open
    /\ Log([a |-> "Recv", t |-> t, p |-> p, f |-> f, k |-> k])
    /\ IF IsTrackedResponse(t, f, k)
       THEN \* the task of the outstanding request completes; nobody else sees the stanza
            /\ last' = [t |-> t, replies |-> 0, tdone |-> TRUE]
            /\ pending' = "none"
            /\ UNCHANGED open
       ELSE LET d == DispatchTable[ext, t, p, f] IN
            /\ last' = [t |-> t, replies |-> IF d.act = "Reply" THEN 1 ELSE 0, tdone |-> FALSE]
            /\ open' = (d.act # "Reject")
            /\ UNCHANGED pending
    /\ UNCHANGED <<ext, dvars>>

(***************************************************************************)
(* Requests whose reply is deferred.  Two handlers of the bundled managers  *)
(* return true for a request and answer it later, from a slot that runs     *)
(* when something else has happened (both in QXmppTransferManager, enabled  *)
(* when the application listens to fileReceived()):                         *)
(*  "offer"  the SI file offer (IQ set): answered when the application      *)
(*           accepts (result) or declines (error) the job it was handed;    *)
(*  "hosts"  the XEP-0065 bytestreams IQ set with <streamhost/>s for an     *)
(*           accepted job: the client starts a TCP/SOCKS5 connection to the *)
(*           first host and answers when the attempt ends -- result with    *)
(*           <streamhost-used/> when a host completes the handshake, error  *)
(*           item-not-found once the host list is exhausted.                *)
(* While a reply is pending, local events happen: the application aborts    *)
(* the job, the peer sends a *second* hosts offer for the same stream       *)
(* ("second": answered at once, the attempt in progress is not disturbed),  *)
(* ordinary IQs arrive.  Intended: whatever happens in between, each of the *)
(* requests gets exactly one reply once its attempt / decision has ended    *)
(* (the stream staying up).  The generic task-returning handleIqRequests()  *)
(* path cannot be instantiated in this tree (see docs/C08.md) and has no    *)
(* bundled user.                                                            *)
(***************************************************************************)
Answered(g)  == rq' = [rq EXCEPT ![g] = [st |-> "done", n |-> rq[g].n + 1]]
Deferring(g) == rq' = [rq EXCEPT ![g] = [st |-> "pending", n |-> 0]]
DStep(r) == open /\ Deferred /\ Log(r) /\ UNCHANGED <<ext, open, pending, last>>

\* streamInitiationSetReceived: a job is created and handed to the application (fileReceived)
OfferSI ==
    /\ DStep([a |-> "OfferSI"]) /\ job = "none"
    /\ job' = "offered" /\ Deferring("offer") /\ UNCHANGED conn
\* QXmppTransferJob::accept -> _q_jobStateChanged: SI result
AppAccept ==
    /\ DStep([a |-> "AppAccept"]) /\ job = "offered"
    /\ job' = "started" /\ Answered("offer") /\ UNCHANGED conn
\* QXmppTransferJob::abort in the offer state -> _q_jobStateChanged: error forbidden
AppDecline ==
    /\ DStep([a |-> "AppDecline"]) /\ job = "offered"
    /\ job' = "finished" /\ Answered("offer") /\ UNCHANGED conn
\* byteStreamSetReceived for the started job -> connectToHosts: connection attempt to the first of nh hosts
HostsOffer(nh) ==
    /\ DStep([a |-> "HostsOffer", nh |-> nh]) /\ job = "started" /\ conn = 0 /\ rq["hosts"].st = "none"
    /\ conn' = nh /\ Deferring("hosts") /\ UNCHANGED job
\* a second hosts offer for the same stream while the attempt is pending: refused at once
SecondHosts ==
    /\ DStep([a |-> "SecondHosts"]) /\ conn > 0 /\ rq["second"].st = "none"
    /\ Answered("second") /\ UNCHANGED <<job, conn>>
\* the application aborts the job (QXmppTransferJob::abort); a pending connection attempt still ends later
AbortJob ==
    /\ DStep([a |-> "AbortJob"]) /\ job \in {"started", "transfer"}
    /\ job' = "finished" /\ UNCHANGED <<conn, rq>>
\* _q_candidateReady: the stream host completed the SOCKS5 handshake
HostAccepts ==
    /\ DStep([a |-> "HostAccepts"]) /\ conn > 0
    /\ conn' = 0 /\ Answered("hosts")
    /\ job' = IF job = "started" THEN "transfer" ELSE job
\* _q_candidateDisconnected: the stream host dropped the connection; next host, or give up
HostCloses ==
    /\ DStep([a |-> "HostCloses"]) /\ conn > 0
    /\ conn' = conn - 1
    /\ IF conn = 1 THEN Answered("hosts") /\ job' = "finished"
                   ELSE UNCHANGED <<rq, job>>

DNext == \/ OfferSI \/ AppAccept \/ AppDecline \/ SecondHosts \/ AbortJob \/ HostAccepts \/ HostCloses
         \/ \E nh \in 1..MaxHosts : HostsOffer(nh)

Next == \/ \E t \in Types : \E p \in Payloads : \E f \in Froms : \E k \in IdKinds : Recv(t, p, f, k)
        \/ \E peer \in Peers : SendRequest(peer)
        \/ DNext

Spec == Init /\ [][Next]_vars

(* --- properties (C08) ---------------------------------------------------------- *)
\* over observable quantities: t the type class of the injected IQ, n the number of IQ result/error
\* stanzas sent afterwards with the same id and addressed to the sender
P_RequestAnswered(t, n)   == t \in Req  => n = 1
P_ResponseNotAnswered(t, n) == t \in Resp => n = 0
P_NoReplyLoop(t, n)       == t \notin (Req \cup Resp) => n <= 1

\* (observation, C07's business:) the outstanding task completes only by a response
P_TaskOnlyByResponse(t, tdone) == tdone => t \in Resp

RequestAnswered     == P_RequestAnswered(last.t, last.replies)
ResponseNotAnswered == P_ResponseNotAnswered(last.t, last.replies)
NoReplyLoop         == P_NoReplyLoop(last.t, last.replies)
TaskOnlyByResponse  == P_TaskOnlyByResponse(last.t, last.tdone)

\* the table itself: no row swallows a request, no row answers anything but a request
\* (constant-level: checked once, as ASSUMEs, see the end of the module)
RowsWellFormed ==
    \A e \in (UNION {{Order(x)[k] : k \in 1..Len(Order(x))} : x \in ExtSets}) :
      \A t \in Types : \A p \in Payloads : \A f \in Froms :
        /\ t \in Req => Row(e, t, p, f) \in {"Reply", "Pass"}
        /\ t \notin Req => Row(e, t, p, f) \in {"Consume", "Pass"}

\* at most one extension answers (first one wins; no namespace is claimed twice with different outcomes)
SingleOwner ==
    \A x \in ExtSets : \A t \in Types : \A p \in Payloads : \A f \in Froms :
        Cardinality({Row(Order(x)[k], t, p, f) : k \in Claimers(x, t, p, f)}) <= 1

\* over observable quantities: due = the decision / connection attempt the reply waits for has ended,
\* n = replies (result/error with the request's id, to its sender) sent so far
P_DeferredAnswered(due, n) == due => n = 1
P_AtMostOneReply(n)        == n <= 1

DeferredAnswered == \A g \in DTags : /\ P_DeferredAnswered(rq[g].st = "done", rq[g].n)
                                     /\ P_AtMostOneReply(rq[g].n)
                                     /\ (rq[g].st = "pending" => rq[g].n = 0)
\* nothing stays pending once the job is over and no connection attempt is running
NothingLeftPending == (job = "finished" /\ conn = 0) => \A g \in DTags : rq[g].st # "pending"

TypeOK ==
    /\ job \in {"none", "offered", "started", "transfer", "finished"} /\ conn \in 0..MaxHosts
    /\ ext \in ExtSets /\ open \in BOOLEAN
    /\ pending \in {"none"} \cup Peers
    /\ last.replies \in {0, 1} /\ last.tdone \in BOOLEAN
    /\ (open = FALSE => last.replies = 0 /\ last.t \notin (Req \cup Resp))    \* only a Reject closes the stream

ASSUME RowsWellFormed
ASSUME SingleOwner
ASSUME Payloads \subseteq AllPayloads
ASSUME Peers \subseteq (Froms \ {"Empty"})

Reinit(x) ==
    /\ ext' = x
    /\ open' = TRUE
    /\ pending' = "none"
    /\ last' = NoIq
    /\ job' = "none" /\ conn' = 0 /\ rq' = NoRq
    /\ hist' = <<>>

Bound == Len(hist) <= MaxHist
View  == mvars
\* generation with a request always outstanding: when none is, the next step issues one
KeepPending == (pending = "none") => (pending' # "none")

TourView == <<ext, open>>     \* tour: one source state per extension set
DeferView == <<ext, open, dvars>>     \* tour of the deferred-reply machinery
PendView == <<ext, open, pending>>   \* tour with an outstanding request: one source state per extension set and peer
=============================================================================
