SPECIFICATION Spec
CONSTANTS
  Apis = {"task", "legacy"}
  Archives = {"own", "muc"}
  Froms = {"none", "own", "muc", "evil"}
  E2ee = TRUE
  Encs = {FALSE, TRUE}
  Kinds = {"Query", "Result", "Fin", "FinErr", "Decrypt", "Disconnect", "Connect"}
  MaxQ = 2
  MaxM = 4
  MaxD = 1
  MaxDepth = 99
INVARIANTS TypeOK Attribution DownIsClosed
PROPERTIES Delivered OnceOnly SenderChecked
VIEW View
CHECK_DEADLOCK FALSE
