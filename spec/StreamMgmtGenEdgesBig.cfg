SPECIFICATION Spec
CONSTANTS
  MaxId = 4
  MaxH = 3
  MaxConn = 3
  MaxRecv = 2
  MaxHist = 99
VIEW TourView
ACTION_CONSTRAINT EmitEdge
CHECK_DEADLOCK FALSE
