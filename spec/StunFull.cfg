SPECIFICATION Spec
CONSTANTS
  Mode = "product"
  Variants = {0, 1, 2, 3, 4, 5}
  KeyLens <- KeyLensAll
  AddrMode = "on"
  TamperMode = "all"
  TamperVariants = {0, 1, 2, 3, 4, 5}
  TamperAllVariants = {0, 1, 2, 3, 4, 5}
  HoldMode = "all"
  Aliased = {}
  HelperKeyMax = 300
  HelperTexts = {0, 1, 55, 64, 150}
INVARIANTS TypeOK Integrity Fingerprint RoundTrip OtherKeyRejected ProtectedFlipRejected CoveredFlipRejected EncodedFrame ValueStable
VIEW View
CHECK_DEADLOCK FALSE
