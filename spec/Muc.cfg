SPECIFICATION Spec
CONSTANTS
  Rooms = {"r1"}
  Foreign = {"rx", "lk"}
  Nicks = {"n1", "n2", "n3"}
  Items = {"plain", "mod", "owner"}
  Codes = {"none", "self", "self210"}
  UnKinds = {"leave", "nick", "kick", "ban", "remove"}
  MsgNicks = {"-", "n2"}
  MsgTypes = {"groupchat", "chat", "error"}
  Subjects = {"s1", "s2"}
  Names = {"N1"}
  Users = {"u1"}
  Kinds = {"SetNick", "Join", "Leave", "SendMsg", "ReqConf", "Kick", "Ban", "SetSubj",
           "PresAv", "PresUn", "PresErr", "Msg", "Invite", "Disco", "ConfRes",
           "Disconnect", "Connect", "OwnPres"}
  MaxHist = 99
INVARIANTS TypeOK JoinedIffOccupant PartsAreLatest OutsideIsEmpty NickInTable NoSessionNoRoom
PROPERTIES SignalsOnce Isolation PermTied
VIEW View
CHECK_DEADLOCK FALSE
