SPECIFICATION Spec
CONSTANTS
  Anns = {"both", "size", "hash", "none"}
  Devs = {"all", "short", "fail"}
  Sizes = {0, 1, 2, 3, 4, 5}
  MaxFaults = 0
  FaultKinds = {"Flip", "Drop", "Dup", "Swap", "Cut"}
  Foreign = {"from", "res"}
  MaxHist = 99
INVARIANTS TypeOK Safe CleanSuccess
VIEW View
CHECK_DEADLOCK FALSE
