SPECIFICATION Spec
CONSTANTS
  Classes = {"OwnBare", "PreviousOwnBare", "Contact"}
  Wrappers = {"sent", "received"}
  Inners = {"chatIn"}
  Gens = {"v1", "v2"}
  JidCfgs = {"plain", "mixed"}
  Estabs = {"configured"}
  Hows = {"setJid", "setUserDomain", "assign", "copySetJid"}
  MaxHist = 3
CONSTRAINT Bound
ACTION_CONSTRAINT EmitBehaviour
CHECK_DEADLOCK FALSE
