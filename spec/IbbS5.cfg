SPECIFICATION Spec
CONSTANTS
  Anns = {"both", "size", "hash", "none"}
  Sizes = {0, 1, 2, 3, 4, 5}
  MaxFaults = 1
  FaultKinds = {"Flip", "Drop", "Dup", "Swap", "Cut"}
  Foreign = {"from", "res"}
  MaxHist = 99
INVARIANTS TypeOK Safe FaultDetected CleanSuccess
VIEW View
CHECK_DEADLOCK FALSE
