SPECIFICATION Spec
CONSTANTS
  MaxSet = 3
  Bases <- BasesNone
  SendModes <- NoSends
  PlainApis <- NoSends
  Ordered = TRUE
ACTION_CONSTRAINT EmitBehaviour
CHECK_DEADLOCK FALSE
