SPECIFICATION Spec
CONSTANTS
  MaxSet = 3
  Ordered = TRUE
ACTION_CONSTRAINT EmitBehaviour
CHECK_DEADLOCK FALSE
