SPECIFICATION Spec
CONSTANTS
  Peers = {1}
  MaxTx = 7
  MaxNonce = 2
  Lifetimes = {1200}
  PwOk = {TRUE}
  Shapes = {"honest", "stale"}
  InSrc = {"srv"}
  InLens = {"ok"}
  Timers = TRUE
  MaxTries = 1
  Reconnect = TRUE
  MaxHist = 99
CONSTRAINT Bound
VIEW View
ACTION_CONSTRAINT EmitBehaviour
CHECK_DEADLOCK FALSE
