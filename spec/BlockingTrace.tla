---------------------------- MODULE BlockingTrace ----------------------------
(***************************************************************************)
(* Trace validation for Blocking.  The trace (ndjson, written by           *)
(* `qxv blocking`) holds per step the event with its arguments (the inputs: *)
(* what the user, the server, another resource, a foreign entity or the     *)
(* session did) and `o`, what the real QXmppClient + QXmppBlockingManager   *)
(* reported afterwards:                                                     *)
(*  {"e":"Deliver","a":"Deliver","m":{"k":"pblock","id":0,"J":["j2"]},      *)
(*   "fr":"none","o":{"sub":true,"list":["j1","j2"],                        *)
(*     "sent":[{"k":"ack","id":0,"J":[],"c":""}],                           *)
(*     "sig":[{"s":"blocked","J":["j2"]}],"done":[],"started":[]}}          *)
(*  sub/list  isSubscribed(), the cached list (fetchBlocklist() answers     *)
(*            from the cache while subscribed), sorted                      *)
(*  sent      what the client wrote during the step: requests (k = fetch /  *)
(*            block / unblock, id = n-th request of the execution, J items),*)
(*            answers to pushes (ack / deny + condition c), pres            *)
(*  sig       subscribedChanged / blocked(J) / unblocked(J), emission order *)
(*  done      tasks whose continuation ran during the step, with the result *)
(*  started   tasks handed out during the step                              *)
(* Probe lines: {"e":"Probe","L":[..],"q":"a@x.org","o":{"kind":"partial",  *)
(*               "bl":[..],"pl":[..]}}  (QXmppBlocklist(L).blockingState(q))*)
(*                                                                          *)
(* Three layers per line (docs/BUILDING-A-CHECK.md):                        *)
(*  model    Blocking's step for the logged event if `Enabled` holds in the *)
(*           model state, else the model stutters;                          *)
(*  monitor  `mon.ref`: the reference system, obtained by applying Step to  *)
(*           the logged events only (total), `mon.po` the previous          *)
(*           observation, `mon.lv` the tasks observed as handed out and not *)
(*           finished.  The invariants of the extension (P_* of Blocking)   *)
(*           are evaluated on reference + observation; an execution with a  *)
(*           failing predicate is a conformance failure;                    *)
(*  compare  model projection vs observation: a mismatch only marks the     *)
(*           execution diverged.                                            *)
(***************************************************************************)
EXTENDS Blocking, Integers, Json, CSV, IOUtils

TraceLog == ndJsonDeserialize(IOEnv.QXV_TRACE)

VARIABLES l, cid, mon, fl, nfail, fails, fflag, ndiv, divs, dflag, ncases, naborts

tvars == <<vars, l, cid, mon, fl, nfail, fails, fflag, ndiv, divs, dflag, ncases, naborts>>

Obs0 == [sub |-> FALSE, list |-> {}]
Mon0(srv0) == [ref |-> S0(srv0), ro |-> O0, po |-> Obs0, lv |-> {}]

TInit ==
    /\ Init
    /\ l = 1 /\ cid = "" /\ mon = Mon0({}) /\ fl = {} /\ nfail = 0 /\ fails = <<>> /\ fflag = FALSE
    /\ ndiv = 0 /\ divs = <<>> /\ dflag = FALSE /\ ncases = 0 /\ naborts = 0

\* the event of a line: the line without the observation
Ev(ln) == [f \in DOMAIN ln \ {"o", "e"} |-> ln[f]]
Names(q) == {q[i].t : i \in DOMAIN q}
Bag(q, x) == Cardinality({i \in DOMAIN q : q[i] = x})
SameBag(p, q) == \A x \in Range(p) \cup Range(q) : Bag(p, x) = Bag(q, x)

(* the invariants of the extension on reference (m.ref -> n.ref, output n.ro) and observation o *)
Failed(m, n, e, o) ==
    {p \in {"Truth", "Cache", "Once", "Tasks", "Signals", "SubSig", "Sent", "Fresh"} :
        CASE p = "Truth"   -> ~P_Truth(n.ref.conn, o.sub, Range(o.list), n.ref.s2c, n.ref.srv)
          [] p = "Cache"   -> ~(o.sub = n.ref.known /\ Range(o.list) = n.ref.list)
          [] p = "Once"    -> ~P_Once(m.lv \cup Range(o.started), o.done)
          [] p = "Tasks"   -> ~SameBag(o.done, n.ro.done)
          [] p = "Signals" -> ~P_Signals(e, m.po.sub, m.po.list, Range(o.list), o.sig)
          [] p = "SubSig"  -> ~P_SubSig(m.po.sub, o.sub, o.sig)
          [] p = "Sent"    -> o.sent # n.ro.sent
          [] p = "Fresh"   -> ~P_Fresh(e, [known |-> o.sub, live |-> n.lv])}

MonNext(m, e, o) ==
    LET r == Step(m.ref, e) IN
    [ref |-> r.st, ro |-> r.out, po |-> [sub |-> o.sub, list |-> Range(o.list)],
     lv |-> (m.lv \cup Range(o.started)) \ Names(o.done)]

FailedProbe(e, o) ==
    LET p == ProbeRef(e.L, e.q) IN
    (IF o.kind # p.kind THEN {"ProbeState"} ELSE {})
    \cup (IF Range(o.bl) # p.bl \/ Range(o.pl) # p.pl THEN {"ProbeEntries"} ELSE {})

(* model projection, in the shape of the logged observation *)
Proj == [sub |-> st.known, list |-> Sorted(st.list), sent |-> out.sent, sig |-> out.sig, done |-> out.done]
ObsProj(o) == [sub |-> o.sub, list |-> o.list, sent |-> o.sent, sig |-> o.sig, done |-> o.done]
\* OutgoingIqManager::cancelAll walks a hash table: the order in which cancelled tasks finish is not specified
NoDone(p) == [p EXCEPT !.done = <<>>]
Differs(e, p, q) == NoDone(p) # NoDone(q) \/ (IF e.a \in {"Disconnect", "Connect"} THEN ~SameBag(p.done, q.done) ELSE p.done # q.done)

ResetStep(ln) ==
    /\ Reinit(Range(ln.srv0))
    /\ cid' = ln.case /\ mon' = Mon0(Range(ln.srv0)) /\ fl' = {} /\ dflag' = FALSE /\ fflag' = FALSE /\ ncases' = ncases + 1
    /\ UNCHANGED <<nfail, fails, ndiv, divs, naborts>>

AbortStep(ln) ==
    /\ naborts' = naborts + 1
    /\ UNCHANGED <<vars, cid, mon, fl, nfail, fails, fflag, ndiv, divs, dflag, ncases>>

\* The record of the first failing step of an execution goes to the side file QXV_FAILS (one JSON
\* line each); the state keeps the count and the first few only, so that it stays small.
Record(e, f, d, model, impl, ref) ==
    /\ fl' = f
    /\ fflag' = (fflag \/ f # {})
    /\ nfail' = IF f # {} /\ ~fflag THEN nfail + 1 ELSE nfail
    /\ fails' = IF f # {} /\ ~fflag /\ Len(fails) < 10
                THEN Append(fails, [case |-> cid, line |-> l, e |-> e.a, props |-> f]) ELSE fails
    /\ (f # {} /\ ~fflag) => CSVWrite("%1$s", <<ToJson([case |-> cid, line |-> l, e |-> e.a, props |-> f, ref |-> ref])>>, IOEnv.QXV_FAILS)
    /\ dflag' = (dflag \/ d)
    /\ ndiv' = IF d /\ ~dflag THEN ndiv + 1 ELSE ndiv
    /\ divs' = IF d /\ ~dflag /\ f = {} /\ ~fflag /\ Len(divs) < 10   \* the first few that are not failures
               THEN Append(divs, [case |-> cid, line |-> l, e |-> e.a, model |-> model, impl |-> impl]) ELSE divs

OpStep(ln) ==
    LET e == Ev(ln)
        o == ln.o
    IN /\ IF Enabled(st, e) THEN Apply(e) ELSE UNCHANGED vars
       /\ mon' = MonNext(mon, e, o)
       /\ Record(e, Failed(mon, mon', e, o), Differs(e, Proj', ObsProj(o)), Proj', ObsProj(o), mon'.ro)
       /\ UNCHANGED <<cid, ncases, naborts>>

ProbeStep(ln) ==
    LET e == [a |-> "Probe", L |-> ln.L, q |-> ln.q]
        f == FailedProbe(e, ln.o)
    IN /\ UNCHANGED <<vars, mon>>
       /\ Record(e, f, f # {}, ProbeRef(e.L, e.q), ln.o, ProbeRef(e.L, e.q))
       /\ UNCHANGED <<cid, ncases, naborts>>

TNext ==
    /\ l <= Len(TraceLog)
    /\ l' = l + 1
    /\ LET ln == TraceLog[l] IN
        IF ln.e = "Reset" THEN ResetStep(ln)
        ELSE IF ln.e \in {"Abort", "Crash"} THEN AbortStep(ln)
        ELSE IF ln.e = "Probe" THEN ProbeStep(ln)
        ELSE OpStep(ln)

TSpec == TInit /\ [][TNext]_tvars

Summary == [cases |-> ncases, lines |-> l - 1, nfail |-> nfail, fails |-> fails, ndiv |-> ndiv, divs |-> divs, aborts |-> naborts]
Done == l <= Len(TraceLog) \/ CSVWrite("%1$s", <<ToJson(Summary)>>, IOEnv.QXV_SUMMARY)
=============================================================================
