SPECIFICATION Spec
CONSTANTS
  W = 4
  Anns = {"both"}
  Devs = {"all"}
  Sizes = {0, 1, 2}
  MaxFaults = 1
  MaxInject = 1
  FaultKinds = {"Lose", "Drop", "Dup", "Flip", "WrongSid", "WrongFrom", "Swap", "EarlyClose"}
  InjectKinds = {"from", "res"}
  InjectElems = {"open", "data", "close"}
  Bursts = {}
  MaxHist = 99
CONSTRAINT Bound
ACTION_CONSTRAINT EmitBehaviour
CHECK_DEADLOCK FALSE
