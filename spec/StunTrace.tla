----------------------------- MODULE StunTrace -----------------------------
(***************************************************************************)
(* Trace validation for Stun (C14).  The trace is written by `qxv stun`     *)
(* and annotated by lib/props/C14.py (lib/refstun.py) with the reference    *)
(* interpretation of the uninterpreted symbols: every line that refers to a *)
(* byte string carries                                                      *)
(*    fr = [st, mi, fp, refmi, reffp]                                        *)
(* = where those bytes carry MESSAGE-INTEGRITY / FINGERPRINT (0 = not) and  *)
(* the RFC 5389 values there (python hmac/sha1 under the key of the call,   *)
(* zlib.crc32 xor 0x5354554e).  This module recomputes the framing with     *)
(* Stun!Frame and reports an annotation whose offsets differ (`annot`, a    *)
(* machinery failure, not a verdict).                                       *)
(*                                                                          *)
(*  {"e":"Reset","case":ID,"kind":"case","sub":[names],"v":V,"klen":L,"fp":B,"m":MSG}   *)
(*  {"e":"Encode","bytes":[...],"fr":FR}                                                 *)
(*  {"e":"Decode","key":"same|other|none","kv":..,"ok":B,"d":MSG,"re":B,"fr":FR}        *)
(*  {"e":"FlipAll","key":"same","n":N,"nacc":A,"acc":[{"pos":P,"bit":B,"fr":FR},...]}   *)
(*  {"e":"ReuseBuffer"} {"e":"FreeBuffer"}  the heap buffer the last Decode(same) read from was       *)
(*                      overwritten in place with other bytes / destroyed                              *)
(*  {"e":"Observe","d":MSG,"re":B}          the decoded message read back afterwards                   *)
(*  {"e":"Reset","case":ID,"kind":"helper"} {"e":"Hmac","kl":L,"tl":T,"out":[20],"ref":[20]} *)
(*  {"e":"Crc","tl":T,"out":[4],"ref":[4]}                                               *)
(*  {"e":"Reset","case":ID,"kind":"fuzz"} {"e":"Fuzz","n":N,"nacc":A,"acc":[{"bytes":[..],"klen":L,"fr":FR}]} *)
(*                                                                          *)
(* Layers per line: the model takes Stun's action (Encode, Decode); the     *)
(* monitor evaluates the C14 predicates of Stun on the logged bytes,        *)
(* verdicts and reference values only; the model's own result is compared   *)
(* with the logged one and a difference marks the execution diverged.       *)
(***************************************************************************)
EXTENDS Stun, Integers, Json, CSV, IOUtils

TraceLog == ndJsonDeserialize(IOEnv.QXV_TRACE)

VARIABLES l, cid,
          cur,      \* monitor: [kind, m, klen, fp, bytes] of the current execution (logged facts only)
          viol, ndiv, divs, dflag, ncases,
          nviol,    \* number of predicate failures (viol keeps a bounded sample)
          annot,    \* annotation / input inconsistencies (machinery)
          stats     \* [flips, flipacc, fliplogged, fuzz, fuzzacc, fuzzlogged, reframed]

tvars == <<vars, l, cid, cur, viol, nviol, ndiv, divs, dflag, ncases, annot, stats>>

Cur0 == [kind |-> "none", m |-> [type |-> 0, id |-> <<>>, a |-> <<>>], klen |-> 0, fp |-> FALSE, bytes |-> <<>>]
Stats0 == [flips |-> 0, flipacc |-> 0, fliplogged |-> 0, fuzz |-> 0, fuzzacc |-> 0, fuzzlogged |-> 0, reframed |-> 0]

TInit ==
    /\ c = Helper /\ w = NoWire /\ st = "new" /\ q = NoQ /\ res = NoRes /\ hist = <<>>
    /\ rb = "none" /\ held = <<>> /\ obs = NoObs
    /\ l = 1 /\ cid = "" /\ cur = Cur0 /\ viol = {} /\ ndiv = 0 /\ divs = <<>> /\ dflag = FALSE /\ ncases = 0
    /\ annot = {} /\ stats = Stats0 /\ nviol = 0

(* --- observed counterparts of HmacOk / CrcOk: the bytes at the attribute equal the reference value -- *)
MiValue(bs, off) == SubSeq(bs, off + 5, off + 24)
FpValue(bs, off) == SubSeq(bs, off + 5, off + 8)
ObsHmacOk(bs, fr, ref) == fr.st = "ok" /\ fr.mi > 0 /\ Len(ref) = 20 /\ Len(bs) >= fr.mi + 24 /\ MiValue(bs, fr.mi) = ref
ObsCrcOk(bs, fr, ref)  == fr.st = "ok" /\ fr.fp > 0 /\ Len(ref) = 4 /\ Len(bs) >= fr.fp + 8 /\ FpValue(bs, fr.fp) = ref

\* predicates of one decode call observed as (bytes, keyed, accepted, reference values)
CallFailed(bs, keyed, accepted, afr) ==
    LET fr == Frame(bs) IN
    {p \in {"Integrity", "Fingerprint"} :
        CASE p = "Integrity"   -> ~P_Integrity(accepted, keyed, fr, ObsHmacOk(bs, fr, afr.refmi))
          [] p = "Fingerprint" -> ~P_Fingerprint(accepted, fr, ObsCrcOk(bs, fr, afr.reffp))}
AnnotBad(bs, afr) == LET fr == Frame(bs) IN fr.st # afr.st \/ fr.mi # afr.mi \/ fr.fp # afr.fp

FlipBytes(bs, pos, bit) == [bs EXCEPT ![pos] = bs[pos] ^^ Pow2[bit + 1]]

\* the specification's cells read through the reference values
Interp(cells, refmi, reffp) ==
    [i \in 1..Len(cells) |->
        LET x == cells[i] IN
        IF x < 256 THEN x
        ELSE IF x > 1000 /\ x <= 1020 /\ Len(refmi) = 20 THEN refmi[x - 1000]
        ELSE IF x > 2000 /\ x <= 2004 /\ Len(reffp) = 4 THEN reffp[x - 2000]
        ELSE Junk]

Verdict(ok) == IF ok THEN "acc" ELSE "rej"

IsAddr(a) == Kind[a.n] \in {"addr", "xaddr"}
WireAddrs(m) == LET as == SelectSeq(m.a, IsAddr)
                IN [i \in 1..Len(as) |-> [code |-> Code[as[i].n], fam |-> IF Len(as[i].b) = 4 THEN 1 ELSE 2, len |-> 4 + Len(as[i].b)]]

(* --- bookkeeping -------------------------------------------------------------------------------- *)
Diverge(d, info) ==
    /\ dflag' = (dflag \/ d)
    /\ ndiv' = IF d /\ ~dflag THEN ndiv + 1 ELSE ndiv
    /\ divs' = IF d /\ ~dflag /\ Len(divs) < 10 THEN Append(divs, [case |-> cid, line |-> l] @@ info) ELSE divs
NoDiverge == UNCHANGED <<dflag, ndiv, divs>>
\* (at most ViolCap recorded per predicate; all are counted)
ViolCap == 40
AddViol(S) ==
    /\ viol' = viol \cup {v \in S : Cardinality({u \in viol : u.prop = v.prop}) < ViolCap}
    /\ nviol' = nviol + Cardinality(S)

ResetStep(ev) ==
    /\ cid' = ev.case /\ ncases' = ncases + 1 /\ dflag' = FALSE
    /\ st' = "new" /\ w' = NoWire /\ q' = NoQ /\ res' = NoRes /\ hist' = <<>>
    /\ rb' = "none" /\ held' = <<>> /\ obs' = NoObs
    /\ IF ev.kind = "case"
       THEN /\ c' = [sub |-> {ev.sub[i] : i \in 1..Len(ev.sub)}, v |-> ev.v, klen |-> ev.klen, fp |-> ev.fp, ac |-> ev.ac, pc |-> ev.pc, helper |-> FALSE]
            /\ cur' = [kind |-> "case", m |-> ev.m, klen |-> ev.klen, fp |-> ev.fp, bytes |-> <<>>]
            \* the case descriptor and the message description must be the specification's
            /\ annot' = IF Msg(c') = ev.m THEN annot ELSE annot \cup {[line |-> l, what |-> "message is not Msg(case)"]}
       ELSE /\ c' = Helper /\ cur' = [Cur0 EXCEPT !.kind = ev.kind] /\ UNCHANGED annot
    /\ UNCHANGED <<viol, nviol, ndiv, divs, stats>>

EncodeStep(ev) ==
    LET bs == ev.bytes
        fr == Frame(bs)
        failed == {p \in {"Enc-Framing", "MI-RFC", "FP-RFC"} :
                     CASE p = "Enc-Framing" -> ~(fr.st = "ok" /\ (cur.klen > 0 => fr.mi > 0) /\ (cur.fp => fr.fp > 0))
                       [] p = "MI-RFC" -> cur.klen > 0 /\ fr.st = "ok" /\ fr.mi > 0 /\ ~ObsHmacOk(bs, fr, ev.fr.refmi)
                       [] p = "FP-RFC" -> cur.fp /\ fr.st = "ok" /\ fr.fp > 0 /\ ~ObsCrcOk(bs, fr, ev.fr.reffp)}
    IN
    /\ \/ Encode
       \/ (~ENABLED Encode) /\ UNCHANGED vars
    /\ cur' = [cur EXCEPT !.bytes = bs]
    /\ AddViol({[case |-> cid, line |-> l, prop |-> p, e |-> "Encode", pos |-> 0, bit |-> 0] : p \in failed})
    /\ annot' = IF AnnotBad(bs, ev.fr) THEN annot \cup {[line |-> l, what |-> "frame offsets differ"]} ELSE annot
    \* ev.wa: family and length of every address attribute found in the bytes by lib/refstun.py (its own walk)
    \* against RFC 5389 15.1: family 0x01 and 8 bytes for a 4-byte address, 0x02 and 20 bytes for a 16-byte one
    /\ Diverge(Interp(w'.c, ev.fr.refmi, ev.fr.reffp) # bs \/ ev.wa # WireAddrs(cur.m),
               [what |-> IF ev.wa # WireAddrs(cur.m) THEN "address family/length on the wire" ELSE "layout",
                model |-> <<Len(w'.c), w'.mi, w'.fp>>, impl |-> <<Len(bs), fr.mi, fr.fp>>])
    /\ UNCHANGED <<cid, ncases, stats>>

DecodeStep(ev) ==
    LET bs == cur.bytes
        keyed == ev.key # "none"
        honest == ev.key \in {"same", "none"}
        failed == CallFailed(bs, keyed, ev.ok, ev.fr)
                  \* (heq: the driver's comparison of the address objects themselves -- QHostAddress equality,
                  \* protocol(), port -- of what was set against what came back)
                  \cup (IF honest /\ ~P_RoundTrip(ev.ok, ev.d = cur.m /\ ev.heq) THEN {"RoundTrip"} ELSE {})
    IN
    /\ \/ IsCase /\ st \in {"enc", "done"} /\ DecodeEff(ev.key)
       \/ ~(IsCase /\ st \in {"enc", "done"}) /\ UNCHANGED vars
    /\ AddViol({[case |-> cid, line |-> l, prop |-> p, e |-> "Decode-" \o ev.key \o "-" \o ev.kv, pos |-> 0, bit |-> 0] : p \in failed})
    /\ annot' = IF AnnotBad(bs, ev.fr) THEN annot \cup {[line |-> l, what |-> "frame offsets differ"]} ELSE annot
    /\ LET mv == res'.dec.ok
           \* (whether decode under a key accepts a message that carries no MESSAGE-INTEGRITY at all is
           \* not C14's business -- C15 decides -- and is not compared)
           unspecified == keyed /\ Frame(bs).mi = 0
           d == (mv \in {"acc", "rej"} /\ mv # Verdict(ev.ok) /\ ~unspecified) \/ (honest /\ ev.ok /\ ~ev.re)
       IN Diverge(d, [what |-> "decode", model |-> <<mv>>, impl |-> <<Verdict(ev.ok), ev.re>>])
    /\ UNCHANGED <<cid, ncases, cur, stats>>

\* Every accepted single-bit corruption that was logged (the driver logs them for messages that carry
\* MESSAGE-INTEGRITY or FINGERPRINT; a message with neither accepts value changes by design).  For these
\* the annotation also carries the attribute values found in the corrupted bytes (mival, fpval); the
\* predicates are evaluated on the annotation, and the annotation itself is recomputed with Stun!Frame on
\* the first FlipCheck flips of every case.
FlipCheck == 2
FlipFailed(mi0, x) ==
    LET fr == x.fr
        hm == fr.st = "ok" /\ fr.mi > 0 /\ Len(fr.refmi) = 20 /\ x.mival = fr.refmi
        cr == fr.st = "ok" /\ fr.fp > 0 /\ Len(fr.reffp) = 4 /\ x.fpval = fr.reffp
    IN {p \in {"Integrity", "Fingerprint", "ProtectedFlip", "CoveredFlip"} :
          CASE p = "Integrity"     -> ~P_Integrity(TRUE, cur.klen > 0, fr, hm)
            [] p = "Fingerprint"   -> ~P_Fingerprint(TRUE, fr, cr)
            [] p = "ProtectedFlip" -> cur.klen > 0 /\ mi0 > 0 /\ x.pos <= mi0 + 24 /\ ~P_CorruptMi(TRUE, fr)
            [] p = "CoveredFlip"   -> cur.fp /\ ~P_CorruptFp(TRUE, fr)}
FlipAnnotBad(bs, x) ==
    LET fb == FlipBytes(bs, x.pos, x.bit)
        fr == Frame(fb)
    IN \/ fr.st # x.fr.st \/ fr.mi # x.fr.mi \/ fr.fp # x.fr.fp
       \/ (fr.st = "ok" /\ fr.mi > 0 /\ Len(fb) >= fr.mi + 24 /\ x.mival # MiValue(fb, fr.mi))
       \/ (fr.st = "ok" /\ fr.fp > 0 /\ Len(fb) >= fr.fp + 8 /\ x.fpval # FpValue(fb, fr.fp))

FlipAllStep(ev) ==
    LET bs == cur.bytes
        idx == 1..Len(ev.acc)
        mi0 == Frame(bs).mi
        failed == UNION {{[case |-> cid, line |-> l, prop |-> p, e |-> "Flip", pos |-> ev.acc[i].pos, bit |-> ev.acc[i].bit] :
                            p \in FlipFailed(mi0, ev.acc[i])} : i \in idx}
        badann == \E i \in idx : i <= FlipCheck /\ FlipAnnotBad(bs, ev.acc[i])
        \* accepted because the corrupted bytes are a well-framed message without MESSAGE-INTEGRITY
        reframed == Cardinality({i \in idx : cur.klen > 0 /\ ev.acc[i].fr.st = "ok" /\ ev.acc[i].fr.mi = 0})
        \* conformance: the implementation accepted bytes the specification's strict framing calls malformed
        illframed == Cardinality({i \in idx : ev.acc[i].fr.st # "ok"})
    IN
    /\ UNCHANGED vars
    /\ AddViol(failed)
    /\ annot' = IF badann THEN annot \cup {[line |-> l, what |-> "frame offsets differ (flip)"]} ELSE annot
    /\ stats' = [stats EXCEPT !.flips = @ + ev.n, !.flipacc = @ + ev.nacc, !.fliplogged = @ + Len(ev.acc), !.reframed = @ + reframed]
    /\ Diverge(ev.n # 8 * Len(bs) \/ illframed > 0,
               [what |-> "flips", model |-> <<8 * Len(bs), 0>>, impl |-> <<ev.n, illframed>>])
    /\ UNCHANGED <<cid, ncases, cur>>

\* the receive buffer the held message was decoded from is refilled in place / destroyed (no observation)
BufferStep(ev) ==
    /\ \/ ev.e = "ReuseBuffer" /\ ReuseBuffer
       \/ ev.e = "FreeBuffer" /\ FreeBuffer
       \/ ~(IF ev.e = "ReuseBuffer" THEN ENABLED ReuseBuffer ELSE ENABLED FreeBuffer) /\ UNCHANGED vars
    /\ NoDiverge
    /\ UNCHANGED <<cid, ncases, cur, viol, nviol, annot, stats>>

\* the holder reads the decoded message back: {"e":"Observe","d":MSG,"re":B}
ObserveStep(ev) ==
    /\ \/ Observe
       \/ (~ENABLED Observe) /\ UNCHANGED vars
    /\ AddViol(IF P_Stable(ev.d, cur.m) THEN {}
               ELSE {[case |-> cid, line |-> l, prop |-> "ValueStable", e |-> "Observe-" \o rb, pos |-> 0, bit |-> 0]})
    /\ Diverge(obs' # ev.d \/ ~ev.re, [what |-> "observe", model |-> <<rb>>, impl |-> <<ev.re>>])
    /\ UNCHANGED <<cid, ncases, cur, annot, stats>>

HelperStep(ev) ==
    /\ \/ ev.e = "Hmac" /\ ~IsCase /\ st \in {"new", "done"} /\ st' = "done"
          /\ q' = [a |-> "Hmac", kl |-> ev.kl, tl |-> ev.tl]
          /\ res' = [dec |-> [ok |-> "term", f |-> "hmac-sha1", kl |-> ev.kl, tl |-> ev.tl], fr |-> NoFrame]
          /\ UNCHANGED <<c, w, hist, rb, held, obs>>
       \/ ev.e = "Crc" /\ ~IsCase /\ st \in {"new", "done"} /\ st' = "done"
          /\ q' = [a |-> "Crc", tl |-> ev.tl]
          /\ res' = [dec |-> [ok |-> "term", f |-> "crc32", kl |-> 0, tl |-> ev.tl], fr |-> NoFrame]
          /\ UNCHANGED <<c, w, hist, rb, held, obs>>
       \/ IsCase /\ UNCHANGED vars
    \* the helper's output is the reference interpretation of the term
    /\ AddViol(IF ev.out = ev.ref THEN {}
               ELSE {[case |-> cid, line |-> l, prop |-> "Helper-" \o ev.e, e |-> ev.e,
                      pos |-> (IF ev.e = "Hmac" THEN ev.kl ELSE 0), bit |-> ev.tl]})
    /\ NoDiverge
    /\ UNCHANGED <<cid, ncases, cur, annot, stats>>

FuzzStep(ev) ==
    LET idx == 1..Len(ev.acc)
        failed == {[case |-> cid, line |-> l, prop |-> p, e |-> "Fuzz", pos |-> i, bit |-> ev.acc[i].klen] :
                     <<i, p>> \in {x \in idx \X {"Integrity", "Fingerprint"} :
                                     x[2] \in CallFailed(ev.acc[x[1]].bytes, ev.acc[x[1]].klen > 0, TRUE, ev.acc[x[1]].fr)}}
        badann == \E i \in idx : AnnotBad(ev.acc[i].bytes, ev.acc[i].fr)
    IN
    /\ UNCHANGED vars
    /\ AddViol(failed)
    /\ annot' = IF badann THEN annot \cup {[line |-> l, what |-> "frame offsets differ (fuzz)"]} ELSE annot
    /\ stats' = [stats EXCEPT !.fuzz = @ + ev.n, !.fuzzacc = @ + ev.nacc, !.fuzzlogged = @ + Len(ev.acc)]
    /\ NoDiverge
    /\ UNCHANGED <<cid, ncases, cur>>

OtherStep == UNCHANGED <<vars, cid, cur, viol, nviol, ndiv, divs, dflag, ncases, annot, stats>>

TNext ==
    /\ l <= Len(TraceLog)
    /\ l' = l + 1
    /\ LET ev == TraceLog[l] IN
        CASE ev.e = "Reset"   -> ResetStep(ev)
          [] ev.e = "Encode"  -> EncodeStep(ev)
          [] ev.e = "Decode"  -> DecodeStep(ev)
          [] ev.e = "FlipAll" -> FlipAllStep(ev)
          [] ev.e \in {"ReuseBuffer", "FreeBuffer"} -> BufferStep(ev)
          [] ev.e = "Observe" -> ObserveStep(ev)
          [] ev.e \in {"Hmac", "Crc"} -> HelperStep(ev)
          [] ev.e = "Fuzz"    -> FuzzStep(ev)
          [] OTHER            -> OtherStep

TSpec == TInit /\ [][TNext]_tvars

Summary == [cases |-> ncases, lines |-> l - 1, viol |-> viol, nviol |-> nviol, ndiv |-> ndiv, divs |-> divs, annot |-> annot, stats |-> stats]
Done == l <= Len(TraceLog) \/ CSVWrite("%1$s", <<ToJson(Summary)>>, IOEnv.QXV_SUMMARY)
=============================================================================
