SPECIFICATION Spec
CONSTANTS
  Apis = {"task", "legacy"}
  Archives = {"own"}
  Froms = {"none"}
  E2ee = FALSE
  Encs = {FALSE}
  Kinds = {"Query", "Result", "Fin", "Disconnect", "Connect"}
  MaxQ = 2
  MaxM = 2
  MaxD = 1
  MaxDepth = 99
  MaxHist = 99
VIEW View
ACTION_CONSTRAINT EmitBehaviour
CHECK_DEADLOCK FALSE
