SPECIFICATION TSpec
CONSTANTS
  Mechs = {"SCRAM", "DIGEST", "PLAIN", "HT"}
  Versions = {1, 2}
  MaxHist = 999999
  MaxPost = 999999
  PostAll = TRUE
INVARIANT Done
CHECK_DEADLOCK FALSE
