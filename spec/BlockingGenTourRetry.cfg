SPECIFICATION Spec
CONSTANTS
  Jids = {"j1"}
  InitSrv = {"j1"}
  Kinds = {"Fetch", "Deliver", "Srv", "Disconnect", "Connect"}
  Retries = {FALSE, TRUE}
  CmdSets = {}
  OthSets = {}
  Froms = {"none"}
  MaxT = 2
  MaxO = 0
  MaxD = 1
  MaxQ = 2
  ProbeMax = 0
  MaxHist = 99
VIEW View
ACTION_CONSTRAINT EmitBehaviour
CHECK_DEADLOCK FALSE
