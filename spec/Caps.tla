-------------------------------- MODULE Caps --------------------------------
(***************************************************************************)
(* XEP-0115 (Entity Capabilities) section 5.1 for a service-discovery info *)
(* set, as computed by QXmppDiscoveryIq::verificationString()              *)
(* (src/base/QXmppDiscoveryIq.cpp) and advertised by the client            *)
(* (QXmppClientPrivate::addProperCapability, QXmppDiscoveryManager::       *)
(* capabilities()/handleIq).                                               *)
(*                                                                         *)
(* An info set is held the way a program holds it: as SEQUENCES in some    *)
(* order -- identities <<category, type, lang, name>>, features (possibly  *)
(* repeated), and an optional extension form whose fields (among them the  *)
(* FORM_TYPE field, var = FT) carry sequences of values.  Strings are      *)
(* atoms 1..n of a totally ordered alphabet (their order is the i;octet    *)
(* order of the strings that lib/props/C20.py substitutes), 0 is the empty *)
(* string and may occur in EVERY role (category, type, lang, name,         *)
(* feature, field name, field value) except the FORM_TYPE value.  The      *)
(* model alphabet has no '<' and no '/' (the XEP's own delimiter weakness);*)
(* lib/props/C20.py also substitutes strings that contain them, then the   *)
(* "must change" clause is not judged.                                     *)
(* A field is single-valued (text-single: exactly one value, and an EMPTY  *)
(* one is not written on the wire at all -- XEP-0004 as QXmppDataForm      *)
(* serializes it) or multi-valued (list-/jid-/text-multi: 0, 1, 2+ values, *)
(* empty and repeated members allowed, every member is a <value/>).        *)
(* The canonical string is defined over WHAT IS ON THE WIRE (WireVals).    *)
(*                                                                         *)
(* Canon is the XEP's generation method, step by step, producing the       *)
(* string S as a sequence of tokens (atoms and the two delimiters).  TLC   *)
(* cannot compute SHA-1; Hash is left uninterpreted: ver = Sha1(Canon), and*)
(* lib/props/C20.py interprets it with hashlib (differential half).        *)
(*                                                                         *)
(* Moves of the environment = edits of the info set.  Neutral edits        *)
(* (reordering anything, repeating a feature) must keep Canon, all other   *)
(* edits (add / remove / alter an identity, feature, field or value) must  *)
(* change it; Announce / SessionOpen are the two occasions on which the    *)
(* client emits presence with <c ver=.../>.                                *)
(***************************************************************************)
EXTENDS Naturals, Sequences, FiniteSets, TLC

CONSTANTS Cats, Types, Langs, Names,     \* identity component atoms (Langs, Names may contain 0)
          Feats,                         \* feature atoms
          FTypes, Vars, Vals,            \* FORM_TYPE values, field names, field values
          MaxIds, MaxFeats, MaxFields, MaxVals,
          MaxHist

VARIABLES ids,      \* Seq of <<c, t, l, n>>
          feats,    \* Seq of atoms, repetitions allowed
          form,     \* [on |-> BOOLEAN, fields |-> Seq of [var, multi, vals]]; when on, exactly one field is FORM_TYPE
          canon,    \* the string S of XEP-0115 5.1 for the current info set (a function of the three above)
          hist

mvars == <<ids, feats, form>>
vars  == <<mvars, canon, hist>>

FT == 999        \* the field name "FORM_TYPE" (0 is the empty field name)
LT == 1000       \* '<'
SL == 1001       \* '/'
NoForm == [on |-> FALSE, fields |-> <<>>]

Range(s) == {s[i] : i \in DOMAIN s}
IdPool == Cats \X Types \X Langs \X Names

(* --- XEP-0115 5.1 --------------------------------------------------------- *)
Tok(a) == IF a = 0 THEN <<>> ELSE <<a>>        \* the empty string contributes nothing to S

\* the <value/> elements a field has on the wire: a single-valued field with an empty value has none
WireVals(fl) == IF ~fl.multi /\ fl.vals = <<0>> THEN <<>> ELSE fl.vals

RECURSIVE Flat(_)
Flat(ss) == IF ss = <<>> THEN <<>> ELSE Head(ss) \o Flat(Tail(ss))

RECURSIVE Dedup(_)      \* of a sorted sequence
Dedup(s) == IF Len(s) <= 1 THEN s
            ELSE IF s[1] = s[2] THEN Dedup(Tail(s)) ELSE <<s[1]>> \o Dedup(Tail(s))

\* step 2: "sort the identities by category and then by type and then by xml:lang", name last
IdLess(x, y) ==
    \/ x[1] < y[1]
    \/ x[1] = y[1] /\ x[2] < y[2]
    \/ x[1] = y[1] /\ x[2] = y[2] /\ x[3] < y[3]
    \/ x[1] = y[1] /\ x[2] = y[2] /\ x[3] = y[3] /\ x[4] < y[4]

IdTok(x) == Tok(x[1]) \o <<SL>> \o Tok(x[2]) \o <<SL>> \o Tok(x[3]) \o <<SL>> \o Tok(x[4]) \o <<LT>>   \* step 3

FieldTok(fl) ==                                                          \* step 7.3
    LET sv == SortSeq(WireVals(fl), LAMBDA a, b : a < b)       \* repeated members stay
    IN  Tok(fl.var) \o <<LT>> \o Flat([j \in 1..Len(sv) |-> Tok(sv[j]) \o <<LT>>])

FormTok(fm) ==
    IF ~fm.on THEN <<>>
    ELSE LET ft  == SelectSeq(fm.fields, LAMBDA f : f.var = FT)
             oth == SortSeq(SelectSeq(fm.fields, LAMBDA f : f.var # FT), LAMBDA a, b : a.var < b.var)   \* step 7.2
         IN  Tok(ft[1].vals[1]) \o <<LT>>                                                            \* step 7.1
             \o Flat([j \in 1..Len(oth) |-> FieldTok(oth[j])])

Canon(i, f, fm) ==
    LET si == SortSeq(i, IdLess)
        sf == Dedup(SortSeq(f, LAMBDA a, b : a < b))       \* step 4; a repeated feature counts once
    IN  Flat([j \in 1..Len(si) |-> IdTok(si[j])])
        \o Flat([j \in 1..Len(sf) |-> Tok(sf[j]) \o <<LT>>])    \* step 5
        \o FormTok(fm)


(* --- the info set as sets: what Canon must determine, and nothing else ----- *)
\* identities and field values as bags (sorted sequences), features as a set; the field type is not hashed
FieldSets(fm) == {[var |-> fm.fields[j].var, vals |-> SortSeq(WireVals(fm.fields[j]), LAMBDA a, b : a < b)] : j \in DOMAIN fm.fields}
AsSets(i, f, fm) == [ids |-> SortSeq(i, IdLess), feats |-> Range(f), on |-> fm.on, fields |-> FieldSets(fm)]

(* --- moves ------------------------------------------------------------------ *)
\* every history record carries the kind of move t (neutral | change | emit) and the canonical string after it
Log(r) == /\ canon' = Canon(ids', feats', form')
          /\ hist' = Append(hist, r @@ [c |-> canon'])

RemoveAt(s, i) == SubSeq(s, 1, i - 1) \o SubSeq(s, i + 1, Len(s))
SwapAt(s, i)   == [s EXCEPT ![i] = s[i + 1], ![i + 1] = s[i]]
FieldVars      == {form.fields[j].var : j \in DOMAIN form.fields}

AddIdentity(x) ==          \* also one that is there already (ill-formed per XEP-0115 5.4, hashed twice)
    /\ Len(ids) < MaxIds
    /\ ids' = Append(ids, x)
    /\ UNCHANGED <<feats, form>>
    /\ Log([a |-> "AddIdentity", x |-> x, t |-> "change"])
RemoveIdentity(i) ==
    /\ i \in DOMAIN ids
    /\ ids' = RemoveAt(ids, i)
    /\ UNCHANGED <<feats, form>>
    /\ Log([a |-> "RemoveIdentity", i |-> i, t |-> "change"])
AlterIdentity(i, x) ==      \* one component of one identity gets another value
    /\ i \in DOMAIN ids
    /\ Cardinality({p \in 1..4 : x[p] # ids[i][p]}) = 1
    /\ ids' = [ids EXCEPT ![i] = x]
    /\ UNCHANGED <<feats, form>>
    /\ Log([a |-> "AlterIdentity", i |-> i, x |-> x, t |-> "change"])
SwapIds(i) ==
    /\ i \in 1..(Len(ids) - 1)
    /\ ids' = SwapAt(ids, i)
    /\ UNCHANGED <<feats, form>>
    /\ Log([a |-> "SwapIds", i |-> i, t |-> "neutral"])

AddFeature(f) ==
    /\ Len(feats) < MaxFeats /\ f \notin Range(feats)
    /\ feats' = Append(feats, f)
    /\ UNCHANGED <<ids, form>>
    /\ Log([a |-> "AddFeature", f |-> f, t |-> "change"])
DupFeature(i) ==            \* the same feature once more
    /\ Len(feats) < MaxFeats /\ i \in DOMAIN feats
    /\ feats' = Append(feats, feats[i])
    /\ UNCHANGED <<ids, form>>
    /\ Log([a |-> "DupFeature", i |-> i, t |-> "neutral"])
RemoveFeature(f) ==         \* all its occurrences
    /\ f \in Range(feats)
    /\ feats' = SelectSeq(feats, LAMBDA g : g # f)
    /\ UNCHANGED <<ids, form>>
    /\ Log([a |-> "RemoveFeature", f |-> f, t |-> "change"])
AlterFeature(f, g) ==
    /\ f \in Range(feats) /\ g \notin Range(feats)
    /\ feats' = Flat([j \in DOMAIN feats |-> <<IF feats[j] = f THEN g ELSE feats[j]>>])    \* (a tuple, not a function)
    /\ UNCHANGED <<ids, form>>
    /\ Log([a |-> "AlterFeature", f |-> f, g |-> g, t |-> "change"])
SwapFeats(i) ==
    /\ i \in 1..(Len(feats) - 1)
    /\ feats' = SwapAt(feats, i)
    /\ UNCHANGED <<ids, form>>
    /\ Log([a |-> "SwapFeats", i |-> i, t |-> "neutral"])

SetForm(ty) ==
    /\ ~form.on
    /\ form' = [on |-> TRUE, fields |-> <<[var |-> FT, multi |-> FALSE, vals |-> <<ty>>]>>]
    /\ UNCHANGED <<ids, feats>>
    /\ Log([a |-> "SetForm", v |-> ty, t |-> "change"])
DropForm ==
    /\ form.on
    /\ form' = NoForm
    /\ UNCHANGED <<ids, feats>>
    /\ Log([a |-> "DropForm", t |-> "change"])
AddField(var, multi, v) ==
    /\ form.on /\ Len(form.fields) < MaxFields + 1 /\ var \notin FieldVars
    /\ form' = [form EXCEPT !.fields = Append(@, [var |-> var, multi |-> multi, vals |-> <<v>>])]
    /\ UNCHANGED <<ids, feats>>
    /\ Log([a |-> "AddField", var |-> var, m |-> multi, v |-> v, t |-> "change"])
RemoveField(i) ==
    /\ form.on /\ i \in DOMAIN form.fields /\ form.fields[i].var # FT
    /\ form' = [form EXCEPT !.fields = RemoveAt(@, i)]
    /\ UNCHANGED <<ids, feats>>
    /\ Log([a |-> "RemoveField", i |-> i, t |-> "change"])
RenameField(i, var) ==
    /\ form.on /\ i \in DOMAIN form.fields /\ form.fields[i].var # FT /\ var \notin FieldVars
    /\ form' = [form EXCEPT !.fields[i].var = var]
    /\ UNCHANGED <<ids, feats>>
    /\ Log([a |-> "RenameField", i |-> i, var |-> var, t |-> "change"])
\* text-single <-> list-multi with the same one value: the type is not hashed -- unless the value is empty, which a
\* multi-valued field writes as <value/> and a single-valued one does not write
RetypeField(i) ==
    /\ form.on /\ i \in DOMAIN form.fields /\ form.fields[i].var # FT /\ Len(form.fields[i].vals) = 1
    /\ form' = [form EXCEPT !.fields[i].multi = ~@]
    /\ UNCHANGED <<ids, feats>>
    /\ Log([a |-> "RetypeField", i |-> i, t |-> IF form.fields[i].vals = <<0>> THEN "change" ELSE "neutral"])
AddValue(i, v) ==           \* a member more, also an empty one and one that is there already
    /\ form.on /\ i \in DOMAIN form.fields /\ form.fields[i].multi
    /\ Len(form.fields[i].vals) < MaxVals
    /\ form' = [form EXCEPT !.fields[i].vals = Append(@, v)]
    /\ UNCHANGED <<ids, feats>>
    /\ Log([a |-> "AddValue", i |-> i, v |-> v, t |-> "change"])
RemoveValue(i, j) ==        \* down to no value at all
    /\ form.on /\ i \in DOMAIN form.fields /\ form.fields[i].multi
    /\ j \in DOMAIN form.fields[i].vals
    /\ form' = [form EXCEPT !.fields[i].vals = RemoveAt(@, j)]
    /\ UNCHANGED <<ids, feats>>
    /\ Log([a |-> "RemoveValue", i |-> i, j |-> j, t |-> "change"])
AlterValue(i, j, v) ==      \* includes the FORM_TYPE value
    /\ form.on /\ i \in DOMAIN form.fields /\ j \in DOMAIN form.fields[i].vals
    /\ v # form.fields[i].vals[j]
    /\ v \in (IF form.fields[i].var = FT THEN FTypes ELSE Vals)
    /\ form' = [form EXCEPT !.fields[i].vals[j] = v]
    /\ UNCHANGED <<ids, feats>>
    /\ Log([a |-> "AlterValue", i |-> i, j |-> j, v |-> v, t |-> "change"])
SwapFields(i) ==            \* FORM_TYPE may stand anywhere among the fields
    /\ form.on /\ i \in 1..(Len(form.fields) - 1)
    /\ form' = [form EXCEPT !.fields = SwapAt(@, i)]
    /\ UNCHANGED <<ids, feats>>
    /\ Log([a |-> "SwapFields", i |-> i, t |-> "neutral"])
SwapVals(i, j) ==
    /\ form.on /\ i \in DOMAIN form.fields /\ j \in 1..(Len(form.fields[i].vals) - 1)
    /\ form' = [form EXCEPT !.fields[i].vals = SwapAt(@, j)]
    /\ UNCHANGED <<ids, feats>>
    /\ Log([a |-> "SwapVals", i |-> i, j |-> j, t |-> "neutral"])

\* the client emits presence: on request of the user (setClientPresence) / when a session
\* opens without resumption; a peer then asks disco#info for node#ver (q = "ver") or without node
Announce(q) ==
    /\ UNCHANGED mvars
    /\ Log([a |-> "Announce", q |-> q, t |-> "emit"])
SessionOpen(q) ==
    /\ UNCHANGED mvars
    /\ Log([a |-> "SessionOpen", q |-> q, t |-> "emit"])

Init == ids = <<>> /\ feats = <<>> /\ form = NoForm /\ canon = <<>> /\ hist = <<>>

Edit ==
    \/ \E x \in IdPool : AddIdentity(x)
    \/ \E i \in DOMAIN ids : RemoveIdentity(i) \/ SwapIds(i) \/ \E x \in IdPool : AlterIdentity(i, x)
    \/ \E f \in Feats : AddFeature(f) \/ RemoveFeature(f) \/ \E g \in Feats : AlterFeature(f, g)
    \/ \E i \in DOMAIN feats : DupFeature(i) \/ SwapFeats(i)
    \/ \E ty \in FTypes : SetForm(ty)
    \/ DropForm
    \/ \E var \in Vars : \E v \in Vals : \E m \in BOOLEAN : AddField(var, m, v)
    \/ \E i \in DOMAIN form.fields :
          \/ RemoveField(i) \/ SwapFields(i) \/ RetypeField(i)
          \/ \E var \in Vars : RenameField(i, var)
          \/ \E v \in Vals : AddValue(i, v)
          \/ \E v \in Vals \cup FTypes : \E j \in 1..MaxVals : AlterValue(i, j, v)
          \/ \E j \in 1..MaxVals : RemoveValue(i, j) \/ SwapVals(i, j)
Emit == \E q \in {"ver", "bare"} : Announce(q) \/ SessionOpen(q)

Next == Len(hist) < MaxHist /\ (Edit \/ Emit)
Spec == Init /\ [][Next]_vars

(* --- properties (C20) -------------------------------------------------------- *)
\* over observables: kind of move, verification string (or canonical string) before and after
P_Neutral(t, before, after) == t = "neutral" => after = before
P_Change(t, before, after)  == t = "change" => after # before
P_Equal(a, b) == a = b        \* advertised = hash of the answer; ver = hash of the canonical string

Last(s) == s[Len(s)]
NeutralKeeps  == [][P_Neutral(Last(hist').t, canon, canon')]_vars
ChangeChanges == [][P_Change(Last(hist').t, canon, canon')]_vars
\* the canonical string determines the info set (as sets) along every edit, and is determined by it
SetsFollow    == [][(canon' = canon) <=> (AsSets(ids', feats', form') = AsSets(ids, feats, form))]_vars

TypeOK ==
    /\ Range(ids) \subseteq IdPool /\ Len(ids) <= MaxIds
    /\ Range(feats) \subseteq Feats /\ Len(feats) <= MaxFeats
    /\ form.on => Cardinality({j \in DOMAIN form.fields : form.fields[j].var = FT}) = 1
    /\ ~form.on => form.fields = <<>>
    /\ \A j \in DOMAIN form.fields : ~form.fields[j].multi => Len(form.fields[j].vals) = 1
    /\ Cardinality(FieldVars) = Len(form.fields)
    /\ canon = Canon(ids, feats, form)

Reinit == ids' = <<>> /\ feats' = <<>> /\ form' = NoForm /\ canon' = <<>> /\ hist' = <<>>
View == mvars
=============================================================================
