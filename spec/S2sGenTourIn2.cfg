SPECIFICATION Spec
CONSTANTS
  Doms = {"R", "A"}
  NI = 2
  MaxOC = 2
  MaxMsg = 0
  Kinds = {"IOpen", "IResult", "IStanza", "IClose", "OHeader", "OVerifyAns", "OClose"}
  Shapes = {"ok"}
  FromDoms = {"R", "A"}
  Tos = {"L"}
  Dev = {}
  MaxHist = 99
VIEW View
ACTION_CONSTRAINT EmitBehaviour
CHECK_DEADLOCK FALSE
