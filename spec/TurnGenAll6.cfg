SPECIFICATION Spec
CONSTANTS
  Peers = {1}
  MaxTx = 6
  MaxNonce = 2
  Lifetimes = {600}
  PwOk = {TRUE}
  Shapes = {"honest", "stale", "oknomi"}
  InSrc = {"srv"}
  InLens = {"ok"}
  Timers = TRUE
  MaxTries = 2
  Reconnect = TRUE
  MaxHist = 6
CONSTRAINT Bound

ACTION_CONSTRAINT EmitBehaviour
CHECK_DEADLOCK FALSE
