------------------------------ MODULE IceTrace ------------------------------
(***************************************************************************)
(* Trace validation for Ice (C15).  Trace written by `qxv ice`.             *)
(*                                                                          *)
(* Scripted executions (one real component, behaviours of Ice.tla):         *)
(*  {"e":"Reset","case":ID,"kind":"script","ctl":B}                         *)
(*  {"e":"SetRemote"|"Start"|"Tick","o":OBS,"quiet":B}                      *)
(*  {"e":"Recv","d":DATAGRAM,"o":OBS,"quiet":B}                             *)
(*  OBS = [emit |-> <<[to, cls, tx, uc, mi]>>   datagrams the component sent *)
(*                    (retransmissions of an earlier request excluded)      *)
(*         pairs |-> <<[a, st]>>                "ICE pair changed to state" *)
(*         sel |-> <<addr>>                     "ICE pair selected"         *)
(*         conn |-> n                           connected() signals         *)
(*         isc, wasc |-> B                      isConnected() after/before] *)
(* all observed between the step's datagram and quiescence.                 *)
(*                                                                          *)
(* Honest negotiations (two real connections through the harness relay):    *)
(*  {"e":"Reset","kind":"nego",...} {"e":"Cands","who":W,"c":<<[type,prio,comp]>>}       *)
(*  {"e":"Nego","connA":n,"connB":n,"iscA":B,"iscB":B,"selA":B,"selB":B,"attackerRx":n,..} *)
(*  {"e":"Data","dir":D,"sent":BYTES,"got":<<BYTES>>} {"e":"NegoEnd","attackerRx":n}     *)
(*                                                                          *)
(* Layers: the model takes Ice's action for the logged step (or stutters);  *)
(* the monitor evaluates the C15 predicates on the logged inputs and        *)
(* observations only; the model's projection is compared with the           *)
(* observation and a difference marks the execution diverged.               *)
(***************************************************************************)
EXTENDS Ice, Integers, Json, CSV, IOUtils

TraceLog == ndJsonDeserialize(IOEnv.QXV_TRACE)

VARIABLES l, cid, kind,
          viol, nviol,    \* predicate failures: a bounded sample (ViolCap per predicate, in trace order) and their number
          ndiv, divs, dflag, ncases, stats

tvars == <<vars, l, cid, kind, viol, nviol, ndiv, divs, dflag, ncases, stats>>

Stats0 == [steps |-> 0, forged |-> 0, valid |-> 0, negos |-> 0, data |-> 0, unquiet |-> 0]

TInit ==
    /\ Init /\ ctl = FALSE
    /\ l = 1 /\ cid = "" /\ kind = "" /\ viol = {} /\ nviol = 0 /\ ndiv = 0 /\ divs = <<>> /\ dflag = FALSE /\ ncases = 0
    /\ stats = Stats0

(* --- projections of a model step, in the shape of the observation ---------------------------------- *)
SeqOfSet(S) == IF "cand" \in S /\ "unk" \in S THEN <<"cand", "unk">> ELSE IF "cand" \in S THEN <<"cand">>
               ELSE IF "unk" \in S THEN <<"unk">> ELSE <<>>
ProjEmit  == [i \in 1..Len(out') |-> [to |-> out'[i].to, cls |-> out'[i].cls, tx |-> out'[i].tx, uc |-> out'[i].uc]]
ProjPairs == LET ch == {a \in Addrs : pairs'[a].st # pairs[a].st /\ pairs'[a].st \notin {"none", "waiting"}}
             IN [i \in 1..Len(SeqOfSet(ch)) |-> [a |-> SeqOfSet(ch)[i], st |-> pairs'[SeqOfSet(ch)[i]].st]]
ProjSel   == IF active' # active THEN <<active'>> ELSE <<>>
ProjConn  == IF active = "none" /\ active' # "none" THEN 1 ELSE 0
Proj == [emit |-> ProjEmit, pairs |-> ProjPairs, sel |-> ProjSel, conn |-> ProjConn, isc |-> active' # "none"]

ObsProj(o) == [emit |-> [i \in 1..Len(o.emit) |-> [to |-> o.emit[i].to, cls |-> o.emit[i].cls, tx |-> o.emit[i].tx, uc |-> o.emit[i].uc]],
               pairs |-> o.pairs, sel |-> o.sel, conn |-> o.conn, isc |-> o.isc]

\* the step changed the component's connectivity state or made it emit: every observation channel
Changed(o) == Len(o.emit) > 0 \/ Len(o.pairs) > 0 \/ Len(o.sel) > 0 \/ o.conn > 0 \/ o.isc # o.wasc

ModelAct(ev) ==
    CASE ev.e = "SetRemote" -> SetRemote
      [] ev.e = "Start"     -> Start
      [] ev.e = "Tick"      -> Tick
      [] ev.e = "Recv"      -> Recv(ev.d)
      [] OTHER              -> FALSE

Diverge(d, info) ==
    /\ dflag' = (dflag \/ d)
    /\ ndiv' = IF d /\ ~dflag THEN ndiv + 1 ELSE ndiv
    /\ divs' = IF d /\ ~dflag /\ Len(divs) < 10 THEN Append(divs, [case |-> cid, line |-> l] @@ info) ELSE divs
NoDiverge == UNCHANGED <<dflag, ndiv, divs>>
V(prop, what) == [case |-> cid, line |-> l, prop |-> prop, what |-> what]
ViolCap == 60
AddViol(S) ==
    /\ viol' = viol \cup {v \in S : Cardinality({u \in viol : u.prop = v.prop}) < ViolCap}
    /\ nviol' = nviol + Cardinality(S)

ResetStep(ev) ==
    /\ Reinit(IF ev.kind = "script" THEN ev.ctl ELSE FALSE)
    /\ cid' = ev.case /\ kind' = ev.kind /\ dflag' = FALSE /\ ncases' = ncases + 1
    /\ stats' = IF ev.kind = "nego" THEN [stats EXCEPT !.negos = @ + 1] ELSE stats
    /\ UNCHANGED <<viol, nviol, ndiv, divs>>

ScriptStep(ev) ==
    LET isRecv == ev.e = "Recv"
        auth == IF isRecv THEN ev.d.auth ELSE "valid"
    IN
    /\ \/ ModelAct(ev)
       \/ (~ENABLED ModelAct(ev)) /\ UNCHANGED vars
    \* C15 (safety): a datagram without a valid integrity code changes nothing
    /\ AddViol(IF P_AuthOnly(isRecv, auth, Changed(ev.o)) THEN {} ELSE {V("AuthOnly", ToJson(ev.d))})
    /\ stats' = [stats EXCEPT !.steps = @ + 1,
                              !.forged = IF isRecv /\ auth # "valid" THEN @ + 1 ELSE @,
                              !.valid = IF isRecv /\ auth = "valid" THEN @ + 1 ELSE @,
                              !.unquiet = IF ev.quiet THEN @ ELSE @ + 1]
    \* (what the component itself sends must carry a valid integrity code too)
    /\ Diverge(Proj # ObsProj(ev.o) \/ ~ev.quiet \/ (\E i \in 1..Len(ev.o.emit) : ev.o.emit[i].mi # "ok"),
               [what |-> ev.e, model |-> Proj, impl |-> ev.o])
    /\ UNCHANGED <<cid, kind, ncases>>

(* --- honest negotiations: monitor only --------------------------------------------------------------- *)
\* RFC 5245 4.1.2.1: priority = 2^24 * type preference + 2^8 * local preference + (256 - component ID),
\* type preference of a host candidate 126, local preference 0..65535 (65535 for the only address)
\* (recommended type preferences: host 126, peer-reflexive 110, server-reflexive 100, relayed 0)
TypePrefs == [host |-> 126, prflx |-> 110, srflx |-> 100, relay |-> 0]
PrioOfType(tp, prio, comp) == LET r == prio - tp * 16777216 - (256 - comp) IN r >= 0 /\ r % 256 = 0 /\ r \div 256 <= 65535
CandOk(c) == c.type \in DOMAIN TypePrefs /\ c.proto = "udp" /\ c.comp >= 1 /\ c.comp <= 256
             /\ PrioOfType(TypePrefs[c.type], c.prio, c.comp)
\* RFC 5245 7.1.2.1: the PRIORITY attribute of a connectivity check is the priority a peer-reflexive candidate
\* learnt from this check would get (type preference 110, the component of the check)
CheckPrioOk(r) == r.has /\ PrioOfType(110, r.prio, r.comp)

CandsStep(ev) ==
    /\ AddViol({V("Priority", ToJson(ev.c[i])) : i \in {j \in 1..Len(ev.c) : ~CandOk(ev.c[j])}}
               \cup (IF Len(ev.c) = 0 THEN {V("Priority", "no candidates")} ELSE {}))
    /\ Diverge(\E i \in 1..Len(ev.c) : ev.c[i].prio # 2113929216 + 16776960 + (256 - ev.c[i].comp),
               [what |-> "local preference is not 65535", model |-> <<>>, impl |-> ev.c])
    /\ UNCHANGED <<vars, cid, kind, ncases, stats>>

NegoStep(ev) ==
    LET connects == ev.connA >= 1 /\ ev.connB >= 1 /\ ev.iscA /\ ev.iscB
        honestOnly == ev.attackerRx = 0 /\ (ev.nselA > 0 => ev.selA) /\ (ev.nselB > 0 => ev.selB)
    IN
    /\ AddViol((IF connects THEN {} ELSE {V("Connects", ToJson([connA |-> ev.connA, connB |-> ev.connB, iscA |-> ev.iscA, iscB |-> ev.iscB, discA |-> ev.discA, discB |-> ev.discB]))})
               \cup (IF honestOnly THEN {} ELSE {V("AuthOnly-nego", ToJson([attackerRx |-> ev.attackerRx, selA |-> ev.selA, selB |-> ev.selB]))})
               \* clause "Priorities": every connectivity check the agents sent (seen at the relay)
               \cup {V("Priority", ToJson([check_PRIORITY |-> ev.reqPrio[i]])) : i \in {j \in 1..Len(ev.reqPrio) : ~CheckPrioOk(ev.reqPrio[j])}})
    /\ Diverge(ev.connA # 1 \/ ev.connB # 1, [what |-> "connected signals", model |-> <<1, 1>>, impl |-> <<ev.connA, ev.connB>>])
    /\ UNCHANGED <<vars, cid, kind, ncases, stats>>

DataStep(ev) ==
    /\ AddViol(IF ev.got = <<ev.sent>> THEN {} ELSE {V("Data", ToJson([dir |-> ev.dir, comp |-> ev.comp, sent |-> ev.sent, got |-> ev.got]))})
    /\ stats' = [stats EXCEPT !.data = @ + 1]
    /\ NoDiverge
    /\ UNCHANGED <<vars, cid, kind, ncases>>

NegoEndStep(ev) ==
    /\ AddViol(IF ev.attackerRx = 0 THEN {} ELSE {V("AuthOnly-nego", ToJson([attackerRx |-> ev.attackerRx]))})
    /\ NoDiverge
    /\ UNCHANGED <<vars, cid, kind, ncases, stats>>

OtherStep == UNCHANGED <<vars, cid, kind, viol, nviol, ndiv, divs, dflag, ncases, stats>>

TNext ==
    /\ l <= Len(TraceLog)
    /\ l' = l + 1
    /\ LET ev == TraceLog[l] IN
        CASE ev.e = "Reset"   -> ResetStep(ev)
          [] ev.e \in {"SetRemote", "Start", "Tick", "Recv"} -> ScriptStep(ev)
          [] ev.e = "Cands"   -> CandsStep(ev)
          [] ev.e = "Nego"    -> NegoStep(ev)
          [] ev.e = "Data"    -> DataStep(ev)
          [] ev.e = "NegoEnd" -> NegoEndStep(ev)
          [] OTHER            -> OtherStep

TSpec == TInit /\ [][TNext]_tvars

Summary == [cases |-> ncases, lines |-> l - 1, viol |-> viol, nviol |-> nviol, ndiv |-> ndiv, divs |-> divs, stats |-> stats]
Done == l <= Len(TraceLog) \/ CSVWrite("%1$s", <<ToJson(Summary)>>, IOEnv.QXV_SUMMARY)
=============================================================================
