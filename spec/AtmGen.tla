------------------------------ MODULE AtmGen ------------------------------
(* Behaviour export for Atm (see lib/vf.py: tlc_gen / tlc_simulate): every  *)
(* transition TLC generates writes the event sequence that leads to it,     *)
(* together with the policy and the initial trust levels of the behaviour   *)
(* (levels of all Accounts \X Keys pairs in the fixed order of PairSeq).    *)
(* With VIEW GenView (AtmGenTour*.cfg) hist is a BFS-shortest path to the   *)
(* source state plus the step: a transition tour of the bounded model.      *)
(* Without a VIEW (AtmGenAll.cfg) every history is a distinct state: all    *)
(* paths up to MaxHist.                                                     *)
EXTENDS Atm, Json, CSV, IOUtils

PairSeq == [i \in 1..(Len(AcctSeq) * Len(KeySeq)) |->
              <<AcctSeq[((i - 1) \div Len(KeySeq)) + 1], KeySeq[((i - 1) % Len(KeySeq)) + 1]>>]
LvSeq(f) == [i \in 1..Len(PairSeq) |-> f[PairSeq[i]]]

GenView == mvars
EmitBehaviour ==
    CSVWrite("%1$s", <<ToJson([policy |-> policy', init |-> LvSeq(init0'), steps |-> hist'])>>, IOEnv.QXV_GEN)
=============================================================================
