------------------------------ MODULE AtmGen ------------------------------
(* Behaviour export for Atm (see lib/vf.py: tlc_gen / tlc_simulate): every  *)
(* transition TLC generates writes the event sequence that leads to it,     *)
(* together with the policy and the initial trust levels of the behaviour   *)
(* (levels of all Accounts \X Keys pairs in the fixed order of PairSeq).    *)
(* With VIEW GenView (AtmGenTour*.cfg) hist is a BFS-shortest path to the   *)
(* source state plus the step: a transition tour of the bounded model.      *)
(* Without a VIEW (AtmGenAll.cfg) every history is a distinct state: all    *)
(* paths up to MaxHist.  `loop` tells whether the transition left the model  *)
(* state unchanged: lib/props/C18.py rides such transitions on the behaviour *)
(* of a state-changing transition from the same source state.               *)
EXTENDS Atm, Json, CSV, IOUtils

GenView == mvars
EmitBehaviour ==
    CSVWrite("%1$s", <<ToJson([policy |-> policy', init |-> LvSeq(init0'), steps |-> hist', loop |-> (mvars' = mvars)])>>, IOEnv.QXV_GEN)
=============================================================================
