SPECIFICATION Spec
CONSTANTS
  Jids = {"j1", "j2"}
  InitSrv = {"j1"}
  Kinds = {"Fetch", "Unblock", "Deliver", "Srv", "Other", "Disconnect", "Connect"}
  Retries = {FALSE}
  CmdSets = {{}}
  OthSets = {{"j2"}}
  Froms = {"none"}
  MaxT = 3
  MaxO = 1
  MaxD = 1
  MaxQ = 3
  ProbeMax = 0
  MaxHist = 7
CONSTRAINT Bound
ACTION_CONSTRAINT EmitBehaviour
CHECK_DEADLOCK FALSE
