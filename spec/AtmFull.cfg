SPECIFICATION Spec
CONSTANTS
  Senders = {"o1", "a1", "b1"}
  EchoSenders = {"o1"}
  MsgKeys = {"o1", "a1", "b1", "k"}
  MaxDec = 2
  ManualMax = 2
  Combos <- CombosAll
  MaxHist = 3
INVARIANTS TypeOK NoHeldFromAuthenticated HeldInScope OneDirectionPerSender ForeignPairsUntouched
PROPERTIES StepOK
VIEW View
CHECK_DEADLOCK FALSE
