SPECIFICATION Spec
CONSTANTS
  OfferNames = {"ANONYMOUS", "PLAIN", "DIGEST-MD5", "SCRAM-SHA-1", "SCRAM-SHA-256", "SCRAM-SHA3-512", "HT-SHA-256-NONE", "X-OAUTH2", "X-FACEBOOK-PLATFORM", "scram-sha-256"}
  FastSets = {{"HT-SHA-256-NONE"}, {"HT-SHA-256-ENDP", "HT-SHA3-512-NONE"}}
  VFKinds = {"v1", "v2", "v2fast", "v2fastnoua"}
  DisabledNames = {"PLAIN", "SCRAM-SHA-256", "HT-SHA-256-NONE"}
  PreferredSet = {"", "PLAIN", "SCRAM-SHA-1", "X-OAUTH2", "FOO"}
  PwSet = {TRUE, FALSE}
  TokenSet = {"", "HT-SHA-256-NONE", "HT-SHA3-512-NONE"}
  GoogleSet = {TRUE}
  WliveSet = {FALSE}
  FbSet = {TRUE, FALSE}
INVARIANTS TypeOK PropertyHolds
VIEW View
CHECK_DEADLOCK FALSE
