SPECIFICATION Spec
CONSTANTS
  Types = {"get", "result", "garbage"}
  Payloads = {"version", "vcard", "unknown"}
  Froms = {"Contact"}
  ExtSets = {"default", "all"}
  IdKinds = {"fresh", "dup"}
  Peers = {}
  Deferred = FALSE
  MaxHosts = 2
  MaxHist = 3
CONSTRAINT Bound
ACTION_CONSTRAINT EmitBehaviour
CHECK_DEADLOCK FALSE
