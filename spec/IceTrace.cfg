SPECIFICATION TSpec
CONSTANTS
  Roles = {TRUE, FALSE}
  RequireMI = TRUE
  Dispatch = "class"
  Methods = {"binding", "other"}
  Priorities = {TRUE, FALSE}
  ForgedAuth = {"none", "wrong", "trunc"}
  Usernames = {"ok", "other"}
  MaxTx = 99
  MaxTicks = 99
  Timers = FALSE
  MaxHist = 99
INVARIANT Done
CHECK_DEADLOCK FALSE
