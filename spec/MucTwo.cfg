SPECIFICATION Spec
CONSTANTS
  Rooms = {"r1", "r2"}
  Foreign = {"rx"}
  Nicks = {"n1", "n2"}
  Items = {"plain"}
  Codes = {"none", "self", "self210"}
  UnKinds = {"leave", "nick", "kick"}
  MsgNicks = {"-"}
  MsgTypes = {"groupchat"}
  Subjects = {"s1"}
  Names = {}
  Users = {"u1"}
  Kinds = {"SetNick", "Join", "Leave", "PresAv", "PresUn", "PresErr", "Invite", "Disconnect", "Connect", "OwnPres"}
  MaxHist = 99
INVARIANTS TypeOK JoinedIffOccupant PartsAreLatest OutsideIsEmpty NickInTable NoSessionNoRoom
PROPERTIES SignalsOnce Isolation PermTied
VIEW View
CHECK_DEADLOCK FALSE
