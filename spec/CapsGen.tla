------------------------------ MODULE CapsGen ------------------------------
(* Behaviour export for Caps.  With VIEW View (the CapsGen*.cfg tours) one   *)
(* line per transition of the bounded model: the BFS-shortest edit sequence  *)
(* to the source state plus the step, with the info set reached (key) so that *)
(* lib/props/C20.py can select a set of behaviours that visits every state.  *)
(* Every step record carries the canonical string c after it.                *)
EXTENDS Caps, Json, CSV, IOUtils

CONSTANT EmitMin    \* only histories at least this long are written (random walks: only complete ones)

EmitBehaviour ==
    Len(hist') < EmitMin \/ CSVWrite("%1$s", <<ToJson([steps |-> hist', key |-> <<ids', feats', form'>>])>>, IOEnv.QXV_GEN)
=============================================================================
