SPECIFICATION Spec
CONSTANTS
  Peers = {"p1"}
  Ress = {"r2", "-"}
  PeerIds = {"nlo", "nhi"}
  Types = {"propose", "ringing", "proceed", "reject", "retract", "finish"}
  Variants = {"plain", "tb", "mig", "nore"}
  Wfs = {"ok", "nochat", "nostore"}
  Modes = {"sm", "up", "down"}
  Kinds = {"Propose", "Ring", "Proceed", "Reject", "Retract", "Finish", "Recv", "Carbon", "Ack", "FailAll"}
  MaxJ = 2
  MaxP = 1
  MaxQ = 2
  MaxHist = 99
INVARIANTS TypeOK Conforms ListOK IdsOK QueueOK
VIEW View
CHECK_DEADLOCK FALSE
