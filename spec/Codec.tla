-------------------------------- MODULE Codec --------------------------------
(***************************************************************************)
(* Contract of the stanza codecs (C01), at the level a model can decide.   *)
(*                                                                         *)
(* Every class of src/base writes its fields through QXmlStreamWriter      *)
(* (writeAttribute / writeCharacters / writeTextElement, reached through   *)
(* writeOptionalXmlAttribute, writeXmlTextElement, ... of QXmppUtils.cpp)  *)
(* and reads them back from a QDomElement (attribute(), text()).  A field  *)
(* value is abstracted to a sequence over character classes; the writer    *)
(* (Escape) and the reader (Unescape) are the pair the code uses, per      *)
(* context (attribute value / character data).  The one field written      *)
(* without the writer's escaping is the XHTML-IM body                      *)
(* (QXmppMessage.cpp, writeCharacters is bypassed with a raw device write) *)
(* -- RawWrite below, the named exception: for it NoMarkup does not hold   *)
(* and the spec says so (RawIsAnException).                                *)
(*                                                                         *)
(* A stanza is a record of slots, each Absent or holding a class string.   *)
(* An empty value and an absent one are the same thing on the wire         *)
(* (writeOptionalXmlAttribute / writeOptionalXmlTextElement skip empties); *)
(* the property speaks of non-blank strings, so Absent is the only empty   *)
(* value here.                                                             *)
(*                                                                         *)
(* Codec.cfg: one slot, strings up to length MaxLen = 4 over all classes,  *)
(* both contexts: TLC establishes Unescape(Escape(s)) = s and NoMarkup for *)
(* every such string (the "no markup injection" clause at model level).    *)
(* CodecGen*.cfg: NSlots slots, single-class values: TLC enumerates every  *)
(* presence subset x class assignment; CodecGen exports them as            *)
(* substitution plans that `qxv codec` applies to real objects.            *)
(***************************************************************************)
EXTENDS Naturals, Sequences, FiniteSets, TLC

CONSTANTS Classes,    \* character classes, subset of AllClasses
          MaxLen,     \* longest class string assigned to a slot
          NSlots,     \* number of field slots of the abstract stanza
          Contexts    \* subset of {"attr", "text"}: where a slot may live

AllClasses == {"Plain", "Lt", "Gt", "Amp", "Quot", "Apos", "NonAscii", "Astral", "InnerSpace", "Newline"}
ASSUME Classes \subseteq AllClasses /\ Contexts \subseteq {"attr", "text"}

Absent == <<>>
Slots == 1..NSlots

VARIABLES kind,   \* [Slots -> Contexts]
          obj,    \* [Slots -> class string]   the object built through setters
          nset,   \* number of slots assigned so far (slots are assigned in order)
          wire,   \* [Slots -> wire-symbol string] after Serialize
          back,   \* [Slots -> class string] after Parse
          phase,  \* "build" | "wire" | "parsed"
          hist    \* operations performed (behaviour export)

mvars == <<kind, obj, nset, wire, back, phase>>
vars  == <<mvars, hist>>

(* --- the writer ---------------------------------------------------------- *)
\* QXmlStreamWriter: & < > " are always written as entity references; in an
\* attribute value \n \t \r are written as character references as well
\* (otherwise attribute-value normalisation would turn them into spaces); ' is
\* written raw (the writer always delimits with ").
Ref(n) == <<"&", n, ";">>
Escape1(c, ctx) ==
    CASE c = "Lt"   -> Ref("lt")
      [] c = "Gt"   -> Ref("gt")
      [] c = "Amp"  -> Ref("amp")
      [] c = "Quot" -> Ref("quot")
      [] c = "Apos" -> <<"'">>
      [] c = "Newline" -> IF ctx = "attr" THEN Ref("#10") ELSE <<"nl">>
      [] c = "Plain" -> <<"p">>
      [] c = "NonAscii" -> <<"na">>
      [] c = "Astral" -> <<"as">>          \* one 4-byte UTF-8 character
      [] c = "InnerSpace" -> <<"sp">>

RECURSIVE Escape(_, _)
Escape(s, ctx) == IF s = <<>> THEN <<>> ELSE Escape1(Head(s), ctx) \o Escape(Tail(s), ctx)

\* the exception: XHTML-IM content is handed to the device as it is
Raw1(c) ==
    CASE c = "Lt" -> <<"<">> [] c = "Gt" -> <<">">> [] c = "Amp" -> <<"&">> [] c = "Quot" -> <<"\"">>
      [] c = "Apos" -> <<"'">> [] c = "Newline" -> <<"nl">> [] c = "Plain" -> <<"p">>
      [] c = "NonAscii" -> <<"na">> [] c = "Astral" -> <<"as">> [] c = "InnerSpace" -> <<"sp">>
RECURSIVE RawWrite(_)
RawWrite(s) == IF s = <<>> THEN <<>> ELSE Raw1(Head(s)) \o RawWrite(Tail(s))

(* --- the reader ---------------------------------------------------------- *)
RefChar(n) ==
    CASE n = "lt" -> "Lt" [] n = "gt" -> "Gt" [] n = "amp" -> "Amp" [] n = "quot" -> "Quot"
      [] n = "apos" -> "Apos" [] n = "#10" -> "Newline" [] OTHER -> "Bad"
RawChar(w, ctx) ==
    CASE w = "'" -> "Apos" [] w = "p" -> "Plain" [] w = "na" -> "NonAscii" [] w = "as" -> "Astral"
      [] w = "sp" -> "InnerSpace"
      [] w = "nl" -> IF ctx = "attr" THEN "InnerSpace" ELSE "Newline"   \* attribute-value normalisation
      [] w = ">" -> "Gt"
      [] OTHER -> "Bad"

RECURSIVE Unescape(_, _)
Unescape(w, ctx) ==
    IF w = <<>> THEN <<>>
    ELSE IF Head(w) = "&"
         THEN IF Len(w) >= 3 /\ w[3] = ";"
              THEN <<RefChar(w[2])>> \o Unescape(SubSeq(w, 4, Len(w)), ctx)
              ELSE <<"Bad">>
         ELSE <<RawChar(Head(w), ctx)>> \o Unescape(Tail(w), ctx)

(* --- markup tokens --------------------------------------------------------*)
\* A value alters the element structure iff its wire form contains a raw `<`,
\* a raw `&` that does not start a reference, or (in an attribute) the raw
\* delimiter `"`.
NoMarkup(w, ctx) ==
    /\ \A i \in 1..Len(w) : w[i] # "<"
    /\ \A i \in 1..Len(w) : w[i] = "&" => (i + 2 <= Len(w) /\ w[i + 2] = ";" /\ RefChar(w[i + 1]) # "Bad")
    /\ ctx = "attr" => \A i \in 1..Len(w) : w[i] # "\""

(* --- values --------------------------------------------------------------- *)
StringsOfLen(n) == [1..n -> Classes]
Values == UNION {StringsOfLen(n) : n \in 1..MaxLen}     \* non-blank class strings

(* --- behaviours ------------------------------------------------------------ *)
Init ==
    /\ kind \in [Slots -> Contexts]
    /\ obj = [i \in Slots |-> Absent]
    /\ nset = 0
    /\ wire = [i \in Slots |-> <<>>]
    /\ back = [i \in Slots |-> <<>>]
    /\ phase = "build"
    /\ hist = <<>>

Log(r) == hist' = Append(hist, r)

\* setter: the next slot gets a value, or stays absent
Assign(v) ==
    /\ phase = "build" /\ nset < NSlots
    /\ nset' = nset + 1
    /\ obj' = [obj EXCEPT ![nset + 1] = v]
    /\ Log([a |-> "Assign", slot |-> nset + 1, v |-> v])
    /\ UNCHANGED <<kind, wire, back, phase>>

Serialize ==
    /\ phase = "build" /\ nset = NSlots
    /\ wire' = [i \in Slots |-> Escape(obj[i], kind[i])]
    /\ phase' = "wire"
    /\ Log([a |-> "Serialize"])
    /\ UNCHANGED <<kind, obj, nset, back>>

Parse ==
    /\ phase = "wire"
    /\ back' = [i \in Slots |-> Unescape(wire[i], kind[i])]
    /\ phase' = "parsed"
    /\ Log([a |-> "Parse"])
    /\ UNCHANGED <<kind, obj, nset, wire>>

Next == (\E v \in Values \cup {Absent} : Assign(v)) \/ Serialize \/ Parse

Spec == Init /\ [][Next]_vars

(* --- presence lattice of a concrete type ------------------------------------ *)
\* For a type with n fields the plans above (NSlots slots, field j -> slot digit) give every pair of
\* fields every pair of values, but not every *subset* of present fields.  Which optional fields are
\* present decides what is written first inside an element, so the driver also builds, per type,
\* the bottom, the atoms, the co-atoms and the top of the presence lattice of its n fields
\* (2n + 2 subsets), each with plain and with markup-bearing values:
Lattice(n) == {{}} \cup {{i} : i \in 1..n} \cup {(1..n) \ {i} : i \in 1..n} \cup {1..n}
LatticePlan(n, S, c) == [i \in 1..n |-> IF i \in S THEN <<c>> ELSE Absent]

(* --- list-valued fields ------------------------------------------------------- *)
\* A list-valued field (data-form multi values and options, disco features/identities/items, roster
\* items, stanza ids, stream-feature mechanisms, bookmarks, trust-message keys, MUC status codes, ...)
\* is a SEQUENCE of members, each written as an element or attribute of its own.  The writer/reader
\* pair is the identity on the sequence: order and multiplicity are part of the value (text-multi
\* lines may repeat).  The value lattice the driver walks through for every such field, a and b
\* being distinct member strings of the plan's character class:
ListShapes == {"empty", "one", "two", "dup", "aba", "case", "space", "emptymember"}
ListOf(shape, a, b, aCase, aSpace1, aSpace2) ==
    CASE shape = "empty" -> <<>>
      [] shape = "one"   -> <<a>>
      [] shape = "two"   -> <<a, b>>
      [] shape = "dup"   -> <<a, a>>              \* two EQUAL members
      [] shape = "aba"   -> <<a, b, a>>           \* equal but not adjacent
      [] shape = "case"  -> <<a, aCase>>          \* differing in case only
      [] shape = "space" -> <<aSpace1, aSpace2>>  \* differing in inner white space only
      [] shape = "emptymember" -> <<a, Absent>>   \* an empty-string member
WriteList(l, ctx) == [i \in 1..Len(l) |-> Escape(l[i], ctx)]
ReadList(w, ctx)  == [i \in 1..Len(w) |-> Unescape(w[i], ctx)]
\* checked by TLC for every shape and every pair of one-character members (ListContract below);
\* fields the library documents as SETS (roster groups: QSet; message reactions: XEP-0444 "set of
\* reactions") are compared as sets by the driver and named in docs/C01.md
ListContract ==
    \A sh \in ListShapes : \A ca \in Classes : \A cb \in Classes \ {ca} : \A ctx \in {"attr", "text"} :
        LET l == ListOf(sh, <<ca>>, <<cb>>, <<ca, "Plain">>, <<ca, "InnerSpace", "Plain">>, <<ca, "InnerSpace", "InnerSpace", "Plain">>)
        IN ReadList(WriteList(l, ctx), ctx) = l

(* --- properties (C01) ------------------------------------------------------ *)
\* written over observable quantities so that CodecTrace evaluates the same
\* predicates on what the implementation reported
P_SameFields(before, after) == before = after
P_SameXml(x1, x2)           == x1 = x2
P_NoInjection(structBefore, structAfter) == structBefore = structAfter

RoundTrip   == phase = "parsed" => P_SameFields(obj, back)
NoInjection == phase # "build" => \A i \in Slots : NoMarkup(wire[i], kind[i])
\* serializing what was parsed gives the same wire form (one pass is a fixpoint)
Fixpoint    == phase = "parsed" => \A i \in Slots : P_SameXml(Escape(back[i], kind[i]), wire[i])
\* the raw writer is outside the guarantee: some value breaks NoMarkup
RawIsAnException == ("Lt" \in Classes) => ~NoMarkup(RawWrite(<<"Lt">>), "text")

TypeOK ==
    /\ phase \in {"build", "wire", "parsed"} /\ nset \in 0..NSlots
    /\ \A i \in Slots : obj[i] \in Values \cup {Absent}
    /\ \A i \in Slots : i > nset => obj[i] = Absent

View == mvars
=============================================================================
