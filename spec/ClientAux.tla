------------------------------ MODULE ClientAux ------------------------------
(***************************************************************************)
(* The three session-scoped managers inside QXmppOutgoingClient that no     *)
(* listed property covers (extension `clientaux`):                          *)
(*   CsiManager       XEP-0352 client state indication                      *)
(*                    (src/client/QXmppOutgoingClient.cpp, QXmppClient::    *)
(*                    setActive / isActive)                                 *)
(*   CarbonManager    XEP-0280 carbons enabled inline via XEP-0386 bind2,   *)
(*                    else by IQ (QXmppCarbonManagerV2::enableCarbons)      *)
(*   FastTokenManager XEP-0484 FAST tokens (src/client/QXmppSaslManager.cpp,*)
(*                    QXmppClient::credentialsChanged)                      *)
(* plus the part of the stream negotiation they hang on: SASL / SASL 2      *)
(* (+ bind2, inline stream resumption), resource binding, XEP-0198          *)
(* enable / resume, session open, connection loss.                          *)
(*                                                                          *)
(* One action per environment move (user: Connect, SetState, Disconnect;    *)
(* server: AuthOk, AuthOk2, AuthFail, PostFeatures, Resumed, ResumeFailed,  *)
(* BindOk, Enabled, EnableFailed; network: Cut); the client's handlers are  *)
(* functions on a result record r = [c, out, sig] (client state, elements   *)
(* written, signals fired) as in ClientStream.tla.                          *)
(*                                                                          *)
(* Two halves:                                                              *)
(*  - `c`: the client's mechanism variables, one per member of the code;    *)
(*  - `s`: ghost state of the *other side*: what the server has been told   *)
(*    (the session it holds, its CSI state, how many carbons requests it    *)
(*    got, which tokens it rejected) and what the application has been told *)
(*    (`rep`: the token it knew at the last credentialsChanged()).  `s` is  *)
(*    a function of the elements on the wire and the server's own moves     *)
(*    only (SrvEvent / SrvWrites), so ClientAuxTrace evaluates the same     *)
(*    operators on what the implementation really wrote.                    *)
(* The invariants relate the two halves.                                    *)
(*                                                                          *)
(* Server semantics assumed (stated in docs/ext-clientaux.md):              *)
(*  - CSI state and the carbons flag belong to a *session*; a new session   *)
(*    starts active / carbons off unless the bind2 request said otherwise;  *)
(*  - an <active/>/<inactive/> or a carbons <iq/> received on a stream that *)
(*    has no session (not yet bound or resumed, and no bind / resume request*)
(*    ahead of it on the wire) reaches no session: it is dropped;           *)
(*  - elements written behind a <resume/> or bind request are processed     *)
(*    after it (wire order), i.e. on the session that request produces;     *)
(*  - a resumed session keeps its CSI state (ResumeKeepsCsi = TRUE, the     *)
(*    reading the code is written for); ResumeKeepsCsi = FALSE is the       *)
(*    alternative reading (server resets to active on resumption), see      *)
(*    ClientAuxResetOnResume.cfg.                                           *)
(*                                                                          *)
(* The specification states the intended behaviour.  Where the pinned code  *)
(* does not follow it (docs/ext-clientaux.md, fixes/ext-clientaux-*.patch): *)
(*  (A) the bind2 result of a connection that never opened a session was    *)
(*      kept for the next connection (stale `bind2Bound`);                  *)
(*  (B) CsiManager::sendState wrote the state on an authenticated stream    *)
(*      that has no session yet and recorded it as delivered;               *)
(*  (C) a token replaced on a connection that never opened a session was    *)
(*      never reported by credentialsChanged();                             *)
(*  (D) a token the server rejected was kept and used again;                *)
(*  (E) a session that bind2 created (with stream management) but that the  *)
(*      client never opened -- the connection dropped between <success/>    *)
(*      and the features -- was resumed later as if it had been opened, so  *)
(*      carbons were never requested for it.                                *)
(***************************************************************************)
EXTENDS Naturals, Sequences, FiniteSets, TLC

CONSTANTS Cfgs,           \* client configurations: [carb, fast, tok0]
          PreFeats,       \* <stream:features/> before authentication: [s2, b2, b2csi, b2carb, b2sm, r2, fast]
          PostFeats,      \* <stream:features/> after authentication: [csi, sm]
          MaxConn,        \* connections per behaviour
          MaxTok,         \* tokens the server issues per behaviour
          MaxHist,        \* bound on behaviour length (generator configurations)
          ResumeKeepsCsi, \* server semantics of XEP-0198 resumption w.r.t. the CSI state
          AsCode          \* subset of {"A","B","C","D","E"}: deviations of the pinned code to model as they are
                          \* ({} = intended behaviour; the ClientAuxAsCode*.cfg runs show what each one breaks)

VARIABLES cfg,            \* configuration of this behaviour
          c,              \* client (mechanism)
          s,              \* server + application ghosts
          lastOut, lastSig,   \* observation: what the last step wrote / signalled
          hist            \* observation: the environment's moves so far

vars == <<cfg, c, s, lastOut, lastSig, hist>>

CsiStates == {"active", "inactive"}
Phases    == {"Down", "Auth", "Authed", "Resuming", "Binding", "Enabling", "Up"}

(* ---------------------------------------------------------------------- *)
(* elements the client writes (projection shared with the harness)         *)
(* ---------------------------------------------------------------------- *)
E(k) == [k |-> k, mech |-> "", bind |-> FALSE, inact |-> FALSE, carb |-> FALSE, sm |-> FALSE,
         res |-> FALSE, rtok |-> FALSE, fast |-> FALSE, tok |-> 0]
Auth2(mech, bind, inact, carb, sm, res, rtok, fast, tok) ==
    [k |-> "Sasl2Authenticate", mech |-> mech, bind |-> bind, inact |-> inact, carb |-> carb, sm |-> sm,
     res |-> res, rtok |-> rtok, fast |-> fast, tok |-> tok]
CsiEl(v) == E(IF v = "active" THEN "CsiActive" ELSE "CsiInactive")
IsCsi(e) == e.k \in {"CsiActive", "CsiInactive"}
CsiOf(e) == IF e.k = "CsiActive" THEN "active" ELSE "inactive"
\* the kinds this specification predicts (everything else the client writes is ignored)
Kinds == {"SaslAuth", "Sasl2Authenticate", "SmResume", "BindRequest", "SmEnable", "CsiActive", "CsiInactive", "CarbonsIq"}

Min(a, b) == IF a < b THEN a ELSE b

(* ---------------------------------------------------------------------- *)
(* ghost: the server's and the application's knowledge                      *)
(* ---------------------------------------------------------------------- *)
S0(cf) == [att |-> FALSE,        \* a session is attached to the live stream
           live |-> FALSE,       \* the server holds a session of this client (attached, or detached and resumable)
           csi |-> "active",     \* CSI state of that session
           carb |-> 0,           \* carbons requests that session has received (saturates at 3)
           resumable |-> FALSE,  \* that session has stream management with resumption
           req |-> "none",       \* "resume" | "bind": a request the server has received and not yet been seen answering
           pend |-> "none",      \* last CSI element written behind that request
           pendCarb |-> 0,       \* carbons requests written behind that request
           auth |-> E("none"),   \* the authentication request of this stream
           offered |-> FALSE,    \* <csi/> in the most recent post-authentication features
           rejected |-> {},      \* tokens the server has rejected
           ntok |-> 1,           \* last token id in use (1 = the token stored initially, if any)
           rep |-> IF cf.tok0 THEN 1 ELSE 0,   \* the token the application knows (start / last credentialsChanged)
           dirty |-> FALSE,      \* the stored token has been modified since then
           flags |-> {}]         \* step predicates that failed so far

Detach(sv) == [sv EXCEPT !.att = FALSE, !.live = @ /\ sv.resumable, !.resumable = sv.live /\ @,
                         !.req = "none", !.pend = "none", !.pendCarb = 0, !.auth = E("none")]
NewSession(sv, v, n, rs) == [sv EXCEPT !.att = TRUE, !.live = TRUE, !.csi = v, !.carb = n, !.resumable = rs]
Attach(sv) == [sv EXCEPT !.att = TRUE, !.csi = IF ResumeKeepsCsi THEN @ ELSE "active"]
ApplyPend(sv) == [sv EXCEPT !.csi = IF sv.pend # "none" THEN sv.pend ELSE @,
                            !.carb = Min(@ + sv.pendCarb, 3),
                            !.req = "none", !.pend = "none", !.pendCarb = 0]

\* one element arrives at the server
SrvWrite(sv, e) ==
    CASE IsCsi(e) -> IF sv.att THEN [sv EXCEPT !.csi = CsiOf(e)]
                     ELSE IF sv.req # "none" THEN [sv EXCEPT !.pend = CsiOf(e)] ELSE sv
      [] e.k = "CarbonsIq" -> IF sv.att THEN [sv EXCEPT !.carb = Min(@ + 1, 3)]
                              ELSE IF sv.req # "none" THEN [sv EXCEPT !.pendCarb = Min(@ + 1, 3)] ELSE sv
      [] e.k = "SmResume" -> IF sv.att THEN sv ELSE [sv EXCEPT !.req = "resume", !.pend = "none", !.pendCarb = 0]
      [] e.k = "BindRequest" -> IF sv.att THEN sv ELSE [sv EXCEPT !.req = "bind", !.pend = "none", !.pendCarb = 0]
      [] e.k \in {"Sasl2Authenticate", "SaslAuth"} -> [sv EXCEPT !.auth = e]
      [] OTHER -> sv

RECURSIVE SrvWritesFrom(_, _, _)
SrvWritesFrom(sv, out, i) == IF i > Len(out) THEN sv ELSE SrvWritesFrom(SrvWrite(sv, out[i]), out, i + 1)
SrvWrites(sv, out) == SrvWritesFrom(sv, out, 1)

\* the server's (and network's) own move, before the client reacts to it
SrvEvent(sv, ev) ==
    CASE ev.k = "Connect" -> [sv EXCEPT !.req = "none", !.pend = "none", !.pendCarb = 0, !.auth = E("none")]
      [] ev.k = "AuthOk2" ->
            LET s1 == IF ev.tk THEN [sv EXCEPT !.ntok = @ + 1] ELSE sv IN
            IF ev.res = "resumed" THEN Attach(s1)
            ELSE IF ev.bnd # "none"
                 THEN NewSession(s1, IF sv.auth.inact THEN "inactive" ELSE "active", IF sv.auth.carb THEN 1 ELSE 0, ev.bnd = "sm")
                 ELSE s1
      [] ev.k = "AuthFail" -> [Detach(sv) EXCEPT !.rejected = IF sv.auth.mech = "HT" THEN @ \cup {sv.auth.tok} ELSE @]
      [] ev.k = "PostFeatures" -> [sv EXCEPT !.offered = ev.g.csi]
      [] ev.k = "Resumed" -> ApplyPend(Attach(sv))
      [] ev.k = "ResumeFailed" -> [sv EXCEPT !.req = "none", !.pend = "none", !.pendCarb = 0]
      [] ev.k = "BindOk" -> ApplyPend(NewSession(sv, "active", 0, FALSE))
      [] ev.k = "Enabled" -> [sv EXCEPT !.resumable = ev.resume]
      [] ev.k = "Cut" -> Detach(sv)
      [] ev.k = "Disconnect" -> [Detach(sv) EXCEPT !.live = FALSE, !.resumable = FALSE]
      [] OTHER -> sv      \* AuthOk, EnableFailed, SetState

(* ---------------------------------------------------------------------- *)
(* step predicates on observable quantities (shared with ClientAuxTrace)    *)
(* sb = ghost before the step's writes, out / sig = what the step wrote /   *)
(* signalled, tokAfter = stored token after the step                        *)
(* ---------------------------------------------------------------------- *)
\* nothing is written about the client state unless the feature has been offered
P_CsiQuiet(sb, out) == \A i \in DOMAIN out : IsCsi(out[i]) => sb.offered
\* a token the server has rejected is not presented again
P_NoReuse(sb, out) == \A i \in DOMAIN out : (out[i].k = "Sasl2Authenticate" /\ out[i].mech = "HT") => out[i].tok \notin sb.rejected
\* credentialsChanged() is fired only together with `connected`, and only if the stored token has been
\* modified since the application was last told (dirty = modified before or in this step)
P_SignalJustified(dirty, sig) ==
    (\E i \in DOMAIN sig : sig[i] = "credentialsChanged") =>
        (dirty /\ \E i \in DOMAIN sig : sig[i] = "connected")
\* state predicates (session open)
P_CsiAgree(up, authed, sv, app) == (up /\ authed /\ sv.offered) => (sv.att /\ sv.csi = app)
P_CarbonsOnce(up, sv, carbCfg)  == (up /\ sv.att) => sv.carb = (IF carbCfg THEN 1 ELSE 0)
P_TokenKnown(up, sv, tok)       == up => sv.rep = tok

StepFlags(sb, out, sig, dirty) ==
    {x \in {"CsiSentWhenNotOffered", "RejectedTokenReused", "CredentialsChangedUnjustified"} :
        CASE x = "CsiSentWhenNotOffered" -> ~P_CsiQuiet(sb, out)
          [] x = "RejectedTokenReused" -> ~P_NoReuse(sb, out)
          [] x = "CredentialsChangedUnjustified" -> ~P_SignalJustified(dirty, sig)}

(* ---------------------------------------------------------------------- *)
(* the client                                                               *)
(* ---------------------------------------------------------------------- *)
C0(cf) == [phase |-> "Down",
           cur2 |-> FALSE,       \* the listener of this connection is the Sasl2Manager
           authed |-> FALSE,     \* QXmppOutgoingClientPrivate::isAuthenticated
           am2 |-> FALSE,        \* authenticationMethod == Sasl2 (sticky; read only by the pinned code, deviation C)
           bindAvail |-> FALSE,  \* bindModeAvailable
           b2Bound |-> FALSE,    \* bind2Bound.has_value()
           \* CsiManager
           app |-> "active", synced |-> TRUE, feat |-> FALSE, b2Inact |-> FALSE,
           \* CarbonManager
           cEn |-> FALSE, cReq |-> FALSE,
           \* C2sStreamManager
           smAvail |-> FALSE, smEn |-> FALSE, smRes |-> FALSE, canRes |-> FALSE,
           \* FastTokenManager + credentials
           tok |-> IF cf.tok0 THEN 1 ELSE 0, reqTok |-> FALSE, tokChg |-> FALSE, usedHt |-> FALSE,
           conn |-> 0]

R0(cl) == [c |-> cl, out |-> <<>>, sig |-> <<>>]
Emit(r, e)   == [r EXCEPT !.out = Append(@, e)]
Signal(r, x) == [r EXCEPT !.sig = Append(@, x)]

\* CsiManager::sendState: written only on an established session (B); the result is remembered
SendState(r) ==
    IF r.c.authed /\ r.c.feat /\ (r.c.phase = "Up" \/ "B" \in AsCode)
    THEN Emit([r EXCEPT !.c.synced = TRUE], CsiEl(r.c.app))
    ELSE [r EXCEPT !.c.synced = FALSE]

\* QXmppOutgoingClient::openSession + QXmppClient::_q_streamConnected + QXmppCarbonManagerV2::enableCarbons
OpenSession(r0) ==
    LET r == [r0 EXCEPT !.c.phase = "Up"]
        b2Used == r.c.b2Bound
        chg == IF "C" \in AsCode THEN r.c.am2 /\ r.c.tokChg ELSE r.c.tokChg
        r1 == [r EXCEPT !.c.b2Bound = FALSE,
                        !.c.tokChg = IF "C" \in AsCode THEN @ ELSE FALSE,   \* reported now (C)
                        !.c.canRes = IF r.c.smEn THEN @ ELSE FALSE,          \* C2sStreamManager::onSessionOpened
                        !.c.cEn = IF b2Used THEN r.c.cReq ELSE IF ~r.c.smRes THEN FALSE ELSE @]   \* CarbonManager::onSessionOpened
        r2 == IF r1.c.smRes                                                  \* CsiManager::onSessionOpened
              THEN (IF ~r1.c.synced THEN SendState(r1) ELSE r1)
              ELSE LET init == IF b2Used /\ r1.c.b2Inact THEN "inactive" ELSE "active" IN
                   IF r1.c.app = init THEN [r1 EXCEPT !.c.synced = TRUE] ELSE SendState(r1)
        r3 == Signal(IF chg THEN Signal(r2, "credentialsChanged") ELSE r2, "connected")
    IN IF cfg.carb /\ ~r3.c.smRes /\ ~r3.c.cEn THEN Emit(r3, E("CarbonsIq")) ELSE r3

\* _q_socketDisconnected -> closeSession.  A stream-management session that bind2 created on this
\* stream but that the client never opened is not kept for resumption (E): resuming it later would
\* skip everything a new session needs (carbons, initial presence).
CloseDown(r)  ==
    Signal([r EXCEPT !.c.phase = "Down", !.c.authed = FALSE,
                     !.c.canRes = IF "E" \notin AsCode /\ r.c.phase # "Up" /\ r.c.smEn /\ ~r.c.smRes THEN FALSE ELSE @],
           "disconnected")
\* QXmppOutgoingClient::disconnectFromHost: resumption is given up
LocalClose(r) == CloseDown([r EXCEPT !.c.canRes = FALSE])

\* handleStreamFeatures before authentication: SASL 2 (startSasl2Auth) if offered, else SASL
StartAuth(r, F) ==
    IF ~F.s2
    THEN Emit([r EXCEPT !.c.phase = "Auth", !.c.cur2 = FALSE, !.c.usedHt = FALSE], [E("SaslAuth") EXCEPT !.mech = "PLAIN"])
    ELSE LET cl == r.c
             bind == F.b2
             carb == bind /\ cfg.carb /\ F.b2carb            \* CarbonManager::onBind2Request
             inact == bind /\ cl.app = "inactive" /\ F.b2csi  \* CsiManager::onBind2Request
             sm == bind /\ F.b2sm                             \* C2sStreamManager::onBind2Request
             fastAv == F.fast /\ cfg.fast
             rtok == fastAv /\ cl.tok = 0                     \* FastTokenManager::onSasl2Authenticate
             ht == fastAv /\ cl.tok # 0                       \* chooseMechanism: HT-* ranks highest when a token is stored
             res == F.r2 /\ ~cl.smEn /\ cl.canRes             \* C2sStreamManager::onSasl2Authenticate
         IN Emit([r EXCEPT !.c.phase = "Auth", !.c.cur2 = TRUE,
                           !.c.cReq = IF bind THEN carb ELSE @,
                           !.c.b2Inact = IF bind THEN inact ELSE @,
                           !.c.reqTok = rtok, !.c.usedHt = ht,
                           !.c.tokChg = IF "C" \in AsCode THEN FALSE ELSE @],
                 Auth2(IF ht THEN "HT" ELSE "PLAIN", bind, inact, carb, sm, res, rtok, ht, IF ht THEN cl.tok ELSE 0))

\* handleStart: per-stream reset (C2sStreamManager::onStreamStart; the bind2 result of an earlier stream is void (A))
StreamStart(r) == [r EXCEPT !.c.smRes = FALSE, !.c.smEn = FALSE, !.c.b2Bound = IF "A" \in AsCode THEN @ ELSE FALSE]

\* handleStreamFeatures after authentication
AfterAuth(r, G, bindOffered) ==
    LET r1 == [r EXCEPT !.c.feat = G.csi, !.c.smAvail = G.sm, !.c.bindAvail = bindOffered] IN
    IF r1.c.smAvail /\ ~r1.c.smEn /\ r1.c.canRes THEN Emit([r1 EXCEPT !.c.phase = "Resuming"], E("SmResume"))
    ELSE IF bindOffered THEN Emit([r1 EXCEPT !.c.phase = "Binding"], E("BindRequest"))
    ELSE IF r1.c.smAvail /\ ~r1.c.smEn THEN Emit([r1 EXCEPT !.c.phase = "Enabling"], E("SmEnable"))
    ELSE OpenSession(r1)

(* ---------------------------------------------------------------------- *)
(* actions                                                                  *)
(* ---------------------------------------------------------------------- *)
Apply(r, ev) ==
    LET sb == SrvEvent(s, ev)
        s1 == SrvWrites(sb, r.out)
        cc == \E i \in DOMAIN r.sig : r.sig[i] = "credentialsChanged"
        d1 == s.dirty \/ r.c.tok # c.tok
    IN /\ c' = r.c
       /\ s' = [s1 EXCEPT !.rep = IF cc THEN r.c.tok ELSE @,
                          !.dirty = IF cc THEN FALSE ELSE d1,
                          !.flags = @ \cup StepFlags(sb, r.out, r.sig, d1)]
       /\ lastOut' = r.out
       /\ lastSig' = r.sig
       /\ hist' = Append(hist, ev)
       /\ UNCHANGED cfg

Init ==
    /\ cfg \in Cfgs
    /\ c = C0(cfg) /\ s = S0(cfg) /\ lastOut = <<>> /\ lastSig = <<>> /\ hist = <<>>

\* QXmppClient::connectToServer; the server answers the stream header with its header and features F
Connect(F) ==
    /\ c.phase = "Down" /\ c.conn < MaxConn
    /\ Apply(StartAuth(StreamStart(R0([c EXCEPT !.conn = @ + 1])), F), [k |-> "Connect", f |-> F])

\* SASL <success/>: the stream is restarted (handleStart)
AuthOk ==
    /\ c.phase = "Auth" /\ ~c.cur2
    /\ Apply(StreamStart(R0([c EXCEPT !.authed = TRUE, !.am2 = FALSE, !.phase = "Authed"])), [k |-> "AuthOk"])

\* SASL 2 <success/> with inline results: new token, resumption, bind2
AuthOk2(tk, res, bnd) ==
    /\ c.phase = "Auth" /\ c.cur2
    /\ tk => s.ntok <= MaxTok
    \* a protocol-conforming server answers exactly what was asked
    /\ (res # "none") <=> s.auth.res
    /\ res = "resumed" => (s.live /\ s.resumable)
    /\ (bnd # "none") <=> (s.auth.bind /\ res # "resumed")
    /\ bnd = "sm" => s.auth.sm
    /\ LET take == tk /\ (c.reqTok \/ c.tok # 0)       \* FastTokenManager::onSasl2Success
           r1 == R0([c EXCEPT !.authed = TRUE, !.am2 = TRUE, !.b2Bound = (bnd # "none"),
                              !.tok = IF take THEN s.ntok + 1 ELSE @,
                              !.tokChg = IF take THEN TRUE ELSE @])
           r2 == IF res = "resumed" THEN [r1 EXCEPT !.c.smRes = TRUE, !.c.smEn = TRUE] ELSE r1
           r3 == IF bnd = "sm" THEN [r2 EXCEPT !.c.smEn = TRUE, !.c.canRes = TRUE] ELSE r2
       IN Apply(IF res = "resumed" THEN OpenSession(r3) ELSE [r3 EXCEPT !.c.phase = "Authed"],
                [k |-> "AuthOk2", tk |-> tk, res |-> res, bnd |-> bnd])

\* <failure/> (not-authorized): error, disconnectFromHost; a rejected token is discarded (D)
AuthFail ==
    /\ c.phase = "Auth"
    /\ Apply(LocalClose(Signal(R0([c EXCEPT !.tok = IF c.usedHt /\ "D" \notin AsCode THEN 0 ELSE @,
                                             !.tokChg = IF c.usedHt /\ "D" \notin AsCode THEN TRUE ELSE @]), "error")),
             [k |-> "AuthFail"])

\* features after authentication; the server offers resource binding unless the stream is bound already
PostFeatures(G) ==
    /\ c.phase = "Authed"
    /\ Apply(AfterAuth(R0(c), G, ~s.att), [k |-> "PostFeatures", g |-> G])

Resumed ==
    /\ c.phase = "Resuming" /\ s.live /\ s.resumable
    /\ Apply(OpenSession(R0([c EXCEPT !.smRes = TRUE, !.smEn = TRUE])), [k |-> "Resumed"])

ResumeFailed ==
    /\ c.phase = "Resuming"
    /\ Apply(IF c.bindAvail THEN Emit(R0([c EXCEPT !.phase = "Binding"]), E("BindRequest")) ELSE OpenSession(R0(c)),
             [k |-> "ResumeFailed"])

BindOk ==
    /\ c.phase = "Binding"
    /\ Apply(IF c.smAvail /\ ~c.smEn THEN Emit(R0([c EXCEPT !.phase = "Enabling"]), E("SmEnable")) ELSE OpenSession(R0(c)),
             [k |-> "BindOk"])

Enabled(rs) ==
    /\ c.phase = "Enabling"
    /\ Apply(OpenSession(R0([c EXCEPT !.smEn = TRUE, !.canRes = rs])), [k |-> "Enabled", resume |-> rs])

EnableFailed ==
    /\ c.phase = "Enabling"
    /\ Apply(OpenSession(R0(c)), [k |-> "EnableFailed"])

\* QXmppClient::setActive
SetState(v) ==
    /\ Apply(IF c.app # v THEN SendState(R0([c EXCEPT !.app = v])) ELSE R0(c), [k |-> "SetState", v |-> v])

Cut ==
    /\ c.phase # "Down"
    /\ Apply(CloseDown(R0(c)), [k |-> "Cut"])

\* QXmppClient::disconnectFromServer
UserDisconnect ==
    /\ c.phase # "Down"
    /\ Apply(LocalClose(R0(c)), [k |-> "Disconnect"])

Next ==
    \/ \E F \in PreFeats : Connect(F)
    \/ AuthOk \/ AuthFail
    \/ \E tk \in BOOLEAN, res \in {"none", "resumed", "failed"}, bnd \in {"none", "plain", "sm"} : AuthOk2(tk, res, bnd)
    \/ \E G \in PostFeats : PostFeatures(G)
    \/ Resumed \/ ResumeFailed \/ BindOk \/ EnableFailed
    \/ \E rs \in BOOLEAN : Enabled(rs)
    \/ \E v \in CsiStates : SetState(v)
    \/ Cut \/ UserDisconnect

Spec == Init /\ [][Next]_vars

(* ---------------------------------------------------------------------- *)
(* properties                                                               *)
(* ---------------------------------------------------------------------- *)
TypeOK ==
    /\ cfg \in Cfgs
    /\ c.phase \in Phases /\ c.app \in CsiStates /\ c.tok \in 0..(MaxTok + 1) /\ c.conn \in 0..MaxConn
    /\ s.csi \in CsiStates /\ s.carb \in 0..3 /\ s.req \in {"none", "resume", "bind"} /\ s.pend \in {"none"} \cup CsiStates
    /\ (s.att => s.live) /\ (s.resumable => s.live)
    /\ \A i \in DOMAIN lastOut : lastOut[i].k \in Kinds

Up == c.phase = "Up"

\* (1) CSI: on an established, authenticated session on which the feature is offered the server
\*     believes what the application set -- after every session open and every setState
CsiAgree == P_CsiAgree(Up, c.authed, s, c.app)
\* (1b) what lets a resumed session skip the re-send: while the session can still be resumed,
\*      "synced" means the server's state of it is the application's
CsiSyncedSound == (c.phase = "Down" /\ c.canRes /\ c.synced /\ s.live) => s.csi = c.app
\* (2) carbons: exactly one request per session (inline or IQ), none when the extension is absent
CarbonsOnce == P_CarbonsOnce(Up, s, cfg.carb)
\* (3) FAST: whenever a session is open the application has been told about the stored token
TokenKnown == P_TokenKnown(Up, s, c.tok)
\* step predicates: nothing about CSI when not offered; no reuse of a rejected token;
\* credentialsChanged() only when justified
NoStepFlags == s.flags = {}
\* a token is requested / used exactly as configured (definitional in the model, judged in the trace)
P_Request(F, fastCfg, stored, e) == e.rtok = (F.s2 /\ F.fast /\ fastCfg /\ stored = 0)
P_Mechanism(F, fastCfg, stored, e) ==
    /\ (e.mech = "HT") = (F.s2 /\ F.fast /\ fastCfg /\ stored # 0)
    /\ e.mech = "HT" => (e.tok = stored /\ e.fast)
\* a token delivered in <success/> replaces the stored one iff one was requested or one is stored
P_Stored(requested, before, delivered, new, after) ==
    after = (IF delivered /\ (requested \/ before # 0) THEN new ELSE before)

Bound == Len(hist) <= MaxHist
\* State identity for model checking: hist / lastOut / lastSig are observations; a member is masked
\* in the phases in which it is dead (always written again before it is next read):
\*   cur2, usedHt, reqTok  are read only while the authentication request is outstanding,
\*   bindAvail             only when a <resume/> fails, smAvail only up to the bind result,
\*   am2                   only by the pinned code (deviation C).
NormC == [c EXCEPT !.am2 = ("C" \in AsCode /\ @),
                   !.cur2 = (c.phase = "Auth" /\ @),
                   !.usedHt = (c.phase = "Auth" /\ @),
                   !.reqTok = (c.phase = "Auth" /\ c.cur2 /\ @),
                   !.bindAvail = (c.phase = "Resuming" /\ @),
                   !.smAvail = (c.phase \in {"Resuming", "Binding"} /\ @)]
View  == <<cfg, NormC, s>>
=============================================================================
