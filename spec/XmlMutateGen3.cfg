\* three-step plans: without AddUnknownChild/AddKnownSibling (largest fan-out; 680 286 behaviours and 11 min with them).
\* Both are applied at every position as one-step moves and occur in the two-step plans.
SPECIFICATION Spec
CONSTANTS
  MaxMut = 3
  Depths = {1, 2, 3}
  Alphabet = {"DeleteChild", "DuplicateChild", "SwapSiblings", "MoveUnderSibling", "Renamespace", "Rename", "MoveText", "DropAttr", "EmptyAttr", "HugeAttr", "NegativeAttr", "NonNumericAttr", "UnknownEnum", "Nest"}
  MaxNodes = 12
ACTION_CONSTRAINT EmitBehaviour
CHECK_DEADLOCK FALSE
