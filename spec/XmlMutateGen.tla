---------------------------- MODULE XmlMutateGen ----------------------------
(* Behaviour export for XmlMutate: every generated transition writes the     *)
(* mutation sequence that leads to it.  Without a VIEW every path is a state: *)
(* all mutation sequences up to MaxMut (XmlMutateGen2.cfg / XmlMutateGen3.cfg).*)
EXTENDS XmlMutate, Json, CSV, IOUtils

EmitBehaviour ==
    CSVWrite("%1$s", <<ToJson([steps |-> hist'])>>, IOEnv.QXV_GEN)
=============================================================================
