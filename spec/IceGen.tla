------------------------------- MODULE IceGen -------------------------------
(* Behaviour export for Ice (transition tour).                              *)
(*                                                                          *)
(* Every transition TLC generates that changes the component's state writes *)
(* the path to its source state plus the step, the identities of source and *)
(* target state and whether a timer tick is pending in the target.  Steps   *)
(* that leave the state unchanged are self-loops; apart from the actions    *)
(* exported here they are exactly the datagrams of the alphabet `Datagrams` *)
(* (Recv(d) is enabled for every d in every state), so they are not written *)
(* one by one: the alphabet is exported once and lib/props/C15.py derives   *)
(* the self-loops of a state as alphabet minus the exported datagram steps  *)
(* out of that state, and packs them into one behaviour behind the shortest *)
(* path to the state (they are self-loops of the model, so the packed       *)
(* sequence is a behaviour of Ice).                                         *)
EXTENDS Ice, Json, CSV, IOUtils

\* replayable schedules: a pending timer tick is taken before any other step
Urgent == TickPending => Last.a = "Tick"

Sid(v) == ToString(v)

\* The bounds are applied here, after the transition has been written (`over`), and not as a state
\* CONSTRAINT: TLC does not evaluate action constraints on transitions into states outside a CONSTRAINT, and
\* a state-changing step that is not exported would be taken for a self-loop.
InBounds == Len(hist') <= MaxHist /\ ntx' <= MaxTx

EmitBehaviour ==
    /\ Urgent
    /\ IF mvars' = mvars THEN TRUE
       ELSE CSVWrite("%1$s", <<ToJson([ctl |-> ctl', from |-> Sid(mvars), to |-> Sid(mvars'),
                                       pend |-> TickPendingOf(started', active', remoteSet', pairs', ord'),
                                       over |-> ~InBounds, steps |-> hist'])>>, IOEnv.QXV_GEN)
    /\ InBounds
    \* the alphabet, once per role
    /\ IF Len(hist) = 0 /\ Last.a = "SetRemote"
       THEN CSVWrite("%1$s", <<ToJson([alphabet |-> Datagrams, ctl |-> ctl'])>>, IOEnv.QXV_GEN)
       ELSE TRUE
=============================================================================
