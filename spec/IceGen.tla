------------------------------- MODULE IceGen -------------------------------
(* Behaviour export for Ice (transition tour): every transition TLC         *)
(* generates writes the path to its source state plus the step, and whether *)
(* the step left the component's state unchanged (`loop`).  lib/props/C15.py*)
(* packs all no-effect steps of one state into one behaviour (they are      *)
(* self-loops of the model, so the packed sequence is a behaviour of Ice)   *)
(* and keeps the maximal ones of the rest.                                  *)
EXTENDS Ice, Json, CSV, IOUtils

\* replayable schedules: a pending timer tick is taken before any other step
Urgent == TickPending => Last.a = "Tick"

EmitBehaviour ==
    Urgent /\ CSVWrite("%1$s", <<ToJson([ctl |-> ctl', loop |-> (mvars' = mvars), steps |-> hist'])>>, IOEnv.QXV_GEN)
=============================================================================
