SPECIFICATION Spec
CONSTANTS
  Cats = {0, 2}
  Types = {1}
  Langs = {0, 1}
  Names = {0, 1}
  Feats = {0, 1, 2}
  FTypes = {1, 2}
  Vars = {1, 2}
  Vals = {0, 1}
  MaxIds = 2
  MaxFeats = 3
  MaxFields = 1
  MaxVals = 2
  MaxHist = 99
INVARIANTS TypeOK
PROPERTIES NeutralKeeps ChangeChanges SetsFollow
VIEW View
CHECK_DEADLOCK FALSE
