SPECIFICATION Spec
CONSTANTS
  Peers = {"p1", "p2"}
  Ress = {"r1"}
  PeerIds = {"lo1", "hi1"}
  Types = {"propose", "proceed", "retract", "finish"}
  Variants = {"plain"}
  Wfs = {"ok"}
  Modes = {"sm"}
  Kinds = {"Propose", "Proceed", "Retract", "Finish", "Recv", "Ack"}
  MaxJ = 2
  MaxP = 2
  MaxQ = 2
  MaxHist = 99
VIEW ViewS
ACTION_CONSTRAINT EmitBehaviour
CHECK_DEADLOCK FALSE
