SPECIFICATION TSpec
CONSTANTS
  Anns = {"both"}
  Devs = {"all", "short", "fail"}
  Sizes = {0}
  MaxFaults = 99
  FaultKinds = {"Flip", "Drop", "Dup", "Swap", "Cut"}
  Foreign = {"from", "res"}
  MaxHist = 999
INVARIANT Done
CHECK_DEADLOCK FALSE
