SPECIFICATION TSpec
CONSTANTS
  Anns = {"both"}
  Sizes = {0}
  MaxFaults = 99
  FaultKinds = {"Flip", "Drop", "Dup", "Swap", "Cut"}
  MaxHist = 999
INVARIANT Done
CHECK_DEADLOCK FALSE
