SPECIFICATION Spec
CONSTANTS
  Jids = {"c1", "c2"}
  Items <- ItemsTwo
  Ress = {"r1", "r2"}
  Froms = {"absent", "ownBare", "ownFull", "ownOther", "server", "stranger", "contact", "look1", "look2", "look3"}
  ConnKinds = {"plain", "sm", "smr", "resumed"}
  MaxReqs = 2
  MaxItems = 1
  MaxHist = 99
CONSTRAINT ReqBound
INVARIANTS TypeOK ViewIsRef PresIsLatest
PROPERTIES UnauthPush FreshSession
VIEW View
CHECK_DEADLOCK FALSE
