SPECIFICATION TSpec
CONSTANTS
  Peers = {1, 2, 3}
  MaxTx = 999
  MaxNonce = 999
  Lifetimes = {600, 1200, 3600}
  PwOk = {TRUE, FALSE}
  Shapes = {"honest", "othsrc", "stale", "deny", "norelay", "errnomi", "oknomi", "okbadmi", "errbadmi", "stalebadmi", "unkid", "wrongm", "dup"}
  InSrc = {"srv", "oth"}
  InLens = {"ok", "pad", "over"}
  Timers = TRUE
  MaxTries = 7
  Reconnect = TRUE
  MaxHist = 999
INVARIANT Done
CHECK_DEADLOCK FALSE
