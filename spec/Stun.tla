-------------------------------- MODULE Stun --------------------------------
(***************************************************************************)
(* STUN/TURN message codec of QXmpp (src/base/QXmppStun.cpp:523-991,        *)
(* QXmppStunMessage::encode / decode; RFC 5389 §6, §15; RFC 5766; RFC 5245).*)
(*                                                                          *)
(* The wire format is specified as a sequence of *cells*, one per byte:     *)
(*     0..255        a concrete byte                                        *)
(*     1001..1020    byte i of the MESSAGE-INTEGRITY value of this message  *)
(*     2001..2004    byte i of the FINGERPRINT value of this message        *)
(*     9999          a tampered symbolic byte (anything else)               *)
(* HMAC-SHA1 and CRC-32 are uninterpreted constructors: the message carries *)
(* the *term* the symbolic cells stand for,                                 *)
(*     mit = <<key, bytes the HMAC is computed over>>                       *)
(*     fpt = <<bytes the CRC is computed over, mit>>                        *)
(* and two terms are equal iff their arguments are (no collisions).  The    *)
(* interpretation (lib/refstun.py, used by trace validation) is             *)
(*     cell 1000+i  |->  hmac.new(key, bytes, sha1).digest()[i-1]           *)
(*     cell 2000+i  |->  (zlib.crc32(bytes) ^ 0x5354554e) big endian [i-1]  *)
(*                                                                          *)
(* A message is [type, id, a] with a = sequence of attributes in the order  *)
(* the codec writes them; an attribute is [n |-> name, b |-> value bytes,   *)
(* x |-> number] (x = port of an address, error code of ERROR-CODE).        *)
(*                                                                          *)
(* The state machine has one action per use of the codec: Encode, Decode    *)
(* under a key, Decode of a message with one flipped bit, the two public    *)
(* helpers.  C14 is stated as invariants over the result of the last call.  *)
(***************************************************************************)
EXTENDS Naturals, Sequences, FiniteSets, Bitwise, TLC

CONSTANTS Mode,        \* "rotate": (key length, fingerprint) is a function of (attribute subset, variant), except
                       \*           for the empty and the all-attributes messages; "product": every combination
          Variants,    \* subset of 0..5: value/length variant of every attribute
          KeyLens,     \* sequence of key lengths (0 = no key)
          AddrMode,    \* "on": the address-class cases (every address attribute x address class x port class) are part
                       \* of the case table; "off": only the six value variants
          TamperMode,  \* which cases get single-bit tampering at design level: "none" | "singles" | "all"
          TamperVariants,    \* variants that are tampered
          TamperAllVariants, \* in mode "singles": variants of the all-attributes messages that are tampered too
          HoldMode,    \* which cases get the receive-buffer life cycle after decoding: "none" | "singles" | "all"
          Aliased,     \* attributes whose decoded value refers to the receive buffer instead of being copied out
                       \* of it ({} = the intended decoder; StunAlias.cfg: {"Data"} = a "zero copy" decoder)
          HelperKeyMax,\* the public HMAC helper is called with keys of length 0..HelperKeyMax
          HelperTexts  \* ... and texts of these lengths

VARIABLES c,     \* the case: [sub, v, klen, fp]   (or the helper pseudo-case)
          w,     \* the encoded message: [c |-> cells, mit, fpt, mi, fp] (mi/fp = offsets, 0 = none)
          st,    \* "new" | "enc" | "done"
          q,     \* last query: [a |-> "Decode", key] | [a |-> "Tamper", pos, bit, key] | [a |-> "Hmac", kl, tl] | ...
          res,   \* its result: [dec |-> what Decode returned, fr |-> Frame of the bytes it was given]
          rb,    \* the receive buffer the held message was decoded from: "none" (nothing held) | "same" (still holds
                 \* the datagram) | "reused" (overwritten in place by another datagram) | "freed"
          held,  \* the decoded message as its holder stores it: attributes [n, x, b, ref]; ref = 0: b is a copy,
                 \* ref > 0: the value is the Len(b) cells of the receive buffer starting at cell ref
          obs,   \* what the holder read back last (Observe)
          hist

mvars == <<c, w, st, q, res, rb, held, obs>>
vars  == <<mvars, hist>>

(* ------------------------------------------------------------------------ *)
(* attribute table (codec order = order of QXmppStunMessage::encode)         *)
(* ------------------------------------------------------------------------ *)
AttrOrder == << "Mapped", "ChangeRequest", "Source", "Changed", "Other", "XorMapped", "XorPeer",
                "XorRelayed", "ErrorCode", "Priority", "UseCandidate", "ChannelNumber", "Data",
                "Lifetime", "Nonce", "Realm", "RequestedTransport", "ReservationToken", "Software",
                "Username", "IceControlling", "IceControlled" >>
AttrNames == {AttrOrder[i] : i \in 1..Len(AttrOrder)}
Idx(n) == CHOOSE i \in 1..Len(AttrOrder) : AttrOrder[i] = n

Code == [Mapped |-> 1, ChangeRequest |-> 3, Source |-> 4, Changed |-> 5, Other |-> 32812,
         XorMapped |-> 32, XorPeer |-> 18, XorRelayed |-> 22, ErrorCode |-> 9, Priority |-> 36,
         UseCandidate |-> 37, ChannelNumber |-> 12, Data |-> 19, Lifetime |-> 13, Nonce |-> 21,
         Realm |-> 20, RequestedTransport |-> 25, ReservationToken |-> 34, Software |-> 32802,
         Username |-> 6, IceControlling |-> 32810, IceControlled |-> 32809]
MiCode == 8
FpCode == 32808

Kind == [Mapped |-> "addr", ChangeRequest |-> "u32", Source |-> "addr", Changed |-> "addr", Other |-> "addr",
         XorMapped |-> "xaddr", XorPeer |-> "xaddr", XorRelayed |-> "xaddr", ErrorCode |-> "err",
         Priority |-> "u32", UseCandidate |-> "flag", ChannelNumber |-> "u16p", Data |-> "bytes",
         Lifetime |-> "u32", Nonce |-> "bytes", Realm |-> "bytes", RequestedTransport |-> "u8p",
         ReservationToken |-> "fix8", Software |-> "bytes", Username |-> "bytes",
         IceControlling |-> "fix8", IceControlled |-> "fix8"]

NameOfCode(t) == IF \E n \in AttrNames : Code[n] = t THEN CHOOSE n \in AttrNames : Code[n] = t ELSE ""

(* ------------------------------------------------------------------------ *)
(* bytes                                                                     *)
(* ------------------------------------------------------------------------ *)
IsByte(x)  == x < 256
AllBytes(s) == \A i \in 1..Len(s) : IsByte(s[i])
Be16(n)    == << n \div 256, n % 256 >>
U16(hi,lo) == hi * 256 + lo
Pad(n)     == (4 - (n % 4)) % 4
Zeros(n)   == [i \in 1..n |-> 0]
Magic      == <<33, 18, 164, 66>>          \* 0x2112A442
MagicHi    == 8466                         \* 0x2112
XorPad(id) == Magic \o id
XorSeq(s, p) == [i \in 1..Len(s) |-> s[i] ^^ p[i]]
SetLen(cells, n) == [cells EXCEPT ![3] = n \div 256, ![4] = n % 256]
MiCells == [i \in 1..20 |-> 1000 + i]
FpCells == [i \in 1..4 |-> 2000 + i]
Junk == 9999

(* ------------------------------------------------------------------------ *)
(* Encode                                                                    *)
(* ------------------------------------------------------------------------ *)
AttrVal(a, id) ==
    LET k == Kind[a.n] IN
    CASE k = "addr"  -> <<0, IF Len(a.b) = 4 THEN 1 ELSE 2>> \o Be16(a.x) \o a.b
      [] k = "xaddr" -> <<0, IF Len(a.b) = 4 THEN 1 ELSE 2>> \o Be16(a.x ^^ MagicHi) \o XorSeq(a.b, XorPad(id))
      [] k = "u16p"  -> a.b \o <<0, 0>>
      [] k = "u8p"   -> a.b \o <<0, 0, 0>>
      [] k = "err"   -> <<0, 0, a.x \div 100, a.x % 100>> \o a.b
      [] OTHER       -> a.b            \* u32, bytes, fix8, flag

Tlv(code, val) == Be16(code) \o Be16(Len(val)) \o val \o Zeros(Pad(Len(val)))

RECURSIVE EncAttrs(_, _, _)
EncAttrs(as, i, id) ==
    IF i > Len(as) THEN <<>> ELSE Tlv(Code[as[i].n], AttrVal(as[i], id)) \o EncAttrs(as, i + 1, id)

Header(type, len, id) == Be16(type) \o Be16(len) \o Magic \o id

\* key = "" : no MESSAGE-INTEGRITY.  The HMAC covers the message up to the attribute preceding
\* MESSAGE-INTEGRITY with the header length counting MESSAGE-INTEGRITY itself (RFC 5389 §15.4);
\* the CRC covers everything before FINGERPRINT with the length counting FINGERPRINT (§15.5).
Enc(m, key, fp) ==
    LET body == EncAttrs(m.a, 1, m.id)
        p0   == Header(m.type, Len(body), m.id) \o body
        pm   == SetLen(p0, Len(body) + 24)
        mit  == IF key # "" THEN <<key, pm>> ELSE <<>>
        p1   == IF key # "" THEN pm \o Be16(MiCode) \o Be16(20) \o MiCells ELSE p0
        pf   == SetLen(p1, Len(p1) - 20 + 8)
        fpt  == IF fp THEN <<pf, mit>> ELSE <<>>
        p2   == IF fp THEN pf \o Be16(FpCode) \o Be16(4) \o FpCells ELSE p1
    IN [c |-> p2, mit |-> mit, fpt |-> fpt,
        mi |-> IF key # "" THEN Len(p0) ELSE 0,                                  \* byte offsets, 0 = none
        fp |-> IF fp THEN Len(p1) ELSE 0]


(* ------------------------------------------------------------------------ *)
(* Framing: which attributes a byte string carries (strict TLV walk).        *)
(* Independent of Decode; the C14 predicates are stated with it.             *)
(*   st = "ok" | "bad" (not a well-framed STUN message) | "unk" (a symbolic   *)
(*   cell would have to be read as a number); mi / fp = byte offset of the   *)
(*   first MESSAGE-INTEGRITY before any FINGERPRINT / of the first           *)
(*   FINGERPRINT (0 = none).  Attributes after FINGERPRINT do not count.     *)
(* ------------------------------------------------------------------------ *)
RECURSIVE FrameWalk(_, _, _, _)
FrameWalk(cs, done, len, mi) ==
    IF done >= len THEN [st |-> "ok", mi |-> mi, fp |-> 0]
    ELSE IF done + 4 > len THEN [st |-> "bad", mi |-> 0, fp |-> 0]
    ELSE LET i == 20 + done + 1 IN
         IF ~(IsByte(cs[i]) /\ IsByte(cs[i+1]) /\ IsByte(cs[i+2]) /\ IsByte(cs[i+3]))
         THEN [st |-> "unk", mi |-> 0, fp |-> 0]
         ELSE LET ty == U16(cs[i], cs[i+1])
                  al == U16(cs[i+2], cs[i+3])
                  nx == done + 4 + al + Pad(al)
              IN IF nx > len THEN [st |-> "bad", mi |-> 0, fp |-> 0]
                 ELSE IF ty = FpCode THEN [st |-> "ok", mi |-> mi, fp |-> 20 + done]
                 ELSE FrameWalk(cs, nx, len, IF ty = MiCode /\ mi = 0 THEN 20 + done ELSE mi)

Frame(cs) ==
    IF Len(cs) < 20 THEN [st |-> "bad", mi |-> 0, fp |-> 0]
    ELSE IF ~(IsByte(cs[3]) /\ IsByte(cs[4])) THEN [st |-> "unk", mi |-> 0, fp |-> 0]
    ELSE IF U16(cs[3], cs[4]) # Len(cs) - 20 THEN [st |-> "bad", mi |-> 0, fp |-> 0]
    ELSE FrameWalk(cs, 0, Len(cs) - 20, 0)

\* the bytes MESSAGE-INTEGRITY at offset off protects / FINGERPRINT at offset off covers
MiInput(cs, off) == SetLen(SubSeq(cs, 1, off), off - 20 + 24)
FpInput(cs, off) == SetLen(SubSeq(cs, 1, off), off - 20 + 8)

\* symbolic reading of "the HMAC verifies" / "the CRC verifies"
HmacOk(x, off, key) == SubSeq(x.c, off + 5, off + 24) = MiCells /\ x.mit = <<key, MiInput(x.c, off)>>
CrcOk(x, off)       == SubSeq(x.c, off + 5, off + 8) = FpCells /\ x.fpt = <<FpInput(x.c, off), x.mit>>

(* ------------------------------------------------------------------------ *)
(* Decode (the algorithm of QXmppStunMessage::decode, with strict bounds)    *)
(* ------------------------------------------------------------------------ *)
Rej == [ok |-> "rej", type |-> 0, id |-> <<>>, a |-> <<>>]
Unk == [ok |-> "unk", type |-> 0, id |-> <<>>, a |-> <<>>]

\* value of a known attribute: [ok, at]
ParseAttr(n, val, id) ==
    LET k == Kind[n]
        al == Len(val)
        bad == [ok |-> "rej", at |-> <<>>]
        good(b, x) == [ok |-> "acc", at |-> [n |-> n, b |-> b, x |-> x]]
    IN
    CASE k \in {"addr", "xaddr"} ->
            IF al < 4 THEN bad
            ELSE IF ~IsByte(val[2]) THEN [ok |-> "unk", at |-> <<>>]
            ELSE LET port == IF k = "addr" THEN U16(val[3], val[4]) ELSE U16(val[3], val[4]) ^^ MagicHi
                     ip   == SubSeq(val, 5, al)
                 IN IF val[2] = 1 THEN (IF al # 8 THEN bad ELSE good(IF k = "addr" THEN ip ELSE XorSeq(ip, XorPad(id)), port))
                    ELSE IF val[2] = 2 THEN (IF al # 20 THEN bad ELSE good(IF k = "addr" THEN ip ELSE XorSeq(ip, XorPad(id)), port))
                    ELSE bad
      [] k = "u32"   -> IF al # 4 THEN bad ELSE good(val, 0)
      [] k = "u16p"  -> IF al # 4 THEN bad ELSE good(SubSeq(val, 1, 2), 0)
      [] k = "u8p"   -> IF al # 4 THEN bad ELSE good(SubSeq(val, 1, 1), 0)
      [] k = "fix8"  -> IF al # 8 THEN bad ELSE good(val, 0)
      [] k = "flag"  -> IF al # 0 THEN bad ELSE good(<<>>, 0)
      [] k = "err"   -> IF al < 4 THEN bad ELSE good(SubSeq(val, 5, al), val[3] * 100 + val[4])
      [] OTHER       -> good(val, 0)

RECURSIVE DecWalk(_, _, _, _, _, _)
DecWalk(x, key, done, len, acc, afterMi) ==
    LET cs == x.c IN
    IF done >= len THEN [ok |-> "acc", type |-> U16(cs[1], cs[2]), id |-> SubSeq(cs, 9, 20), a |-> acc]
    ELSE IF done + 4 > len THEN Rej
    ELSE LET i == 20 + done + 1 IN
         IF ~(IsByte(cs[i]) /\ IsByte(cs[i+1]) /\ IsByte(cs[i+2]) /\ IsByte(cs[i+3])) THEN Unk
         ELSE LET ty  == U16(cs[i], cs[i+1])
                  al  == U16(cs[i+2], cs[i+3])
                  nx  == done + 4 + al + Pad(al)
                  val == SubSeq(cs, i + 4, i + 3 + al)
                  off == 20 + done
                  n   == NameOfCode(ty)
              IN IF nx > len THEN Rej
                 \* only FINGERPRINT is looked at after MESSAGE-INTEGRITY
                 ELSE IF afterMi /\ ty # FpCode THEN DecWalk(x, key, nx, len, acc, TRUE)
                 ELSE IF ty = MiCode THEN
                        IF al # 20 THEN Rej
                        ELSE IF key # "" /\ ~HmacOk(x, off, key) THEN Rej
                        ELSE DecWalk(x, key, nx, len, acc, TRUE)
                 ELSE IF ty = FpCode THEN
                        IF al # 4 THEN Rej
                        ELSE IF CrcOk(x, off) THEN [ok |-> "acc", type |-> U16(cs[1], cs[2]), id |-> SubSeq(cs, 9, 20), a |-> acc]
                        ELSE Rej
                 ELSE IF n = "" THEN DecWalk(x, key, nx, len, acc, FALSE)      \* unknown attribute: skipped
                 ELSE LET p == ParseAttr(n, val, SubSeq(cs, 9, 20)) IN
                      IF p.ok = "rej" THEN Rej ELSE IF p.ok = "unk" THEN Unk ELSE DecWalk(x, key, nx, len, Append(acc, p.at), FALSE)

Dec(x, key) ==
    LET cs == x.c IN
    IF Len(cs) < 20 THEN Rej
    ELSE IF ~AllBytes(SubSeq(cs, 1, 20)) THEN Unk
    ELSE IF U16(cs[3], cs[4]) # Len(cs) - 20 THEN Rej
    ELSE DecWalk(x, key, 0, Len(cs) - 20, <<>>, FALSE)

(* ------------------------------------------------------------------------ *)
(* tampering: one flipped bit                                                *)
(* ------------------------------------------------------------------------ *)
Pow2 == <<1, 2, 4, 8, 16, 32, 64, 128>>
FlipCell(x, bit) == IF IsByte(x) THEN x ^^ Pow2[bit + 1] ELSE Junk
Flip(x, pos, bit) == [x EXCEPT !.c[pos] = FlipCell(x.c[pos], bit)]
Bits(x) == IF IsByte(x) THEN 0..7 ELSE {0}      \* all flips of a symbolic byte are the same junk

(* ------------------------------------------------------------------------ *)
(* the case table                                                            *)
(* ------------------------------------------------------------------------ *)
Singles == {{n} : n \in AttrNames}
Pairs   == {{n1, n2} : n1, n2 \in AttrNames} \ (Singles \cup {{"IceControlling", "IceControlled"}})
AllCg   == AttrNames \ {"IceControlled"}
AllCd   == AttrNames \ {"IceControlling"}
Subs    == {{}} \cup Singles \cup Pairs \cup {AllCg, AllCd}

RECURSIVE SumIdx(_)
SumIdx(S) == IF S = {} THEN 0 ELSE LET n == CHOOSE n \in S : TRUE IN Idx(n) + SumIdx(S \ {n})

\* value variants: every length mod 4 for every variable-length attribute, both address families,
\* numbers with the top bit set, a two-byte UTF-8 character in strings
Utf == <<195, 169, 97, 98, 99, 100>>
Str(n) == IF n = 1 THEN <<97>> ELSE SubSeq(Utf, 1, n)
StrLen(n, v) == (v + Idx(n)) % 6
DataLen(v)  == <<0, 1, 2, 3, 17, 32>>[v + 1]
NonceLen(v) == <<5, 0, 1, 2, 3, 4>>[v + 1]
Ip4(n, v) == <<192, 0, 2, Idx(n) + v>>
Ip6(n, v) == <<32, 1, 13, 184, 255, 254, 128, 0, 0, 0, 0, 0, 0, v, 200 + v, Idx(n)>>
\* Address classes of every address-valued attribute (RFC 5389 15.1/15.2: family 0x01 = 4 bytes, 0x02 = 16 bytes;
\* an IPv6 address is an IPv6 address whatever it embeds): the IPv4 corner values, and for IPv6 the unspecified and
\* loopback address, the forms that embed an IPv4 address (v4-mapped ::ffff:a.b.c.d, v4-compatible ::a.b.c.d, NAT64
\* 64:ff9b::a.b.c.d), link-local without and with a scope id (the scope id is not part of the 16 bytes: a STUN
\* attribute cannot carry it, the round trip is modulo scope), a global address, all ones.
Z(n) == [i \in 1..n |-> 0]
AddrClasses == <<
    <<0, 0, 0, 0>>, <<127, 0, 0, 1>>, <<192, 0, 2, 1>>, <<255, 255, 255, 255>>,
    Z(16), Z(15) \o <<1>>, Z(10) \o <<255, 255, 192, 0, 2, 1>>, Z(12) \o <<192, 0, 2, 1>>,
    <<0, 100, 255, 155>> \o Z(8) \o <<192, 0, 2, 1>>, <<254, 128>> \o Z(13) \o <<1>>, <<254, 128>> \o Z(13) \o <<1>>,
    <<32, 1, 13, 184>> \o Z(11) \o <<1>>, [i \in 1..16 |-> 255] >>
ScopedClass == 11                                 \* the second fe80::1 is set with a scope id
\* ports: 0 (the library's "attribute not set": addAddress() writes nothing), 1, 0x2112 (XOR-ed with the top half of
\* the magic cookie it is 0 on the wire), 65535
PortClasses == <<0, 1, 8466, 65535>>
NAC == Len(AddrClasses)
NPC == Len(PortClasses)
ErrCodes == <<300, 401, 420, 437, 438, 699>>
Types == <<1, 257, 273, 3, 17, 260>>
IdOf(v) == [i \in 1..12 |-> (i * 21 + v * 40 + 7) % 256]

\* in an address-class case (ac > 0) a lone address attribute gets class ac / port class pc, several rotate from there
ClassFor(n, cs) == IF Cardinality(cs.sub) = 1 THEN cs.ac ELSE ((cs.ac + Idx(n)) % NAC) + 1
PortFor(n, cs)  == IF Cardinality(cs.sub) = 1 THEN cs.pc ELSE ((cs.pc + Idx(n)) % NPC) + 1

AttrOf(n, cs) ==
    LET k == Kind[n]
        v == cs.v
    IN
    CASE k \in {"addr", "xaddr"} /\ cs.ac > 0 ->
            [n |-> n, b |-> AddrClasses[ClassFor(n, cs)], x |-> PortClasses[PortFor(n, cs)]]
      [] k \in {"addr", "xaddr"} ->
            [n |-> n, b |-> IF (v + Idx(n)) % 2 = 0 THEN Ip4(n, v) ELSE Ip6(n, v), x |-> 1024 + 4099 * v + Idx(n)]
      [] k = "u32"  -> [n |-> n, b |-> IF v = 5 THEN <<255, 255, 255, 255>> ELSE <<110 + 20 * v + Idx(n), v, 255, 254 - v>>, x |-> 0]
      [] k = "u16p" -> [n |-> n, b |-> <<64 + v, 255 - v>>, x |-> 0]
      [] k = "u8p"  -> [n |-> n, b |-> <<17 + 40 * v>>, x |-> 0]
      [] k = "fix8" -> [n |-> n, b |-> [i \in 1..8 |-> (251 - 31 * i + v + Idx(n)) % 256], x |-> 0]
      [] k = "flag" -> [n |-> n, b |-> <<>>, x |-> 0]
      [] k = "err"  -> [n |-> n, b |-> Str(StrLen(n, v)), x |-> ErrCodes[v + 1]]
      [] n = "Data" -> [n |-> n, b |-> [i \in 1..DataLen(v) |-> (i * 37 + v) % 256], x |-> 0]
      [] n = "Nonce" -> [n |-> n, b |-> [i \in 1..NonceLen(v) |-> 48 + ((i + v) % 10)], x |-> 0]
      [] OTHER      -> [n |-> n, b |-> Str(StrLen(n, v)), x |-> 0]      \* Realm, Software, Username (UTF-8)

\* what the application sets (MsgSet) and the message that is thereby built (Msg): an address attribute with port 0
\* is "not set" for the library and is not part of the message
Carried(a) == ~(Kind[a.n] \in {"addr", "xaddr"} /\ a.x = 0)
RECURSIVE AttrsOf(_, _, _)
AttrsOf(cs, i, all) ==
    IF i > Len(AttrOrder) THEN <<>>
    ELSE (IF AttrOrder[i] \in cs.sub /\ (all \/ Carried(AttrOf(AttrOrder[i], cs))) THEN <<AttrOf(AttrOrder[i], cs)>> ELSE <<>>)
         \o AttrsOf(cs, i + 1, all)

Msg(cs)    == [type |-> Types[cs.v + 1], id |-> IdOf(cs.v), a |-> AttrsOf(cs, 1, FALSE)]
MsgSet(cs) == [type |-> Types[cs.v + 1], id |-> IdOf(cs.v), a |-> AttrsOf(cs, 1, TRUE)]
Scoped(cs) == [i \in 1..Len(MsgSet(cs).a) |-> cs.ac > 0 /\ Kind[MsgSet(cs).a[i].n] \in {"addr", "xaddr"}
                                               /\ ClassFor(MsgSet(cs).a[i].n, cs) = ScopedClass]
KeyOf(cs) == IF cs.klen = 0 THEN "" ELSE "k"
Wire(cs) == Enc(Msg(cs), KeyOf(cs), cs.fp)
NoWire == [c |-> <<>>, mit |-> <<>>, fpt |-> <<>>, mi |-> 0, fp |-> 0]

KeyLensAll == <<0, 1, 20, 63, 64, 65, 128, 300>>       \* cfg: KeyLens <- KeyLensAll
NK == Len(KeyLens)
KeySet == {KeyLens[i] : i \in 1..NK}
Rot(sub, v) == (SumIdx(sub) + 3 * v) % (2 * NK)
AddrAttrs == {n \in AttrNames : Kind[n] \in {"addr", "xaddr"}}
AddrSubs  == {{n} : n \in AddrAttrs} \cup {AddrAttrs}
\* address-class cases: each address attribute alone and all seven together x address class x port class; the
\* variant (message type, transaction id = XOR pad) follows from the classes, the key length does not matter
\* (none / 20 bytes), fingerprint on/off
AddrCases ==
    IF AddrMode # "on" THEN {}
    ELSE {cs \in [sub : AddrSubs, v : Variants, klen : {0, 20}, fp : BOOLEAN, ac : 1..NAC, pc : 1..NPC] :
            cs.v = (cs.ac + cs.pc) % 6}
Cases ==
    {[sub |-> s, v |-> v, klen |-> kl, fp |-> f, ac |-> 0, pc |-> 0] : s \in Subs, v \in Variants, kl \in KeySet, f \in BOOLEAN}
    \cup AddrCases
InSpace(cs) ==
    \/ Mode = "product"
    \/ cs.ac = 0 /\ cs.sub \in {{}, AllCg, AllCd}
    \/ cs.ac = 0 /\ LET r == Rot(cs.sub, cs.v) IN cs.klen = KeyLens[(r % NK) + 1] /\ cs.fp = (r >= NK)
    \/ cs.ac > 0 /\ LET r == (cs.ac + 2 * cs.pc + SumIdx(cs.sub)) % 4 IN cs.klen = (IF r % 2 = 0 THEN 0 ELSE 20) /\ cs.fp = (r >= 2)

Tamperable(cs) ==
    /\ cs.klen \in {0, 20}      \* the key length is immaterial for the symbolic HMAC
    /\ cs.ac = 0
    /\ cs.v \in TamperVariants
    /\ CASE TamperMode = "none"    -> FALSE
         [] TamperMode = "singles" -> cs.sub \in Singles \cup {{}} \/ (cs.sub \in {AllCg, AllCd} /\ cs.v \in TamperAllVariants)
         [] OTHER                  -> TRUE

(* ------------------------------------------------------------------------ *)
(* actions                                                                   *)
(* ------------------------------------------------------------------------ *)
NoQ == [a |-> "none"]
NoFrame == [st |-> "bad", mi |-> 0, fp |-> 0]
NoRes == [dec |-> [ok |-> "none"], fr |-> NoFrame]
Helper == [sub |-> {}, v |-> 0, klen |-> 0, fp |-> FALSE, ac |-> 0, pc |-> 0, helper |-> TRUE]
AsCase(cs) == [sub |-> cs.sub, v |-> cs.v, klen |-> cs.klen, fp |-> cs.fp, ac |-> cs.ac, pc |-> cs.pc, helper |-> FALSE]

NoObs == [type |-> 0, id |-> <<>>, a |-> <<>>]
Holdable(cs) ==
    CASE HoldMode = "none"    -> FALSE
      [] HoldMode = "singles" -> cs.sub \notin Pairs /\ cs.ac = 0
      [] OTHER                -> TRUE

Init ==
    /\ c \in {AsCase(cs) : cs \in {x \in Cases : InSpace(x) \/ Tamperable(x)}} \cup {Helper}
    /\ w = NoWire /\ st = "new" /\ q = NoQ /\ res = NoRes /\ hist = <<>>
    /\ rb = "none" /\ held = <<>> /\ obs = NoObs

Log(r) == hist' = Append(hist, r)
IsCase == ~c.helper

Encode ==
    /\ IsCase /\ st = "new"
    /\ st' = "enc"
    /\ w' = Wire(c)
    /\ Log([a |-> "Encode"])
    /\ UNCHANGED <<c, q, res, rb, held, obs>>

\* keys a decoder may try: the sender's, another one, none (no verification requested)
DecKeys == {"same", "other", "none"}
KeyName(cs, k) == CASE k = "same" -> KeyOf(cs) [] k = "other" -> "o" [] OTHER -> ""

\* The decoded message outlives the datagram: its holder keeps it while the receive buffer it was decoded
\* from is refilled with the next datagram or destroyed (QXmppUdpTransport::readyRead and
\* QXmppTurnAllocation::readyRead reuse one QByteArray per socket).  ValOff(m, i) = first cell of the value
\* of the i-th attribute in Enc(m, ..).c.
RECURSIVE ValOff(_, _)
ValOff(m, i) == IF i = 1 THEN 25 ELSE ValOff(m, i - 1) + Len(Tlv(Code[m.a[i-1].n], AttrVal(m.a[i-1], m.id)))
HeldOf(m) == [i \in 1..Len(m.a) |->
                [n |-> m.a[i].n, x |-> m.a[i].x, b |-> m.a[i].b,
                 ref |-> IF m.a[i].n \in Aliased /\ Kind[m.a[i].n] \in {"bytes", "fix8", "u32"} THEN ValOff(m, i) ELSE 0]]
\* the buffer after the next datagram (any other bytes of the same size) was written into it
Refilled(cells) == [i \in 1..Len(cells) |-> IF IsByte(cells[i]) THEN 255 - cells[i] ELSE Junk]
Content == CASE rb = "same" -> w.c [] rb = "reused" -> Refilled(w.c) [] OTHER -> <<>>
ReadBack(h) ==
    IF h.ref = 0 THEN h.b
    ELSE IF rb = "freed" THEN [i \in 1..Len(h.b) |-> Junk]        \* whatever is in freed memory
    ELSE SubSeq(Content, h.ref, h.ref + Len(h.b) - 1)

\* (the effect is separate from the guard: StunTrace replays several queries on one encoded message)
DecodeEff(k) ==
    /\ st' = "done"
    /\ q' = [a |-> "Decode", key |-> k]
    /\ LET d == Dec(w, KeyName(c, k))
           keep == k = "same" /\ Holdable(c) /\ d.ok = "acc" /\ [type |-> d.type, id |-> d.id, a |-> d.a] = Msg(c)
       IN /\ res' = [dec |-> d, fr |-> Frame(w.c)]
          /\ rb' = IF keep THEN "same" ELSE "none"
          /\ held' = IF keep THEN HeldOf(Msg(c)) ELSE <<>>
    /\ obs' = NoObs
    /\ Log([a |-> "Decode", key |-> k])
    /\ UNCHANGED <<c, w>>
Decode(k) == IsCase /\ st = "enc" /\ DecodeEff(k)

\* the life cycle of the receive buffer while a decoded message is held: refilled in place, then read back;
\* destroyed, then read back (two schedules: Decode Reuse Observe Free Observe, Decode Free Observe)
ReuseBuffer ==
    /\ IsCase /\ st = "done" /\ rb = "same" /\ q.a = "Decode"
    /\ rb' = "reused"
    /\ q' = [a |-> "ReuseBuffer"]
    /\ Log([a |-> "ReuseBuffer"])
    /\ UNCHANGED <<c, w, st, res, held, obs>>
FreeBuffer ==
    /\ IsCase /\ st = "done" /\ rb \in {"same", "reused"} /\ q.a \in {"Decode", "Observe"}
    /\ rb' = "freed"
    /\ q' = [a |-> "FreeBuffer"]
    /\ Log([a |-> "FreeBuffer"])
    /\ UNCHANGED <<c, w, st, res, held, obs>>
Observe ==
    /\ IsCase /\ st = "done" /\ rb # "none" /\ q.a \in {"ReuseBuffer", "FreeBuffer"}
    /\ q' = [a |-> "Observe"]
    /\ obs' = [type |-> res.dec.type, id |-> res.dec.id,
               a |-> [i \in 1..Len(held) |-> [n |-> held[i].n, b |-> ReadBack(held[i]), x |-> held[i].x]]]
    /\ Log([a |-> "Observe"])
    /\ UNCHANGED <<c, w, st, res, rb, held>>

Tamper(pos, bit, k) ==
    /\ st' = "done"
    /\ q' = [a |-> "Tamper", pos |-> pos, bit |-> bit, key |-> k]
    /\ LET x == Flip(w, pos, bit) IN res' = [dec |-> Dec(x, KeyName(c, k)), fr |-> Frame(x.c)]
    /\ Log([a |-> "Tamper", pos |-> pos, bit |-> bit, key |-> k])
    /\ UNCHANGED <<c, w, rb, held, obs>>

\* the public helpers QXmppUtils::generateHmacSha1 / generateCrc32: by definition the constructors
HelperHmac(kl, tl) ==
    /\ ~IsCase /\ st = "new"
    /\ st' = "done"
    /\ q' = [a |-> "Hmac", kl |-> kl, tl |-> tl]
    /\ res' = [dec |-> [ok |-> "term", f |-> "hmac-sha1", kl |-> kl, tl |-> tl], fr |-> NoFrame]
    /\ Log([a |-> "Hmac", kl |-> kl, tl |-> tl])
    /\ UNCHANGED <<c, w, rb, held, obs>>
HelperCrc(tl) ==
    /\ ~IsCase /\ st = "new"
    /\ st' = "done"
    /\ q' = [a |-> "Crc", tl |-> tl]
    /\ res' = [dec |-> [ok |-> "term", f |-> "crc32", kl |-> 0, tl |-> tl], fr |-> NoFrame]
    /\ Log([a |-> "Crc", tl |-> tl])
    /\ UNCHANGED <<c, w, rb, held, obs>>

Next ==
    \/ Encode
    \/ \E k \in DecKeys : Decode(k)
    \/ ReuseBuffer \/ FreeBuffer \/ Observe
    \/ /\ IsCase /\ st = "enc" /\ Tamperable(c)
       /\ \E pos \in 1..Len(w.c) : \E bit \in Bits(w.c[pos]) : Tamper(pos, bit, "same")
    \/ \E kl \in 0..HelperKeyMax : \E tl \in HelperTexts : HelperHmac(kl, tl)
    \/ \E tl \in HelperTexts : HelperCrc(tl)

Spec == Init /\ [][Next]_vars

(* ------------------------------------------------------------------------ *)
(* C14 — predicates over observables (StunTrace evaluates the same ones on   *)
(* what the implementation reported, with HmacOk/CrcOk read through the      *)
(* reference interpretation)                                                 *)
(* ------------------------------------------------------------------------ *)
\* accepted under a key, and the bytes carry MESSAGE-INTEGRITY  =>  the HMAC verifies under that key
P_Integrity(accepted, keyed, fr, hmacok) == (accepted /\ keyed /\ fr.st = "ok" /\ fr.mi > 0) => hmacok
\* accepted, and the bytes carry FINGERPRINT  =>  the CRC verifies
P_Fingerprint(accepted, fr, crcok) == (accepted /\ fr.st = "ok" /\ fr.fp > 0) => crcok
\* what was built comes back
P_RoundTrip(accepted, same) == accepted /\ same
\* A corrupted copy of a message that carried MESSAGE-INTEGRITY (FINGERPRINT) is accepted only if the
\* corruption turned it into a well-framed message that no longer carries the attribute (fr = Frame of the
\* corrupted bytes).  The format cannot exclude the latter -- a flipped attribute-length bit can make one
\* attribute swallow the rest of the message, a flipped type bit renames MESSAGE-INTEGRITY -- and Dec below
\* accepts those too; refusing a message *without* integrity is the receiver's business (C15).  What it
\* does exclude: acceptance of bytes that are not well framed, or that still carry the attribute.
P_CorruptMi(accepted, fr) == accepted => (fr.st = "ok" /\ fr.mi = 0)
P_CorruptFp(accepted, fr) == accepted => (fr.st = "ok" /\ fr.fp = 0)

\* a decoded message's attribute values never change after decode, whatever happens to the datagram buffer
P_Stable(readback, decoded) == readback = decoded

Queried == st = "done" /\ IsCase /\ q.a \in {"Decode", "Tamper"}
TheWire == IF q.a = "Tamper" THEN Flip(w, q.pos, q.bit) ELSE w
TheKey  == KeyName(c, q.key)

Integrity ==
    Queried => LET fr == res.fr IN
               P_Integrity(res.dec.ok = "acc", TheKey # "", fr, fr.st = "ok" /\ fr.mi > 0 /\ HmacOk(TheWire, fr.mi, TheKey))
Fingerprint ==
    Queried => LET fr == res.fr IN
               P_Fingerprint(res.dec.ok = "acc", fr, fr.st = "ok" /\ fr.fp > 0 /\ CrcOk(TheWire, fr.fp))
RoundTrip ==
    (Queried /\ q.a = "Decode" /\ q.key \in {"same", "none"}) =>
        P_RoundTrip(res.dec.ok = "acc", [type |-> res.dec.type, id |-> res.dec.id, a |-> res.dec.a] = Msg(c))
OtherKeyRejected ==
    (Queried /\ q.a = "Decode" /\ q.key = "other" /\ c.klen > 0) => res.dec.ok = "rej"
\* the sentence of the property: a flipped bit in the protected bytes (the message up to and including
\* the MESSAGE-INTEGRITY value) makes decoding under the key fail
ProtectedFlipRejected ==
    (Queried /\ q.a = "Tamper" /\ q.key = "same" /\ c.klen > 0 /\ q.pos <= w.mi + 24) =>
        P_CorruptMi(res.dec.ok = "acc", res.fr)
\* ... and a flipped bit anywhere in a message that ends with FINGERPRINT
CoveredFlipRejected ==
    (Queried /\ q.a = "Tamper" /\ c.fp) => P_CorruptFp(res.dec.ok = "acc", res.fr)
\* (not an invariant; `StunReframe.cfg` lists it to make TLC exhibit a corruption that is accepted
\* because the message no longer carries MESSAGE-INTEGRITY: the reason P_CorruptMi is not "rejected")
NoReframing ==
    (Queried /\ q.a = "Tamper" /\ q.key = "same" /\ c.klen > 0 /\ q.pos <= w.mi) => res.dec.ok # "acc"
ValueStable == (IsCase /\ q.a = "Observe") => P_Stable(obs, Msg(c))
\* the encoder's own output is well framed and carries what was asked for
EncodedFrame ==
    (st = "enc") => LET fr == Frame(w.c) IN
        /\ fr.st = "ok" /\ fr.mi = w.mi /\ fr.fp = w.fp
        /\ (c.klen > 0) = (w.mi > 0) /\ c.fp = (w.fp > 0)
        /\ Len(w.c) % 4 = 0

TypeOK ==
    /\ st \in {"new", "enc", "done"}
    /\ res.dec.ok \in {"none", "acc", "rej", "unk", "term"}
    /\ rb \in {"none", "same", "reused", "freed"}

View == mvars
=============================================================================
