SPECIFICATION Spec
CONSTANTS
  MaxId = 3
  MaxH = 2
  MaxConn = 2
  MaxRecv = 1
  MaxHist = 4
CONSTRAINT Bound
ACTION_CONSTRAINT EmitBehaviour
CHECK_DEADLOCK FALSE
