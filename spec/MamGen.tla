------------------------------- MODULE MamGen -------------------------------
(* Behaviour export for Mam (lib/vf.py: tlc_gen / tlc_simulate).             *)
(* VIEW View (MamGenTour*.cfg): transition tour -- every transition of the   *)
(* bounded model reached by a shortest path.  Without VIEW and with          *)
(* CONSTRAINT Bound (MamGenAll*.cfg): every event sequence up to MaxHist.    *)
(* SimSpec (MamGenSim*.cfg, -simulate): one disjunct per kind of event with  *)
(* randomly drawn arguments.                                                 *)
EXTENDS Mam, Json, CSV, IOUtils

CONSTANT MaxHist

EmitBehaviour ==
    CSVWrite("%1$s", <<ToJson([steps |-> hist', e2ee |-> E2ee, moves |-> (st' # st \/ out' # O0)])>>, IOEnv.QXV_GEN)
Bound == Len(hist) <= MaxHist

\* mentions a variable so that TLC does not evaluate the draw once as a constant expression
Rnd(S) == RandomElement({x \in S : Len(hist) >= 0})
Weight(k) == IF k = "Result" THEN 5 ELSE IF k \in {"Query", "Fin", "Decrypt"} THEN 2 ELSE 1
SimNext ==
    \E k \in Kinds : \E w \in 1..Weight(k) :
        LET S == {e \in EventsAt(st) : e.a = k /\ Enabled(st, e)} IN S # {} /\ Apply(Rnd(S))
SimSpec == Init /\ [][SimNext]_vars
=============================================================================
