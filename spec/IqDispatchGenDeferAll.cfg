SPECIFICATION Spec
CONSTANTS
  Types = {}
  Payloads = {"version"}
  Froms = {"Contact"}
  ExtSets = {"all"}
  IdKinds = {"fresh"}
  Peers = {}
  Deferred = TRUE
  MaxHosts = 2
  MaxHist = 9
CONSTRAINT Bound
ACTION_CONSTRAINT EmitBehaviour
CHECK_DEADLOCK FALSE
