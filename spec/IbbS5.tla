------------------------------- MODULE IbbS5 -------------------------------
(***************************************************************************)
(* The data phase of a SOCKS5 bytestream transfer (XEP-0065, direct        *)
(* connection) as QXmppTransferOutgoingJob / QXmppTransferIncomingJob run  *)
(* it: after the negotiation (Start: SI offer and answer, stream host       *)
(* offer, SOCKS5 connect, streamhost-used) the sender writes the file into  *)
(* the connection (_q_sendData), reports NoError and closes when everything *)
(* is written; the receiver appends what it reads (_q_receiveData),        *)
(* verifies size and hash (checkData) as soon as it has the announced size  *)
(* or when the connection ends (_q_disconnected).  There are no sequence    *)
(* numbers: integrity rests on the final size + hash verification alone.    *)
(*                                                                         *)
(* The file is n units (unit k has payload k, an altered unit 0); `wire` is *)
(* what is in flight, "fin" the end of the connection.  The proxy on the    *)
(* path may damage the unit at the head of the wire: Flip, Drop, Dup, Swap  *)
(* (with the unit behind it), Cut (the connection breaks: that unit and     *)
(* everything behind it is lost).  A duplicate of the *last* unit is not a  *)
(* fault of the model: the receiver already holds the complete file when    *)
(* the extra bytes arrive and has finished (trailing bytes after a complete *)
(* transfer are not claimed by C19's check).                                *)
(*                                                                         *)
(* `ann`: what the offer announced (size and hash, one of them, nothing;    *)
(* a size of 0 means "not announced").  Without an announced size the      *)
(* receiver learns the end of the data from the end of the connection and  *)
(* the sender from the end of its device.                                  *)
(* Intended behaviour; in particular an empty file (n = 0) completes.       *)
(***************************************************************************)
EXTENDS Naturals, Sequences, TLC

CONSTANTS Sizes, Anns, Devs, MaxFaults, FaultKinds, Foreign, MaxHist

VARIABLES n, ann, dev, devAt, hsh, nw, fk, sState, sErr, sent, rState, rErr, got, wire, conn, nf, hist

mvars == <<n, ann, dev, devAt, hsh, nw, fk, sState, sErr, sent, rState, rErr, got, wire, conn, nf>>
vars  == <<mvars, hist>>

FIN == 99999
File(k) == [i \in 1..k |-> i]
S5Faults == {"Flip", "Drop", "Dup", "Swap", "Cut"}

AnnSize(a) == a \in {"both", "size"}
AnnHash(a) == a \in {"both", "hash"}

Init ==
    /\ n \in Sizes /\ ann \in Anns /\ fk = "none"
    \* the receiving application's output device (as in Ibb): accepts everything, or at its devAt-th
    \* write accepts only part of what it is given (and says so, no error), or fails (-1)
    /\ dev \in Devs /\ devAt \in (IF dev = "all" THEN {0} ELSE {1}) /\ hsh = <<>> /\ nw = 0
    /\ sState = "Idle" /\ sErr = "NoError" /\ sent = 0
    /\ rState = "None" /\ rErr = "NoError" /\ got = <<>>
    /\ wire = <<>> /\ conn = "none" /\ nf = 0 /\ hist = <<>>

Log(r) == hist' = Append(hist, r)

Start ==
    /\ sState = "Idle"
    /\ sState' = "Transfer" /\ rState' = "Transfer" /\ conn' = "open"
    /\ Log([a |-> "Start"])
    /\ UNCHANGED <<n, ann, dev, devAt, fk, sErr, sent, rErr, got, hsh, nw, wire, nf>>

SWrite ==
    /\ sState = "Transfer" /\ conn = "open" /\ sent < n
    /\ wire' = Append(wire, sent + 1) /\ sent' = sent + 1
    /\ Log([a |-> "SWrite"])
    /\ UNCHANGED <<n, ann, dev, devAt, fk, sState, sErr, rState, rErr, got, hsh, nw, conn, nf>>

\* everything written (also: nothing to write): success, close the connection
SDone ==
    /\ sState = "Transfer" /\ conn = "open" /\ sent = n
    /\ sState' = "Finished" /\ sErr' = "NoError" /\ wire' = Append(wire, FIN) /\ conn' = "closed"
    /\ Log([a |-> "SDone"])
    /\ UNCHANGED <<n, ann, dev, devAt, fk, sent, rState, rErr, got, hsh, nw, nf>>

\* the sender notices that the connection broke
SDisc ==
    /\ sState = "Transfer" /\ conn = "cut"
    /\ sState' = "Finished" /\ sErr' = (IF AnnSize(ann) /\ n > 0 /\ sent # n THEN "Protocol" ELSE "NoError")
    /\ Log([a |-> "SDisc"])
    /\ UNCHANGED <<n, ann, dev, devAt, fk, sent, rState, rErr, got, hsh, nw, wire, conn, nf>>

\* checkData: compares what the offer announced (`ann`: size and/or hash; a size of 0 = none)
\* the size counter advances by what the device accepted, the hash is over what was received
ShortBy(w) == dev = "short" /\ w >= devAt
Check(g, h, w) == IF /\ (AnnSize(ann) /\ n > 0) => (Len(g) = n /\ ~ShortBy(w))
                     /\ AnnHash(ann) => h = File(n)
                  THEN "NoError" ELSE "FileCorrupt"

RRead ==
    /\ wire # <<>> /\ Head(wire) # FIN
    /\ wire' = Tail(wire)
    /\ IF rState = "Transfer"
       THEN LET bad == dev # "all" /\ nw + 1 = devAt
                g == IF ~bad THEN Append(got, Head(wire)) ELSE IF dev = "short" THEN Append(got, 0) ELSE got
                h == IF bad /\ dev = "fail" THEN hsh ELSE Append(hsh, Head(wire)) IN
            /\ got' = g /\ hsh' = h /\ nw' = nw + 1
            /\ IF AnnSize(ann) /\ n > 0 /\ Len(g) >= n /\ ~ShortBy(nw + 1)     \* the announced size is there
               THEN rState' = "Finished" /\ rErr' = Check(g, h, nw + 1)
               ELSE UNCHANGED <<rState, rErr>>
       ELSE UNCHANGED <<got, hsh, nw, rState, rErr>>      \* finished: what still arrives is ignored
    /\ Log([a |-> "RRead"])
    /\ UNCHANGED <<n, ann, dev, devAt, fk, sState, sErr, sent, conn, nf>>

RDisc ==
    /\ wire # <<>> /\ Head(wire) = FIN
    /\ wire' = Tail(wire)
    /\ IF rState = "Transfer" THEN rState' = "Finished" /\ rErr' = Check(got, hsh, nw) ELSE UNCHANGED <<rState, rErr>>
    /\ Log([a |-> "RDisc"])
    /\ UNCHANGED <<n, ann, dev, devAt, fk, sState, sErr, sent, got, hsh, nw, conn, nf>>

Fault(k) ==
    /\ nf < MaxFaults /\ k \in S5Faults
    /\ wire # <<>> /\ Head(wire) # FIN /\ conn \in {"open", "closed"}
    /\ LET h == Head(wire)  rest == Tail(wire) IN
       CASE k = "Flip" -> wire' = <<0>> \o rest /\ UNCHANGED conn
         [] k = "Drop" -> wire' = rest /\ UNCHANGED conn
         [] k = "Dup"  -> h # n /\ wire' = <<h>> \o wire /\ UNCHANGED conn
         [] k = "Swap" -> /\ rest # <<>> /\ Head(rest) # FIN
                          /\ wire' = <<Head(rest), h>> \o Tail(rest) /\ UNCHANGED conn
         [] k = "Cut"  -> wire' = <<FIN>> /\ conn' = "cut"
    /\ nf' = nf + 1 /\ fk' = k
    /\ Log([a |-> "Fault", k |-> k, u |-> Head(wire)])
    /\ UNCHANGED <<n, ann, dev, devAt, sState, sErr, sent, rState, rErr, got, hsh, nw>>

\* during the negotiation: the stream host offer (right session id) from a foreign full JID -- a
\* stranger ("from") or another resource of the sender's account ("res").  The job is found by full
\* JID and session id: refused, nothing changes, nobody connects to the host it names.
ForeignOffer(w) ==
    /\ w \in {"from", "res"} /\ \A i \in 1..Len(hist) : hist[i].a # "ForeignOffer"     \* once per behaviour
    /\ Log([a |-> "ForeignOffer", w |-> w])
    /\ UNCHANGED mvars

Next == (\E w \in Foreign : ForeignOffer(w)) \/ Start \/ SWrite \/ SDone \/ SDisc \/ RRead \/ RDisc \/ \E k \in FaultKinds : Fault(k)

Spec == Init /\ [][Next]_vars
FairSpec == Spec /\ WF_vars(Start) /\ WF_vars(SWrite) /\ WF_vars(SDone) /\ WF_vars(SDisc) /\ WF_vars(RRead) /\ WF_vars(RDisc)

(* --- properties: the same predicates as Ibb ------------------------------ *)
Success(st, er) == st = "Finished" /\ er = "NoError"
\* with a hash every single fault is noticed; with the size alone only a stream that ends short
\* (whether units of the right total length are the right ones depends on the hash; a duplicate
\* makes the announced size arrive early, with read boundaries deciding what is seen); with
\* nothing announced nothing can be noticed: only the fault-free clause is claimed
Detectable(k, a) == AnnHash(a) \/ (a = "size" /\ k \in {"Drop", "Cut"})
SafeClaim(a, d) == CASE d = "all" -> AnnHash(a) [] d = "short" -> AnnSize(a) [] d = "fail" -> AnnSize(a) \/ AnnHash(a)
P_Safe(a, d, rs, re, eq)  == (SafeClaim(a, d) /\ Success(rs, re)) => eq
P_FaultDetected(a, k, nflt, rs, re) == (nflt = 1 /\ Detectable(k, a)) => ~Success(rs, re)
P_CleanSuccess(nflt, d, q, rs, re, ss, se, eq) == (q /\ nflt = 0 /\ d = "all") => (Success(rs, re) /\ Success(ss, se) /\ eq)

\* on the observation of the job before and after the foreign offer, and of the trap
P_ForeignInert(rs0, re0, rs1, re1, trap) == rs1 = rs0 /\ re1 = re0 /\ trap = 0

AtRest == sState = "Finished" /\ wire = <<>>
Safe          == P_Safe(ann, dev, rState, rErr, got = File(n))
FaultDetected == P_FaultDetected(ann, fk, nf, rState, rErr)
CleanSuccess  == P_CleanSuccess(nf, dev, AtRest, rState, rErr, sState, sErr, got = File(n))
TypeOK ==
    /\ sent \in 0..n /\ nf \in 0..MaxFaults
    /\ sState \in {"Idle", "Transfer", "Finished"} /\ rState \in {"None", "Transfer", "Finished"}
    /\ conn \in {"none", "open", "closed", "cut"}
\* both jobs finish in every fair behaviour, whatever the proxy does
Termination == <>[](sState = "Finished" /\ rState = "Finished" /\ wire = <<>>)

Reinit(k, a, d) ==
    /\ n' = k /\ ann' = a /\ fk' = "none" /\ dev' = d /\ devAt' = (IF d = "all" THEN 0 ELSE 1) /\ hsh' = <<>> /\ nw' = 0
    /\ sState' = "Idle" /\ sErr' = "NoError" /\ sent' = 0
    /\ rState' = "None" /\ rErr' = "NoError" /\ got' = <<>>
    /\ wire' = <<>> /\ conn' = "none" /\ nf' = 0 /\ hist' = <<>>

Bound == Len(hist) <= MaxHist
View  == mvars
=============================================================================
