----------------------------- MODULE StreamMgmt -----------------------------
(***************************************************************************)
(* XEP-0198 stream management as implemented by the client side of qxmpp:  *)
(*   StreamAckManager  (src/base/QXmppStreamManagement.cpp)                *)
(*   C2sStreamManager  (src/client/QXmppOutgoingClient.cpp)                *)
(*   QXmppClient::send / _q_streamConnected (initial presence)             *)
(*                                                                         *)
(* One action per handler of the code and per move of the environment      *)
(* (user: SendStanza, SendIqRequest, SendNonza, Destroy; server: Ack, Req, *)
(* RecvStanza, RecvIqResponse, RecvIqGet, RecvNonza, ResumeOk, ResumeFail, *)
(* EnableOk, EnableFail; network: Loss, Reconnect).  The *mechanism* variables (enabled, out, inH, unacked,     *)
(* canResume) follow the code; the *ghost* variables (smAct, sess, covered, *)
(* tracked, order, sessRecv) describe the same history from the server's   *)
(* side / the property's vocabulary, so the C09 predicates relate the two. *)
(*                                                                         *)
(* Stanza identities are 1, 2, 3, ... in order of first sending (nid is    *)
(* the last one used).  A behaviour starts at the end of the first         *)
(* negotiation: the client has sent <enable/> and waits for the answer     *)
(* (phase "NegoEnable"), so the first session may get stream management    *)
(* (EnableOk) or not (EnableFail).  On every *new* session QXmppClient     *)
(* itself sends the initial presence: a stanza like any other.             *)
(*                                                                         *)
(* Numbering: the server counts the stanzas it receives on a session;      *)
(* `sess` is that sequence (position = sequence number).  An <a h/> or     *)
(* <resumed h/> covers sess[1..h]; h may be stale (smaller than an earlier *)
(* one) or beyond Len(sess).  Wrap-around of h at 2^32 is out of scope     *)
(* (TLC integers are 32 bit; all counters here are small naturals).        *)
(*                                                                         *)
(* Behaviour the code knowingly has, modelled as it is (named, not         *)
(* idealised):                                                             *)
(*  - SendDuringNegotiation: a stanza sent while the socket is connected   *)
(*    but stream management is not (yet) enabled is written at once and    *)
(*    reported SendSuccess{acknowledged:false} ("Plain");                  *)
(*  - SendOffline: a stanza sent while disconnected is reported as failed; *)
(*  - NewSessionNoSm (EnableFail, Reconnect(FALSE)): unacknowledged stanzas *)
(*    stay queued when the next session has no stream management; they are *)
(*    resent when a later session enables it again;                        *)
(*  - ResumeFail leaves canResume set (if the connection is lost before a  *)
(*    new session opens, the client asks for the same session again); a    *)
(*    session opened without SM clears it (C2sStreamManager::onSessionOpened).*)
(* Inbound stanzas are counted for the session that has stream management  *)
(* only (the defect this check found in the pinned tree, since fixed).     *)
(***************************************************************************)
EXTENDS Naturals, Sequences, FiniteSets, TLC

CONSTANTS MaxId,     \* stanzas (user sends + initial presences) per behaviour
          MaxH,      \* server h values are 0..MaxH
          MaxConn,   \* connections per behaviour
          MaxRecv,   \* inbound stanzas counted per behaviour
          MaxHist    \* bound on behaviour length (generator configurations)

VARIABLES phase,       \* "NegoEnable" | "NegoResume" | "Up" | "Down" | "Dead"
          enabled,     \* StreamAckManager::m_enabled
          canResume,   \* C2sStreamManager::m_canResume
          out,         \* m_lastOutgoingSequenceNumber
          inH,         \* m_lastIncomingSequenceNumber
          unacked,     \* m_unacknowledgedStanzas: sequence of [n, id], ascending n
          report,      \* [Id -> "None" | "Plain" | "Acked" | "Failed"]: what the send task reported
          reportCount, \* [Id -> Nat]: how often it reported
          conn,        \* connections opened so far
          nid,         \* last stanza id used
          outp,        \* what the last step wrote to the socket: sequence of [k, v]
                       \*   k = "s" stanza (v = id), "n" user nonza, "a" <a h=v/>, "resume" <resume h=v/>
          nzrep,       \* report of the nonza sent by the last step ("None" if it sent none)
          pend,        \* OutgoingIqManager::m_requests: ids of the user's IQ requests still waiting for a response
          \* ghosts
          smAct,       \* the server regards stream management as active on the current session
          sess,        \* stanzas the server has been sent on the current SM session, in its numbering
          covered,     \* stanzas some received h has covered
          tracked,     \* stanzas first sent while stream management was active
          order,       \* tracked stanzas in order of first sending
          sessRecv,    \* message/presence/iq received on the current SM session
          hist         \* behaviour export

mvars == <<phase, enabled, canResume, out, inH, unacked, report, reportCount, conn, nid, outp, nzrep, pend,
           smAct, sess, covered, tracked, order, sessRecv>>
vars  == <<mvars, hist>>

Ids == 1..MaxId
Min(a, b) == IF a < b THEN a ELSE b
Range(s) == {s[i] : i \in 1..Len(s)}
SeqMap(Op(_), s) == [i \in 1..Len(s) |-> Op(s[i])]

S(i)  == [k |-> "s", v |-> i]
A(h)  == [k |-> "a", v |-> h]
R(h)  == [k |-> "resume", v |-> h]
NZ    == [k |-> "n", v |-> 0]
StanzaIds(w) == LET st == SelectSeq(w, LAMBDA x : x.k = "s") IN [i \in 1..Len(st) |-> st[i].v]
HItems(w)    == {w[i].v : i \in {j \in 1..Len(w) : w[j].k \in {"a", "resume"}}}

Init ==
    /\ phase = "NegoEnable" /\ enabled = FALSE /\ canResume = FALSE
    /\ out = 0 /\ inH = 0 /\ unacked = <<>>
    /\ report = [i \in Ids |-> "None"] /\ reportCount = [i \in Ids |-> 0]
    /\ conn = 1 /\ nid = 0 /\ outp = <<>> /\ nzrep = "None" /\ pend = {}
    /\ smAct = FALSE /\ sess = <<>> /\ covered = {} /\ tracked = {} /\ order = <<>> /\ sessRecv = 0
    /\ hist = <<>>

Log(r) == hist' = Append(hist, r)

Connected == phase \in {"NegoEnable", "NegoResume", "Up"}   \* the socket is connected

(* --- server-side meaning of h ------------------------------------------- *)
CoveredBy(s, h) == {s[k] : k \in 1..Min(h, Len(s))}

(* --- StreamAckManager::setAcknowledgedSequenceNumber --------------------- *)
\* every entry with number <= h is reported acknowledged and dropped
AckedPart(u, h) == SelectSeq(u, LAMBDA e : e.n <= h)
RestPart(u, h)  == SelectSeq(u, LAMBDA e : e.n > h)
ReportAll(ids, what) ==
    /\ report' = [i \in Ids |-> IF i \in ids THEN what ELSE report[i]]
    /\ reportCount' = [i \in Ids |-> IF i \in ids THEN reportCount[i] + 1 ELSE reportCount[i]]
IdsOf(u) == {u[i].id : i \in 1..Len(u)}

(* --- StreamAckManager::internalSend for a stanza ------------------------- *)
\* the next stanza id is handed to the send path (by the user or by the library itself)
Emit(id) ==
    /\ nid' = id
    /\ outp' = IF Connected THEN <<S(id)>> ELSE <<>>
    /\ IF enabled
       THEN \* stored under the next number; the report waits for the acknowledgement
            /\ out' = out + 1
            /\ unacked' = Append(unacked, [n |-> out + 1, id |-> id])
            /\ UNCHANGED <<report, reportCount>>
       ELSE \* SendDuringNegotiation / session without SM / SendOffline
            /\ ReportAll({id}, IF Connected THEN "Plain" ELSE "Failed")
            /\ UNCHANGED <<out, unacked>>
    /\ tracked' = IF smAct THEN tracked \cup {id} ELSE tracked
    /\ order' = IF smAct THEN Append(order, id) ELSE order
    /\ sess' = IF smAct THEN Append(sess, id) ELSE sess

(* --- QXmppClient::send / QXmppClient::sendIq ------------------------------ *)
\* sendIq registers the request with OutgoingIqManager and sends it through the same path; a
\* send error (offline) finishes the request at once, so it never stays pending
SendAny(iq) ==
    /\ phase # "Dead" /\ nid < MaxId
    /\ Emit(nid + 1)
    /\ pend' = IF iq /\ (enabled \/ Connected) THEN pend \cup {nid + 1} ELSE pend
    /\ nzrep' = "None"
    /\ Log([a |-> IF iq THEN "SendIqRequest" ELSE "SendStanza"])
    /\ UNCHANGED <<phase, enabled, canResume, inH, conn, smAct, covered, sessRecv>>
SendStanza == SendAny(FALSE)
SendIqRequest == SendAny(TRUE)

SendNonza ==
    /\ phase # "Dead"
    /\ outp' = IF Connected THEN <<NZ>> ELSE <<>>
    /\ nzrep' = IF Connected THEN "Plain" ELSE "Failed"
    /\ Log([a |-> "SendNonza"])
    /\ UNCHANGED <<phase, enabled, canResume, out, inH, unacked, report, reportCount, conn, nid,
                   smAct, sess, covered, tracked, order, sessRecv, pend>>

(* --- StreamAckManager::handleStanza: <a h/> ------------------------------ *)
Ack(h) ==
    /\ phase = "Up"
    /\ IF enabled
       THEN /\ ReportAll(IdsOf(AckedPart(unacked, h)), "Acked")
            /\ unacked' = RestPart(unacked, h)
       ELSE UNCHANGED <<report, reportCount, unacked>>
    /\ covered' = IF smAct THEN covered \cup CoveredBy(sess, h) ELSE covered
    /\ outp' = <<>> /\ nzrep' = "None"
    /\ Log([a |-> "Ack", h |-> h])
    /\ UNCHANGED <<phase, enabled, canResume, out, inH, conn, nid, smAct, sess, tracked, order, sessRecv, pend>>

(* --- <r/> from the server ------------------------------------------------ *)
Req ==
    /\ phase = "Up"
    /\ outp' = IF enabled THEN <<A(inH)>> ELSE <<>>
    /\ nzrep' = "None"
    /\ Log([a |-> "Req"])
    /\ UNCHANGED <<phase, enabled, canResume, out, inH, unacked, report, reportCount, conn, nid,
                   smAct, sess, covered, tracked, order, sessRecv, pend>>

(* --- inbound message / presence / iq ------------------------------------- *)
RecvStanza ==
    /\ phase = "Up" /\ inH < MaxRecv
    /\ inH' = IF enabled THEN inH + 1 ELSE inH          \* intended: see module comment
    /\ sessRecv' = IF smAct THEN sessRecv + 1 ELSE sessRecv
    /\ outp' = <<>> /\ nzrep' = "None"
    /\ Log([a |-> "RecvStanza"])
    /\ UNCHANGED <<phase, enabled, canResume, out, unacked, report, reportCount, conn, nid,
                   smAct, sess, covered, tracked, order, pend>>

\* an <iq type='result'|'error'/> answering the user's pending request i: OutgoingIqManager consumes
\* it (finishes the request); for the handled count it is a stanza like any other
RecvIqResponse(i) ==
    /\ phase = "Up" /\ inH < MaxRecv /\ i \in pend
    /\ inH' = IF enabled THEN inH + 1 ELSE inH
    /\ sessRecv' = IF smAct THEN sessRecv + 1 ELSE sessRecv
    /\ pend' = pend \ {i}
    /\ outp' = <<>> /\ nzrep' = "None"
    /\ Log([a |-> "RecvIqResponse", i |-> i])
    /\ UNCHANGED <<phase, enabled, canResume, out, unacked, report, reportCount, conn, nid,
                   smAct, sess, covered, tracked, order>>

\* an <iq type='get'|'set'/> nobody handles: counted, then QXmppOutgoingClient::handleStanza answers
\* it with an error IQ -- a stanza the library sends through the same path as any other
RecvIqGet ==
    /\ phase = "Up" /\ inH < MaxRecv /\ nid < MaxId
    /\ inH' = IF enabled THEN inH + 1 ELSE inH
    /\ sessRecv' = IF smAct THEN sessRecv + 1 ELSE sessRecv
    /\ Emit(nid + 1)
    /\ nzrep' = "None"
    /\ Log([a |-> "RecvIqGet"])
    /\ UNCHANGED <<phase, enabled, canResume, conn, smAct, covered, pend>>

RecvNonza ==
    /\ phase = "Up"
    /\ outp' = <<>> /\ nzrep' = "None"
    /\ Log([a |-> "RecvNonza"])
    /\ UNCHANGED <<phase, enabled, canResume, out, inH, unacked, report, reportCount, conn, nid,
                   smAct, sess, covered, tracked, order, sessRecv, pend>>

(* --- connection cut: _q_socketDisconnected -> closeSession -> onSessionClosed *)
Loss ==
    /\ Connected
    /\ phase' = "Down" /\ enabled' = FALSE /\ smAct' = FALSE
    /\ pend' = IF canResume THEN pend ELSE {}      \* OutgoingIqManager::onSessionClosed: cancelAll unless resumable
    /\ outp' = <<>> /\ nzrep' = "None"
    /\ Log([a |-> "Loss"])
    /\ UNCHANGED <<canResume, out, inH, unacked, report, reportCount, conn, nid,
                   sess, covered, tracked, order, sessRecv>>

(* --- initial presence of a new session (QXmppClient::_q_streamConnected) -- *)
\* sent through the same send path, after stream management has been set up
Presence(en, base) ==
    LET id == nid + 1 IN
    /\ nid' = id
    /\ IF en
       THEN /\ out' = Len(base) + 1
            /\ unacked' = Append(base, [n |-> Len(base) + 1, id |-> id])
            /\ UNCHANGED <<report, reportCount>>
       ELSE /\ ReportAll({id}, "Plain")
            /\ UNCHANGED <<out, unacked>>

(* --- connectToServer again: negotiation up to the first SM decision ------ *)
\* sm: the server's features offer <sm/>
Reconnect(sm) ==
    /\ phase = "Down" /\ conn < MaxConn
    /\ conn' = conn + 1
    /\ nzrep' = "None"
    /\ Log([a |-> "Reconnect", sm |-> sm])
    /\ IF sm /\ canResume
       THEN \* C2sStreamManager::requestResume: <resume h previd/>
            /\ phase' = "NegoResume" /\ outp' = <<R(inH)>>
            /\ UNCHANGED <<out, unacked, report, reportCount, nid, pend, canResume>>
       ELSE IF sm
       THEN \* bind, then requestEnable
            /\ phase' = "NegoEnable" /\ outp' = <<>>
            /\ UNCHANGED <<out, unacked, report, reportCount, nid, pend, canResume>>
       ELSE \* NewSessionNoSm: bind, session opens without stream management
            /\ nid < MaxId
            /\ phase' = "Up" /\ outp' = <<S(nid + 1)>>
            /\ Presence(FALSE, unacked)
            /\ pend' = {}                  \* onSessionOpened, not resumed: cancelAll
            /\ canResume' = FALSE          \* C2sStreamManager::onSessionOpened: a plain session replaces the resumable one
    /\ UNCHANGED <<enabled, inH, smAct, sess, covered, tracked, order, sessRecv>>

(* --- <resumed h/>: onResumed -> setAcknowledgedSequenceNumber, enable(false) *)
ResumeOk(h) ==
    /\ phase = "NegoResume"
    /\ phase' = "Up" /\ enabled' = TRUE /\ smAct' = TRUE
    /\ ReportAll(IdsOf(AckedPart(unacked, h)), "Acked")
    /\ unacked' = RestPart(unacked, h)
    /\ outp' = SeqMap(LAMBDA e : S(e.id), RestPart(unacked, h))     \* resend what is left, in order
    /\ covered' = covered \cup CoveredBy(sess, h)
    /\ nzrep' = "None"
    /\ Log([a |-> "ResumeOk", h |-> h])
    /\ UNCHANGED <<canResume, out, inH, conn, nid, sess, tracked, order, sessRecv, pend>>

(* --- <failed/> to <resume/>: bind, then <enable/> ------------------------- *)
ResumeFail ==
    /\ phase = "NegoResume"
    /\ phase' = "NegoEnable"
    /\ outp' = <<>> /\ nzrep' = "None"
    /\ Log([a |-> "ResumeFail"])
    /\ UNCHANGED <<enabled, canResume, out, inH, unacked, report, reportCount, conn, nid,
                   smAct, sess, covered, tracked, order, sessRecv, pend>>

(* --- <enabled resume='true'/>: onEnabled -> enableStreamManagement(true) -- *)
\* counters restart, what is left is renumbered from 1 and resent, then the
\* session opens and the initial presence follows
EnableOk ==
    /\ phase = "NegoEnable" /\ nid < MaxId
    /\ phase' = "Up" /\ enabled' = TRUE /\ canResume' = TRUE /\ smAct' = TRUE
    /\ inH' = 0 /\ sessRecv' = 0
    /\ LET base == [k \in 1..Len(unacked) |-> [n |-> k, id |-> unacked[k].id]] IN
        /\ Presence(TRUE, base)
        /\ outp' = Append(SeqMap(LAMBDA e : S(e.id), base), S(nid + 1))
        /\ sess' = Append(SeqMap(LAMBDA e : e.id, base), nid + 1)
    /\ tracked' = tracked \cup {nid + 1}
    /\ order' = Append(order, nid + 1)
    /\ pend' = {}                          \* onSessionOpened, not resumed: cancelAll
    /\ nzrep' = "None"
    /\ Log([a |-> "EnableOk"])
    /\ UNCHANGED <<conn, covered>>

(* --- <failed/> to <enable/>: NewSessionNoSm ------------------------------- *)
EnableFail ==
    /\ phase = "NegoEnable" /\ nid < MaxId
    /\ phase' = "Up"
    /\ Presence(FALSE, unacked)
    /\ outp' = <<S(nid + 1)>>
    /\ pend' = {} /\ canResume' = FALSE
    /\ nzrep' = "None"
    /\ Log([a |-> "EnableFail"])
    /\ UNCHANGED <<enabled, inH, conn, smAct, sess, covered, tracked, order, sessRecv>>

(* --- ~QXmppOutgoingClient: resetCache ------------------------------------- *)
Destroy ==
    /\ phase # "Dead"
    /\ phase' = "Dead" /\ enabled' = FALSE /\ smAct' = FALSE
    /\ ReportAll(IdsOf(unacked), "Failed")
    /\ unacked' = <<>> /\ pend' = {}
    /\ outp' = <<>> /\ nzrep' = "None"
    /\ Log([a |-> "Destroy"])
    /\ UNCHANGED <<canResume, out, inH, conn, nid, sess, covered, tracked, order, sessRecv>>

NewSessionNoSm == EnableFail \/ Reconnect(FALSE)     \* the named deviation, for coverage reports

Next ==
    \/ SendStanza \/ SendIqRequest \/ SendNonza \/ Req \/ RecvStanza \/ RecvIqGet \/ RecvNonza \/ Loss
    \/ \E i \in Ids : RecvIqResponse(i)
    \/ \E h \in 0..MaxH : Ack(h)
    \/ \E sm \in BOOLEAN : Reconnect(sm)
    \/ \E h \in 0..MaxH : ResumeOk(h)
    \/ ResumeFail \/ EnableOk \/ EnableFail \/ Destroy

Spec == Init /\ [][Next]_vars

(* --- properties (C09) ----------------------------------------------------- *)
\* Written as operators over observable quantities, so that StreamMgmtTrace
\* evaluates the same predicates on what the implementation did.

\* a report of kind r for stanza i, given what is covered / tracked at that time
P_Report(r, i, cov, trk) ==
    /\ (r = "Acked" => i \in cov)                       \* acknowledged only after h covers it
    /\ (r = "Plain" /\ i \in trk => i \in cov)          \* with SM active there is no earlier success report
P_AtMostOnce(c) == c <= 1

\* what a resume / re-enable step must transmit: exactly `expected`, in order,
\* before anything newer (ids the step introduces, all > old)
Expected(ord, cov) == SelectSeq(ord, LAMBDA i : i \notin cov)
P_Resend(w, expected, isOld(_)) ==
    /\ Len(w) >= Len(expected)
    /\ SubSeq(w, 1, Len(expected)) = expected
    /\ \A k \in (Len(expected) + 1)..Len(w) : ~isOld(w[k])
P_NoCoveredResent(w, cov) == \A k \in 1..Len(w) : w[k] \notin cov
P_H(hs, n) == \A h \in hs : h = n

AckedOnlyCovered == \A i \in Ids : report[i] # "None" => P_Report(report[i], i, covered, tracked)
AtMostOnce       == \A i \in Ids : P_AtMostOnce(reportCount[i])
NoCoveredResent  == P_NoCoveredResent(StanzaIds(outp), covered)
HandledCount     == P_H(HItems(outp), sessRecv)

IsResendStep == phase \in {"NegoResume", "NegoEnable"} /\ phase' = "Up" /\ enabled'
ResendExact ==
    [][IsResendStep => P_Resend(StanzaIds(outp'), Expected(order, covered'), LAMBDA i : i <= nid)]_vars

TypeOK ==
    /\ phase \in {"NegoEnable", "NegoResume", "Up", "Down", "Dead"}
    /\ enabled \in BOOLEAN /\ canResume \in BOOLEAN /\ smAct \in BOOLEAN
    /\ out \in Nat /\ inH \in 0..MaxRecv /\ nid \in 0..MaxId /\ conn \in 1..MaxConn
    /\ (enabled => phase = "Up") /\ (enabled <=> smAct)
    /\ inH = sessRecv /\ pend \subseteq 1..nid
    /\ covered \subseteq tracked /\ tracked = Range(order)
    \* the mechanism holds exactly what the property calls "not yet covered", in original order
    /\ (phase # "Dead" => SeqMap(LAMBDA e : e.id, unacked) = Expected(order, covered))
    /\ \A i \in 1..Len(unacked) : unacked[i].n <= out /\ (i > 1 => unacked[i - 1].n < unacked[i].n)

\* re-initialisation used by the trace specification at an execution boundary
Reinit ==
    /\ phase' = "NegoEnable" /\ enabled' = FALSE /\ canResume' = FALSE
    /\ out' = 0 /\ inH' = 0 /\ unacked' = <<>>
    /\ report' = [i \in Ids |-> "None"] /\ reportCount' = [i \in Ids |-> 0]
    /\ conn' = 1 /\ nid' = 0 /\ outp' = <<>> /\ nzrep' = "None" /\ pend' = {}
    /\ smAct' = FALSE /\ sess' = <<>> /\ covered' = {} /\ tracked' = {} /\ order' = <<>> /\ sessRecv' = 0
    /\ hist' = <<>>

Bound == Len(hist) <= MaxHist
View  == mvars
\* state identity for the transition tour: what the last step wrote is a function of the
\* source state and the action, so it need not distinguish states
TourView == <<phase, enabled, canResume, out, inH, unacked, report, reportCount, conn, nid, pend,
              smAct, sess, covered, tracked, order, sessRecv>>
=============================================================================
