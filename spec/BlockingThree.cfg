SPECIFICATION Spec
CONSTANTS
  Jids = {"j1", "j2", "j3"}
  InitSrv = {"j1", "j3"}
  Kinds = {"Fetch", "Unblock", "Block", "Deliver", "Srv", "Other", "Disconnect", "Connect"}
  Retries = {FALSE}
  CmdSets = {{}, {"j2"}, {"j1", "j2"}}
  OthSets = {{}, {"j3"}, {"j2", "j3"}}
  Froms = {"none"}
  MaxT = 2
  MaxO = 2
  MaxD = 1
  MaxQ = 3
  ProbeMax = 3
INVARIANTS TypeOK Truth SubAgree OneFetch LiveAccounted Answerable DownIsEmpty
PROPERTIES OnceOnly SignalsDelta FreshSession SentTied
VIEW View
CHECK_DEADLOCK FALSE
