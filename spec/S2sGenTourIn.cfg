SPECIFICATION Spec
CONSTANTS
  Doms = {"R", "A"}
  NI = 1
  MaxOC = 2
  MaxMsg = 0
  Kinds = {"IOpen", "IResult", "IStanza", "IClose", "OHeader", "OVerifyAns", "OClose", "Listen", "OResult", "OStanza"}
  Shapes = {"ok", "typed", "wrongto", "nokey"}
  FromDoms = {"R", "A", "L", "none"}
  Tos = {"L", "X"}
  Dev = {}
  MaxHist = 99
VIEW View
ACTION_CONSTRAINT EmitBehaviour
CHECK_DEADLOCK FALSE
