SPECIFICATION Spec
CONSTANTS
  Classes = {"OwnBare", "PreviousOwnBare", "OwnFullOther", "Contact", "Empty"}
  Wrappers = {"none", "sent", "received", "both"}
  Inners = {"chatIn", "spoof", "private", "delay"}
  Gens = {"v1", "v2"}
  JidCfgs = {"plain", "nores", "mixed"}
  Estabs = {"configured"}
  Hows = {"setJid", "setUserDomain", "assign", "copySetJid"}
  MaxHist = 99
ACTION_CONSTRAINT EmitBehaviour
CHECK_DEADLOCK FALSE
