SPECIFICATION SimSpec
CONSTANTS
  Jids = {"j1", "j2", "j3"}
  InitSrv = {"j1", "j3"}
  Kinds = {"Fetch", "Block", "Unblock", "Deliver", "Srv", "Other", "Foreign", "PushGet", "ForeignRes", "Disconnect", "Connect"}
  Retries = {FALSE, TRUE}
  CmdSets = {{}, {"j1"}, {"j2"}, {"j3"}, {"j1", "j2"}, {"j2", "j3"}, {"j1", "j2", "j3"}}
  OthSets = {{}, {"j1"}, {"j2"}, {"j3"}, {"j1", "j3"}, {"j2", "j3"}, {"j1", "j2", "j3"}}
  Froms = {"none", "bare"}
  MaxT = 12
  MaxO = 8
  MaxD = 4
  MaxQ = 4
  ProbeMax = 0
  MaxHist = 99
ACTION_CONSTRAINT EmitBehaviour
CHECK_DEADLOCK FALSE
