SPECIFICATION Spec
CONSTANTS
  W = 4
  Anns = {"both"}
  Devs = {"all"}
  Sizes = {0, 1, 2, 3, 4, 5, 6, 7}
  MaxFaults = 1
  MaxInject = 0
  FaultKinds = {"Lose", "Drop", "Dup", "Flip", "WrongSid", "WrongFrom", "Swap", "EarlyClose"}
  InjectKinds = {"from", "res", "sid"}
  InjectElems = {"open", "data", "close"}
  Bursts = {}
  MaxHist = 99
CONSTRAINT Bound
ACTION_CONSTRAINT EmitBehaviour
CHECK_DEADLOCK FALSE
