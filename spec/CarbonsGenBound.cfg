SPECIFICATION Spec
CONSTANTS
  Classes = {"OwnBare", "OwnBareCase", "OwnFullSelf", "OwnFullOther", "OwnBareSlash", "OwnBareSpace", "Domain", "SuffixLookalike", "PrefixLookalike", "Truncated", "Empty", "Contact", "ContactFull", "OwnAsResource", "Homoglyph", "OwnFullPrefix"}
  Wrappers = {"none", "sent", "received", "both"}
  Inners = {"chatIn"}
  Gens = {"v1", "v2"}
  JidCfgs = {"plain", "mixed"}
  Estabs = {"boundPlain", "boundSlash", "boundAt", "boundUnicode", "boundLong"}
  Hows = {}
  MaxHist = 99
VIEW TourView
ACTION_CONSTRAINT EmitBehaviour
CHECK_DEADLOCK FALSE
