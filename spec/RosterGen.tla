----------------------------- MODULE RosterGen -----------------------------
(* Behaviour export for Roster (see lib/vf.py: tlc_gen).  With VIEW View    *)
(* (RosterGenTour*.cfg): transition tour; without (RosterGenAll*.cfg) and   *)
(* CONSTRAINT Bound: every path up to MaxHist.                              *)
EXTENDS Roster, Json, CSV, IOUtils

EmitBehaviour ==
    CSVWrite("%1$s", <<ToJson([steps |-> hist'])>>, IOEnv.QXV_GEN)
=============================================================================
