----------------------------- MODULE RosterGen -----------------------------
(* Behaviour export for Roster (see lib/vf.py: tlc_gen / tlc_simulate).     *)
(* With VIEW GenView (RosterGenTour*.cfg): transition tour; without a VIEW  *)
(* and CONSTRAINT Bound (RosterGenAll*.cfg): every path up to MaxHist.      *)
(* SimSpec (RosterGenSim.cfg, -simulate): the same actions with randomly    *)
(* drawn arguments, one disjunct per kind of step, so that random walks are *)
(* not dominated by the kinds of step that have the most argument values.   *)
EXTENDS Roster, Json, CSV, IOUtils

EmitBehaviour ==
    CSVWrite("%1$s", <<ToJson([steps |-> hist'])>>, IOEnv.QXV_GEN)

\* mentions a variable so that TLC does not evaluate the draw once as a constant expression
Rnd(S) == RandomElement({x \in S : Len(hist) >= 0})
FromsOf(c) == {f \in Froms : Class(f) = c}
SimNext ==
    \/ \E k \in ConnKinds : Connect(k)
    \/ \E k \in {"cut", "user"} : Disconnect(k)
    \/ \E n \in 1..MaxReqs : \E w \in 1..2 : Result(n, Rnd(Rosters))
    \/ \E n \in 1..MaxReqs : ResultErr(n)
    \/ \E n \in 1..MaxReqs : ResultForged(n, Rnd(FromsOf("not")), Rnd(Rosters))
    \/ \E c \in {"must", "may", "not"} : \E w \in 1..3 : Push(Rnd(FromsOf(c)), Rnd(PushItems))
    \* an authorised update that differs from the stored item in exactly one field
    \/ \E j \in Jids : \E w \in 1..2 :
         LET near == {i \in Items : view[j].x = 1 /\ Cardinality(Diff(view[j], i)) = 1} IN
         near # {} /\ Push(Rnd(FromsOf("must")), <<[j |-> j, it |-> Rnd(near)]>>)
    \/ \E w \in 1..4 : Presence(Rnd(Jids), Rnd(Ress), Rnd(BOOLEAN))
SimSpec == Init /\ [][SimNext]_vars
=============================================================================
