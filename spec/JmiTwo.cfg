SPECIFICATION Spec
CONSTANTS
  Peers = {"p1", "p2"}
  Ress = {"r1"}
  PeerIds = {"lo1", "hi1"}
  Types = {"propose", "proceed", "retract"}
  Variants = {"plain"}
  Wfs = {"ok"}
  Modes = {"sm"}
  Kinds = {"Propose", "Proceed", "Retract", "Finish", "Recv", "Ack"}
  MaxJ = 2
  MaxP = 2
  MaxQ = 2
  MaxHist = 99
INVARIANTS TypeOK Conforms ListOK IdsOK QueueOK
VIEW View
CHECK_DEADLOCK FALSE
