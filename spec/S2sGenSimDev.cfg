SPECIFICATION SimSpec
CONSTANTS
  Doms = {"R", "A"}
  NI = 2
  MaxOC = 4
  MaxMsg = 4
  Kinds = {"IOpen", "IResult", "IVerifyReq", "IStanza", "IWs", "IClose", "OHeader", "OVerifyAns", "OResult", "OStanza", "OClose", "XFrom", "Listen", "Send"}
  Shapes = {"ok", "typed", "wrongto", "nokey"}
  FromDoms = {"R", "A", "L", "none"}
  Tos = {"L", "X"}
  Dev = {}
  MaxHist = 99
ACTION_CONSTRAINT EmitBehaviour
CHECK_DEADLOCK FALSE
