----------------------------- MODULE CodecTrace -----------------------------
(***************************************************************************)
(* Trace validation for Codec (C01).  The trace (ndjson, written by        *)
(* `qxv codec`) holds one line per case:                                   *)
(*   {"e":"Begin","case":id}   flushed before the case runs                *)
(*   {"e":"Obj","case":id,"cls":C,"vals":[..],"map":r,"nset":n,"bad":[..]} *)
(*        an object of class C built through its setters along a plan of   *)
(*        Codec (vals: per slot "" = absent or a character class),         *)
(*        serialized, parsed, compared getter by getter, serialized again  *)
(*   {"e":"Seed",...,"bad":[..]}   a test-suite literal through every      *)
(*        parser that admits it: the library's output must survive a       *)
(*        second pass                                                      *)
(*   {"e":"Subst","case":id,"seed":s,"slots":n,"tried":m,"bad":[..]}       *)
(*        every class representative substituted at every free-text slot   *)
(*        of a document in the library's own output form                   *)
(*   {"e":"Scalar","n":k,"bad":[..]}  typed scalar helpers at their bounds *)
(* `bad` lists what failed: field | value | fixpoint | reparse-rejected |  *)
(* structure | illformed | scalar.                                         *)
(* Layers: model = the plan replayed with Escape/Unescape of Codec in both *)
(* contexts (RoundTrip, NoInjection and Fixpoint evaluated on the model);  *)
(* monitor = the C01 predicates on the logged observations only; compare = *)
(* model says "holds", implementation reported a failure: then the         *)
(* execution diverged (and the monitor has recorded the violation).        *)
(***************************************************************************)
EXTENDS Codec, Integers, Json, CSV, IOUtils, FiniteSets

TraceLog == ndJsonDeserialize(IOEnv.QXV_TRACE)

VARIABLES l, open, viol, ndiv, ncases, nobj, nmodel

tvars == <<vars, l, open, viol, ndiv, ncases, nobj, nmodel>>

TInit ==
    /\ Init /\ kind = [i \in Slots |-> "text"]
    /\ l = 1 /\ open = "" /\ viol = {} /\ ndiv = 0 /\ ncases = 0 /\ nobj = 0 /\ nmodel = 0

\* a logged slot value ("" = absent, "Lt" = that class) as a class string
ToVal(x) == IF x = "" THEN Absent ELSE <<x>>

\* the model's verdict on a plan: writer/reader pair is the identity and writes no markup,
\* whatever the context of the field
ModelHolds(vals) ==
    \A i \in 1..Len(vals) : \A ctx \in {"attr", "text"} :
        LET v == ToVal(vals[i]) w == Escape(v, ctx) IN
            /\ P_SameFields(v, Unescape(w, ctx))
            /\ NoMarkup(w, ctx)
            /\ P_SameXml(Escape(Unescape(w, ctx), ctx), w)

PropOf(k) ==
    CASE k = "field" -> "SameFields"
      [] k = "value" -> "SameFields"
      [] k = "fixpoint" -> "SameXml"
      [] k = "reparse-rejected" -> "SameXml"
      [] k = "structure" -> "NoInjection"
      [] k = "illformed" -> "NoInjection"
      [] OTHER -> "TypedRange"

Unfinished == IF open = "" THEN {} ELSE {[case |-> open, prop |-> "Terminated", kind |-> "unfinished", n |-> 0]}

Found(ev) == {[case |-> ev.case, prop |-> PropOf(ev.bad[i].k), kind |-> ev.bad[i].k, n |-> i] : i \in 1..Len(ev.bad)}

BeginStep(ev) ==
    /\ viol' = viol \cup Unfinished
    /\ open' = ev.case
    /\ UNCHANGED <<vars, ndiv, ncases, nobj, nmodel>>

ObjStep(ev) ==
    LET holds == ModelHolds(ev.vals) IN
    /\ viol' = viol \cup Found(ev)
    /\ open' = ""
    /\ nobj' = nobj + 1
    /\ nmodel' = IF holds THEN nmodel + 1 ELSE nmodel
    /\ ndiv' = IF holds /\ Len(ev.bad) > 0 THEN ndiv + 1 ELSE ndiv
    /\ ncases' = ncases + 1
    /\ UNCHANGED vars

CaseStep(ev) ==
    /\ viol' = viol \cup Found(ev)
    /\ open' = ""
    /\ ndiv' = IF Len(ev.bad) > 0 THEN ndiv + 1 ELSE ndiv
    /\ ncases' = ncases + 1
    /\ UNCHANGED <<vars, nobj, nmodel>>

OtherStep(ev) == open' = "" /\ UNCHANGED <<vars, viol, ndiv, ncases, nobj, nmodel>>

TNext ==
    /\ l <= Len(TraceLog)
    /\ l' = l + 1
    /\ LET ev == TraceLog[l] IN
        CASE ev.e = "Begin" -> BeginStep(ev)
          [] ev.e = "Obj" -> ObjStep(ev)
          [] ev.e \in {"Seed", "Subst", "Scalar"} -> CaseStep(ev)
          [] OTHER -> OtherStep(ev)

TSpec == TInit /\ [][TNext]_tvars

Summary == [cases |-> ncases, lines |-> l - 1, viol |-> viol \cup Unfinished, ndiv |-> ndiv, divs |-> <<>>,
            objects |-> nobj, model_holds |-> nmodel]
Done == l <= Len(TraceLog) \/ CSVWrite("%1$s", <<ToJson(Summary)>>, IOEnv.QXV_SUMMARY)
=============================================================================
