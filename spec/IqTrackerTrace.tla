-------------------------- MODULE IqTrackerTrace --------------------------
(***************************************************************************)
(* Trace validation for IqTracker.  The trace (ndjson, written by `qxv iq`) *)
(* holds per step the step with its arguments (inputs: what the application *)
(* and the scripted server did; for Recv also the payload marker m of the   *)
(* element) and `o`, what the continuations of the real tasks reported:     *)
(*  {"e":"Recv","id":"i1","ty":"result","from":"bareOf","m":3,              *)
(*   "o":{"req":{"i1":{"n":0,"v":"none","got":0},"i2":{…},"i3":{…}},         *)
(*        "passed":1,"up":true}}                                            *)
(*  n   how often the continuation of the task of request i ran             *)
(*  v   what it saw: "result" (an element), "error" (a stanza error),       *)
(*      "local" (a send/disconnect error)                                   *)
(*  got the marker of the element / error it was completed with             *)
(* Every line carries sp: the requests ("k1", "k2") that were issued from   *)
(* inside a continuation during the step (a Send line with b = "sendNew":   *)
(* the continuation of that request issues its child request when it runs). *)
(* They are requests like any other: each completes exactly once, a         *)
(* response with its id from its addressee completes it, none stays pending *)
(* once its session cannot be resumed.                                      *)
(* A Send line carries c, the id the caller put into the IQ ("fresh",       *)
(* "empty", "dup-j" = the id request j, still pending, went out with), and  *)
(* wk / clash, what the stanza was really written with.  A Recv line for    *)
(* request i is an element that carries the id request i's stanza was       *)
(* written with (read by the driver from what the client wrote), from a     *)
(* sender relative to i's addressee: if that is i's addressee, i -- and     *)
(* nothing else -- has to complete.                                         *)
(*                                                                          *)
(* Three layers per line (docs/BUILDING-A-CHECK.md):                        *)
(*  model    IqTracker's action for the step (or stutter);                  *)
(*  monitor  `mon`: which requests have been issued and to whom, whether a  *)
(*           session is up / resumable -- from the logged inputs only --    *)
(*           plus the previous observed counts.  Every observed completion  *)
(*           must be justified by the step it happened in, every obligation *)
(*           to complete must be met (C07 predicates of IqTracker);         *)
(*  compare  model projection vs observation: mismatch = diverged.          *)
(***************************************************************************)
EXTENDS IqTracker, Integers, Json, CSV, IOUtils

TraceLog == ndJsonDeserialize(IOEnv.QXV_TRACE)

VARIABLES l, cid, mon, viol, ndiv, divs, dflag, ncases, naborts

tvars == <<vars, l, cid, mon, viol, ndiv, divs, dflag, ncases, naborts>>

Mon0 == [up |-> FALSE, resOK |-> FALSE, resumable |-> FALSE, dead |-> FALSE,
         st |-> [i \in Ids |-> "None"], to |-> [i \in Ids |-> "none"], n |-> [i \in Ids |-> 0]]

TInit ==
    /\ Init
    /\ l = 1 /\ cid = "" /\ mon = Mon0 /\ viol = {} /\ ndiv = 0 /\ divs = <<>> /\ dflag = FALSE
    /\ ncases = 0 /\ naborts = 0

Proj == [req |-> [i \in Ids |-> [n |-> req[i].n, v |-> req[i].by]], passed |-> out.passed, up |-> up]
ObsProj(o) == [req |-> [i \in Ids |-> [n |-> o.req[i].n, v |-> o.req[i].v]], passed |-> o.passed, up |-> o.up]

ModelAct(ev) ==
    CASE ev.e = "Send"    -> Send(ev.id, ev.to, ev.c, ev.b)
      [] ev.e = "Recv"    -> Recv(ev.id, ev.ty, ev.from)
      [] ev.e = "Open"    -> Open(ev.k)
      [] ev.e = "Close"   -> Close(ev.k)
      [] ev.e = "Destroy" -> Destroy
      [] ev.e = "Attempt" -> Attempt(ev.r)
      [] OTHER            -> FALSE

InSeq(x, sq) == \E p \in 1..Len(sq) : sq[p] = x
ParentOf(k) == CHOOSE i \in Ids : Child(i) = k
\* can a stanza be written while the step runs (a session is up, or is just being opened)?
Writable(m, ev) == ev.e \in {"Recv", "Open"} \/ (ev.e = "Send" /\ m.up)

MonNext(m, ev) ==
    LET o == ev.o
        a == ev.e
        rs == a = "Close" /\ ev.k = "cut" /\ m.resOK
    IN [up    |-> IF a = "Open" THEN TRUE ELSE IF a \in {"Close", "Destroy", "Attempt"} THEN FALSE ELSE m.up,
        resOK |-> IF a = "Open" /\ ev.k = "smr" THEN TRUE
                  ELSE IF a = "Open" /\ ev.k \in {"sm", "plain"} THEN FALSE ELSE m.resOK,
        resumable |-> IF a = "Close" THEN rs ELSE IF a \in {"Open", "Destroy"} THEN FALSE
                      ELSE IF a = "Attempt" /\ ev.r # "precut" THEN FALSE ELSE m.resumable,
        dead  |-> m.dead \/ a = "Destroy",
        st    |-> [i \in Ids |-> IF o.req[i].n >= 1 THEN "Done"
                                 ELSE IF a = "Send" /\ ev.id = i THEN "Out"
                                 ELSE IF InSeq(i, ev.sp) THEN "Out"       \* issued from a continuation during this step
                                 ELSE IF a = "Destroy" /\ m.st[i] = "Out" /\ ApiOf(i) = "chained" THEN "Abandoned"
                                 ELSE m.st[i]],
        to    |-> [i \in Ids |-> IF a = "Send" /\ ev.id = i THEN ev.to
                                 ELSE IF InSeq(i, ev.sp) THEN (IF a = "Send" /\ Child(ev.id) = i THEN ev.to ELSE m.to[ParentOf(i)])
                                 ELSE m.to[i]],
        n     |-> [i \in Ids |-> o.req[i].n]]

(* the step ends the session for good / starts one that is not a resumption *)
Ends(m, ev) == \/ ev.e = "Destroy" \/ (ev.e = "Close" /\ ~(ev.k = "cut" /\ m.resOK)) \/ (ev.e = "Open" /\ ev.k # "resumed")
               \/ (ev.e = "Attempt" /\ ev.r # "precut")       \* resumption of the suspended session was given up

JustifiedAt(m, ev, i) ==
    LET r == ev.o.req[i] IN
    \* a request issued from a continuation during this step and already complete: only a send error,
    \* and only if nothing could be written
    CASE InSeq(i, ev.sp) -> r.v = "local" /\ ~Writable(m, ev)
      [] ev.e = "Recv" -> ev.id = i /\ m.st[i] = "Out"
                          /\ P_Justified("Recv", Cls(m.to[i], ev.from), ev.ty, r.v, ev.m, r.got, m.up)
      [] ev.e = "Send" -> ev.id = i /\ P_Justified("Send", "", "", r.v, 0, 0, m.up)
      [] Ends(m, ev)   -> m.st[i] = "Out" /\ P_Justified(ev.e, "", "", r.v, 0, 0, m.up)
      [] OTHER         -> FALSE

Failed(m, n, ev) ==
    {p \in {"AtMostOnce", "Unjustified", "RightSender", "NonePending"} :
        CASE p = "AtMostOnce"  -> \E i \in Ids : ~P_AtMostOnce(ev.o.req[i].n)
          \* somebody completed a request that this step does not entitle to complete it
          [] p = "Unjustified" -> \E i \in Ids : ev.o.req[i].n > m.n[i] /\ ~JustifiedAt(m, ev, i)
          \* a response from the addressed entity completes the request
          [] p = "RightSender" -> ev.e = "Recv" /\ ev.ty \in Responses /\ m.st[ev.id] = "Out"
                                  /\ Cls(m.to[ev.id], ev.from) = "must" /\ ev.o.req[ev.id].n = 0
          \* nothing stays pending once its session is gone for good, or a new one has begun
          [] p = "NonePending" -> \/ ~P_NonePending(n.dead \/ (~n.up /\ ~n.resumable), {i \in Ids : n.st[i] = "Out"})
                                  \/ (Ends(m, ev) /\ \E i \in Ids : m.st[i] = "Out" /\ ev.o.req[i].n = 0
                                                        /\ ~(ev.e = "Destroy" /\ ApiOf(i) = "chained"))}

ResetStep(ev) ==
    /\ Reinit
    /\ cid' = ev.case /\ mon' = Mon0 /\ dflag' = FALSE /\ ncases' = ncases + 1
    /\ UNCHANGED <<viol, ndiv, divs, naborts>>

AbortStep(ev) ==
    /\ naborts' = naborts + 1
    /\ UNCHANGED <<vars, cid, mon, viol, ndiv, divs, dflag, ncases>>

OpStep(ev) ==
    /\ \/ ModelAct(ev)
       \/ (~ENABLED ModelAct(ev)) /\ UNCHANGED vars
    /\ mon' = MonNext(mon, ev)
    /\ viol' = viol \cup {[case |-> cid, line |-> l, prop |-> p, e |-> ev.e] : p \in Failed(mon, mon', ev)}
    \* a Send whose stanza went out without an id or with the id of a pending request: the model never does
    /\ LET d == (Proj' # ObsProj(ev.o)) \/ (ev.e = "Send" /\ ev.clash) IN
        /\ dflag' = (dflag \/ d)
        /\ ndiv' = IF d /\ ~dflag THEN ndiv + 1 ELSE ndiv
        /\ divs' = IF d /\ ~dflag /\ Len(divs) < 10
                   THEN Append(divs, [case |-> cid, line |-> l, e |-> ev.e, model |-> Proj', impl |-> ObsProj(ev.o)]) ELSE divs
    /\ UNCHANGED <<cid, ncases, naborts>>

TNext ==
    /\ l <= Len(TraceLog)
    /\ l' = l + 1
    /\ LET ev == TraceLog[l] IN
        IF ev.e = "Reset" THEN ResetStep(ev)
        ELSE IF ev.e \in {"Abort", "Crash"} THEN AbortStep(ev)
        ELSE OpStep(ev)

TSpec == TInit /\ [][TNext]_tvars

Summary == [cases |-> ncases, lines |-> l - 1, viol |-> viol, ndiv |-> ndiv, divs |-> divs, aborts |-> naborts]
Done == l <= Len(TraceLog) \/ CSVWrite("%1$s", <<ToJson(Summary)>>, IOEnv.QXV_SUMMARY)
=============================================================================
