SPECIFICATION Spec
CONSTANTS
  Vers = {"sasl", "sasl2"}
  Mechs = {"PLAIN", "DIGEST-MD5", "ANONYMOUS", "X-UNKNOWN"}
  Creds = {"right", "otherUser", "malformed", "empty"}
  BindRes = {"ra"}
  Kinds = {"message", "presence", "iq"}
  Froms = {"absent", "own", "ownBare", "victim", "other", "ownOtherRes", "ownSibling", "ownCase", "ownSlash", "ownPrefix", "ownDomain", "ownLookalike"}
  Tos = {"victimBare", "victimFull", "domain", "absent"}
  Stanzas <- MidStanzas
  MaxPending = 2
  MaxRetry = 0
  MaxHist = 99
VIEW GenView
ACTION_CONSTRAINT EmitNoReauth
CHECK_DEADLOCK FALSE
