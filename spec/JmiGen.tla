------------------------------- MODULE JmiGen -------------------------------
(* Behaviour export for Jmi (see lib/vf.py: tlc_gen / tlc_simulate).         *)
(* With VIEW View (JmiGenTour*.cfg): transition tour -- every transition of  *)
(* the bounded model reached by a shortest path.  Without a VIEW and with    *)
(* CONSTRAINT Bound (JmiGenAll*.cfg): every event sequence up to MaxHist.    *)
(* SimSpec (JmiGenSim.cfg, -simulate): one disjunct per kind of event with   *)
(* randomly drawn arguments, so that random walks are not dominated by the   *)
(* kinds that have the most argument values (Recv); messages that concern a  *)
(* live session are drawn more often than arbitrary ones.                    *)
EXTENDS Jmi, Json, CSV, IOUtils

\* `moves`: the last step changes the state or makes the manager emit / write / consume something
Quiet(o) == o.sig = <<>> /\ o.sent = <<>> /\ ~o.handled
\* (QXV_QUIET=0: transitions on which nothing moves are not exported)
EmitBehaviour ==
    LET moves == st' # st \/ ~Quiet(out') IN
    (moves \/ IOEnv.QXV_QUIET # "0") => CSVWrite("%1$s", <<ToJson([mode |-> st'.mode, steps |-> hist', moves |-> moves])>>, IOEnv.QXV_GEN)

\* All-paths generation starts inside a call (JmiGenAll*.cfg: SpecOut / SpecIn): the prefix is part of
\* the exported behaviour, then every event sequence up to MaxHist - Len(prefix) further steps follows.
RECURSIVE Run(_, _)
Run(sg, seq) == IF seq = <<>> THEN sg
                ELSE LET e == Head(seq)
                         w == Step(sg.s, e)
                     IN Run([s |-> w.s, g |-> GNext(sg.g, e, ListOf(sg.s), Obs(w))], Tail(seq))
InitAt(m, prefix) == LET r == Run([s |-> S0(m), g |-> G0], prefix)
                     IN st = r.s /\ gh = r.g /\ pv = {} /\ out = Out0 /\ hist = prefix
\* our proposal is out and acknowledged
PrefixOut == <<[a |-> "Propose", p |-> "p1"], [a |-> "Ack"]>>
\* the partner's proposal has been accepted by the user
PrefixIn == <<[a |-> "Recv", from |-> "p1", res |-> "r1", t |-> "propose", id |-> "lo1", wf |-> "ok", v |-> "plain"],
              [a |-> "Proceed", k |-> 1], [a |-> "Ack"]>>
SpecOut == InitAt("sm", PrefixOut) /\ [][Next]_vars
SpecIn  == InitAt("sm", PrefixIn) /\ [][Next]_vars

\* mentions a variable so that TLC does not evaluate the draw once as a constant expression
Rnd(S) == RandomElement({x \in S : Len(hist) >= 0})
ByKind == [k \in Kinds |-> {e \in Events : e.a = k}]
\* A drawn value is passed on as an operator argument (evaluated once); a LET would draw again at every use.
Try(e) == Enabled(st, e) /\ Apply(e)
Draw(S) == LET T == {e \in S : Enabled(st, e)} IN T # {} /\ Apply(Rnd(T))
\* a message of the partner: fields drawn independently; two of four envelopes are well-formed
WfOf(i) == IF i = 3 /\ "nochat" \in Wfs THEN "nochat" ELSE IF i = 4 /\ "nostore" \in Wfs THEN "nostore" ELSE "ok"
RecvOf(t, id, v, from, res, wf) == [a |-> "Recv", from |-> from, res |-> res, t |-> t, id |-> id, wf |-> wf, v |-> v]
IdsFor(t) == IF t = "propose" THEN PeerIds ELSE PeerIds \cup OwnIds(st.np)
DrawRecvT(t) == Try(RecvOf(t, Rnd(IdsFor(t)), Rnd(VarOf(t)), Rnd(Peers), Rnd(Ress), WfOf(Rnd(1..4))))
\* a message about a session that is open (id and partner of a live JMI), any resource, type and payload
HitOf(k, t) == Try(RecvOf(t, st.obj[k].id, Rnd(VarOf(t)), st.obj[k].peer, Rnd(Ress), "ok"))
\* one disjunct per kind of event; messages and acknowledgements more often than the rest
SimNext ==
    \/ \E k \in Kinds \ {"Recv"} : Draw(ByKind[k])
    \/ \E k \in Kinds \cap {"Ring", "Proceed", "Reject", "Retract", "Finish"} : \E i \in 1..2 :
          Draw({e \in ByKind[k] : e.k \in Range(st.ord)})
    \/ \E i \in 1..3 : DrawRecvT(Rnd(Types))
    \/ \E i \in 1..4 : st.ord # <<>> /\ HitOf(Rnd(Range(st.ord)), Rnd(Types))
    \/ \E i \in 1..6 : "Ack" \in Kinds /\ Draw(ByKind["Ack"])
SimSpec == Init /\ [][SimNext]_vars
=============================================================================
