\* Not part of the check: a decoder that keeps the DATA attribute as a reference into the receive buffer
\* ("zero copy").  TLC exhibits Encode, Decode, ReuseBuffer, Observe violating ValueStable.
SPECIFICATION Spec
CONSTANTS
  Mode = "rotate"
  Variants = {1}
  KeyLens <- KeyLensAll
  AddrMode = "off"
  TamperMode = "none"
  TamperVariants = {1, 4}
  TamperAllVariants = {}
  HoldMode = "singles"
  Aliased = {"Data"}
  HelperKeyMax = 300
  HelperTexts = {0, 1, 55, 64, 150}
INVARIANTS TypeOK Integrity Fingerprint RoundTrip OtherKeyRejected ProtectedFlipRejected CoveredFlipRejected EncodedFrame ValueStable
VIEW View
CHECK_DEADLOCK FALSE
