------------------------------ MODULE Blocking ------------------------------
(***************************************************************************)
(* Extension `blocking`: QXmppBlockingManager / QXmppBlocklist             *)
(* (src/client/QXmppBlockingManager.cpp, XEP-0191 Blocking Command)        *)
(* together with its environment: the user (fetchBlocklist / block /       *)
(* unblock, a continuation that retries a refused fetch), the server (the   *)
(* TRUE blocklist `srv`, which resources asked for it `sub`, the two FIFO   *)
(* directions of the stream), other resources of the account, foreign       *)
(* entities that forge pushes / results, and the session (disconnect,       *)
(* reconnect with a new or a resumed stream, XEP-0198).                     *)
(*                                                                         *)
(* Event driven: `Step(s, e)` is the reaction of the whole system to ONE    *)
(* event as a pure function -> [st, out]; `Enabled(s, e)` is the assumption *)
(* about the environment.  BlockingTrace applies the same function to the   *)
(* logged events (no enabling condition) to obtain the reference.           *)
(*                                                                         *)
(* State record                                                             *)
(*   client (mechanism, mirrors QXmppBlockingManagerPrivate + the IQ table) *)
(*     known,list  d->blocklist (optional)     open   d->openFetchBlocklist *)
(*     reqs        OutgoingIqManager entries of the manager's requests      *)
(*     conn        "up" / "res" (session ended, resumable) / "down"         *)
(*     nt,nr       tasks handed out, IQ requests written                    *)
(*   environment                                                            *)
(*     srv   the blocklist on the server       sub  the server pushes to us *)
(*     c2s   requests not yet handled by the server (FIFO)                  *)
(*     s2c   stanzas of the server not yet delivered (FIFO; XEP-0198 keeps  *)
(*           both across a resumable loss of the connection)                *)
(*   ghost   live  tasks handed out and not finished                        *)
(*                                                                         *)
(* The reaction is the INTENDED one.  Where the checked tree departs        *)
(* (docs/ext-blocking.md) the text says so:                                 *)
(*   [B1] <unblock/> without items = unblock all (XEP-0191 3.5): the cache  *)
(*        is emptied and unblocked() reports the entries that were removed  *)
(*   [B2] fetchBlocklist() called from the continuation of a failed fetch   *)
(*        starts a new round (new request, the new task finishes with ITS   *)
(*        answer)                                                           *)
(*   [B3..B5] QXmppBlocklist::blockingState matches JIDs by their parts     *)
(* Everything else follows the code, including what XEP-0191 is silent on   *)
(* (pushes while not subscribed are refused with unexpected-request, the    *)
(* cache survives until the next `connected` without resumption).           *)
(***************************************************************************)
EXTENDS Naturals, Sequences, FiniteSets, TLC

CONSTANTS Jids,      \* blocklist entries of the protocol model ("j1","j2","j3")
          InitSrv,   \* the server's list when the execution starts
          Kinds,     \* event kinds switched on
          Retries,   \* values of the `re` argument of Fetch (retry a refused fetch from the continuation)
          MaxT,      \* user calls
          MaxO,      \* changes by other resources
          MaxD,      \* disconnects
          MaxQ,      \* bound of each FIFO
          ProbeMax,  \* blockingState probes: lists of at most this many entries
          CmdSets,   \* arguments of block()/unblock() ({} = no item: "unblock all")
          OthSets,   \* what other resources block / unblock
          Froms      \* `from` the server writes on its stanzas: "none" (absent), "bare" (the account)

VARIABLES st, out, hist
vars == <<st, out, hist>>

Range(q) == {q[i] : i \in DOMAIN q}
JidOrder == <<"j1", "j2", "j3">>
ASSUME Jids \subseteq Range(JidOrder) /\ InitSrv \subseteq Jids /\ CmdSets \subseteq SUBSET Jids /\ OthSets \subseteq SUBSET Jids
Sorted(X) == SelectSeq(JidOrder, LAMBDA j : j \in X)
JSeqs == {Sorted(X) : X \in SUBSET Jids}
Cnt(q, x) == Cardinality({i \in DOMAIN q : q[i] = x})

(* ---------------------------------------------------------------- records *)
Snt(k, id, J, c) == [k |-> k, id |-> id, J |-> J, c |-> c]   \* something the client wrote
Sg(s, J)         == [s |-> s, J |-> J]                       \* a signal of the manager
Dn(t, r, J)      == [t |-> t, r |-> r, J |-> J]              \* a task finished: r = "list" / "ok" / "err"
Msg(k, id, J)    == [k |-> k, id |-> id, J |-> J]            \* stanza in a FIFO
O(sent, sig, done) == [sent |-> sent, sig |-> sig, done |-> done]
O0 == O(<<>>, <<>>, <<>>)
R(s, sent, sig, done) == [st |-> s, out |-> O(sent, sig, done)]
Quiet(s) == R(s, <<>>, <<>>, <<>>)

S0(srv0) == [conn |-> "up", known |-> FALSE, list |-> {}, open |-> <<>>, reqs |-> {}, nt |-> 0, nr |-> 0,
             srv |-> srv0, sub |-> FALSE, c2s |-> <<>>, s2c |-> <<>>, live |-> {}, no |-> 0, nd |-> 0]

HasReq(s, id) == \E r \in s.reqs : r.id = id
ReqOf(s, id)  == CHOOSE r \in s.reqs : r.id = id
OpenTasks(s)  == {s.open[i].t : i \in DOMAIN s.open}
OpenDone(s, r, J) == [i \in DOMAIN s.open |-> Dn(s.open[i].t, r, J)]
TaskName(n) == "t" \o ToString(n)

\* OutgoingIqManager::cancelAll: every request of the manager finishes with an error (reference order: by id)
RECURSIVE CancelFrom(_, _)
CancelFrom(s, id) ==
    IF id > s.nr THEN <<>>
    ELSE (IF HasReq(s, id)
          THEN (IF ReqOf(s, id).k = "fetch" THEN OpenDone(s, "err", <<>>) ELSE <<Dn(ReqOf(s, id).t, "err", <<>>)>>)
          ELSE <<>>) \o CancelFrom(s, id + 1)
Cancelled(s) == [s EXCEPT !.reqs = {}, !.open = <<>>, !.live = {}]

(* ------------------------------------------------------------------ user *)
\* QXmppBlockingManager::fetchBlocklist
FetchStep(s, e) ==
    LET t  == TaskName(s.nt + 1)
        s1 == [s EXCEPT !.nt = @ + 1]
        me == [t |-> t, re |-> e.re]
    IN IF s.known THEN R(s1, <<>>, <<>>, <<Dn(t, "list", Sorted(s.list))>>)
       ELSE IF s.open # <<>> THEN Quiet([s1 EXCEPT !.open = Append(@, me), !.live = @ \cup {t}])
       ELSE IF s.conn # "up" THEN R(s1, <<>>, <<>>, <<Dn(t, "err", <<>>)>>)    \* nothing can be written
       ELSE LET id == s.nr + 1 IN
            R([s1 EXCEPT !.nr = id, !.open = <<me>>, !.reqs = @ \cup {[id |-> id, k |-> "fetch", t |-> ""]},
                         !.c2s = Append(@, Msg("fetch", id, <<>>)), !.live = @ \cup {t}],
              <<Snt("fetch", id, <<>>, "")>>, <<>>, <<>>)

\* QXmppBlockingManager::block / unblock
CmdStep(s, e) ==
    LET t  == TaskName(s.nt + 1)
        s1 == [s EXCEPT !.nt = @ + 1]
        k  == IF e.a = "Block" THEN "block" ELSE "unblock"
    IN IF s.conn # "up" THEN R(s1, <<>>, <<>>, <<Dn(t, "err", <<>>)>>)
       ELSE LET id == s.nr + 1 IN
            R([s1 EXCEPT !.nr = id, !.reqs = @ \cup {[id |-> id, k |-> k, t |-> t]},
                         !.c2s = Append(@, Msg(k, id, e.J)), !.live = @ \cup {t}],
              <<Snt(k, id, e.J, "")>>, <<>>, <<>>)

(* ------------------------------------------------- stanzas that reach the client *)
\* QXmppBlockingManager::handleStanza for a <block/> / <unblock/> set; ok = sent by the own account / server
PushStep(s, k, J, ok) ==
    IF ~ok THEN R(s, <<Snt("deny", 0, <<>>, "forbidden")>>, <<>>, <<>>)
    ELSE IF ~s.known THEN R(s, <<Snt("deny", 0, <<>>, "unexpected-request")>>, <<>>, <<>>)
    ELSE IF k = "pblock"
         THEN R([s EXCEPT !.list = @ \cup Range(J)], <<Snt("ack", 0, <<>>, "")>>, <<Sg("blocked", J)>>, <<>>)
    ELSE IF J = <<>>                                                                        \* [B1] unblock all
         THEN R([s EXCEPT !.list = {}], <<Snt("ack", 0, <<>>, "")>>, <<Sg("unblocked", Sorted(s.list))>>, <<>>)
    ELSE R([s EXCEPT !.list = @ \ Range(J)], <<Snt("ack", 0, <<>>, "")>>, <<Sg("unblocked", J)>>, <<>>)

\* the blocklist request was refused: every waiting task fails; a task whose continuation calls
\* fetchBlocklist() again starts the next round                                              [B2]
FetchErrStep(s, r) ==
    LET retr == SelectSeq(s.open, LAMBDA x : x.re)
        nopen == [i \in DOMAIN retr |-> [t |-> retr[i].t \o "r", re |-> FALSE]]
        id == s.nr + 1
        again == retr # <<>>
    IN R([s EXCEPT !.reqs = (@ \ {r}) \cup (IF again THEN {[id |-> id, k |-> "fetch", t |-> ""]} ELSE {}),
                   !.open = nopen, !.nr = IF again THEN id ELSE @,
                   !.c2s = IF again THEN Append(@, Msg("fetch", id, <<>>)) ELSE @,
                   !.live = (@ \ OpenTasks(s)) \cup {nopen[i].t : i \in DOMAIN nopen}],
         IF again THEN <<Snt("fetch", id, <<>>, "")>> ELSE <<>>, <<>>, OpenDone(s, "err", <<>>))

FetchResStep(s, r, J) ==
    R([s EXCEPT !.known = TRUE, !.list = IF s.known THEN @ ELSE Range(J), !.open = <<>>, !.reqs = @ \ {r},
                !.live = @ \ OpenTasks(s)],
      <<>>, IF s.known THEN <<>> ELSE <<Sg("sub", <<>>)>>, OpenDone(s, "list", Sorted(Range(J))))

\* e.m is delivered to the client; e.fr = the `from` the server wrote ("none" / "bare": both mean the server)
DeliverStep(s, e) ==
    LET m  == e.m
        s1 == IF s.s2c # <<>> /\ Head(s.s2c) = m THEN [s EXCEPT !.s2c = Tail(@)] ELSE s
    IN CASE m.k \in {"pblock", "punblock"} -> PushStep(s1, m.k, m.J, TRUE)
         [] m.k \in {"fres", "res", "err"} ->
              IF ~HasReq(s1, m.id) THEN Quiet(s1)                          \* not (or no longer) awaited: ignored
              ELSE LET r == ReqOf(s1, m.id) IN
                   IF r.k = "fetch"
                   THEN (IF m.k = "err" THEN FetchErrStep(s1, r) ELSE FetchResStep(s1, r, m.J))
                   ELSE R([s1 EXCEPT !.reqs = @ \ {r}, !.live = @ \ {r.t}], <<>>, <<>>,
                          <<Dn(r.t, IF m.k = "err" THEN "err" ELSE "ok", <<>>)>>)
         [] OTHER -> Quiet(s1)

(* ---------------------------------------------------------------- server *)
\* the server handles the oldest request: mode "pf" push before the result, "rf" result first, "refuse"
SrvStep(s, e) ==
    LET rq == e.rq
        s1 == IF s.c2s # <<>> /\ Head(s.c2s) = rq THEN [s EXCEPT !.c2s = Tail(@)] ELSE s
        ans(k) == Msg(k, rq.id, <<>>)
        both(push) == IF e.mode = "rf" THEN <<ans("res")>> \o push ELSE push \o <<ans("res")>>
    IN Quiet(
       IF e.mode = "refuse" \/ (rq.k = "block" /\ rq.J = <<>>) THEN [s1 EXCEPT !.s2c = Append(@, ans("err"))]
       ELSE CASE rq.k = "fetch" -> [s1 EXCEPT !.sub = TRUE, !.s2c = Append(@, Msg("fres", rq.id, Sorted(s1.srv)))]
              [] rq.k = "block" -> [s1 EXCEPT !.srv = @ \cup Range(rq.J),
                                              !.s2c = @ \o both(IF s1.sub THEN <<Msg("pblock", 0, rq.J)>> ELSE <<>>)]
              [] rq.k = "unblock" -> [s1 EXCEPT !.srv = IF rq.J = <<>> THEN {} ELSE @ \ Range(rq.J),
                                                !.s2c = @ \o both(IF s1.sub THEN <<Msg("punblock", 0, rq.J)>> ELSE <<>>)]
              [] OTHER -> s1)

\* another resource of the account changes the list; all = the server pushes to every resource, asked or not
OtherStep(s, e) ==
    Quiet([s EXCEPT !.no = @ + 1,
                    !.srv = IF e.k = "pblock" THEN @ \cup Range(e.J) ELSE IF e.J = <<>> THEN {} ELSE @ \ Range(e.J),
                    !.s2c = IF (s.sub \/ e.all) /\ s.conn # "down" THEN Append(@, Msg(e.k, 0, e.J)) ELSE @])

(* --------------------------------------------------------------- session *)
DisconnectStep(s, e) ==
    IF e.kd = "resumable" THEN Quiet([s EXCEPT !.conn = "res", !.nd = @ + 1])
    ELSE R([Cancelled(s) EXCEPT !.conn = "down", !.nd = @ + 1, !.sub = FALSE, !.c2s = <<>>, !.s2c = <<>>],
           <<>>, <<>>, CancelFrom(s, 1))

ConnectStep(s, e) ==
    IF e.kc = "resumed" THEN Quiet([s EXCEPT !.conn = "up"])
    ELSE R([Cancelled(s) EXCEPT !.conn = "up", !.sub = FALSE, !.c2s = <<>>, !.s2c = <<>>, !.known = FALSE, !.list = {}],
           <<Snt("pres", 0, <<>>, "")>>, IF s.known THEN <<Sg("sub", <<>>)>> ELSE <<>>, CancelFrom(s, 1))

(* ------------------------------------------------------------ one event *)
Step(s, e) ==
    CASE e.a = "Fetch"      -> FetchStep(s, e)
      [] e.a \in {"Block", "Unblock"} -> CmdStep(s, e)
      [] e.a = "Deliver"    -> DeliverStep(s, e)
      [] e.a = "Srv"        -> SrvStep(s, e)
      [] e.a = "Other"      -> OtherStep(s, e)
      [] e.a = "Foreign"    -> PushStep(s, e.k, e.J, FALSE)              \* a push that is not from our account
      [] e.a = "PushGet"    -> R(s, <<Snt("deny", 0, <<>>, "feature-not-implemented")>>, <<>>, <<>>)
      [] e.a = "ForeignRes" -> Quiet(s)                                   \* an answer from somebody we did not ask
      [] e.a = "Disconnect" -> DisconnectStep(s, e)
      [] e.a = "Connect"    -> ConnectStep(s, e)
      [] OTHER              -> Quiet(s)

(* ------------------------------------------ assumptions about the environment *)
Enabled(s, e) ==
    CASE e.a \in {"Fetch", "Block", "Unblock"} -> s.nt < MaxT /\ (s.conn = "up" => Len(s.c2s) < MaxQ)
      [] e.a = "Deliver" -> s.conn = "up" /\ s.s2c # <<>> /\ e.m = Head(s.s2c)
      [] e.a = "Srv" -> /\ s.conn # "down" /\ s.c2s # <<>> /\ e.rq = Head(s.c2s) /\ Len(s.s2c) + 2 <= MaxQ
                        /\ (e.rq.k = "fetch" \/ ~s.sub) => e.mode # "rf"
                        /\ (e.rq.k = "block" /\ e.rq.J = <<>>) => e.mode = "refuse"
      [] e.a = "Other" -> /\ s.no < MaxO /\ Len(s.s2c) < MaxQ
                          /\ e.all => (~s.sub /\ s.conn = "up")
      [] e.a \in {"Foreign", "PushGet"} -> s.conn = "up"
      [] e.a = "ForeignRes" -> s.conn = "up" /\ HasReq(s, e.id)
      [] e.a = "Disconnect" -> s.conn = "up" /\ s.nd < MaxD
      [] e.a = "Connect" -> s.conn # "up" /\ (e.kc = "resumed" => s.conn = "res")
      [] OTHER -> FALSE

\* the events that do not depend on the state; Deliver / Srv / ForeignRes are built from the state
FreeEvents ==
         [a : {"Fetch"}, re : Retries]
    \cup [a : {"Block"}, J : {Sorted(X) : X \in CmdSets}]
    \cup [a : {"Unblock"}, J : {Sorted(X) : X \in CmdSets}]
    \cup [a : {"Other"}, k : {"pblock"}, J : {Sorted(X) : X \in OthSets} \ {<<>>}, all : BOOLEAN]
    \cup [a : {"Other"}, k : {"punblock"}, J : {Sorted(X) : X \in OthSets}, all : BOOLEAN]
    \cup [a : {"Foreign"}, k : {"pblock", "punblock"}, J : {Sorted(Jids)}, fr : {"other", "full", "domain"}]
    \cup [a : {"PushGet"}, k : {"pblock"}]
    \cup [a : {"Disconnect"}, kd : {"plain", "resumable"}]
    \cup [a : {"Connect"}, kc : {"new", "resumed"}]
StateEvents(s) ==
         (IF s.s2c # <<>> THEN [a : {"Deliver"}, m : {Head(s.s2c)}, fr : Froms] ELSE {})
    \cup (IF s.c2s # <<>> THEN [a : {"Srv"}, rq : {Head(s.c2s)}, mode : {"pf", "rf", "refuse"}] ELSE {})
    \cup [a : {"ForeignRes"}, id : {r.id : r \in s.reqs}, k : {"fres", "err"}]
EventsAt(s) == {e \in FreeEvents \cup StateEvents(s) : e.a \in Kinds}

Init == st = S0(InitSrv) /\ out = O0 /\ hist = <<>>
Apply(e) == LET r == Step(st, e) IN st' = r.st /\ out' = r.out /\ hist' = Append(hist, e)
Next == \E e \in EventsAt(st) : Enabled(st, e) /\ Apply(e)
Spec == Init /\ [][Next]_vars

(* ------------------------------------------------------------ properties *)
\* what the cache becomes when everything on its way has arrived
RECURSIVE Replay(_, _, _)
Replay(known, list, q) ==
    IF q = <<>> THEN [known |-> known, list |-> list]
    ELSE LET m == Head(q) IN
         CASE m.k = "fres"     -> Replay(TRUE, IF known THEN list ELSE Range(m.J), Tail(q))
           [] m.k = "pblock"   -> Replay(known, IF known THEN list \cup Range(m.J) ELSE list, Tail(q))
           [] m.k = "punblock" -> Replay(known, IF ~known THEN list ELSE IF m.J = <<>> THEN {} ELSE list \ Range(m.J), Tail(q))
           [] OTHER            -> Replay(known, list, Tail(q))
\* P_Truth: the cached list (known, list) plus what is still in flight equals the server's list
P_Truth(conn, known, list, s2c, srv) ==
    conn # "down" => LET r == Replay(known, list, s2c) IN r.known => r.list = srv
\* P_Once: the tasks that finish were handed out and had not finished; none finishes twice in a step
P_Once(live, done) == \A i \in DOMAIN done : done[i].t \in live /\ Cnt([j \in DOMAIN done |-> done[j].t], done[i].t) = 1
\* P_Signals: blocked()/unblocked() fire once per accepted push and report the change: everything that
\* changed, nothing that was not in the push (all of the old list for "unblock all"); never otherwise
P_Signals(e, known0, list0, list1, sig) ==
    LET bs == SelectSeq(sig, LAMBDA x : x.s \in {"blocked", "unblocked"})
        acc == e.a = "Deliver" /\ e.m.k \in {"pblock", "punblock"} /\ known0
    IN IF ~acc THEN bs = <<>>
       ELSE /\ Len(bs) = 1
            /\ bs[1].s = IF e.m.k = "pblock" THEN "blocked" ELSE "unblocked"
            /\ LET X == Range(bs[1].J) IN
               IF e.m.k = "pblock" THEN (list1 \ list0) \subseteq X /\ X \subseteq Range(e.m.J)
               ELSE IF e.m.J = <<>> THEN X = list0
               ELSE (list0 \ list1) \subseteq X /\ X \subseteq Range(e.m.J)
\* P_SubSig: subscribedChanged fires exactly when isSubscribed() changes
P_SubSig(known0, known1, sig) == Cnt([i \in DOMAIN sig |-> sig[i].s], "sub") = IF known0 # known1 THEN 1 ELSE 0
\* P_Fresh: nothing of an old session survives a `connected` without resumption / a plain disconnect
P_Fresh(e, s1) == /\ (e.a = "Connect" /\ e.kc = "new") => (~s1.known /\ s1.live = {})
                  /\ (e.a = "Disconnect" /\ e.kd = "plain") => s1.live = {}

Truth      == P_Truth(st.conn, st.known, st.list, st.s2c, st.srv)
SubAgree   == (st.known /\ st.conn # "down") => st.sub
OneFetch   == Cardinality({r \in st.reqs : r.k = "fetch"}) <= 1 /\ (st.open # <<>> <=> \E r \in st.reqs : r.k = "fetch")
LiveAccounted == st.live = OpenTasks(st) \cup {r.t : r \in {x \in st.reqs : x.k # "fetch"}}
\* every request the client waits for is on its way to the server or answered on its way back, exactly once
Answerable == st.conn # "down" =>
    \A r \in st.reqs : Cardinality({i \in DOMAIN st.c2s : st.c2s[i].id = r.id})
                       + Cardinality({i \in DOMAIN st.s2c : st.s2c[i].id = r.id /\ st.s2c[i].k \in {"fres", "res", "err"}}) = 1
DownIsEmpty == st.conn = "down" => (st.reqs = {} /\ st.open = <<>> /\ st.live = {} /\ ~st.sub)
TypeOK ==
    /\ st.conn \in {"up", "res", "down"} /\ st.known \in BOOLEAN /\ st.list \subseteq Jids /\ st.srv \subseteq Jids
    /\ (~st.known => st.list = {}) /\ st.sub \in BOOLEAN
    /\ \A r \in st.reqs : r.id \in 1..st.nr /\ r.k \in {"fetch", "block", "unblock"}
    /\ Len(st.c2s) <= MaxQ /\ Len(st.s2c) <= MaxQ + 1

LastEv == hist'[Len(hist')]
UserCalls == {"Fetch", "Block", "Unblock"}
OnceOnly     == [][P_Once(st.live \cup (IF LastEv.a \in UserCalls THEN {TaskName(st.nt + 1)} ELSE {}), out'.done)]_vars
SignalsDelta == [][P_Signals(LastEv, st.known, st.list, st'.list, out'.sig) /\ P_SubSig(st.known, st'.known, out'.sig)]_vars
FreshSession == [][P_Fresh(LastEv, st')]_vars
\* a request is written only by a user call or by the retry of a refused fetch, and one blocklist request serves all callers
SentTied     == [][\A i \in DOMAIN out'.sent : out'.sent[i].k \in {"fetch", "block", "unblock"} =>
                        \/ LastEv.a \in {"Fetch", "Block", "Unblock"}
                        \/ LastEv.a = "Deliver" /\ LastEv.m.k = "err" /\ out'.sent[i].k = "fetch"]_vars

(* ------------------------------------------- QXmppBlocklist::blockingState *)
\* JIDs of the probes with their parts; an empty part of an ENTRY is a wildcard (XEP-0191 "JID matching":
\* user@domain/resource, user@domain, domain/resource, domain), an empty part of the QUERIED JID stands for
\* "all of them" (a bare JID is partially blocked if one of its resources is).  The look-alikes x.org.evil /
\* ex.org contain "@x.org" resp. "x.org/" as substrings.
PJ == [j \in {"a@x.org/1", "a@x.org/2", "a@x.org", "b@x.org", "x.org/1", "x.org", "a@x.org.evil", "a@ex.org/1"} |->
        CASE j = "a@x.org/1"    -> [u |-> "a", d |-> "x.org", r |-> "1"]
          [] j = "a@x.org/2"    -> [u |-> "a", d |-> "x.org", r |-> "2"]
          [] j = "a@x.org"      -> [u |-> "a", d |-> "x.org", r |-> ""]
          [] j = "b@x.org"      -> [u |-> "b", d |-> "x.org", r |-> ""]
          [] j = "x.org/1"      -> [u |-> "",  d |-> "x.org", r |-> "1"]
          [] j = "x.org"        -> [u |-> "",  d |-> "x.org", r |-> ""]
          [] j = "a@x.org.evil" -> [u |-> "a", d |-> "x.org.evil", r |-> ""]
          [] j = "a@ex.org/1"   -> [u |-> "a", d |-> "ex.org", r |-> "1"]]
PNames == DOMAIN PJ
POrder == <<"a@ex.org/1", "a@x.org", "a@x.org.evil", "a@x.org/1", "a@x.org/2", "b@x.org", "x.org", "x.org/1">>
PSorted(X) == SelectSeq(POrder, LAMBDA j : j \in X)
Covers(e, q)  == e.d = q.d /\ (e.u = "" \/ e.u = q.u) /\ (e.r = "" \/ e.r = q.r)
Overlaps(e, q) == e.d = q.d /\ (e.u = "" \/ q.u = "" \/ e.u = q.u) /\ (e.r = "" \/ q.r = "" \/ e.r = q.r)
ProbeRef(L, q) ==
    LET bl == {j \in Range(L) : Covers(PJ[j], PJ[q])}
        pl == {j \in Range(L) : Overlaps(PJ[j], PJ[q]) /\ ~Covers(PJ[j], PJ[q])}
    IN [kind |-> IF bl # {} THEN "blocked" ELSE IF pl # {} THEN "partial" ELSE "none", bl |-> bl, pl |-> pl]
ProbeLists == {PSorted(X) : X \in {Y \in SUBSET PNames : Cardinality(Y) <= ProbeMax}}
ProbeEvents == [a : {"Probe"}, L : ProbeLists, q : PNames]
\* design level: the reference agrees with XEP-0191's matching order for full JIDs and never reports an entry of another domain
ASSUME ProbeSane == \A e \in ProbeEvents : LET p == ProbeRef(e.L, e.q) IN
                /\ \A j \in p.bl \cup p.pl : PJ[j].d = PJ[e.q].d
                /\ (PJ[e.q].u # "" /\ PJ[e.q].r # "") => p.pl = {}
                /\ p.bl \cap p.pl = {}

Reinit(srv0) == st' = S0(srv0) /\ out' = O0 /\ hist' = <<>>
View == st
=============================================================================
