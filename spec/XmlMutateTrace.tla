--------------------------- MODULE XmlMutateTrace ---------------------------
(***************************************************************************)
(* Trace validation for XmlMutate (C02).  The trace (ndjson, written by    *)
(* `qxv codec`) holds, per document handed to the parsers,                 *)
(*   {"e":"Begin","case":id}      written and flushed before the document  *)
(*                                is built and parsed                      *)
(*   {"e":"Doc","case":id,"seed":s,"steps":[...],"applied":[...],          *)
(*    "wfdoc":b,"done":true,"runs":n,"admitted":m,"sent":k,"bad":[...]}    *)
(*                                what the implementation did: `bad` lists *)
(*                                per parser class what failed             *)
(*                                ("illformed" | "fixpoint" |              *)
(*                                 "reparse-rejected")                     *)
(*   {"e":"Seed",...}             the same for an unmutated seed document  *)
(* Three layers per line:                                                  *)
(*  - model:   the plan is replayed on the abstract tree of XmlMutate      *)
(*             (a step that is not enabled there is skipped) and           *)
(*             WellFormed is evaluated on the result; a position plan (one *)
(*             move of Moves(seed) on the concrete seed, "abs") must be a  *)
(*             move of the alphabet;                                       *)
(*  - monitor: the C02 predicates on the logged observations only: every   *)
(*             begun document is finished (a Begin that is followed by     *)
(*             another Begin or by the end of the trace is a crash or a    *)
(*             hang), every output is well-formed, one pass is a fixpoint; *)
(*  - compare: which steps the model could take vs which the driver could  *)
(*             apply on the concrete seed: a mismatch marks the execution  *)
(*             as diverged (the concrete seed has another shape than the   *)
(*             abstract one; never a violation).                           *)
(***************************************************************************)
EXTENDS XmlMutate, Integers, Json, CSV, IOUtils, FiniteSets

TraceLog == ndJsonDeserialize(IOEnv.QXV_TRACE)

VARIABLES l,        \* next line
          open,     \* case begun and not yet finished ("" = none)
          viol,     \* set of property violations found
          ndiv, ncases, nruns, nwf

tvars == <<vars, l, open, viol, ndiv, ncases, nruns, nwf>>

TInit ==
    /\ Init
    /\ l = 1 /\ open = "" /\ viol = {} /\ ndiv = 0 /\ ncases = 0 /\ nruns = 0 /\ nwf = 0

\* the logged step as a move of XmlMutate
AsMove(s) ==
    IF s.op \in AttrOps THEN [op |-> s.op, p |-> s.p, a |-> s.a, to |-> Target(s.op)] ELSE s

RECURSIVE Replay(_, _, _)
\* returns <<tree, sequence of BOOLEAN (step was enabled in the model)>>
Replay(t, steps, k) ==
    IF k > Len(steps) THEN <<t, <<>>>>
    ELSE LET m == AsMove(steps[k])
             en == Enabled(t, m)
             t2 == IF en THEN Apply(t, m.p, m) ELSE t
             rest == Replay(t2, steps, k + 1)
         IN <<rest[1], <<en>> \o rest[2]>>

PropOf(kind) ==
    CASE kind = "illformed" -> "WellFormedOut"
      [] kind = "fixpoint" -> "Fixpoint"
      [] kind = "reparse-rejected" -> "Fixpoint"
      [] OTHER -> "Other"

Unfinished == IF open = "" THEN {} ELSE {[case |-> open, prop |-> "Terminated", cls |-> "", kind |-> "unfinished"]}

BeginStep(ev) ==
    /\ viol' = viol \cup Unfinished
    /\ open' = ev.case
    /\ UNCHANGED <<vars, ndiv, ncases, nruns, nwf>>

\* position plans ("abs": every enabled move on the concrete seed itself) are not replayed on the
\* abstract tree: the model layer checks that the step is a move of the alphabet
IsPosition(steps) == Len(steps) = 1 /\ "abs" \in DOMAIN steps[1]

DocStep(ev, steps) ==
    LET pos == IsPosition(steps)
        r == IF pos THEN <<Seed, ev.applied>> ELSE Replay(Seed, steps, 1)
        modelWf == IF pos THEN steps[1].op \in AllOps ELSE WF(r[1])
        found == {[case |-> ev.case, prop |-> PropOf(ev.bad[i].k), cls |-> ev.bad[i].c, kind |-> ev.bad[i].k] : i \in 1..Len(ev.bad)}
        notDone == IF P_Terminated(ev.done) THEN {} ELSE {[case |-> ev.case, prop |-> "Terminated", cls |-> "", kind |-> "not-done"]}
        diverged == steps # <<>> /\ r[2] # ev.applied
    IN
    /\ tree' = r[1] /\ nmut' = Len(steps) /\ hist' = steps
    /\ viol' = viol \cup found \cup notDone \cup (IF open = ev.case THEN {} ELSE Unfinished)
    /\ open' = ""
    /\ ndiv' = IF diverged THEN ndiv + 1 ELSE ndiv
    /\ nwf' = IF modelWf THEN nwf + 1 ELSE nwf
    /\ ncases' = ncases + 1
    /\ nruns' = nruns + ev.runs

OtherStep(ev) ==
    /\ open' = "" /\ UNCHANGED <<vars, viol, ndiv, ncases, nruns, nwf>>

TNext ==
    /\ l <= Len(TraceLog)
    /\ l' = l + 1
    /\ LET ev == TraceLog[l] IN
        CASE ev.e = "Begin" -> BeginStep(ev)
          [] ev.e = "Doc"   -> DocStep(ev, ev.steps)
          [] ev.e = "Seed"  -> DocStep(ev, <<>>)
          [] OTHER          -> OtherStep(ev)

TSpec == TInit /\ [][TNext]_tvars

Summary == [cases |-> ncases, lines |-> l - 1, viol |-> viol \cup Unfinished, ndiv |-> ndiv, divs |-> <<>>,
            runs |-> nruns, model_wellformed |-> nwf]
Done == l <= Len(TraceLog) \/ CSVWrite("%1$s", <<ToJson(Summary)>>, IOEnv.QXV_SUMMARY)
=============================================================================
