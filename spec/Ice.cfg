SPECIFICATION Spec
CONSTANTS
  Roles = {TRUE, FALSE}
  RequireMI = TRUE
  Dispatch = "class"
  Methods = {"binding", "other"}
  Priorities = {TRUE, FALSE}
  ForgedAuth = {"none", "wrong", "trunc"}
  Usernames = {"ok", "other"}
  MaxTx = 4
  MaxTicks = 2
  Timers = TRUE
  MaxHist = 99
INVARIANTS TypeOK SelectedIsValid PairsKnown
PROPERTIES AuthOnly
CONSTRAINT Bound
VIEW View
CHECK_DEADLOCK FALSE
