SPECIFICATION Spec
CONSTANTS
  Senders = {"o1", "a1", "b1"}
  EchoSenders = {"o1"}
  MsgKeys = {"o1", "a1", "b1", "k"}
  MaxDec = 2
  ManualMax = 2
  Combos <- CombosAll
  MaxHist = 2
VIEW GenView
ACTION_CONSTRAINT EmitBehaviour
CHECK_DEADLOCK FALSE
