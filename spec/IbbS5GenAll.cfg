SPECIFICATION Spec
CONSTANTS
  Anns = {"both"}
  Devs = {"all"}
  Sizes = {0, 1, 2, 3, 4}
  MaxFaults = 1
  FaultKinds = {"Flip", "Drop", "Dup", "Swap", "Cut"}
  Foreign = {}
  MaxHist = 99
CONSTRAINT Bound
ACTION_CONSTRAINT EmitBehaviour
CHECK_DEADLOCK FALSE
