SPECIFICATION TSpec
CONSTANTS
  Senders = {}
  EchoSenders = {}
  MsgKeys = {}
  MaxDec = 0
  ManualMax = 0
  Combos = {}
  MaxHist = 0
INVARIANT Done
CHECK_DEADLOCK FALSE
