--------------------------- MODULE ClientAuxTrace ---------------------------
(***************************************************************************)
(* Trace validation for ClientAux (traces written by `qxv clientaux`).      *)
(* Per line: the environment's move with its arguments, the elements the    *)
(* real QXmppClient wrote (`out`, read from its logger and projected to the *)
(* element records of ClientAux), the signals it fired (`sig`) and a        *)
(* projection of its state afterwards (`post`).                             *)
(*                                                                          *)
(* Layers (see TaskTrace / ClientStreamTrace):                              *)
(*  - model:   ClientAux's action for the logged move (or a stutter if it   *)
(*             is not enabled: the execution is then diverged);             *)
(*  - monitor: `mon`, built only from logged inputs and observations: the   *)
(*             server/application ghost of ClientAux (SrvEvent / SrvWrites  *)
(*             applied to the script's moves and to what the client really  *)
(*             wrote), the state the application set, the stored token; the *)
(*             invariants of ClientAux are evaluated on it as P_* operators;*)
(*  - compare: the model's projection / output / signals against the        *)
(*             logged ones; a mismatch only marks the execution diverged.   *)
(* A line on which the hang detector fired is not judged.                   *)
(***************************************************************************)
EXTENDS ClientAuxMC, Integers, Json, CSV, IOUtils

TraceLog == ndJsonDeserialize(IOEnv.QXV_TRACE)

VARIABLES l, cid, mon, viol, ndiv, divs, dflag, ncases, nreset, rflag

tvars == <<vars, l, cid, mon, viol, ndiv, divs, dflag, ncases, nreset, rflag>>

Cfg0 == [carb |-> FALSE, fast |-> FALSE, tok0 |-> FALSE]

\* srv: ghost under the judged semantics; srvR: the same under "a resumed session starts active"
Mon0(cf) == [srv |-> S0(cf), srvR |-> S0(cf), app |-> "active", tok |-> IF cf.tok0 THEN 1 ELSE 0]

TInit ==
    /\ cfg = Cfg0 /\ c = C0(Cfg0) /\ s = S0(Cfg0) /\ lastOut = <<>> /\ lastSig = <<>> /\ hist = <<>>
    /\ l = 1 /\ cid = "" /\ mon = Mon0(Cfg0) /\ viol = {} /\ ndiv = 0 /\ divs = <<>> /\ dflag = FALSE /\ ncases = 0
    /\ nreset = 0 /\ rflag = FALSE

\* the move as ClientAux records it in hist (and as SrvEvent reads it)
MoveOf(ev) ==
    CASE ev.e = "Connect"      -> [k |-> "Connect", f |-> ev.f]
      [] ev.e = "AuthOk2"      -> [k |-> "AuthOk2", tk |-> ev.tk, res |-> ev.res, bnd |-> ev.bnd]
      [] ev.e = "PostFeatures" -> [k |-> "PostFeatures", g |-> ev.g]
      [] ev.e = "Enabled"      -> [k |-> "Enabled", resume |-> ev.resume]
      [] ev.e = "SetState"     -> [k |-> "SetState", v |-> ev.v]
      [] OTHER                 -> [k |-> ev.e]

ModelAct(ev) ==
    CASE ev.e = "Connect"      -> Connect(ev.f)
      [] ev.e = "AuthOk"       -> AuthOk
      [] ev.e = "AuthOk2"      -> AuthOk2(ev.tk, ev.res, ev.bnd)
      [] ev.e = "AuthFail"     -> AuthFail
      [] ev.e = "PostFeatures" -> PostFeatures(ev.g)
      [] ev.e = "Resumed"      -> Resumed
      [] ev.e = "ResumeFailed" -> ResumeFailed
      [] ev.e = "BindOk"       -> BindOk
      [] ev.e = "Enabled"      -> Enabled(ev.resume)
      [] ev.e = "EnableFailed" -> EnableFailed
      [] ev.e = "SetState"     -> SetState(ev.v)
      [] ev.e = "Cut"          -> Cut
      [] ev.e = "Disconnect"   -> UserDisconnect
      [] OTHER                 -> FALSE

Rel(out)     == SelectSeq(out, LAMBDA e : e.k \in Kinds)
SessSig(sig) == SelectSeq(sig, LAMBDA x : x \in {"connected", "disconnected", "credentialsChanged"})
Has(sig, x)  == \E i \in DOMAIN sig : sig[i] = x
AuthEls(out) == SelectSeq(out, LAMBDA e : e.k \in {"Sasl2Authenticate", "SaslAuth"})

ModelProj == [phase |-> c.phase, authed |-> c.authed, app |-> c.app, b2Bound |-> c.b2Bound, cEn |-> c.cEn,
              smEn |-> c.smEn, smRes |-> c.smRes, canRes |-> c.canRes, tok |-> c.tok]
ImplProj(p) == [phase |-> p.phase, authed |-> p.authed, app |-> p.app, b2Bound |-> p.b2Bound, cEn |-> p.cEn,
                smEn |-> p.smEn, smRes |-> p.smRes, canRes |-> p.canRes, tok |-> p.tok]

\* "a resumed session starts active": the resumption resets the state before anything pending applies
ResumeMove(mv) == mv.k = "Resumed" \/ (mv.k = "AuthOk2" /\ mv.res = "resumed")
SrvEventR(sv, mv) == SrvEvent(IF ResumeMove(mv) THEN [sv EXCEPT !.csi = "active"] ELSE sv, mv)

\* ghost after this line: the script's move, then what the client really wrote, then what the
\* application was really told
GhostNext(sv, ev, Ev(_, _), d1) ==
    LET sb == Ev(sv, MoveOf(ev))
        s1 == SrvWrites(sb, Rel(ev.out))
        cc == Has(ev.sig, "credentialsChanged")
    IN [s1 EXCEPT !.rep = IF cc THEN ev.post.tok ELSE @, !.dirty = IF cc THEN FALSE ELSE d1]

MonNext(m, ev) ==
    LET d1 == m.srv.dirty \/ ev.post.tok # m.tok IN
    [srv |-> GhostNext(m.srv, ev, SrvEvent, d1), srvR |-> GhostNext(m.srvR, ev, SrvEventR, d1),
     app |-> IF ev.e = "SetState" THEN ev.v ELSE m.app, tok |-> ev.post.tok]

\* property predicates on observed facts. m = monitor before the line, n = after
Failed(m, n, ev) ==
    LET p == ev.post
        out == Rel(ev.out)
        sb == SrvEvent(m.srv, MoveOf(ev))
        d1 == m.srv.dirty \/ p.tok # m.tok
        auths == AuthEls(out)
    IN {x \in {"CsiServerDisagrees", "CarbonsNotOncePerSession", "TokenChangeNotReported",
               "CsiSentWhenNotOffered", "RejectedTokenReused", "CredentialsChangedUnjustified",
               "TokenRequestWrong", "TokenMechanismWrong", "TokenNotStored", "RejectedTokenKept", "TokenChangedUnexpectedly"} :
        CASE x = "CsiServerDisagrees" -> ~P_CsiAgree(p.session, p.authed, n.srv, n.app)
          [] x = "CarbonsNotOncePerSession" -> ~P_CarbonsOnce(p.session, n.srv, cfg.carb)
          [] x = "TokenChangeNotReported" -> ~P_TokenKnown(p.session, n.srv, p.tok)
          [] x \in {"CsiSentWhenNotOffered", "RejectedTokenReused", "CredentialsChangedUnjustified"} ->
                x \in StepFlags(sb, out, ev.sig, d1)
          [] x = "TokenRequestWrong" ->
                ev.e = "Connect" /\ Len(auths) = 1 /\ ~P_Request(ev.f, cfg.fast, m.tok, auths[1])
          [] x = "TokenMechanismWrong" ->
                ev.e = "Connect" /\ Len(auths) = 1 /\ ~P_Mechanism(ev.f, cfg.fast, m.tok, auths[1])
          [] x = "TokenNotStored" ->
                ev.e = "AuthOk2" /\ ~P_Stored(m.srv.auth.rtok, m.tok, ev.tk, m.srv.ntok + 1, p.tok)
          [] x = "RejectedTokenKept" ->
                ev.e = "AuthFail" /\ p.tok # (IF m.srv.auth.mech = "HT" THEN 0 ELSE m.tok)
          [] x = "TokenChangedUnexpectedly" ->
                ev.e \notin {"AuthOk2", "AuthFail"} /\ p.tok # m.tok}

ResetStep(ev) ==
    /\ cfg' = ev.cfg
    /\ c' = C0(ev.cfg) /\ s' = S0(ev.cfg) /\ lastOut' = <<>> /\ lastSig' = <<>> /\ hist' = <<>>
    /\ cid' = ev.case /\ mon' = Mon0(ev.cfg) /\ dflag' = FALSE /\ rflag' = FALSE /\ ncases' = ncases + 1
    /\ UNCHANGED <<viol, ndiv, divs, nreset>>

Note(d, rec) == IF d /\ ~dflag /\ Len(divs) < 12 THEN Append(divs, rec) ELSE divs

OpStep(ev) ==
    /\ \/ ModelAct(ev)
       \/ (~ENABLED ModelAct(ev)) /\ UNCHANGED vars
    /\ mon' = MonNext(mon, ev)
    /\ LET stepped == hist' # hist
           d == \/ ~stepped \/ ev.hang
                \/ ModelProj' # ImplProj(ev.post)
                \/ lastOut' # Rel(ev.out)
                \/ SessSig(lastSig') # SessSig(ev.sig)
           r == /\ ev.post.session /\ ev.post.authed /\ mon'.srvR.offered
                /\ ~(mon'.srvR.att /\ mon'.srvR.csi = mon'.app)
       IN /\ viol' = viol \cup (IF ev.hang THEN {} ELSE {[case |-> cid, line |-> l, prop |-> x, e |-> ev.e] : x \in Failed(mon, mon', ev)})
          /\ dflag' = (dflag \/ d)
          /\ ndiv' = IF d /\ ~dflag THEN ndiv + 1 ELSE ndiv
          /\ divs' = Note(d, [case |-> cid, line |-> l, e |-> ev.e, stepped |-> stepped, hang |-> ev.hang,
                              model |-> ModelProj', impl |-> ImplProj(ev.post),
                              modelOut |-> lastOut', implOut |-> Rel(ev.out),
                              modelSig |-> SessSig(lastSig'), implSig |-> SessSig(ev.sig)])
          /\ rflag' = (rflag \/ r)
          /\ nreset' = IF r /\ ~rflag THEN nreset + 1 ELSE nreset
    /\ UNCHANGED <<cid, ncases>>

\* the behaviour could not be continued on the real objects (the implementation is somewhere the
\* model is not): the rest of the execution is not judged
ImpossibleStep(ev) ==
    /\ dflag' = TRUE
    /\ ndiv' = IF ~dflag THEN ndiv + 1 ELSE ndiv
    /\ divs' = Note(TRUE, [case |-> cid, line |-> l, e |-> "Impossible", implPhase |-> ev.phase, modelPhase |-> c.phase])
    /\ UNCHANGED <<vars, cid, mon, viol, ncases, nreset, rflag>>

EndStep(ev) == UNCHANGED <<vars, cid, mon, viol, ndiv, divs, dflag, ncases, nreset, rflag>>

TNext ==
    /\ l <= Len(TraceLog)
    /\ l' = l + 1
    /\ LET ev == TraceLog[l] IN
        CASE ev.e = "Reset"      -> ResetStep(ev)
          [] ev.e = "End"        -> EndStep(ev)
          [] ev.e = "Impossible" -> ImpossibleStep(ev)
          [] OTHER               -> OpStep(ev)

TSpec == TInit /\ [][TNext]_tvars

Summary == [cases |-> ncases, lines |-> l - 1, viol |-> viol, ndiv |-> ndiv, divs |-> divs, nreset |-> nreset]
Done == l <= Len(TraceLog) \/ CSVWrite("%1$s", <<ToJson(Summary)>>, IOEnv.QXV_SUMMARY)
=============================================================================
