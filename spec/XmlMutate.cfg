SPECIFICATION Spec
CONSTANTS
  MaxMut = 3
  Depths = {1, 2, 3}
  MaxNodes = 12
INVARIANTS WellFormed OneRoot
VIEW View
CHECK_DEADLOCK FALSE
