SPECIFICATION Spec
CONSTANTS
  MaxMut = 2
  Depths = {1, 2, 3}
  Alphabet = {"DeleteChild", "DuplicateChild", "SwapSiblings", "MoveUnderSibling", "Renamespace", "Rename", "AddUnknownChild", "AddKnownSibling", "MoveText", "DuplicateWithOtherChild", "DropAttr", "EmptyAttr", "HugeAttr", "NegativeAttr", "NonNumericAttr", "UnknownEnum", "Nest"}
  MaxNodes = 12
INVARIANTS WellFormed OneRoot
VIEW View
CHECK_DEADLOCK FALSE
