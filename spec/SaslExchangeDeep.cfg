SPECIFICATION Spec
CONSTANTS
  Mechs = {"SCRAM", "DIGEST", "PLAIN", "HT"}
  Versions = {1, 2}
  MaxHist = 99
  MaxPost = 3
  PostAll = TRUE
INVARIANTS TypeOK ScramProved NoSuccessAfterBadProof VerifiedMeansProved
PROPERTIES RefusedSilent Final Rejects
VIEW View
CHECK_DEADLOCK FALSE
