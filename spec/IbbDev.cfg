SPECIFICATION Spec
CONSTANTS
  W = 4
  Anns = {"both", "size", "hash", "none"}
  Devs = {"all", "short", "fail"}
  Sizes = {0, 1, 2, 3, 5}
  MaxFaults = 1
  MaxInject = 0
  FaultKinds = {"Lose", "Drop", "Dup", "Flip", "WrongSid", "WrongFrom", "Swap", "EarlyClose"}
  InjectKinds = {"from"}
  InjectElems = {"data"}
  Bursts = {}
  MaxHist = 999
INVARIANTS TypeOK Safe CleanSuccess
VIEW View
CHECK_DEADLOCK FALSE
