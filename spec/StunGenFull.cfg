SPECIFICATION Spec
CONSTANTS
  Mode = "product"
  Variants = {0, 1, 2, 3, 4, 5}
  KeyLens <- KeyLensAll
  AddrMode = "on"
  TamperMode = "none"
  TamperVariants = {}
  TamperAllVariants = {}
  HoldMode = "all"
  Aliased = {}
  HelperKeyMax = 300
  HelperTexts = {0, 1, 55, 64, 150}
VIEW View
ACTION_CONSTRAINT EmitBehaviour
CHECK_DEADLOCK FALSE
