SPECIFICATION TSpec
CONSTANTS
  MaxRefs = 99
  Kinds = {"void", "copy", "move"}
  Bodies = {"none", "destroyCtx", "dropOthers", "refinish", "reThen"}
  MaxHist = 99
INVARIANT Done
CHECK_DEADLOCK FALSE
