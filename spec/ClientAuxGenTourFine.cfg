SPECIFICATION Spec
CONSTANTS
  Cfgs <- AllCfgs
  PreFeats <- CorePreFeats
  PostFeats <- AllPostFeats
  MaxConn = 2
  MaxTok = 2
  MaxHist = 99
  ResumeKeepsCsi = TRUE
  AsCode = {}
VIEW GenViewFine
ACTION_CONSTRAINT EmitBehaviour
CHECK_DEADLOCK FALSE
