SPECIFICATION Spec
CONSTANTS
  Cats = {1, 2}
  Types = {1}
  Langs = {0, 1}
  Names = {1}
  Feats = {0, 1}
  FTypes = {1}
  Vars = {1, 2}
  Vals = {0, 1}
  MaxIds = 1
  MaxFeats = 2
  MaxFields = 1
  MaxVals = 1
  EmitMin = 0
  MaxHist = 99
INVARIANTS TypeOK
PROPERTIES NeutralKeeps ChangeChanges SetsFollow
VIEW View
ACTION_CONSTRAINT EmitBehaviour
CHECK_DEADLOCK FALSE
