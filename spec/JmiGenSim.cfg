SPECIFICATION SimSpec
CONSTANTS
  Peers = {"p1", "p2"}
  Ress = {"r1", "r2", "-"}
  PeerIds = {"nlo", "lo1", "lo2", "hi1", "hi2", "nhi"}
  Types = {"propose", "ringing", "proceed", "reject", "retract", "finish"}
  Variants = {"plain", "tb", "mig", "nore"}
  Wfs = {"ok", "nochat", "nostore"}
  Modes = {"sm", "up", "down"}
  Kinds = {"Propose", "Ring", "Proceed", "Reject", "Retract", "Finish", "Recv", "Carbon", "Ack", "FailAll"}
  MaxJ = 6
  MaxP = 3
  MaxQ = 4
  MaxHist = 99
ACTION_CONSTRAINT EmitBehaviour
CHECK_DEADLOCK FALSE
