-------------------------- MODULE SaslExchangeGen --------------------------
(* Behaviour export for SaslExchange: every transition TLC generates writes *)
(* the sequence of server elements that leads to it.  Without a VIEW and    *)
(* with CONSTRAINT Bound every path up to MaxHist is a distinct state: all  *)
(* server scripts of that length (python keeps the maximal ones).           *)
EXTENDS SaslExchange, Json, CSV, IOUtils

EmitBehaviour ==
    CSVWrite("%1$s", <<ToJson([mech |-> mech', ver |-> ver', steps |-> hist'])>>, IOEnv.QXV_GEN)
=============================================================================
