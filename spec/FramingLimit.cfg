SPECIFICATION Spec
CONSTANTS
  Shapes <- ModelShapes
  Decoder = "stateful"
  Cache = "refresh"
  Limit = 64
INVARIANTS TypeOK PrefixOK CompleteOK Quiescent
PROPERTIES AppendOnly
VIEW View
CHECK_DEADLOCK FALSE
