SPECIFICATION Spec
CONSTANTS
  Jids = {"c1"}
  Items <- ItemsOne
  Ress = {"r1"}
  Froms = {"absent", "ownFull", "stranger"}
  ConnKinds = {"plain", "smr", "resumed"}
  MaxReqs = 2
  MaxItems = 1
  MaxHist = 5
CONSTRAINT ReqBound
CONSTRAINT Bound
ACTION_CONSTRAINT EmitBehaviour
CHECK_DEADLOCK FALSE
