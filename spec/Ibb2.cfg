SPECIFICATION Spec
CONSTANTS
  W = 4
  Anns = {"both", "size", "hash", "none"}
  Devs = {"all"}
  Sizes = {0, 1, 2, 3, 4, 5, 6, 7, 9}
  MaxFaults = 2
  MaxInject = 1
  FaultKinds = {"Lose", "Drop", "Dup", "Flip", "WrongSid", "WrongFrom", "Swap", "EarlyClose"}
  InjectKinds = {"from", "res"}
  InjectElems = {"data", "close"}
  Bursts = {1, 2, 5}
  MaxHist = 999
INVARIANTS TypeOK Safe CleanSuccess CleanInv
PROPERTIES ForeignInert
VIEW View
CHECK_DEADLOCK FALSE
