SPECIFICATION Spec
CONSTANTS
  Cats = {1}
  Types = {1}
  Langs = {0}
  Names = {1}
  Feats = {1}
  FTypes = {1, 2}
  Vars = {2, 3}
  Vals = {2, 3}
  MaxIds = 0
  MaxFeats = 0
  MaxFields = 2
  MaxVals = 2
  EmitMin = 0
  MaxHist = 99
INVARIANTS TypeOK
PROPERTIES NeutralKeeps ChangeChanges SetsFollow
VIEW View
ACTION_CONSTRAINT EmitBehaviour
CHECK_DEADLOCK FALSE
