SPECIFICATION Spec
CONSTANTS
  Ids = {"i1"}
  Tos = {"none", "server", "bare", "full"}
  RFroms = {"exact", "absent", "bareOf", "otherRes", "ownFull", "ownOther", "ownBare", "server", "stranger", "look", "look2"}
  Types = {"result", "error", "errorBare", "set", "get"}
  OpenKinds = {"plain", "sm", "smr", "resumed"}
  Cids = {"fresh", "empty", "dup"}
  Bodies = {"none"}
  Attempts = {"authfail", "bindfail", "userabort", "precut", "abandon"}
  IdRule = "replace"
  MaxHist = 99
VIEW GenView
ACTION_CONSTRAINT EmitBehaviour
CHECK_DEADLOCK FALSE
