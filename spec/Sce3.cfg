SPECIFICATION Spec
CONSTANTS
  MaxSet = 3
  Bases <- BasesNone
  SendModes <- NoSends
  PlainApis <- NoSends
  Ordered = TRUE
INVARIANTS TypeOK NoLeak Partition Recovered
VIEW View
CHECK_DEADLOCK FALSE
