\* Not part of the check: requests dispatched by the high byte of the message type (seeded mutant C15-3).
\* TLC violates AuthOnly with one step: Recv(indication, binding, auth none, ...).
SPECIFICATION Spec
CONSTANTS
  Roles = {TRUE, FALSE}
  RequireMI = TRUE
  Dispatch = "highbyte"
  Methods = {"binding", "other"}
  Priorities = {TRUE, FALSE}
  ForgedAuth = {"none", "wrong", "trunc"}
  Usernames = {"ok", "other"}
  MaxTx = 4
  MaxTicks = 2
  Timers = FALSE
  MaxHist = 99
INVARIANTS TypeOK SelectedIsValid PairsKnown
PROPERTIES AuthOnly
CONSTRAINT Bound
VIEW View
CHECK_DEADLOCK FALSE
