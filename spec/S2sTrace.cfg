SPECIFICATION TSpec
CONSTANTS
  Doms = {"R", "A"}
  NI = 2
  MaxOC = 99
  MaxMsg = 99
  Kinds = {"XFrom"}
  Shapes = {"ok", "typed", "wrongto", "nokey"}
  FromDoms = {"R", "A", "L", "none"}
  Tos = {"L", "X"}
  Dev = {}
  MaxHist = 99
INVARIANT Done
CHECK_DEADLOCK FALSE
