SPECIFICATION Spec
CONSTANTS
  MaxId = 6
  MaxH = 7
  MaxConn = 4
  MaxRecv = 3
  MaxHist = 99
INVARIANTS TypeOK AckedOnlyCovered AtMostOnce NoCoveredResent HandledCount
PROPERTIES ResendExact
VIEW View
CHECK_DEADLOCK FALSE
