------------------------------ MODULE StunGen ------------------------------
(* Behaviour export for Stun: the case table.  Every completed call        *)
(* (Encode followed by one Decode, or one helper call) writes the case, the *)
(* concrete message the case stands for, where the specification puts       *)
(* MESSAGE-INTEGRITY and FINGERPRINT, and the calls.  lib/props/C14.py      *)
(* merges the behaviours of one case into one execution.  Tamper steps are  *)
(* not exported (TamperMode = "none" in the generator configurations): the  *)
(* driver flips every bit of the encoded message itself (FlipAll), which is *)
(* the set of Tamper transitions of that case.                              *)
EXTENDS Stun, Json, CSV, IOUtils

Tup(s) == SubSeq(s, 1, Len(s))        \* functions over 1..n as JSON arrays
JAttr(a) == [n |-> a.n, b |-> Tup(a.b), x |-> a.x]
JMsg(m) == [type |-> m.type, id |-> Tup(m.id), a |-> [i \in 1..Len(m.a) |-> JAttr(m.a[i])]]

EmitBehaviour ==
    IF st' # "done" THEN TRUE
    ELSE IF c'.helper
         THEN CSVWrite("%1$s", <<ToJson([helper |-> TRUE, steps |-> hist'])>>, IOEnv.QXV_GEN)
         ELSE IF q'.a = "Decode"
         THEN CSVWrite("%1$s", <<ToJson([helper |-> FALSE,
                                         sub |-> [i \in 1..Len(MsgSet(c').a) |-> MsgSet(c').a[i].n],
                                         v |-> c'.v, klen |-> c'.klen, fp |-> c'.fp, ac |-> c'.ac, pc |-> c'.pc,
                                         m |-> JMsg(Msg(c')), mset |-> JMsg(MsgSet(c')), scoped |-> Scoped(c'), mi |-> w'.mi, fpo |-> w'.fp, n |-> Len(w'.c),
                                         steps |-> hist'])>>, IOEnv.QXV_GEN)
         \* the buffer life-cycle steps continue a Decode history of the same case: the message is not repeated
         ELSE CSVWrite("%1$s", <<ToJson([helper |-> FALSE,
                                         sub |-> [i \in 1..Len(MsgSet(c').a) |-> MsgSet(c').a[i].n],
                                         v |-> c'.v, klen |-> c'.klen, fp |-> c'.fp, ac |-> c'.ac, pc |-> c'.pc,
                                         steps |-> hist'])>>, IOEnv.QXV_GEN)
=============================================================================
