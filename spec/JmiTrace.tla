------------------------------ MODULE JmiTrace ------------------------------
(***************************************************************************)
(* Trace validation for Jmi.  The trace (ndjson, written by `qxv jmi`)      *)
(* holds per step the event with its arguments (the *inputs*: what the user,*)
(* the call partner, another resource of ours or the server did) and `o`,   *)
(* what the real QXmppClient + QXmppJingleMessageInitiationManager did:     *)
(*  {"e":"Recv","a":"Recv","from":"p1","res":"r1","t":"reject","id":"o1",   *)
(*   "wf":"ok","v":"tb",                                                    *)
(*   "o":{"sent":[],"sig":[{"s":"closed","k":1,"a":"Rejected","b":"busy",   *)
(*        "c":"tb"}],"handled":true,"list":[],"pend":0}}                    *)
(*  sent     JMI elements written during the step: t type, to addressee,    *)
(*           id, rs reason ("-" none), ex "tb" / the <migrated to/> id      *)
(*  sig      signals and task results in emission order, k = handle         *)
(*  handled  the message was consumed (no QXmppClient::messageReceived)     *)
(*  list     the manager's list: handle, partner, id, isProceeded           *)
(*  pend     stanzas written and neither acknowledged nor failed            *)
(*                                                                          *)
(* Three layers per line (docs/BUILDING-A-CHECK.md):                        *)
(*  model    Jmi's step for the logged event if the environment assumption  *)
(*           `Enabled` holds in the model state, else the model stutters;   *)
(*  monitor  `mon.ref`: the reference manager, obtained by applying Step to *)
(*           the logged events only (total: no enabling condition);         *)
(*           `mon.g`, `mon.before`: the ghost and the list built from the   *)
(*           OBSERVATIONS.  The invariants of the extension are evaluated   *)
(*           on the observed facts (Failed of Jmi: UniqueKey, Answer, Own,  *)
(*           Quiet, Once, Gone) and the public reaction is compared with    *)
(*           the reference (Handled, Sent, Sigs as a multiset, Members of   *)
(*           the list; TieBreak marks a wrong reaction to a colliding       *)
(*           proposal).  An execution with a failing predicate is a         *)
(*           conformance failure;                                           *)
(*  compare  reference vs observation in everything logged, including the   *)
(*           order of the signals and the private ids / isProceeded flags:  *)
(*           a mismatch only marks the execution diverged.                  *)
(***************************************************************************)
EXTENDS Jmi, Integers, Json, CSV, IOUtils

TraceLog == ndJsonDeserialize(IOEnv.QXV_TRACE)

VARIABLES l, cid, sn, mon, fl, nfail, fails, fflag, ndiv, divs, dflag, ncases, naborts, nstut

tvars == <<vars, l, cid, sn, mon, fl, nfail, fails, fflag, ndiv, divs, dflag, ncases, naborts, nstut>>

Mon0(m) == [ref |-> S0(m), g |-> G0, before |-> <<>>]

TInit ==
    /\ st = S0("sm") /\ gh = G0 /\ pv = {} /\ out = Out0 /\ hist = <<>>
    /\ l = 1 /\ cid = "" /\ sn = 0 /\ mon = Mon0("sm") /\ fl = {} /\ nfail = 0 /\ fails = <<>> /\ fflag = FALSE
    /\ ndiv = 0 /\ divs = <<>> /\ dflag = FALSE /\ ncases = 0 /\ naborts = 0 /\ nstut = 0

\* the event of a line: the line without the observation
Ev(ln) == [f \in DOMAIN ln \ {"o", "e"} |-> ln[f]]

SameBag(a, b) == \A x \in Range(a) \cup Range(b) : Cnt(a, x) = Cnt(b, x)
\* the reference reacts to a colliding proposal (tie break / device switch)
Collides(e, r) == IsRecvPropose(e) /\ r.sent # <<>>

\* m: monitor before the step; r: the reference's reaction Obs(Step(m.ref, e)); o: the observation
FailedStep(m, e, r, o) ==
    Failed(m.g, e, m.before, o)
      \cup (IF o.handled # r.handled THEN {"Handled"} ELSE {})
      \cup (IF o.sent # r.sent THEN {"Sent"} ELSE {})
      \cup (IF o.sent # r.sent /\ Collides(e, r) THEN {"TieBreak"} ELSE {})
      \cup (IF ~SameBag(o.sig, r.sig) THEN {"Sigs"} ELSE {})
      \cup (IF Handles(o.list) # Handles(r.list) \/ Len(o.list) # Len(r.list) THEN {"Members"} ELSE {})

ObsRec(o) == [sent |-> o.sent, sig |-> o.sig, handled |-> o.handled, list |-> o.list, pend |-> o.pend]

ResetStep(ln) ==
    /\ Reinit(ln.mode)
    /\ cid' = ln.case /\ sn' = 0 /\ mon' = Mon0(ln.mode) /\ fl' = {} /\ dflag' = FALSE /\ fflag' = FALSE /\ ncases' = ncases + 1
    /\ UNCHANGED <<nfail, fails, ndiv, divs, naborts, nstut>>

AbortStep(ln) ==
    /\ naborts' = naborts + 1
    /\ UNCHANGED <<vars, cid, sn, mon, fl, nfail, fails, fflag, ndiv, divs, dflag, ncases, nstut>>

\* The record of the first failing step of an execution goes to the side file QXV_FAILS (one JSON
\* line each); the state keeps the count and the first few only, so that it stays small.
OpStep(ln) ==
    LET e == Ev(ln)
        o == ObsRec(ln.o)
        w == Step(mon.ref, e)
        r == Obs(w)
        f == FailedStep(mon, e, r, o)
        rec == [case |-> cid, line |-> l, step |-> sn + 1, e |-> e, props |-> f, ref |-> r, refb |-> ListOf(mon.ref)]
    IN /\ IF Enabled(st, e) THEN Apply(e) /\ nstut' = nstut ELSE UNCHANGED vars /\ nstut' = nstut + 1
       /\ sn' = sn + 1
       /\ mon' = [ref |-> w.s, g |-> GNext(mon.g, e, mon.before, o), before |-> o.list]
       /\ fl' = f
       /\ fflag' = (fflag \/ f # {})
       /\ nfail' = IF f # {} /\ ~fflag THEN nfail + 1 ELSE nfail
       /\ fails' = IF f # {} /\ ~fflag /\ Len(fails) < 5 THEN Append(fails, [case |-> cid, step |-> sn + 1, e |-> e.a, props |-> f]) ELSE fails
       /\ (f # {} /\ ~fflag) => CSVWrite("%1$s", <<ToJson(rec)>>, IOEnv.QXV_FAILS)
       /\ LET d == r # o IN
            /\ dflag' = (dflag \/ d)
            /\ ndiv' = IF d /\ ~dflag THEN ndiv + 1 ELSE ndiv
            /\ divs' = IF d /\ ~dflag /\ Len(divs) < 5
                       THEN Append(divs, [case |-> cid, step |-> sn + 1, e |-> e.a, model |-> r, impl |-> o]) ELSE divs
       /\ UNCHANGED <<cid, ncases, naborts>>

TNext ==
    /\ l <= Len(TraceLog)
    /\ l' = l + 1
    /\ LET ln == TraceLog[l] IN
        IF ln.e = "Reset" THEN ResetStep(ln)
        ELSE IF ln.e \in {"Abort", "Crash"} THEN AbortStep(ln)
        ELSE OpStep(ln)

TSpec == TInit /\ [][TNext]_tvars

Summary == [cases |-> ncases, lines |-> l - 1, nfail |-> nfail, fails |-> fails, ndiv |-> ndiv, divs |-> divs,
            aborts |-> naborts, stuttered |-> nstut]
Done == l <= Len(TraceLog) \/ CSVWrite("%1$s", <<ToJson(Summary)>>, IOEnv.QXV_SUMMARY)
=============================================================================
