--------------------------------- MODULE Muc ---------------------------------
(***************************************************************************)
(* Extension `muc`: the room state machine of QXmppMucManager/QXmppMucRoom  *)
(* (src/client/QXmppMucManager.cpp) as seen through the public getters and  *)
(* signals of the rooms, together with the moves of its environment: the    *)
(* user (API calls), the MUC service (presences, messages, IQ results) and  *)
(* the session (QXmppClient::disconnected / connected).                     *)
(*                                                                         *)
(* The specification is event driven: `Events` is the alphabet, `Enabled`   *)
(* is the assumption about the environment (what a XEP-0045 service and a   *)
(* sane user do), `RoomStep` is the reaction of ONE room to ONE event as a  *)
(* pure function  (room record, event) -> [st, sig, sent]:                  *)
(*    st    the room afterwards                                             *)
(*    sig   the signals of the room, in the order the code emits them       *)
(*    sent  what the client writes (abstract stanza descriptions)           *)
(* MucTrace applies the same function to the logged events to obtain the    *)
(* reference the implementation is compared with.                           *)
(*                                                                         *)
(* Room record                                                              *)
(*   mechanism (mirrors QXmppMucRoomPrivate):                               *)
(*     nick   d->nickName                parts  keys of d->participants     *)
(*     acts   d->allowedActions          subj   d->subject                  *)
(*     name   d->name                    pq     d->permissionsQueue (as the *)
(*     perms  d->permissions                    affiliations still asked)   *)
(*   ghosts (history, XEP-0045 view of the occupancy):                      *)
(*     inr    we are an occupant: between the self-presence that confirmed  *)
(*            the join and the self-unavailable / kick / ban / disconnect   *)
(*     pend   a join was requested and is neither confirmed nor refused     *)
(*     chg    our own nick change is in flight (303 seen, new nick not yet) *)
(*     last   latest presence per nick since the join began                 *)
(*                                                                         *)
(* The reaction is the INTENDED one.  Where qxmpp (checkout verified:       *)
(* docs/ext-muc.md) departs from XEP-0045 the text says so:                 *)
(*   [D1] self-presence is recognised by status 110, not only by the nick   *)
(*        that was asked for (service-assigned nick, status 210)            *)
(*   [D2] a presence error while we are an occupant does not mean we left   *)
(*   [D3] presence from the bare room JID is not an occupant                *)
(*   [D4] only a groupchat message with <subject/> and without <body/>      *)
(*        changes the subject                                               *)
(* Everything else follows the code, including the parts XEP-0045 is silent *)
(* on (order of signals, joined() again after an own nick change, left()    *)
(* after a refused join, configurationReceived for unsolicited results).    *)
(***************************************************************************)
EXTENDS Naturals, Sequences, FiniteSets, TLC

CONSTANTS Rooms,      \* managed rooms (added in the order of RoomOrder)
          Foreign,    \* bare JIDs that are not managed rooms ("rx" other room, "lk" look-alike of r1)
          Nicks,      \* nicks (QMap iterates keys in collation order: NickOrder)
          Items,      \* item classes (affiliation/role) used in available presences
          Codes,      \* status-code classes of available presences: "none","self","self201","self210"
          UnKinds,    \* kinds of unavailable presence: "leave","nick","kick","ban","remove"
          MsgNicks,   \* senders of messages: nicks or "-" (the bare room JID)
          MsgTypes,   \* "groupchat","chat","error"
          Subjects,   \* non-empty subject texts
          Names,      \* non-empty room names (disco identity)
          Users,      \* real bare JIDs appearing in affiliation lists (collation order: UserOrder)
          Kinds,      \* event kinds switched on in this configuration
          MaxHist

VARIABLES conn,       \* a session exists (QXmppClient between connected and disconnected)
          resumable,  \* ghost: the session that just ended can be resumed (XEP-0198)
          rm,         \* [Rooms -> room record]
          out,        \* what the last step emitted: [ev, sig : [Rooms -> Seq], msig, sent]
          hist

mvars == <<conn, resumable, rm, out>>
vars  == <<mvars, hist>>

Range(s) == {s[i] : i \in DOMAIN s}
\* the universes are sets of strings; the orders the code iterates them in are fixed here
RoomOrder == <<"r1", "r2", "r3">>
NickOrder == <<"n1", "n2", "n3", "n4">>
UserOrder == <<"u1", "u2", "u3">>
RoomSeq == SelectSeq(RoomOrder, LAMBDA x : x \in Rooms)
NickSeq == SelectSeq(NickOrder, LAMBDA x : x \in Nicks)
UserSeq == SelectSeq(UserOrder, LAMBDA x : x \in Users)
ASSUME Rooms \subseteq Range(RoomOrder) /\ Nicks \subseteq Range(NickOrder) /\ Users \subseteq Range(UserOrder)
Affs  == <<"owner", "admin", "member", "outcast">>      \* order of requestPermissions()

\* item class -> QXmppMucRoom::Actions (Subject 1, Configuration 2, Permissions 4, Kick 8)
ItemActs == [plain |-> 0, member |-> 0, mod |-> 9, admin |-> 5, owner |-> 7, ownermod |-> 15]

SortNicks(S) == SelectSeq(NickSeq, LAMBDA n : n \in S)
Cnt(s, x) == Cardinality({i \in DOMAIN s : s[i] = x})

NoLast == [n \in Nicks |-> "none"]
R0 == [nick |-> "", parts |-> {}, acts |-> 0, subj |-> "", name |-> "", pq |-> {}, perms |-> [u \in Users |-> ""],
       inr |-> FALSE, pend |-> FALSE, chg |-> FALSE, last |-> NoLast]

Joined(s) == s.nick \in s.parts          \* QXmppMucRoom::isJoined()

(* ------------------------------------------------------------------ alphabet *)
Srcs == Rooms \cup Foreign
UsSeqs == {SelectSeq(UserSeq, LAMBDA u : u \in S) : S \in SUBSET Users}

EvUser ==
         [a : {"SetNick"}, r : Rooms, n : Nicks]
    \cup [a : {"Join", "Leave", "SendMsg", "ReqPerm", "ReqConf"}, r : Rooms]
    \cup [a : {"Kick"}, r : Rooms, n : Nicks]
    \cup [a : {"Ban"}, r : Rooms, u : Users]
    \cup [a : {"SetSubj"}, r : Rooms, s : Subjects]
EvPres ==
         [a : {"PresAv"}, src : Rooms, n : Nicks, c : Codes, it : Items]
    \cup [a : {"PresAv"}, src : Srcs, n : {"-"}, c : {"none"}, it : {"plain"}]
    \cup [a : {"PresAv"}, src : Foreign, n : {NickSeq[1]}, c : {"self"}, it : {"ownermod"}]
    \cup [a : {"PresUn"}, src : Rooms, n : Nicks, k : UnKinds \ {"nick"}, m : {""}, s110 : BOOLEAN]
    \cup [a : {"PresUn"}, src : Rooms, n : Nicks, k : UnKinds \cap {"nick"}, m : Nicks, s110 : BOOLEAN]
    \cup [a : {"PresUn"}, src : Srcs, n : {"-"}, k : {"leave"}, m : {""}, s110 : {FALSE}]
    \cup [a : {"PresUn"}, src : Foreign, n : {NickSeq[1]}, k : {"kick"}, m : {""}, s110 : {TRUE}]
    \cup [a : {"PresErr"}, src : Srcs, n : Nicks \cup {"-"}, x : BOOLEAN]
EvMsg ==
         [a : {"Msg"}, src : Rooms, n : MsgNicks, ty : MsgTypes, s : Subjects \cup {""}, b : BOOLEAN]
    \cup [a : {"Msg"}, src : Foreign, n : MsgNicks, ty : {"groupchat"}, s : Subjects, b : {FALSE}]
    \cup [a : {"Invite"}, j : Srcs]
EvIq ==
         [a : {"Disco"}, src : Srcs, nm : Names \cup {""}]
    \cup [a : {"ConfRes"}, src : Srcs, f : BOOLEAN]
    \cup [a : {"PermRes"}, src : Srcs, rq : Rooms, q : Range(Affs), idk : {"cur", "unk"}, us : UsSeqs]
EvSess ==
         [a : {"Disconnect"}, k : {"plain", "resumable"}]
    \cup [a : {"Connect"}, k : {"new", "resumed"}]
    \cup [a : {"OwnPres"}]

Events == {e \in EvUser \cup EvPres \cup EvMsg \cup EvIq \cup EvSess : e.a \in Kinds}

(* -------------------------------------------- assumptions about the environment *)
\* A XEP-0045 service sends occupant presences and room messages only to somebody who asked to
\* join or is an occupant; 110 marks the receiver's own presence; a modified nick (210) is
\* announced in the join confirmation only; a refused join is refused before anything else is
\* sent; while an own nick change is in flight (two stanzas sent back to back) nothing else
\* concerning us happens in that room.  The user does not call the API of a room in that window.
EnabledRoom(s, e) ==
    CASE e.a = "PresAv" /\ e.n = "-" -> TRUE
      [] e.a = "PresAv" ->
            /\ s.pend \/ s.inr
            /\ CASE e.c = "none"    -> TRUE
                 [] e.c = "self210" -> e.n # s.nick /\ ~s.inr /\ e.n \notin s.parts
                 [] OTHER           -> e.n = s.nick
      [] e.a = "PresUn" /\ e.n = "-" -> TRUE
      [] e.a = "PresUn" ->
            /\ s.pend \/ s.inr
            /\ e.s110 = (e.n = s.nick /\ e.n \in s.parts)
            /\ e.k = "nick" => (e.n \in s.parts /\ e.m # e.n /\ e.m \notin s.parts)
      [] e.a = "PresErr" ->
            /\ ~s.chg
            /\ e.n = "-" \/ (e.n = s.nick)
            /\ ~s.inr => s.parts = {}
      [] e.a = "Msg" -> s.pend \/ s.inr
      [] e.a = "SetNick" -> ~s.chg /\ ~s.pend          \* the nick of a join in flight is not changed
      [] e.a \in {"Join", "Leave"} -> ~s.chg
      [] OTHER -> TRUE

Enabled(e) ==
    IF e.a = "Connect" THEN ~conn /\ (e.k = "resumed" => resumable)
    ELSE /\ conn
         /\ CASE e.a \in {"PresAv", "PresUn", "PresErr", "Msg"} -> e.src \in Rooms => EnabledRoom(rm[e.src], e)
              [] e.a \in {"SetNick", "Join", "Leave"}            -> EnabledRoom(rm[e.r], e)
              [] e.a = "OwnPres"                                 -> \A r \in Rooms : ~rm[r].chg
              [] e.a = "Invite"                                  -> e.j \in Rooms => ~rm[e.j].chg
              [] OTHER                                           -> TRUE

(* ------------------------------------------------- reaction of one room to one event *)
Res(st, sig, sent) == [st |-> st, sig |-> sig, sent |-> sent]
Same(s) == Res(s, <<>>, <<>>)

RemovedSigs(S) == LET q == SortNicks(S) IN [i \in DOMAIN q |-> "removed:" \o q[i]]
ActsReset(s) == IF s.acts # 0 THEN <<"acts:0">> ELSE <<>>
Occ(r, n) == r \o "/" \o n

RECURSIVE PermStr(_, _)
PermStr(p, us) == IF us = <<>> THEN ""
                  ELSE (IF p[Head(us)] # "" THEN Head(us) \o "=" \o p[Head(us)] \o ";" ELSE "") \o PermStr(p, Tail(us))

\* QXmppMucRoom::_q_presenceReceived, type available
AvStep(s, e, r) ==
    LET n == e.n
        renick == e.c # "none" /\ n # s.nick                   \* [D1] 110 on another nick: that is us
        nk == IF renick THEN n ELSE s.nick
        self == n = nk
        added == n \notin s.parts
        na == IF self THEN ItemActs[e.it] ELSE s.acts
        sig == (IF renick THEN <<"nick:" \o n>> ELSE <<>>)
               \o (IF na # s.acts THEN <<"acts:" \o ToString(na)>> ELSE <<>>)
               \o (IF added THEN <<"added:" \o n, "pchg">> \o (IF self THEN <<"joined">> ELSE <<>>)
                            ELSE <<"changed:" \o n>>)
    IN Res([s EXCEPT !.nick = nk, !.parts = @ \cup {n}, !.acts = na, !.last[n] = "av",
                     !.inr = IF self THEN TRUE ELSE @, !.pend = IF self THEN FALSE ELSE @,
                     !.chg = IF self THEN FALSE ELSE @],
           sig,
           IF added /\ self THEN <<"disco:" \o r>> ELSE <<>>)

\* QXmppMucRoom::_q_presenceReceived, type unavailable
UnStep(s, e, r) ==
    LET n == e.n IN
    IF n \notin s.parts THEN Res([s EXCEPT !.last[n] = IF s.pend \/ s.inr THEN "un" ELSE @], <<>>, <<>>)
    ELSE IF n # s.nick
         THEN Res([s EXCEPT !.parts = @ \ {n}, !.last[n] = "un"], <<"removed:" \o n, "pchg">>, <<>>)
    ELSE IF e.m # ""
         THEN \* own nick change, first half: the occupant entry moves when the new nick is announced
              Res([s EXCEPT !.parts = @ \ {n}, !.last[n] = "un", !.nick = e.m, !.chg = TRUE],
                  <<"removed:" \o n, "pchg", "nick:" \o e.m>>, <<>>)
    ELSE \* we are out (left, kicked 307, banned 301, removed 321, ...): the table is cleared
         Res([s EXCEPT !.parts = {}, !.acts = 0, !.inr = FALSE, !.pend = FALSE, !.last = NoLast],
             <<"removed:" \o n, "pchg">> \o (IF e.k = "kick" THEN <<"kicked">> ELSE <<>>)
                 \o RemovedSigs(s.parts \ {n}) \o <<"pchg">> \o ActsReset(s) \o <<"left">>,
             <<>>)

\* QXmppMucRoom::_q_presenceReceived, type error
ErrStep(s, e, r) ==
    Res([s EXCEPT !.pend = IF s.inr THEN @ ELSE FALSE],
        IF e.x THEN <<"error">> \o (IF Joined(s) THEN <<>> ELSE <<"left">>)      \* [D2]
               ELSE <<>>,
        <<>>)

\* QXmppMucRoom::_q_messageReceived
MsgStep(s, e, r) ==
    LET isSubj == e.ty = "groupchat" /\ e.s # "" /\ ~e.b                            \* [D4]
    IN Res([s EXCEPT !.subj = IF isSubj THEN e.s ELSE @],
           (IF isSubj THEN <<"subject:" \o e.s>> ELSE <<>>) \o <<"msg">>, <<>>)

\* QXmppMucRoom::_q_disconnected
DiscStep(s) ==
    Res([s EXCEPT !.parts = {}, !.acts = 0, !.inr = FALSE, !.pend = FALSE, !.chg = FALSE, !.last = NoLast],
        RemovedSigs(s.parts) \o <<"pchg">> \o ActsReset(s) \o (IF Joined(s) THEN <<"left">> ELSE <<>>),
        <<>>)

\* QXmppMucManager::handleStanza, muc#admin result
PermStep(s, e, r) ==
    IF e.rq = r /\ e.idk = "cur" /\ e.q \in s.pq
    THEN LET p == [u \in Users |-> IF s.perms[u] = "" /\ u \in Range(e.us) THEN e.q ELSE s.perms[u]]
             q == s.pq \ {e.q}
         IN Res([s EXCEPT !.pq = q, !.perms = p],
                IF q = {} THEN <<"perms:" \o PermStr(p, UserSeq)>> ELSE <<>>, <<>>)
    ELSE Same(s)

\* an event is addressed to room r if it comes from r's JID, is an API call on r, or is a session event
Addressed(e, r) == \/ e.a \in {"Disconnect", "OwnPres"}
                   \/ e.a \in {"PresAv", "PresUn", "PresErr", "Msg", "Disco", "ConfRes", "PermRes"} /\ e.src = r
                   \/ e.a \in {"SetNick", "Join", "Leave", "SendMsg", "ReqPerm", "ReqConf", "Kick", "Ban", "SetSubj"} /\ e.r = r

RoomStep(s, e, r) ==
    IF ~Addressed(e, r) THEN Same(s)
    ELSE IF e.a \in {"PresAv", "PresUn"} /\ e.n = "-" THEN Same(s)                          \* [D3]
    ELSE
    CASE e.a = "Disconnect" -> DiscStep(s)
      [] e.a = "OwnPres"    -> Res(s, <<>>, IF Joined(s) THEN <<"pres:" \o Occ(r, s.nick) \o ":av">> ELSE <<>>)
      [] e.a = "PresAv"     -> AvStep(s, e, r)
      [] e.a = "PresUn"     -> UnStep(s, e, r)
      [] e.a = "PresErr"    -> ErrStep(s, e, r)
      [] e.a = "Msg"        -> MsgStep(s, e, r)
      [] e.a = "Disco"      -> Res([s EXCEPT !.name = e.nm], IF e.nm # s.name THEN <<"name:" \o e.nm>> ELSE <<>>, <<>>)
      [] e.a = "ConfRes"    -> Res(s, IF e.f THEN <<"conf">> ELSE <<>>, <<>>)
      [] e.a = "PermRes"    -> PermStep(s, e, r)
      [] e.a = "SetNick"    -> IF e.n = s.nick THEN Same(s)
                               ELSE IF Joined(s) THEN Res(s, <<>>, <<"pres:" \o Occ(r, e.n) \o ":av">>)
                               ELSE Res([s EXCEPT !.nick = e.n], <<"nick:" \o e.n>>, <<>>)
      [] e.a = "Join"       -> IF Joined(s) \/ s.nick = "" THEN Same(s)
                               ELSE Res([s EXCEPT !.pend = TRUE], <<>>, <<"pres:" \o Occ(r, s.nick) \o ":join">>)
      [] e.a = "Leave"      -> Res(s, <<>>, <<"pres:" \o Occ(r, s.nick) \o ":un">>)
      [] e.a = "SendMsg"    -> Res(s, <<>>, <<"msg:" \o r>>)
      [] e.a = "SetSubj"    -> Res(s, <<>>, <<"subj:" \o r \o ":" \o e.s>>)
      [] e.a = "Kick"       -> Res(s, <<>>, <<"kick:" \o r \o ":" \o e.n>>)
      [] e.a = "Ban"        -> Res(s, <<>>, <<"ban:" \o r \o ":" \o e.u>>)
      [] e.a = "ReqConf"    -> Res(s, <<>>, <<"conf:" \o r>>)
      [] e.a = "ReqPerm"    -> Res([s EXCEPT !.pq = Range(Affs), !.perms = [u \in Users |-> ""]], <<>>,
                                   [i \in DOMAIN Affs |-> "perm:" \o r \o ":" \o Affs[i]])
      [] OTHER              -> Same(s)

\* one step of all rooms: RoomStep is evaluated once per room and event
StepAll(f, e) == [r \in Rooms |-> RoomStep(f[r], e, r)]
RECURSIVE SentAll(_, _)
SentAll(rs, seq) == IF seq = <<>> THEN <<>> ELSE rs[Head(seq)].sent \o SentAll(rs, Tail(seq))

ClientSent(e) == IF e.a = "Connect" /\ e.k # "resumed" THEN <<"pres::av">> ELSE <<>>   \* QXmppClient::_q_streamConnected
\* QXmppMucManager::_q_messageReceived: invitations to rooms we are not in
MgrSig(f, e) == IF e.a = "Invite" /\ ~(e.j \in Rooms /\ Joined(f[e.j])) THEN <<"invite:" \o e.j>> ELSE <<>>

\* everything the step makes the client do: the rooms afterwards, their signals (per room), the
\* signals of the manager, what is written (client first, then the rooms in the order they were added)
MkOut(rs, f, e) == [ev |-> e, st |-> [r \in Rooms |-> rs[r].st], sig |-> [r \in Rooms |-> rs[r].sig],
                    msig |-> MgrSig(f, e), sent |-> ClientSent(e) \o SentAll(rs, RoomSeq)]
StepOut(f, e) == MkOut(StepAll(f, e), f, e)

Out0 == [ev |-> [a |-> "Init"], st |-> [r \in Rooms |-> R0], sig |-> [r \in Rooms |-> <<>>], msig |-> <<>>, sent |-> <<>>]

Init ==
    /\ conn = TRUE /\ resumable = FALSE
    /\ rm = [r \in Rooms |-> R0]
    /\ out = Out0
    /\ hist = <<>>

Apply(e) ==
    /\ out' = StepOut(rm, e)
    /\ rm' = out'.st
    /\ conn' = IF e.a = "Disconnect" THEN FALSE ELSE IF e.a = "Connect" THEN TRUE ELSE conn
    /\ resumable' = IF e.a = "Disconnect" THEN e.k = "resumable" ELSE IF e.a = "Connect" THEN FALSE ELSE resumable
    /\ hist' = Append(hist, e)

Next == \E e \in Events : Enabled(e) /\ Apply(e)

Spec == Init /\ [][Next]_vars

(* ------------------------------------------------------------------ properties *)
\* Written over plain values (ghost part of a room record before/after, the event, what was
\* observed) so that MucTrace evaluates the same predicates on what the implementation reported.

\* isJoined() is true exactly while we are an occupant (free while an own nick change is in flight)
P_Joined(g, joined) == g.chg \/ (joined <=> g.inr)
\* participants() = the nicks whose latest presence since the join began was available
P_Parts(g, parts) == parts = {n \in Nicks : g.last[n] = "av"}
\* nickName() = the nick we set, were assigned (110/210) or changed to (303)
P_Nick(g, nick) == nick = g.nick
P_Subject(g, subj) == subj = g.subj

MayJoined(g0, g1) == g0.chg /\ ~g1.chg /\ g0.inr /\ g1.inr             \* own nick change completes
MayLeft(g0, g1, e, r) == \/ g0.inr /\ ~g1.inr /\ g0.chg                   \* session lost in the window
                         \/ e.a = "PresErr" /\ e.src = r /\ e.x /\ ~g0.inr  \* refused join
\* the transition signals fire exactly once per transition of the occupancy
P_JoinLeft(g0, g1, e, r, sig) ==
    /\ IF ~g0.inr /\ g1.inr THEN Cnt(sig, "joined") = 1
       ELSE IF MayJoined(g0, g1) THEN Cnt(sig, "joined") <= 1 ELSE Cnt(sig, "joined") = 0
    /\ IF MayLeft(g0, g1, e, r) THEN Cnt(sig, "left") <= 1
       ELSE IF g0.inr /\ ~g1.inr THEN Cnt(sig, "left") = 1 ELSE Cnt(sig, "left") = 0
    /\ Cnt(sig, "kicked") = IF g0.inr /\ ~g1.inr /\ e.a = "PresUn" /\ e.k = "kick" THEN 1 ELSE 0
\* participantAdded/Removed/Changed fire once per change of the occupant table, never for the bare JID
Av(g) == {n \in Nicks : g.last[n] = "av"}
P_PartSigs(g0, g1, e, r, sig) ==
    /\ \A n \in Nicks :
        /\ Cnt(sig, "added:" \o n)   = IF n \notin Av(g0) /\ n \in Av(g1) THEN 1 ELSE 0
        /\ Cnt(sig, "removed:" \o n) = IF n \in Av(g0) /\ n \notin Av(g1) THEN 1 ELSE 0
        /\ Cnt(sig, "changed:" \o n) = IF n \in Av(g0) /\ n \in Av(g1) /\ e.a = "PresAv" /\ e.src = r /\ e.n = n THEN 1 ELSE 0
    /\ \A i \in DOMAIN sig : sig[i] \notin {"added:-", "removed:-", "changed:-"}
\* every other signal (and anything else) exactly as the reference says; "pchg" and the order are not demanded
Soft == {"pchg", "joined", "left", "kicked"} \cup UNION {{"added:" \o n, "removed:" \o n, "changed:" \o n} : n \in Nicks \cup {"-"}}
P_OtherSigs(ref, sig) == \A x \in (Range(ref) \cup Range(sig)) \ Soft : Cnt(sig, x) = Cnt(ref, x)
\* an event that is not addressed to room r and is not a session event leaves r alone
P_Isolated(e, r, before, after, sig) == ~Addressed(e, r) => (after = before /\ sig = <<>>)

Ghost(s) == [inr |-> s.inr, chg |-> s.chg, last |-> s.last, nick |-> s.nick, subj |-> s.subj]
Obs(s) == [joined |-> Joined(s), nick |-> s.nick, parts |-> s.parts, subj |-> s.subj, name |-> s.name, acts |-> s.acts]

\* design level: the mechanism (derived isJoined, the occupant table) agrees with the history
JoinedIffOccupant == \A r \in Rooms : P_Joined(Ghost(rm[r]), Joined(rm[r]))
PartsAreLatest    == \A r \in Rooms : P_Parts(Ghost(rm[r]), rm[r].parts)
OutsideIsEmpty    == \A r \in Rooms : (~rm[r].inr /\ ~rm[r].pend) => (rm[r].parts = {} /\ rm[r].acts = 0)
NickInTable       == \A r \in Rooms : (rm[r].inr /\ ~rm[r].chg) => rm[r].nick \in rm[r].parts
NoSessionNoRoom   == ~conn => \A r \in Rooms : ~rm[r].inr /\ ~rm[r].pend /\ rm[r].parts = {}
SignalsOnce == [][\A r \in Rooms :
                    /\ P_JoinLeft(Ghost(rm[r]), Ghost(rm'[r]), out'.ev, r, out'.sig[r])
                    /\ P_PartSigs(Ghost(rm[r]), Ghost(rm'[r]), out'.ev, r, out'.sig[r])]_vars
Isolation   == [][\A r \in Rooms : P_Isolated(out'.ev, r, rm[r], rm'[r], out'.sig[r])]_vars
\* the permission queue of a room moves only by its own request and by current results from its own JID
PermTied    == [][\A r \in Rooms : rm'[r].pq # rm[r].pq =>
                        \/ out'.ev.a = "ReqPerm" /\ out'.ev.r = r
                        \/ out'.ev.a = "PermRes" /\ out'.ev.src = r /\ out'.ev.rq = r /\ out'.ev.idk = "cur"]_vars

TypeOK ==
    /\ conn \in BOOLEAN /\ resumable \in BOOLEAN /\ (resumable => ~conn)
    /\ \A r \in Rooms :
        /\ rm[r].nick \in Nicks \cup {""} /\ rm[r].parts \subseteq Nicks /\ rm[r].acts \in 0..15
        /\ rm[r].subj \in Subjects \cup {""} /\ rm[r].name \in Names \cup {""} /\ rm[r].pq \subseteq Range(Affs)
        /\ rm[r].inr \in BOOLEAN /\ rm[r].pend \in BOOLEAN /\ rm[r].chg \in BOOLEAN
        /\ (rm[r].chg => rm[r].inr) /\ ~(rm[r].pend /\ rm[r].inr)

Reinit ==
    /\ conn' = TRUE /\ resumable' = FALSE
    /\ rm' = [r \in Rooms |-> R0]
    /\ out' = Out0
    /\ hist' = <<>>

Bound == Len(hist) <= MaxHist
\* `out` is a function of the previous state and the event: hidden from state identity
View == <<conn, resumable, rm>>
=============================================================================
