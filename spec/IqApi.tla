------------------------------- MODULE IqApi -------------------------------
(***************************************************************************)
(* Request APIs of the bundled managers (C07, manager layer).  Every such   *)
(* API returns a task that is fed by one or more raw IQ requests through    *)
(* chains of continuations (chainIq / chain in QXmppFutureUtils_p.h, or     *)
(* hand-written promise code as in QXmppMamManager::retrieveMessages).      *)
(* The specification is the obligation every one of them has, whatever it   *)
(* does internally:                                                         *)
(*   - the task completes at most once;                                     *)
(*   - when nothing the call is waiting for is outstanding any more (every  *)
(*     request it sent has been answered by the addressee or the session    *)
(*     has ended without resumption, and every decryption job it started    *)
(*     has finished) the task has completed -- whatever the answers were    *)
(*     (empty result, error, payload of another namespace);                 *)
(*   - a reply from somebody else changes nothing.                          *)
(*                                                                         *)
(* Actions: Call(api)          the application calls the API (session up)    *)
(*          Msg(enc)           archive APIs: the server delivers a message   *)
(*                             result for the running query                  *)
(*          Reply(f, p)        the oldest unanswered request is answered by  *)
(*                             f in {addressee, stranger} with payload p     *)
(*          DecryptDone(i)     the encryption extension finishes job i       *)
(*          Close              disconnectFromServer(): session ends for good *)
(* What an API does after an answer (send a follow-up request or finish) is  *)
(* its own business: `pend` moves nondeterministically.                      *)
(***************************************************************************)
EXTENDS Naturals, Sequences, FiniteSets, TLC

CONSTANTS StrangerPayloads,  \* payloads a stranger's reply is generated with (they all have to be ignored alike)
          Apis,       \* set of [k : {"gen","mam","mame"}, i : Nat]: generic API number i, archive query without / with e2ee
          Payloads,   \* "empty", "error", "foreign", "fin" (a well-formed archive <fin/>)
          MaxMsgs, MaxPend, MaxHist

VARIABLES phase,      \* "idle" | "called" | "closed"
          api,        \* the API called
          pend,       \* requests of this call the server has received and not answered
          msgs,       \* archive messages delivered for the query: sequence of BOOLEAN (encrypted?)
          jobs,       \* decryption jobs running (indexes into msgs)
          n,          \* completions of the returned task
          out,        \* last step: [a, f]
          hist

mvars == <<phase, api, pend, msgs, jobs, n, out>>
vars  == <<mvars, hist>>

NoApi == [k |-> "none", i |-> 0]

Init ==
    /\ phase = "idle" /\ api = NoApi /\ pend = 0 /\ msgs = <<>> /\ jobs = {} /\ n = 0
    /\ out = [a |-> "Init", f |-> ""]
    /\ hist = <<>>

Log(r) == hist' = Append(hist, r)

\* the call waits for nothing any more
Quiet(p, j) == p = 0 /\ j = {}
Settle(p, j) == IF Quiet(p, j) /\ n = 0 THEN 1 ELSE n

Call(a) ==
    /\ phase = "idle"
    /\ phase' = "called" /\ api' = a
    /\ \E p \in 0..1 :      \* some calls are answered locally without sending anything
        /\ (a.k # "gen" => p = 1)
        /\ pend' = p /\ n' = Settle(p, {})
    /\ out' = [a |-> "Call", f |-> ""]
    /\ Log([a |-> "Call", api |-> a])
    /\ UNCHANGED <<msgs, jobs>>

Msg(enc) ==
    /\ phase = "called" /\ api.k \in {"mam", "mame"} /\ pend > 0 /\ Len(msgs) < MaxMsgs
    /\ msgs' = Append(msgs, enc)
    /\ out' = [a |-> "Msg", f |-> ""]
    /\ Log([a |-> "Msg", enc |-> enc])
    /\ UNCHANGED <<phase, api, pend, jobs, n>>

Reply(f, p) ==
    /\ phase = "called"
    /\ (p = "fin" => api.k # "gen")
    /\ (f = "stranger" => p \in StrangerPayloads)
    /\ IF f = "stranger" \/ pend = 0
       THEN UNCHANGED <<pend, jobs, n>>       \* wrong sender, or a duplicate of an answer already given
       ELSE \E np \in {pend - 1, pend} :      \* pend: a follow-up request replaces the answered one
            /\ np <= MaxPend
            /\ (api.k # "gen" => np = pend - 1)
            /\ pend' = np
            \* any result (well-formed <fin/> or not) starts the decryption of the encrypted messages collected so far
            /\ jobs' = IF api.k = "mame" /\ p # "error" THEN {i \in 1..Len(msgs) : msgs[i]} ELSE jobs
            /\ n' = Settle(np, jobs')
    /\ out' = [a |-> "Reply", f |-> f]
    /\ Log([a |-> "Reply", from |-> f, p |-> p])
    /\ UNCHANGED <<phase, api, msgs>>

DecryptDone(i) ==
    /\ i \in jobs
    /\ jobs' = jobs \ {i}
    /\ n' = Settle(pend, jobs')
    /\ out' = [a |-> "DecryptDone", f |-> ""]
    /\ Log([a |-> "DecryptDone", i |-> i])
    /\ UNCHANGED <<phase, api, pend, msgs>>

Close ==
    /\ phase = "called"
    /\ phase' = "closed" /\ pend' = 0
    /\ n' = Settle(0, jobs)
    /\ out' = [a |-> "Close", f |-> ""]
    /\ Log([a |-> "Close"])
    /\ UNCHANGED <<api, msgs, jobs>>

Next ==
    \/ \E a \in Apis : Call(a)
    \/ \E enc \in BOOLEAN : Msg(enc)
    \/ \E f \in {"addressee", "stranger"} : \E p \in Payloads : Reply(f, p)
    \/ \E i \in 1..MaxMsgs : DecryptDone(i)
    \/ Close

Spec == Init /\ [][Next]_vars

(* --- properties (C07, manager layer) ------------------------------------- *)
P_AtMostOnce(c) == c <= 1
P_Settled(called, p, j, c) == (called /\ p = 0 /\ j = 0) => c = 1
P_Stranger(a, f, c0, c1) == (a = "Reply" /\ f = "stranger") => c1 = c0

AtMostOnce == P_AtMostOnce(n)
Settled    == P_Settled(phase # "idle", pend, Cardinality(jobs), n)
Stranger   == [][P_Stranger(out'.a, out'.f, n, n')]_vars
TypeOK     == phase \in {"idle", "called", "closed"} /\ pend \in 0..MaxPend /\ n \in 0..1 /\ jobs \subseteq 1..MaxMsgs

Reinit ==
    /\ phase' = "idle" /\ api' = NoApi /\ pend' = 0 /\ msgs' = <<>> /\ jobs' = {} /\ n' = 0
    /\ out' = [a |-> "Init", f |-> ""]
    /\ hist' = <<>>

McApis == {[k |-> "gen", i |-> 1], [k |-> "mam", i |-> 0], [k |-> "mame", i |-> 0]}
Bound == Len(hist) <= MaxHist
View  == mvars
GenView == <<phase, api, pend, msgs, jobs, n>>
=============================================================================
