SPECIFICATION Spec
CONSTANTS
  Classes = {"Plain", "Lt", "Gt", "Amp", "Quot", "Apos", "NonAscii", "Astral", "InnerSpace", "Newline"}
  MaxLen = 3
  NSlots = 1
  Contexts = {"attr", "text"}
INVARIANTS TypeOK RoundTrip NoInjection Fixpoint RawIsAnException ListContract
VIEW View
CHECK_DEADLOCK FALSE
