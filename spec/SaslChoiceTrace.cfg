SPECIFICATION TSpec
CONSTANTS
  OfferNames = {}
  FastSets = {}
  VFKinds = {}
  DisabledNames = {}
  PreferredSet = {}
  PwSet = {}
  TokenSet = {}
  GoogleSet = {}
  WliveSet = {}
  FbSet = {}
INVARIANT Done
CHECK_DEADLOCK FALSE
