------------------------------ MODULE CodecGen ------------------------------
(* Behaviour export for Codec: every generated transition writes the          *)
(* assignment it reaches.  A maximal behaviour (ending in Parse) is a         *)
(* substitution plan: per slot either absent or a character class; `qxv codec`*)
(* maps the slots onto the fields of every registered type.                   *)
EXTENDS Codec, Json, CSV, IOUtils

EmitBehaviour ==
    CSVWrite("%1$s", <<ToJson([steps |-> hist'])>>, IOEnv.QXV_GEN)
=============================================================================
