SPECIFICATION TSpec
CONSTANTS
  Apis = {"task", "legacy"}
  Archives = {"own", "muc"}
  Froms = {"none", "own", "muc", "evil"}
  E2ee = FALSE
  Encs = {FALSE, TRUE}
  Kinds = {"Query", "Result", "Fin", "FinErr", "Decrypt", "Disconnect", "Connect"}
  MaxQ = 99
  MaxM = 999
  MaxD = 99
  MaxDepth = 99
INVARIANT Done
CHECK_DEADLOCK FALSE
