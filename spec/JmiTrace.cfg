SPECIFICATION TSpec
CONSTANTS
  Peers = {"p1", "p2"}
  Ress = {"r1", "r2", "-"}
  PeerIds = {"nlo", "lo1", "lo2", "hi1", "hi2", "nhi"}
  Types = {"propose", "ringing", "proceed", "reject", "retract", "finish"}
  Variants = {"plain", "tb", "mig", "nore"}
  Wfs = {"ok", "nochat", "nostore"}
  Modes = {"sm", "up", "down"}
  Kinds = {}
  MaxJ = 9
  MaxP = 9
  MaxQ = 99
  MaxHist = 999
INVARIANT Done
CHECK_DEADLOCK FALSE
