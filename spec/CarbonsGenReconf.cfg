SPECIFICATION Spec
CONSTANTS
  Classes = {"OwnBare", "OwnBareCase", "OwnFullSelf", "OwnFullOther", "OwnBareSlash", "OwnBareSpace", "Domain", "SuffixLookalike", "PrefixLookalike", "Truncated", "Empty", "Contact", "ContactFull", "OwnAsResource", "Homoglyph", "PreviousOwnBare"}
  Wrappers = {"none", "sent", "received", "sentBody", "both", "nestedSent", "emptyCarbon"}
  Inners = {"chatIn"}
  Gens = {"v1", "v2"}
  JidCfgs = {"plain", "nores", "mixed"}
  Estabs = {"configured"}
  Hows = {"setJid", "setUserDomain", "assign", "copySetJid"}
  MaxHist = 99
VIEW ReconfView
ACTION_CONSTRAINT EmitReconfBehaviour
CHECK_DEADLOCK FALSE
