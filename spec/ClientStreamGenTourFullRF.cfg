SPECIFICATION Spec
CONSTANTS
  Cfgs <- ShardRF
  FeatureSets <- CoreFeatureSets
  MaxConn = 2
  MaxQ = 2
  MaxHist = 99
VIEW GenView
CONSTRAINT QBound
ACTION_CONSTRAINT EmitBehaviour
CHECK_DEADLOCK FALSE
