------------------------------ MODULE IbbGen ------------------------------
(* Behaviour export for Ibb (see TaskGen): every transition TLC generates   *)
(* writes the step sequence that leads to it.  IbbGenAll*.cfg have no VIEW:  *)
(* every path is a distinct state, so all behaviours of the bounded model    *)
(* (file sizes, one fault and/or one injected block at every position and in *)
(* every interleaving with the deliveries) are enumerated to their end;      *)
(* IbbGenTour.cfg (VIEW) covers every transition of the two-fault model.     *)
(* The steps do not depend on W; the replay runs them against W = 65536.     *)
EXTENDS Ibb, Json, CSV, IOUtils

EmitBehaviour ==
    CSVWrite("%1$s", <<ToJson([n |-> n', steps |-> hist'])>>, IOEnv.QXV_GEN)
=============================================================================
