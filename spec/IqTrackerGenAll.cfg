SPECIFICATION Spec
CONSTANTS
  Ids = {"i1"}
  Tos = {"server"}
  RFroms = {"exact", "stranger"}
  Types = {"result"}
  OpenKinds = {"plain", "smr", "resumed"}
  MaxHist = 5
CONSTRAINT Bound
ACTION_CONSTRAINT EmitBehaviour
CHECK_DEADLOCK FALSE
