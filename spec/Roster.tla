------------------------------- MODULE Roster -------------------------------
(***************************************************************************)
(* QXmppRosterManager (src/client/QXmppRosterManager.cpp) as seen through  *)
(* its public getters, together with the session events it reacts to.      *)
(*                                                                         *)
(* One action per handler of the code / move of the environment:           *)
(*   Connect(k)       QXmppOutgoingClient::openSession -> OutgoingIqManager *)
(*                    ::onSessionOpened (cancel unless resumed) -> signal   *)
(*                    connected -> QXmppRosterManager::_q_connected (clear  *)
(*                    unless ResumedStream; request the roster unless it    *)
(*                    has been received)                                    *)
(*   Result(items)    continuation of requestRoster(): replace all entries  *)
(*   ResultErr        the roster request is answered with an error          *)
(*   ResultForged     a roster result with the right id from somebody else  *)
(*                    (dropped by OutgoingIqManager::handleStanza, then by  *)
(*                    the sender check of QXmppRosterManager::handleStanza) *)
(*   Push(f, items)   QXmppRosterManager::handleStanza, type=set            *)
(*   Presence(j,r,a)  QXmppRosterManager::_q_presenceReceived               *)
(*   Disconnect(k)    QXmppOutgoingClient::closeSession -> OutgoingIqManager*)
(*                    ::onSessionClosed -> signal disconnected ->           *)
(*                    _q_disconnected (clear if NoStreamManagement)         *)
(*                                                                         *)
(* Mechanism variables (view, received, pres, reqs, the stream-management  *)
(* flags) follow the code.  Ghost variables (ref, refValid, last) are the  *)
(* history the property C12 talks about: the most recent full roster of    *)
(* the session with later authorised pushes folded in, and the latest      *)
(* presence of every (contact, resource) on the session.  The properties   *)
(* relate the two.                                                         *)
(*                                                                         *)
(* Senders of a push (`from` attribute):                                    *)
(*   must: absent, ownBare            -- RFC 6121 2.1.6: MUST be accepted   *)
(*   not : stranger, contact, look*   -- "any other entity": MUST change    *)
(*                                       nothing, MUST NOT be acknowledged  *)
(*   may : ownFull, ownOther, server  -- RFC 6121 says ignore; the property *)
(*         statement says "from the user's own account or server".  Both   *)
(*         readings are accepted by the monitor (see RosterTrace); the     *)
(*         design below does what the code is written to do: compare the   *)
(*         bare part of `from` with the own bare JID (so own full JIDs are *)
(*         accepted, the bare server domain is not).                       *)
(***************************************************************************)
EXTENDS Naturals, Sequences, FiniteSets, TLC

CONSTANTS Jids,       \* contacts (bare JIDs) that may appear in rosters
          Items,      \* the roster items the server may send: records over every field of QXmppRosterIq::Item
                      \* (ItemsTwo / ItemsThree / ItemsFields below, chosen in the configuration)
          Ress,       \* resources a contact may be online with
          Froms,      \* sender classes used for pushes
          ConnKinds,  \* subset of {"plain","sm","smr","resumed"}
          MaxReqs,    \* bound on outstanding roster requests
          MaxItems,   \* items per push
          MaxHist

VARIABLES sess,       \* "None" | "New" | "Resumed": what streamManagementState()/isConnected report
          smOn,       \* C2sStreamManager::m_enabled (kept after the stream closed, reset on stream start)
          canRes,     \* C2sStreamManager::m_canResume
          resumable,  \* ghost: the session that just ended may be resumed by the next Connect
          view,       \* d->entries       : [Jids -> Items \cup {Absent}]
          received,   \* d->isRosterReceived
          pres,       \* d->presences     : [Jids -> SUBSET Ress]
          reqs,       \* roster requests outstanding in the OutgoingIqManager
          out,        \* what the last step emitted: [a, cls, ack, sig, req]
          ref,        \* ghost: reference view
          refValid,   \* ghost: a full roster has been received on this session
          last,       \* ghost: [Jids -> [Ress -> {"none","avail","unavail"}]]
          hist

mvars == <<sess, smOn, canRes, resumable, view, received, pres, reqs, out, ref, refValid, last>>
vars  == <<mvars, hist>>

MustFroms == {"absent", "ownBare"}
MayFroms  == {"ownFull", "ownOther", "server"}
Class(f)  == IF f \in MustFroms THEN "must" ELSE IF f \in MayFroms THEN "may" ELSE "not"
\* what the code is written to do: bare(from) = own bare JID, or no from
CodeAccepts(f) == f \in {"absent", "ownBare", "ownFull", "ownOther"}

(* A roster item is a record over all fields QXmppRosterIq::Item parses and serialises              *)
(* (src/base/QXmppRosterIq.cpp): x present, n name, s subscription, a ask (subscriptionStatus),      *)
(* ap approved (pre-approval), g groups (sorted sequence), mx MIX channel annotation, p MIX           *)
(* participant-id.  The view is compared field by field with what getRosterEntry() returns.          *)
Absent == [x |-> 0, n |-> "", s |-> "", a |-> "", ap |-> FALSE, g |-> <<>>, mx |-> FALSE, p |-> ""]
Base   == [x |-> 1, n |-> "n1", s |-> "both", a |-> "", ap |-> FALSE, g |-> <<"g1">>, mx |-> FALSE, p |-> ""]
Several == [Base EXCEPT !.n = "n2", !.s = "to", !.g = <<"g2">>]
MixBase == [Base EXCEPT !.mx = TRUE]
\* every item that differs from Base in exactly one field, and one that differs from MixBase only in the
\* participant-id (which exists only on a MIX channel item)
OneField == {[Base EXCEPT !.n = "n2"], [Base EXCEPT !.s = "to"], [Base EXCEPT !.a = "subscribe"],
             [Base EXCEPT !.ap = TRUE], [Base EXCEPT !.g = <<"g1", "g2">>], MixBase, [MixBase EXCEPT !.p = "p1"]}
ItemsOne    == {Base}
ItemsTwo    == {Base, Several}
ItemsThree  == {Base, Several, [Base EXCEPT !.n = "n3", !.s = "from", !.g = <<>>, !.ap = TRUE]}
ItemsFields == {Base, Several} \cup OneField
                \cup {[x |-> 1, n |-> "n2", s |-> "none", a |-> "subscribe", ap |-> TRUE, g |-> <<>>, mx |-> TRUE, p |-> "p2"]}
FieldsOf == {"n", "s", "a", "ap", "g", "mx", "p"}
Diff(i1, i2) == {f \in FieldsOf : i1[f] # i2[f]}          \* the fields in which two items differ
Empty  == [j \in Jids |-> Absent]
NoPres == [j \in Jids |-> {}]
NoLast == [j \in Jids |-> [r \in Ress |-> "none"]]
Rosters == [Jids -> Items \cup {Absent}]
ItemOps == [j : Jids, it : Items \cup {Absent}]
PushItems == UNION {[1..n -> ItemOps] : n \in 1..MaxItems}
Out0 == [a |-> "Init", cls |-> "", ack |-> 0, sig |-> <<>>, req |-> 0]

(* items of a push are applied in order: Absent (subscription='remove') removes, any other item inserts / replaces whole *)
RECURSIVE ApplyAll(_, _)
ApplyAll(f, s) == IF s = <<>> THEN f ELSE ApplyAll([f EXCEPT ![Head(s).j] = Head(s).it], Tail(s))

RECURSIVE Signals(_, _)
Signals(f, s) ==
    IF s = <<>> THEN <<>>
    ELSE LET it == Head(s)
             sg == IF it.it.x = 0 THEN (IF f[it.j].x # 0 THEN <<"removed:" \o it.j>> ELSE <<>>)
                   ELSE IF f[it.j].x = 0 THEN <<"added:" \o it.j>> ELSE <<"changed:" \o it.j>>
         IN sg \o Signals([f EXCEPT ![it.j] = it.it], Tail(s))

Init ==
    /\ sess = "None" /\ smOn = FALSE /\ canRes = FALSE /\ resumable = FALSE
    /\ view = Empty /\ received = FALSE /\ pres = NoPres /\ reqs = 0
    /\ out = Out0
    /\ ref = Empty /\ refValid = FALSE /\ last = NoLast
    /\ hist = <<>>

Log(r) == hist' = Append(hist, r)

(* --- session ------------------------------------------------------------ *)
Connect(k) ==
    /\ sess = "None"
    /\ k = "resumed" => resumable
    /\ resumable' = FALSE
    /\ IF k = "resumed"
       THEN /\ sess' = "Resumed" /\ smOn' = TRUE
            /\ reqs' = IF received THEN reqs ELSE reqs + 1
            /\ out' = [a |-> "Connect", cls |-> k, ack |-> 0, sig |-> <<>>, req |-> IF received THEN 0 ELSE 1]
            /\ UNCHANGED <<canRes, view, received, pres, ref, refValid, last>>
       ELSE /\ sess' = "New" /\ smOn' = (k # "plain")
            /\ canRes' = IF k = "smr" THEN TRUE ELSE IF k = "sm" THEN FALSE ELSE canRes
            /\ view' = Empty /\ received' = FALSE /\ pres' = NoPres
            /\ reqs' = 1       \* old requests cancelled by onSessionOpened, a new one is sent
            /\ out' = [a |-> "Connect", cls |-> k, ack |-> 0, sig |-> <<>>, req |-> 1]
            /\ ref' = Empty /\ refValid' = FALSE /\ last' = NoLast
    /\ Log([a |-> "Connect", k |-> k])

Disconnect(k) ==   \* "cut": the connection drops; "user": disconnectFromServer()
    /\ sess # "None"
    /\ sess' = "None"
    /\ LET cr == IF k = "user" THEN FALSE ELSE canRes
           rs == (k = "cut") /\ smOn /\ canRes
       IN /\ canRes' = cr
          /\ resumable' = rs
          /\ reqs' = IF cr THEN reqs ELSE 0
          /\ IF smOn THEN UNCHANGED <<view, received, pres>>
                     ELSE view' = Empty /\ received' = FALSE /\ pres' = NoPres
          /\ IF rs THEN UNCHANGED <<ref, refValid, last>>
                   ELSE ref' = Empty /\ refValid' = FALSE /\ last' = NoLast
    /\ out' = [a |-> "Disconnect", cls |-> k, ack |-> 0, sig |-> <<>>, req |-> 0]
    /\ Log([a |-> "Disconnect", k |-> k])
    /\ UNCHANGED smOn

(* --- the roster request and its answers -------------------------------- *)
Result(n, items) ==      \* the n-th outstanding request is answered by the server
    /\ sess # "None" /\ n \in 1..reqs
    /\ view' = items /\ received' = TRUE /\ reqs' = reqs - 1
    /\ ref' = items /\ refValid' = TRUE
    /\ out' = [a |-> "Result", cls |-> "must", ack |-> 0, sig |-> <<>>, req |-> 0]
    /\ Log([a |-> "Result", n |-> n, items |-> items])
    /\ UNCHANGED <<sess, smOn, canRes, resumable, pres, last>>

ResultErr(n) ==
    /\ sess # "None" /\ n \in 1..reqs
    /\ reqs' = reqs - 1
    /\ out' = [a |-> "ResultErr", cls |-> "must", ack |-> 0, sig |-> <<>>, req |-> 0]
    /\ Log([a |-> "ResultErr", n |-> n])
    /\ UNCHANGED <<sess, smOn, canRes, resumable, view, received, pres, ref, refValid, last>>

ResultForged(n, f, items) ==   \* right id, wrong sender: nothing happens, the request stays outstanding
    /\ sess # "None" /\ n \in 1..reqs /\ Class(f) = "not"
    /\ out' = [a |-> "ResultForged", cls |-> "not", ack |-> 0, sig |-> <<>>, req |-> 0]
    /\ Log([a |-> "ResultForged", n |-> n, from |-> f, items |-> items])
    /\ UNCHANGED <<sess, smOn, canRes, resumable, view, received, pres, reqs, ref, refValid, last>>

(* --- roster push --------------------------------------------------------- *)
Push(f, items) ==
    /\ sess # "None"
    /\ IF CodeAccepts(f)
       THEN /\ view' = ApplyAll(view, items)
            /\ ref' = ApplyAll(ref, items)
            /\ out' = [a |-> "Push", cls |-> Class(f), ack |-> 1, sig |-> Signals(view, items), req |-> 0]
       ELSE /\ UNCHANGED <<view, ref>>
            /\ out' = [a |-> "Push", cls |-> Class(f), ack |-> 0, sig |-> <<>>, req |-> 0]
    /\ Log([a |-> "Push", from |-> f, items |-> items])
    /\ UNCHANGED <<sess, smOn, canRes, resumable, received, pres, reqs, refValid, last>>

(* --- presence ------------------------------------------------------------ *)
Presence(j, r, av) ==
    /\ sess # "None"
    /\ pres' = [pres EXCEPT ![j] = IF av THEN @ \cup {r} ELSE @ \ {r}]
    /\ last' = [last EXCEPT ![j][r] = IF av THEN "avail" ELSE "unavail"]
    /\ out' = [a |-> "Presence", cls |-> "", ack |-> 0, sig |-> <<>>, req |-> 0]
    /\ Log([a |-> "Presence", j |-> j, r |-> r, av |-> av])
    /\ UNCHANGED <<sess, smOn, canRes, resumable, view, received, reqs, ref, refValid>>

Next ==
    \/ \E k \in ConnKinds : Connect(k)
    \/ \E k \in {"cut", "user"} : Disconnect(k)
    \/ \E n \in 1..MaxReqs : \E items \in Rosters : Result(n, items)
    \/ \E n \in 1..MaxReqs : ResultErr(n)
    \/ \E n \in 1..MaxReqs : \E f \in Froms : \E items \in Rosters : ResultForged(n, f, items)
    \/ \E f \in Froms : \E items \in PushItems : Push(f, items)
    \/ \E j \in Jids : \E r \in Ress : \E av \in BOOLEAN : Presence(j, r, av)

Spec == Init /\ [][Next]_vars

(* --- properties (C12) ---------------------------------------------------- *)
\* written over plain values so that RosterTrace evaluates the same predicates
\* on what the implementation reported
Sub(v, rf) == \A j \in DOMAIN v : v[j].x # 0 => (j \in DOMAIN rf /\ v[j] = rf[j])
\* the session (or its resumable suspension) exists: the view is the reference view; before the
\* first full roster of the session only pushes of this session may be visible
P_View(live, valid, v, rf) == live => IF valid THEN v = rf ELSE Sub(v, rf)
\* the presence table lists exactly the resources whose latest presence was available
Avail(l, j) == {r \in DOMAIN l[j] : l[j][r] = "avail"}
P_Pres(live, p, l, js) == live => \A j \in js : p[j] = Avail(l, j)
\* an unauthorised push changes nothing and is not acknowledged
P_Unauth(cls, v0, v1, ack, sig) == cls = "not" => (v1 = v0 /\ ack = 0 /\ sig = <<>>)
\* a session that is not a resumption starts from nothing
P_Fresh(k, v, p) == k # "resumed" => (\A j \in DOMAIN v : v[j].x = 0) /\ (\A j \in DOMAIN p : p[j] = {})

Live == sess # "None" \/ resumable

ViewIsRef     == P_View(Live, refValid, view, ref)
PresIsLatest  == P_Pres(Live, pres, last, Jids)
UnauthPush    == [][out'.a \in {"Push", "ResultForged"} => P_Unauth(out'.cls, view, view', out'.ack, out'.sig)]_vars
FreshSession  == [][out'.a = "Connect" => P_Fresh(out'.cls, view', pres')]_vars
TypeOK ==
    /\ sess \in {"None", "New", "Resumed"} /\ smOn \in BOOLEAN /\ canRes \in BOOLEAN /\ resumable \in BOOLEAN
    /\ view \in Rosters /\ ref \in Rosters /\ received \in BOOLEAN /\ refValid \in BOOLEAN
    /\ pres \in [Jids -> SUBSET Ress] /\ reqs \in Nat
    /\ (resumable => sess = "None" /\ smOn /\ canRes)
    /\ (sess = "Resumed" => smOn)
    /\ (received <=> refValid) \/ ~Live

Reinit ==
    /\ sess' = "None" /\ smOn' = FALSE /\ canRes' = FALSE /\ resumable' = FALSE
    /\ view' = Empty /\ received' = FALSE /\ pres' = NoPres /\ reqs' = 0
    /\ out' = Out0
    /\ ref' = Empty /\ refValid' = FALSE /\ last' = NoLast
    /\ hist' = <<>>

ReqBound == reqs <= MaxReqs
Bound == Len(hist) <= MaxHist
View  == mvars
\* for behaviour generation: states that differ only in what the last step emitted are one state
GenView == <<sess, smOn, canRes, resumable, view, received, pres, reqs, ref, refValid, last>>
=============================================================================
