SPECIFICATION TSpec
CONSTANTS
  Cfgs <- AllCfgs
  PreFeats <- AllPreFeats
  PostFeats <- AllPostFeats
  MaxConn = 9999
  MaxTok = 9999
  MaxHist = 9999
  ResumeKeepsCsi = TRUE
  AsCode = {}
INVARIANT Done
CHECK_DEADLOCK FALSE
