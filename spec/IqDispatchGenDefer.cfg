SPECIFICATION Spec
CONSTANTS
  Types = {}
  Payloads = {"version"}
  Froms = {"Contact"}
  ExtSets = {"all"}
  IdKinds = {"fresh"}
  Peers = {}
  Deferred = TRUE
  MaxHosts = 2
  MaxHist = 99
VIEW DeferView
ACTION_CONSTRAINT EmitBehaviour
CHECK_DEADLOCK FALSE
