SPECIFICATION Spec
CONSTANTS
  MaxRefs = 2
  Kinds = {"void", "copy", "move"}
  Bodies = {"none", "destroyCtx", "dropOthers", "refinish", "reThen"}
  MaxHist = 99
VIEW View
ACTION_CONSTRAINT EmitBehaviour
CHECK_DEADLOCK FALSE
