SPECIFICATION Spec
CONSTANTS
  Cfgs <- SliceCfgs
  PreFeats <- CorePreFeats
  PostFeats <- AllPostFeats
  MaxConn = 2
  MaxTok = 2
  MaxHist = 3
  ResumeKeepsCsi = TRUE
  AsCode = {}
CONSTRAINT Bound
ACTION_CONSTRAINT EmitBehaviour
CHECK_DEADLOCK FALSE
