--------------------------------- MODULE Jmi ---------------------------------
(***************************************************************************)
(* Extension `jmi`: the Jingle Message Initiation state machine (XEP-0353) *)
(* of QXmppJingleMessageInitiationManager / QXmppJingleMessageInitiation   *)
(* (src/client/QXmppJingleMessageInitiationManager.cpp), seen through the   *)
(* public API (propose(), ring/proceed/reject/retract/finish on a JMI,      *)
(* the signals proposed / ringing / proceeded / closed, the results of the  *)
(* returned tasks, whether a message was consumed) and through the          *)
(* manager's list of JMIs, together with the moves of the environment:      *)
(* the user, the call partner (messages), another resource of our own       *)
(* account (carbon copies), the server (stream-management acks) and the     *)
(* fault that makes pending sends finish with an error.                     *)
(*                                                                         *)
(* The specification is event driven.  `Step(s, e)` is the reaction of the  *)
(* manager to ONE event as a pure function                                  *)
(*      (state, event) -> [s, sig, sent, handled]                           *)
(*   s       the state afterwards                                           *)
(*   sig     signals and task results, in emission order                    *)
(*   sent    JMI elements written (in order)                                *)
(*   handled the message was consumed (QXmppClient::messageReceived is not  *)
(*           emitted)                                                       *)
(* JmiTrace applies the same function to the logged events to obtain the    *)
(* reference the implementation is compared with.                           *)
(*                                                                         *)
(* State                                                                    *)
(*   mode   how sends complete: "sm" stream management on: the task of a    *)
(*          send finishes when the server acknowledges the stanza (Ack) or  *)
(*          when the cache is reset (FailAll); "up": no stream management,  *)
(*          connected socket: finishes successfully inside send(); "down":  *)
(*          socket not connected: finishes with an error inside send()      *)
(*   obj    every JMI object ever created, by creation index (the handle    *)
(*          the user holds): peer (bare JID), id, out (we proposed it),     *)
(*          proc (isProceeded), live (in the manager's list), ghosts: acc   *)
(*          (the user called proceed()), known (the user has the handle:    *)
(*          from proposed() or from the result of propose()), won (it won   *)
(*          a tie break: changes nothing here, but makes the states after   *)
(*          a won tie break states of their own for the transition tours)   *)
(*   ord    the manager's list (creation indices, list order)               *)
(*   q      sends whose task has not finished, oldest first, each with the  *)
(*          continuation the code attached to it                            *)
(*   np     number of propose() calls so far (own ids are o1, o2, ...)      *)
(*                                                                         *)
(* The reaction is the INTENDED one: XEP-0353 0.6 for the protocol, the     *)
(* documentation of the classes for the API.  Where qxmpp departs           *)
(* (docs/ext-jmi.md) the text says so:                                      *)
(*   [D1] a JMI carries the id of its session from its creation on          *)
(*   [D2] a JMI that ended (closed() emitted, or ended by the user's        *)
(*        reject/retract/finish) leaves the manager's list                  *)
(*   [D3] tie breaking is between OUR unanswered proposal and the           *)
(*        partner's; a proposal that arrives while only proposals OF THE    *)
(*        PARTNER are open is a new session                                 *)
(*   [D4] the tie-break winner keeps the id of its own proposal and stays   *)
(*        open whether or not its reject of the other one could be sent     *)
(*   [D5] ids are compared as strings (XEP ids are not UUIDs)               *)
(*   [D6] proceeded() carries the partner's resource                        *)
(*   [D7] proceed() on a JMI marks it proceeded                             *)
(*   [D8] the loser of a tie break / a migrated session takes the new id at *)
(*        once; a continuation of a send acts only if the JMI is still in   *)
(*        the list under the id it was started for                          *)
(*   [D9] a carbon copy of what another resource of ours sent is not a      *)
(*        message to us                                                     *)
(*   [D10] our proposal is a session from the moment propose() wrote it,    *)
(*        not only once the server acknowledged it: a proposal of the       *)
(*        partner that crosses it in that window is tie-broken              *)
(* Everything else follows the code, including what the XEP does not ask    *)
(* for (named where it happens): `FinishEcho` (a received finish is         *)
(* answered with a finish), `AutoProceed` (the loser of a tie break and a   *)
(* migrated session accept the partner's proposal without asking the        *)
(* user), `MigrationNotice` (closed(Finished{expired, migratedTo}) on a JMI *)
(* that stays alive under the new id).                                      *)
(***************************************************************************)
EXTENDS Naturals, Sequences, FiniteSets, TLC

CONSTANTS Peers,      \* bare JIDs of call partners
          Ress,       \* resources messages come from ("-" = from the bare JID)
          PeerIds,    \* ids the partners use in their proposals (tokens, ordered by Rank)
          Types,      \* JMI element types the partners send
          Variants,   \* payload variants: "plain", "tb" (<tie-break/>), "mig" (<migrated to='m1'/>), "nore" (no <reason/>)
          Wfs,        \* envelope: "ok" (type chat + <store/>), "nochat", "nostore"
          Modes,      \* send modes explored ("sm", "up", "down")
          Kinds,      \* event kinds switched on
          MaxJ,       \* JMI objects created per behaviour
          MaxP,       \* propose() calls per behaviour
          MaxQ,       \* unfinished sends at a time
          MaxHist

VARIABLES st,         \* the manager: [mode, obj, ord, q, np]
          gh,         \* ghost: history facts the invariants talk about (see G0)
          pv,         \* names of the invariants the last step broke (design level: always {})
          out,        \* what the last step did: [ev, sig, sent, handled]
          hist

vars == <<st, gh, pv, out, hist>>

Range(s) == {s[i] : i \in DOMAIN s}
Cnt(s, x) == Cardinality({i \in DOMAIN s : s[i] = x})

(* ------------------------------------------------------------------ ids *)
\* Partners' ids are tokens with a fixed order; our own ids (o1, o2, ...: random UUIDs in the code)
\* lie between the "lo" and the "hi" tokens.  nlo / nhi are not UUIDs ("!call" / "zcall").
Rank == [nlo |-> 0, lo1 |-> 1, lo2 |-> 2, hi1 |-> 8, hi2 |-> 9, nhi |-> 10]
RankOf(x) == IF x \in DOMAIN Rank THEN Rank[x] ELSE 5
Less(a, b) == RankOf(a) < RankOf(b)                                                \* [D5] string order
OwnId(n) == "o" \o ToString(n)
OwnIds(n) == {OwnId(i) : i \in 1..n}

(* ------------------------------------------------------------ records *)
\* a JMI element on the wire: type, addressee / sender (bare JID), id, reason ("-" none), extra
\* ("tb" <tie-break/>, an id = <migrated to/>, "" nothing)
El(t, to, id, rs, ex) == [t |-> t, to |-> to, id |-> id, rs |-> rs, ex |-> ex]
\* a signal / task result: s kind, k handle, a/b/c arguments
Sg(s, k, a, b, c) == [s |-> s, k |-> k, a |-> a, b |-> b, c |-> c]
\* continuation attached to a send: c kind, k handle, x id it acts for, r partner resource, p partner
Ct(c, k, x, r, p) == [c |-> c, k |-> k, x |-> x, r |-> r, p |-> p]

S0(m) == [mode |-> m, obj |-> <<>>, ord |-> <<>>, q |-> <<>>, np |-> 0]
W0(s) == [s |-> s, sig |-> <<>>, sent |-> <<>>, handled |-> FALSE]

Live(s, k) == k \in 1..Len(s.obj) /\ s.obj[k].live
Drop(seq, k) == SelectSeq(seq, LAMBDA x : x # k)
Emit(w, x) == [w EXCEPT !.sig = Append(@, x)]

\* the JMI ends: closed(result) is emitted and the manager forgets it                  [D2]
Close(w, k, a, b, c) == [w EXCEPT !.s.obj[k].live = FALSE, !.s.ord = Drop(@, k), !.sig = Append(@, Sg("closed", k, a, b, c))]
\* the user ended it (reject / retract / finish): the manager forgets it, no closed()  [D2]
Forget(w, k) == [w EXCEPT !.s.obj[k].live = FALSE, !.s.ord = Drop(@, k)]
NewJmi(w, p, id, o) ==                                                                 \* [D1] created with its id
    [w EXCEPT !.s.obj = Append(@, [peer |-> p, id |-> id, out |-> o, proc |-> FALSE, live |-> TRUE, acc |-> FALSE, known |-> ~o, won |-> FALSE]),
              !.s.ord = Append(@, Len(w.s.obj) + 1)]

\* a continuation still concerns its JMI: in the list, under the id it was started for  [D8]
Cur(s, c) == Live(s, c.k) /\ s.obj[c.k].id = c.x

(* ------------------------------------------------- sending and completion *)
RECURSIVE Send(_, _, _), Complete(_, _, _)
\* QXmppClient::send(): the element is written; its task finishes now ("up"/"down") or later ("sm")
Send(w, el, c) ==
    LET w1 == [w EXCEPT !.sent = Append(@, el)] IN
    IF w.s.mode = "sm" THEN [w1 EXCEPT !.s.q = Append(@, c)]
    ELSE Complete(w1, c, w.s.mode = "up")

\* the task of a send finished (ok / error): the continuation the code attached to it
Complete(w, c, ok) ==
    IF c.c = "propose" THEN                                         \* QXmppJingleMessageInitiationManager::propose
        \* the user gets the handle / the proposal that could not be sent is forgotten            [D10]
        IF ok THEN Emit([w EXCEPT !.s.obj[c.k].known = TRUE], Sg("res", c.k, "propose", "ok", ""))
        ELSE Emit(IF Live(w.s, c.k) THEN Forget(w, c.k) ELSE w, Sg("res", c.k, "propose", "err", ""))
    ELSE IF c.c = "user" THEN                                       \* the task returned to the user
        Emit(IF ok /\ c.x = "proceed" THEN [w EXCEPT !.s.obj[c.k].proc = TRUE] ELSE w,    \* [D7]
             Sg("res", c.k, c.x, IF ok THEN "ok" ELSE "err", ""))
    ELSE IF c.c = "echo" THEN w                                     \* FinishEcho, tie-break reject: result ignored
    ELSE IF ~Cur(w.s, c) THEN w                                     \* [D8]
    ELSE IF ~ok THEN Close(w, c.k, "Error", "", "")
    ELSE IF c.c \in {"tbRet", "mgFin"} THEN                         \* AutoProceed
        Send(w, El("proceed", c.p, c.x, "-", ""), [c EXCEPT !.c = IF c.c = "tbRet" THEN "tbPro" ELSE "mgPro"])
    ELSE IF c.c = "tbPro" THEN Emit([w EXCEPT !.s.obj[c.k].proc = TRUE], Sg("proceeded", c.k, c.x, c.r, ""))   \* [D6]
    ELSE (* mgPro *) [w EXCEPT !.s.obj[c.k].proc = TRUE]

(* ------------------------------------------------------------ the user *)
CallName == [Ring |-> "ring", Proceed |-> "proceed", Reject |-> "reject", Retract |-> "retract", Finish |-> "finish"]
CallEl   == [Ring |-> "ringing", Proceed |-> "proceed", Reject |-> "reject", Retract |-> "retract", Finish |-> "finish"]
CallRs   == [Ring |-> "-", Proceed |-> "-", Reject |-> "busy", Retract |-> "cancel", Finish |-> "success"]
Terminal == {"Reject", "Retract", "Finish"}

UserStep(w, e) ==
    IF e.a = "Propose" THEN
        LET n == w.s.np + 1 IN                                      \* the JMI exists before the element is written  [D10]
        Send(NewJmi([w EXCEPT !.s.np = n], e.p, OwnId(n), TRUE), El("propose", e.p, OwnId(n), "-", ""),
             Ct("propose", Len(w.s.obj) + 1, OwnId(n), "", e.p))
    ELSE IF e.k \notin 1..Len(w.s.obj) THEN w                       \* no such handle (outside the assumptions)
    ELSE LET o == w.s.obj[e.k]
             w1 == Send(IF e.a = "Proceed" THEN [w EXCEPT !.s.obj[e.k].acc = TRUE] ELSE w,
                        El(CallEl[e.a], o.peer, o.id, CallRs[e.a], ""), Ct("user", e.k, CallName[e.a], "", o.peer))
         IN IF e.a \in Terminal THEN Forget(w1, e.k) ELSE w1        \* [D2]

(* ------------------------------------------------------- the call partner *)
Match(s, p, id) == SelectSeq(s.ord, LAMBDA k : s.obj[k].peer = p /\ s.obj[k].id = id)
\* the JMI an incoming proposal collides with: a proceeded session with that partner (device
\* switch) or our own unanswered proposal to it (tie break)                              [D3]
Tie(s, p) == SelectSeq(s.ord, LAMBDA k : s.obj[k].peer = p /\ (s.obj[k].proc \/ s.obj[k].out))

RecvRs(e) == IF e.v = "nore" THEN "-" ELSE IF e.t = "reject" THEN "busy" ELSE IF e.t = "retract" THEN "cancel" ELSE "success"
RecvEx(e) == IF e.v = "tb" THEN "tb" ELSE IF e.v = "mig" THEN "m1" ELSE ""

RecvStep(w, e) ==
    IF e.wf # "ok" THEN w                                           \* not type chat / no <store/>: not ours
    ELSE LET m == Match(w.s, e.from, e.id)
             wh == [w EXCEPT !.handled = TRUE] IN
    IF m # <<>> THEN
        LET k == m[1]
            o == w.s.obj[k] IN
        CASE e.t = "ringing" -> Emit(wh, Sg("ringing", k, "", "", ""))
          [] e.t = "proceed" -> Emit([wh EXCEPT !.s.obj[k].proc = TRUE], Sg("proceeded", k, e.id, IF e.res = "-" THEN "" ELSE e.res, ""))
          [] e.t = "reject"  -> Close(wh, k, "Rejected", RecvRs(e), RecvEx(e))
          [] e.t = "retract" -> Close(wh, k, "Retracted", RecvRs(e), RecvEx(e))
          [] e.t = "finish"  -> \* FinishEcho: finish(reason, migratedTo) before closed(); no reason -> the default one
                                Close(Send(wh, El("finish", o.peer, o.id, IF e.v = "nore" THEN "success" ELSE RecvRs(e), RecvEx(e)),
                                           Ct("echo", k, o.id, "", o.peer)),
                                      k, "Finished", RecvRs(e), RecvEx(e))
          [] OTHER -> w                                             \* a proposal for a session that exists
    ELSE IF e.t # "propose" THEN w                                  \* unknown session
    ELSE LET t == Tie(w.s, e.from) IN
         IF t = <<>> THEN Emit(NewJmi(wh, e.from, e.id, FALSE), Sg("proposed", Len(w.s.obj) + 1, e.id, "", ""))
         ELSE LET k == t[1]
                  o == w.s.obj[k]
                  res == IF e.res = "-" THEN "" ELSE e.res
                  moved == [wh EXCEPT !.s.obj[k].id = e.id, !.s.obj[k].out = FALSE]         \* [D8]
              IN IF o.proc THEN                                      \* handleExistingSession: device switch
                     Send(Emit(moved, Sg("closed", k, "Finished", "expired", e.id)),          \* MigrationNotice
                          El("finish", o.peer, o.id, "expired", e.id), Ct("mgFin", k, e.id, res, o.peer))
                 ELSE IF Less(o.id, e.id) THEN                       \* handleNonExistingSession: we win   [D4]
                     \* our session goes on whether or not the reject can be sent (result ignored)
                     Send([wh EXCEPT !.s.obj[k].won = TRUE], El("reject", o.peer, e.id, "expired", "tb"), Ct("echo", k, o.id, res, o.peer))
                 ELSE                                                \* we lose: retract ours, accept theirs
                     Send(moved, El("retract", o.peer, o.id, "expired", "tb"), Ct("tbRet", k, e.id, res, o.peer))

(* ------------------------------------------------------------ the server *)
RECURSIVE FailSeq(_, _)
FailSeq(w, cs) == IF cs = <<>> THEN w ELSE FailSeq(Complete(w, Head(cs), FALSE), Tail(cs))

Step(s, e) ==
    LET w == W0(s) IN
    CASE e.a \in {"Propose", "Ring", "Proceed", "Reject", "Retract", "Finish"} -> UserStep(w, e)
      [] e.a = "Recv"    -> RecvStep(w, e)
      [] e.a = "Carbon"  -> w                                                            \* [D9]
      [] e.a = "Ack"     -> IF s.q = <<>> THEN w ELSE Complete([w EXCEPT !.s.q = Tail(@)], Head(s.q), TRUE)
      [] e.a = "FailAll" -> FailSeq([w EXCEPT !.s.q = <<>>], s.q)
      [] OTHER           -> w

(* ------------------------------------------------------------------ alphabet *)
VarOf(t) == CASE t \in {"reject", "retract"} -> Variants \cap {"plain", "tb", "nore"}
              [] t = "finish"                -> Variants \cap {"plain", "mig", "nore"}
              [] OTHER                       -> {"plain"}
AllIds == PeerIds \cup OwnIds(MaxP)
Events ==
    {e \in      [a : {"Propose"}, p : Peers]
           \cup [a : {"Ring", "Proceed", "Reject", "Retract", "Finish"}, k : 1..MaxJ]
           \cup UNION {[a : {"Recv"}, from : Peers, res : Ress, t : {t}, id : AllIds, wf : Wfs, v : VarOf(t)] : t \in Types}
           \cup [a : {"Carbon"}, p : Peers, t : Types, id : AllIds]
           \cup [a : {"Ack", "FailAll"}]
       : e.a \in Kinds}

(* -------------------------------------------- assumptions about the environment *)
\* The user calls methods of a JMI he has got (from proposed() or from the result of propose()):
\* ring/proceed/reject on a live JMI that was proposed to us and is not yet accepted,
\* retract on our own unanswered proposal, finish on a proceeded session, and nothing on a JMI whose
\* automatic accept (lost tie break / device switch) is still in flight.  Partners propose with ids of
\* their own; an id of ours appears in a message only after we used it.  Bounds: MaxJ, MaxP, MaxQ.
Busy(s, k) == \E i \in DOMAIN s.q : s.q[i].k = k /\ s.q[i].c \in {"tbRet", "tbPro", "mgFin", "mgPro"}
Room(s) == Len(s.obj) < MaxJ
CanSend(s) == s.mode # "sm" \/ Len(s.q) < MaxQ
Enabled(s, e) ==
    CASE e.a = "Propose" -> s.np < MaxP /\ Room(s) /\ CanSend(s)
      [] e.a \in {"Ring", "Proceed", "Reject", "Retract", "Finish"} ->
            /\ Live(s, e.k) /\ s.obj[e.k].known /\ ~Busy(s, e.k) /\ CanSend(s)
            /\ LET o == s.obj[e.k] IN
               CASE e.a = "Ring"    -> ~o.out /\ ~o.proc /\ ~o.acc
                 [] e.a = "Proceed" -> ~o.out /\ ~o.proc /\ ~o.acc
                 [] e.a = "Reject"  -> ~o.out /\ ~o.proc /\ ~o.acc
                 [] e.a = "Retract" -> o.out /\ ~o.proc
                 [] OTHER           -> o.proc
      [] e.a = "Recv" ->
            /\ e.id \in PeerIds \cup OwnIds(s.np)
            /\ e.t = "propose" => (e.id \in PeerIds /\ Room(s))
            /\ CanSend(s)
      [] e.a = "Carbon" -> e.id \in PeerIds \cup OwnIds(s.np)
      [] e.a \in {"Ack", "FailAll"} -> s.q # <<>>
      [] OTHER -> FALSE

(* ------------------------------------------------------------- observation *)
\* the manager's list as the harness reads it: handle, partner, id, isProceeded
ListOf(s) == [i \in DOMAIN s.ord |-> [k |-> s.ord[i], peer |-> s.obj[s.ord[i]].peer, id |-> s.obj[s.ord[i]].id, proc |-> s.obj[s.ord[i]].proc]]
Obs(w) == [sent |-> w.sent, sig |-> w.sig, handled |-> w.handled, list |-> ListOf(w.s), pend |-> Len(w.s.q)]

(* ------------------------------------------------ invariants on observed facts *)
\* Written over plain values -- the ghost g (facts of the history so far), the event, the list before
\* the step and the observation o of the step -- so that JmiTrace evaluates the same predicates on what
\* the implementation reported.
G0 == [recvP |-> {},     \* <<partner, id>>: proposals received
       sentP |-> {},     \* <<partner, id>>: proposals we sent
       closedS |-> {},   \* <<partner, id>>: sessions that ended
       deadK |-> {}]     \* handles of JMIs that ended

Keys(list) == {<<list[i].peer, list[i].id>> : i \in DOMAIN list}
Handles(list) == {list[i].k : i \in DOMAIN list}
KeyOf(list, k) == {<<list[i].peer, list[i].id>> : i \in {j \in DOMAIN list : list[j].k = k}}

IsRecvPropose(e) == e.a = "Recv" /\ e.t = "propose" /\ e.wf = "ok"
\* MigrationNotice: closed(Finished{expired, migratedTo = id of the proposal being handled})
Notice(e, x) == IsRecvPropose(e) /\ x.s = "closed" /\ x.a = "Finished" /\ x.b = "expired" /\ x.c = e.id
Ended(e, o) == {o.sig[i].k : i \in {j \in DOMAIN o.sig : o.sig[j].s = "closed" /\ ~Notice(e, o.sig[j])}}
EndedByUser(e) == IF e.a \in Terminal THEN {e.k} ELSE {}
\* proposals of ours that could not be sent (the result of propose() is an error)
Unsent(o) == {o.sig[i].k : i \in {j \in DOMAIN o.sig : o.sig[j].s = "res" /\ o.sig[j].a = "propose" /\ o.sig[j].b = "err"}}
RecvNow(e) == IF IsRecvPropose(e) THEN {<<e.from, e.id>>} ELSE {}
SentP(o) == {<<o.sent[i].to, o.sent[i].id>> : i \in {j \in DOMAIN o.sent : o.sent[j].t = "propose"}}

\* at most one live JMI per (partner, id): the key handleJmiElement() and clear() identify a JMI by
P_UniqueKey(o) == Cardinality(Keys(o.list)) = Len(o.list)
\* ringing / proceed / reject are only sent for a proposal received from that partner
P_Answer(g, e, o) == \A i \in DOMAIN o.sent : o.sent[i].t \in {"ringing", "proceed", "reject"} =>
                        <<o.sent[i].to, o.sent[i].id>> \in g.recvP \cup RecvNow(e)
\* retract is only sent for a proposal of ours, finish for a session proposed by one of the two sides
P_Own(g, e, o) == \A i \in DOMAIN o.sent :
                    /\ o.sent[i].t = "retract" => <<o.sent[i].to, o.sent[i].id>> \in g.sentP \cup SentP(o)
                    /\ o.sent[i].t = "finish" => <<o.sent[i].to, o.sent[i].id>> \in g.sentP \cup SentP(o) \cup g.recvP \cup RecvNow(e)
\* no element is sent for a session after the step in which it ended (a new proposal re-opens the id)
P_Quiet(g, e, o) == \A i \in DOMAIN o.sent : <<o.sent[i].to, o.sent[i].id>> \notin g.closedS \ RecvNow(e)
\* a JMI ends at most once and signals nothing afterwards
P_Once(g, e, o) ==
    /\ \A i \in DOMAIN o.sig : o.sig[i].s \in {"ringing", "proceeded", "closed"} => o.sig[i].k \notin g.deadK
    /\ \A k \in Ended(e, o) : Cardinality({j \in DOMAIN o.sig : o.sig[j].s = "closed" /\ o.sig[j].k = k /\ ~Notice(e, o.sig[j])}) = 1
\* a JMI that ended is no longer in the manager's list; a JMI leaves the list only by ending
P_Gone(e, before, o) ==
    /\ (Ended(e, o) \cup EndedByUser(e) \cup Unsent(o)) \cap Handles(o.list) = {}
    /\ Handles(before) \ Handles(o.list) \subseteq Ended(e, o) \cup EndedByUser(e) \cup Unsent(o)

Failed(g, e, before, o) ==
    {p \in {"UniqueKey", "Answer", "Own", "Quiet", "Once", "Gone"} :
        CASE p = "UniqueKey" -> ~P_UniqueKey(o)
          [] p = "Answer"    -> ~P_Answer(g, e, o)
          [] p = "Own"       -> ~P_Own(g, e, o)
          [] p = "Quiet"     -> ~P_Quiet(g, e, o)
          [] p = "Once"      -> ~P_Once(g, e, o)
          [] p = "Gone"      -> ~P_Gone(e, before, o)}

GNext(g, e, before, o) ==
    [recvP |-> g.recvP \cup RecvNow(e),
     sentP |-> g.sentP \cup SentP(o),
     closedS |-> (g.closedS \ RecvNow(e))
                   \cup {<<o.sent[i].to, o.sent[i].id>> : i \in {j \in DOMAIN o.sent : o.sent[j].t \in {"reject", "retract", "finish"}}}
                   \cup UNION {KeyOf(before, k) : k \in Ended(e, o)},
     deadK |-> g.deadK \cup Ended(e, o) \cup EndedByUser(e) \cup Unsent(o)]

(* ------------------------------------------------------------------ the model *)
Out0 == [ev |-> [a |-> "Init"], sig |-> <<>>, sent |-> <<>>, handled |-> FALSE]

Init ==
    /\ st \in {S0(m) : m \in Modes}
    /\ gh = G0 /\ pv = {} /\ out = Out0 /\ hist = <<>>

Apply(e) ==
    LET w == Step(st, e)
        o == Obs(w) IN
    /\ st' = w.s
    /\ out' = [ev |-> e, sig |-> w.sig, sent |-> w.sent, handled |-> w.handled]
    /\ pv' = Failed(gh, e, ListOf(st), o)
    /\ gh' = GNext(gh, e, ListOf(st), o)
    /\ hist' = Append(hist, e)

Next == \E e \in Events : Enabled(st, e) /\ Apply(e)

Spec == Init /\ [][Next]_vars

(* ------------------------------------------------------------------ properties *)
\* the invariants hold in every step of the specified manager, under the assumptions
Conforms == pv = {}
\* the list holds exactly the live JMIs, once each; continuations refer to objects that exist
ListOK == /\ Range(st.ord) = {k \in 1..Len(st.obj) : st.obj[k].live}
          /\ Cardinality(Range(st.ord)) = Len(st.ord)
          /\ \A i \in DOMAIN st.q : st.q[i].k \in 1..Len(st.obj)
\* a JMI we proposed keeps an id of ours while it is ours; one proposed to us carries the partner's
IdsOK == \A k \in Range(st.ord) : LET o == st.obj[k] IN
            /\ o.out => o.id \in OwnIds(st.np) /\ <<o.peer, o.id>> \in gh.sentP
            /\ ~o.out => <<o.peer, o.id>> \in gh.recvP
\* nothing is pending outside stream management
QueueOK == st.mode # "sm" => st.q = <<>>
TypeOK ==
    /\ st.mode \in Modes /\ st.np \in 0..MaxP /\ Len(st.obj) <= MaxJ /\ Len(st.q) <= MaxQ + 1
    /\ \A k \in DOMAIN st.obj : st.obj[k].peer \in Peers /\ st.obj[k].id \in AllIds

Reinit(m) == st' = S0(m) /\ gh' = G0 /\ pv' = {} /\ out' = Out0 /\ hist' = <<>>

Bound == Len(hist) <= MaxHist
\* `out`, `pv` are functions of the previous state and the event: hidden from state identity
View == <<st, gh>>
\* state identity for the transition tours: the manager alone
ViewS == st
=============================================================================
