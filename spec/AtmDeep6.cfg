SPECIFICATION Spec
CONSTANTS
  Senders = {"o1", "a1", "b1"}
  EchoSenders = {"o1"}
  MsgKeys = {"o1", "o2", "a1", "a2", "b1"}
  MaxDec = 1
  ManualMax = 1
  Combos <- CombosAll
  MaxHist = 6
INVARIANTS TypeOK NoHeldFromAuthenticated HeldInScope OneDirectionPerSender ForeignPairsUntouched
PROPERTIES StepOK
VIEW View
CHECK_DEADLOCK FALSE
