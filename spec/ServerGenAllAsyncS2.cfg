SPECIFICATION Spec
CONSTANTS
  Vers = {"sasl2"}
  Mechs = {"DIGEST-MD5"}
  Creds = {"right", "wrongPw", "otherUser", "victimOwnSecret", "empty"}
  BindRes = {"ra"}
  Kinds = {"message", "presence", "iq"}
  Froms = {"absent", "own", "ownBare", "victim", "other", "ownOtherRes", "ownSibling", "ownCase", "ownSlash", "ownPrefix", "ownDomain", "ownLookalike"}
  Tos = {"victimBare", "victimFull", "domain", "absent"}
  Stanzas <- NoStanzas
  MaxPending = 2
  MaxRetry = 0
  MaxHist = 6
CONSTRAINT Bound
ACTION_CONSTRAINT EmitSaslOnly
CHECK_DEADLOCK FALSE
