SPECIFICATION Spec
CONSTANTS
  Apis = {"task", "legacy"}
  Archives = {"own"}
  Froms = {"none", "evil"}
  E2ee = TRUE
  Encs = {TRUE}
  Kinds = {"Query", "Result", "Fin", "FinErr", "Decrypt", "Disconnect", "Connect"}
  MaxQ = 2
  MaxM = 3
  MaxD = 1
  MaxDepth = 5
INVARIANTS TypeOK Attribution DownIsClosed
PROPERTIES Delivered OnceOnly SenderChecked
CONSTRAINT Depth
CHECK_DEADLOCK FALSE
