------------------------------ MODULE S2sTrace ------------------------------
(***************************************************************************)
(* Trace validation for S2s.  The trace (ndjson, written by `qxv s2s`)      *)
(* holds per step the event with its arguments (the *inputs*: what a remote *)
(* party, a remote server or a local user did) and `o`, what the real       *)
(* QXmppServer and its stream objects did, seen from the outside:           *)
(*  {"e":"OVerifyAns","a":"OVerifyAns","k":1,"from":"R","idk":"right",       *)
(*   "ty":"valid","to":"L",                                                  *)
(*   "o":{"ins":[{"open":true,"rx":[{"t":"res","a":"valid","b":"R","c":""}]},*)
(*               {"open":false,"rx":[]}],                                    *)
(*        "oc":[{"dom":"R","open":false,"rx":[{"t":"end",...}]}],            *)
(*        "acc":[],"ret":"-","cnt":{"inc":1,"out":0,"ver":0}}}               *)
(*  ins[i]  remote party i: its socket is open, what L wrote to it          *)
(*  oc[k]   k-th connection L made (accept order): whose listener accepted  *)
(*          it, open, what L wrote on it                                    *)
(*  acc     elements the server accepted for processing (from-domain:body)  *)
(*  cnt     stream objects alive: incoming, outgoing (originating),         *)
(*          verification streams                                            *)
(*                                                                          *)
(* Three layers per line (docs/BUILDING-A-CHECK.md):                        *)
(*  model    S2s's step for the logged event if the environment assumption  *)
(*           `Enabled` holds in the model state, else the model stutters;   *)
(*  monitor  `mon.ref`: the reference world, obtained by applying React to  *)
(*           the logged events only (total: no enabling condition), and     *)
(*           `mon.po`, the previous observation.  The conformance           *)
(*           predicates P_* of S2s are evaluated on reference + observation;*)
(*           an execution with a failing predicate is a conformance failure;*)
(*  compare  projection of the reference step vs observation (everything,   *)
(*           including stream headers, stream ends, open flags,             *)
(*           verification-stream objects): a mismatch only marks the        *)
(*           execution diverged.  (The reference is used rather than the    *)
(*           model variables because the model stutters on events outside   *)
(*           the environment assumptions.)                                  *)
(***************************************************************************)
EXTENDS S2s, Integers, Json, CSV, IOUtils

TraceLog == ndJsonDeserialize(IOEnv.QXV_TRACE)

VARIABLES l, cid, mon, fl, nfail, fails, fflag, ndiv, divs, dflag, ncases, naborts

tvars == <<vars, l, cid, mon, fl, nfail, fails, fflag, ndiv, divs, dflag, ncases, naborts>>

\* the observation, in the shape of Obs
ObsProj(o) == [ins |-> [i \in 1..NI |-> [open |-> o.ins[i].open, rx |-> o.ins[i].rx]],
               oc  |-> [k \in DOMAIN o.oc |-> [dom |-> o.oc[k].dom, open |-> o.oc[k].open, rx |-> o.oc[k].rx]],
               acc |-> o.acc, ret |-> o.ret,
               cnt |-> [inc |-> o.cnt.inc, out |-> o.cnt.out, ver |-> o.cnt.ver]]
Obs0 == Obs(W0, Out0)
Mon0 == [ref |-> W0, po |-> Obs0]

TInit ==
    /\ Init
    /\ l = 1 /\ cid = "" /\ mon = Mon0 /\ fl = {} /\ nfail = 0 /\ fails = <<>> /\ fflag = FALSE
    /\ ndiv = 0 /\ divs = <<>> /\ dflag = FALSE /\ ncases = 0 /\ naborts = 0

\* the event of a line: the line without the observation
Ev(ln) == [f \in DOMAIN ln \ {"o", "e"} |-> ln[f]]

\* rf: reference observation of the step, ob: what was observed, po: the previous observation
Failed(e, rf, ob, po) ==
    {p \in {"Accept", "Result", "Authority", "Dialback", "Queue", "Keepalive", "Counts"} :
        CASE p = "Accept"    -> ~P_Accept(rf, ob)
          [] p = "Result"    -> ~P_Result(rf, ob)
          [] p = "Authority" -> ~P_Authority(rf, ob)
          [] p = "Dialback"  -> ~P_Dialback(rf, ob)
          [] p = "Queue"     -> ~P_Queue(rf, ob)
          [] p = "Keepalive" -> ~P_Keepalive(e, po, ob)
          [] p = "Counts"    -> ~P_Counts(rf, ob)}

ResetStep(ln) ==
    /\ Reinit
    /\ cid' = ln.case /\ mon' = Mon0 /\ fl' = {} /\ dflag' = FALSE /\ fflag' = FALSE /\ ncases' = ncases + 1
    /\ UNCHANGED <<nfail, fails, ndiv, divs, naborts>>

AbortStep(ln) ==
    /\ naborts' = naborts + 1
    /\ UNCHANGED <<vars, cid, mon, fl, nfail, fails, fflag, ndiv, divs, dflag, ncases>>

\* The record of every failing step goes to the side file QXV_FAILS (one JSON line each, with the reference
\* observation of the step); the state keeps the number of failing executions and the first few only.
OpStep(ln) ==
    LET e == Ev(ln)
        ob == ObsProj(ln.o)
        r == React(mon.ref, e)
        rf == Obs(r.w, r.o)
    IN /\ IF Enabled(e) THEN Apply(e) ELSE UNCHANGED vars
       /\ mon' = [ref |-> r.w, po |-> ob]
       /\ fl' = Failed(e, rf, ob, mon.po)
       /\ fflag' = (fflag \/ fl' # {})
       /\ nfail' = IF fl' # {} /\ ~fflag THEN nfail + 1 ELSE nfail
       /\ fails' = IF fl' # {} /\ ~fflag /\ Len(fails) < 10
                   THEN Append(fails, [case |-> cid, line |-> l, e |-> e, props |-> fl']) ELSE fails
       /\ fl' # {} => CSVWrite("%1$s", <<ToJson([case |-> cid, line |-> l, e |-> e, props |-> fl', ref |-> rf])>>, IOEnv.QXV_FAILS)
       /\ LET d == rf # ob IN
            /\ dflag' = (dflag \/ d)
            /\ ndiv' = IF d /\ ~dflag THEN ndiv + 1 ELSE ndiv
            /\ divs' = IF d /\ ~dflag /\ Len(divs) < 10
                       THEN Append(divs, [case |-> cid, line |-> l, e |-> e.a, model |-> rf, impl |-> ob]) ELSE divs
       /\ UNCHANGED <<cid, ncases, naborts>>

TNext ==
    /\ l <= Len(TraceLog)
    /\ l' = l + 1
    /\ LET ln == TraceLog[l] IN
        IF ln.e = "Reset" THEN ResetStep(ln)
        ELSE IF ln.e \in {"Abort", "Crash"} THEN AbortStep(ln)
        ELSE OpStep(ln)

TSpec == TInit /\ [][TNext]_tvars

Summary == [cases |-> ncases, lines |-> l - 1, nfail |-> nfail, fails |-> fails, ndiv |-> ndiv, divs |-> divs, aborts |-> naborts]
Done == l <= Len(TraceLog) \/ CSVWrite("%1$s", <<ToJson(Summary)>>, IOEnv.QXV_SUMMARY)
=============================================================================
