SPECIFICATION Spec
CONSTANTS
  Peers = {"p1"}
  Ress = {"r2", "-"}
  PeerIds = {"nlo", "nhi"}
  Types = {"propose", "ringing", "proceed", "reject", "retract", "finish"}
  Variants = {"plain", "tb", "mig", "nore"}
  Wfs = {"ok", "nochat", "nostore"}
  Modes = {"up"}
  Kinds = {"Propose", "Proceed", "Recv", "Carbon"}
  MaxJ = 2
  MaxP = 1
  MaxQ = 2
  MaxHist = 99
VIEW ViewS
ACTION_CONSTRAINT EmitBehaviour
CHECK_DEADLOCK FALSE
