SPECIFICATION Spec
CONSTANTS
  Peers = {1, 2, 3}
  MaxTx = 14
  MaxNonce = 4
  Lifetimes = {600, 1200, 3600}
  PwOk = {TRUE, FALSE}
  Shapes = {"honest", "othsrc", "stale", "deny", "norelay", "errnomi", "oknomi", "okbadmi", "errbadmi", "stalebadmi", "unkid", "wrongm", "dup"}
  InSrc = {"srv", "oth"}
  InLens = {"ok", "pad", "over"}
  Timers = TRUE
  MaxTries = 3
  Reconnect = TRUE
  MaxHist = 40
CONSTRAINT Bound

ACTION_CONSTRAINT EmitBehaviour
CHECK_DEADLOCK FALSE
