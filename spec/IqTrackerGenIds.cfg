SPECIFICATION Spec
CONSTANTS
  Ids = {"i1", "i2"}
  Tos = {"server", "full"}
  RFroms = {"exact"}
  Types = {"result"}
  OpenKinds = {"plain"}
  Cids = {"fresh", "empty", "dup"}
  Bodies = {"none"}
  Attempts = {}
  IdRule = "replace"
  MaxHist = 5
CONSTRAINT IdsBound
ACTION_CONSTRAINT EmitBehaviour
CHECK_DEADLOCK FALSE
