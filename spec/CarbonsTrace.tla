---------------------------- MODULE CarbonsTrace ----------------------------
(***************************************************************************)
(* Trace validation for Carbons (property C11).  The trace (ndjson, written *)
(* by `qxv carbons`) holds one line per injected <message/>:                *)
(*  {"e":"Recv","c":cls,"w":wrapper,"i":inner kind,                         *)
(*   "x":{"own":B,"ofrom":..,"hasfrom":bool,"oto":..,"oid":..,"obody":..,   *)
(*        "otype":..},                     the outer stanza as injected       *)
(*   "inners":[{from,to,id,body,type,priv,stamp}..],  the wrapped message(s)  *)
(*   "never":[{id,body}..],                messages wrapped inside a wrapped  *)
(*                                         one (second level)                 *)
(*   "shown":[{ch,from,to,id,body,type,fwd}..]}  what the application saw,    *)
(*                                         per channel, in order              *)
(* and one line per change of account on the live client object:              *)
(*  {"e":"Reconfigure","j":jid config,"how":..,"own":new bare,"prev":old bare} *)
(* The sender class c of a Recv line is relative to the JID configured at that *)
(* moment (x.own); PreviousOwnBare is the bare JID configured before.          *)
(* c/w/i and x/inners/never are inputs chosen by the harness; `shown` is the  *)
(* observation.  ids and bodies of outer, inner and second-level messages are *)
(* pairwise distinct tokens, so a message shown can be attributed.            *)
(*                                                                          *)
(* Three layers per line:                                                    *)
(*  - model:   Carbons!Recv for the logged arguments;                        *)
(*  - monitor: the C11 predicates of Carbons evaluated on facts derived from *)
(*             the log only (class of the injected sender, what was shown);  *)
(*  - compare: the model's `last` vs the summary of `shown`; a mismatch marks *)
(*             the execution as diverged (conformance warning).              *)
(***************************************************************************)
EXTENDS Carbons, Integers, Json, CSV, IOUtils   \* FiniteSets comes with Carbons

TraceLog == ndJsonDeserialize(IOEnv.QXV_TRACE)

VARIABLES l, cid, viol, nviol, ndiv, divs, dflag, ncases, nunwrapped, nouter, nreconf, nprevown

tvars == <<vars, l, cid, viol, nviol, ndiv, divs, dflag, ncases, nunwrapped, nouter, nreconf, nprevown>>

TInit ==
    /\ Init /\ gen = "v2" /\ jidcfg = "plain" /\ estab = "configured"
    /\ l = 1 /\ cid = "" /\ viol = {} /\ nviol = 0 /\ ndiv = 0 /\ divs = <<>> /\ dflag = FALSE /\ ncases = 0
    /\ nunwrapped = 0 /\ nouter = 0 /\ nreconf = 0 /\ nprevown = 0

SeqRange(s) == {s[k] : k \in 1..Len(s)}

(* --- facts derived from one logged line ----------------------------------- *)
\* m carries the identity of the wrapped / second-level message k
Token(m, k) == m.id = k.id \/ (k.body # "" /\ m.body = k.body)
SameMsg(m, k) == /\ m.from = k.from /\ m.to = k.to /\ m.id = k.id /\ m.body = k.body /\ m.type = k.type
                 /\ m.priv = k.priv /\ m.stamp = k.stamp         \* <private/> marker and delay stamp of the inner message
SameOuter(m, x) == /\ m.from = x.ofrom /\ m.to = x.oto /\ m.id = x.oid /\ m.body = x.obody /\ m.type = x.otype
                   /\ m.priv = x.opriv /\ m.stamp = ""

\* the message shown has inner content or claims to be a carbon
Touches(m, ev) == m.fwd \/ (\E k \in SeqRange(ev.inners) : Token(m, k)) \/ (\E k \in SeqRange(ev.never) : Token(m, k))

Touched(ev) == \E m \in SeqRange(ev.shown) : Touches(m, ev)
Exact(ev)   == \A m \in SeqRange(ev.shown) :
                  Touches(m, ev) => (m.fwd /\ \E k \in SeqRange(ev.inners) : SameMsg(m, k))
OncePerChannel(ev) == \A a, b \in 1..Len(ev.shown) : a # b => ev.shown[a].ch # ev.shown[b].ch
OuterOk(ev) == /\ \A m \in SeqRange(ev.shown) : SameOuter(m, ev.x) /\ ~m.fwd
               /\ OncePerChannel(ev)

Failed(ev) ==
    {p \in {"OnlyOwnBare", "Exact", "OuterOnly"} :
        CASE p = "OnlyOwnBare" -> ~P_OnlyOwnBare(ev.c, Touched(ev))
          [] p = "Exact"       -> ~P_Exact(Touched(ev), Exact(ev))
          [] p = "OuterOnly"   -> ~P_OuterOnly(ev.c, OuterOk(ev))}

(* --- summary of the observation in the shape of the model's `last` -------- *)
ObsWhat(ev) ==
    IF Len(ev.shown) = 0 THEN "nothing"
    ELSE IF \A m \in SeqRange(ev.shown) : m.id = ev.x.oid THEN "outer"
    ELSE IF \A m \in SeqRange(ev.shown) : \E k \in SeqRange(ev.inners) : m.id = k.id THEN "inner"
    ELSE "mixed"
ObsFwd(ev) == Len(ev.shown) > 0 /\ \A m \in SeqRange(ev.shown) : m.fwd
\* the direction is observable for generation v1 only (which manager signal fired)
ObsDir(ev) ==
    IF gen = "v1" /\ ObsWhat(ev) = "inner"
    THEN (IF \A m \in SeqRange(ev.shown) : m.ch = "mgrSent" THEN "sent"
          ELSE IF \A m \in SeqRange(ev.shown) : m.ch = "mgrReceived" THEN "received" ELSE "mixed")
    ELSE "na"
Obs(ev) == [what |-> ObsWhat(ev), fwd |-> ObsFwd(ev), dir |-> ObsDir(ev)]
Proj == [what |-> last.what, fwd |-> last.fwd,
         dir |-> IF gen = "v1" /\ last.what = "inner" THEN last.dir ELSE "na"]

ModelAct(ev) ==
    CASE ev.e = "Recv"        -> Recv(ev.c, ev.w, ev.i)
      [] ev.e = "Reconfigure" -> Reconfigure(ev.j, ev.how)
      [] OTHER                -> FALSE

ResetStep(ev) ==
    /\ Reinit(ev.gen, ev.jidcfg, IF "estab" \in DOMAIN ev THEN ev.estab ELSE "configured")
    /\ cid' = ev.case /\ dflag' = FALSE /\ ncases' = ncases + 1
    /\ UNCHANGED <<viol, nviol, ndiv, divs, nunwrapped, nouter, nreconf, nprevown>>

OpStep(ev) ==
    /\ \/ ModelAct(ev)
       \/ (~ENABLED ModelAct(ev)) /\ UNCHANGED vars
    \* one record per (property, generation, sender class, wrapper): the first line that shows it
    /\ viol' = viol \cup {[case |-> cid, line |-> l, prop |-> p, gen |-> gen, c |-> ev.c, w |-> ev.w, i |-> ev.i,
                            own |-> jidcfg, how |-> lasthow, estab |-> estab] :
                              p \in {q \in Failed(ev) : ~\E v \in viol : v.prop = q /\ v.gen = gen /\ v.c = ev.c /\ v.w = ev.w
                                                                           /\ v.how = lasthow /\ v.estab = estab}}
    /\ nviol' = nviol + Cardinality(Failed(ev))
    /\ nunwrapped' = nunwrapped + (IF ObsWhat(ev) = "inner" THEN 1 ELSE 0)
    /\ nprevown' = nprevown + (IF ev.c = "PreviousOwnBare" /\ IsCarbon(ev.w) THEN 1 ELSE 0)
    /\ UNCHANGED nreconf
    /\ nouter' = nouter + (IF ObsWhat(ev) = "outer" THEN 1 ELSE 0)
    /\ LET d == Proj' # Obs(ev) IN
        /\ dflag' = (dflag \/ d)
        /\ ndiv' = IF d /\ ~dflag THEN ndiv + 1 ELSE ndiv
        /\ divs' = IF d /\ ~dflag /\ Len(divs) < 10
                   THEN Append(divs, [case |-> cid, line |-> l, c |-> ev.c, w |-> ev.w, model |-> Proj', impl |-> Obs(ev)]) ELSE divs
    /\ UNCHANGED <<cid, ncases>>

\* the application switched accounts: the model follows, nothing is judged
ReconfStep(ev) ==
    /\ \/ ModelAct(ev)
       \/ (~ENABLED ModelAct(ev)) /\ UNCHANGED vars
    /\ nreconf' = nreconf + 1
    /\ UNCHANGED <<cid, viol, nviol, ndiv, divs, dflag, ncases, nunwrapped, nouter, nprevown>>

TNext ==
    /\ l <= Len(TraceLog)
    /\ l' = l + 1
    /\ LET ev == TraceLog[l] IN
        IF ev.e = "Reset" THEN ResetStep(ev)
        ELSE IF ev.e = "Recv" THEN OpStep(ev)
        ELSE IF ev.e = "Reconfigure" THEN ReconfStep(ev)
        ELSE UNCHANGED <<vars, cid, viol, nviol, ndiv, divs, dflag, ncases, nunwrapped, nouter, nreconf, nprevown>>   \* e.g. a "Crash" marker

TSpec == TInit /\ [][TNext]_tvars

Summary == [cases |-> ncases, lines |-> l - 1, viol |-> viol, nviol |-> nviol, ndiv |-> ndiv, divs |-> divs,
            unwrapped |-> nunwrapped, outer |-> nouter, reconfigured |-> nreconf, prevowncarbons |-> nprevown]
Done == l <= Len(TraceLog) \/ CSVWrite("%1$s", <<ToJson(Summary)>>, IOEnv.QXV_SUMMARY)
=============================================================================
