SPECIFICATION Spec
CONSTANTS
  MaxMut = 2
  Depths = {1, 2, 3}
  MaxNodes = 12
ACTION_CONSTRAINT EmitBehaviour
CHECK_DEADLOCK FALSE
