SPECIFICATION Spec
CONSTANTS
  MaxMut = 2
  Depths = {1, 2, 3}
  Alphabet = {"DeleteChild", "DuplicateChild", "SwapSiblings", "MoveUnderSibling", "Renamespace", "Rename", "AddUnknownChild", "AddKnownSibling", "MoveText", "DuplicateWithOtherChild", "DropAttr", "EmptyAttr", "HugeAttr", "NegativeAttr", "NonNumericAttr", "UnknownEnum", "Nest"}
  MaxNodes = 12
ACTION_CONSTRAINT EmitBehaviour
CHECK_DEADLOCK FALSE
