---------------------------- MODULE RosterTrace ----------------------------
(***************************************************************************)
(* Trace validation for Roster.  The trace (ndjson, written by `qxv         *)
(* roster`) holds per step the step with its arguments (the *inputs*: what  *)
(* the scripted server did) and `o`, what the real QXmppClient +            *)
(* QXmppRosterManager reported afterwards:                                  *)
(*  {"e":"Push","from":"look1","items":[{"j":"c1","v":0}],                  *)
(*   "o":{"view":{"c1":{"x":1,"n":"n1","s":"both","a":"","ap":false,        *)
(*                      "g":["g1"],"mx":false,"p":""},"c2":{"x":0,…},…},    *)
(*        "extra":0,                                                        *)
(*        "pres":{"c1":["r1"],"c2":[],"c3":[]},"recv":true,"sm":"new",      *)
(*        "conn":true,"ack":0,"err":1,"sig":[],"req":0}}                    *)
(*  view  getRosterBareJids()/getRosterEntry(): every field of the entry    *)
(*        (name, subscription, ask, approved, groups sorted, MIX channel    *)
(*        flag, MIX participant-id), the same record shape as Roster's item;*)
(*        the view comparison is over whole records                         *)
(*  extra roster entries outside the universe of the run                    *)
(*  pres  getResources() per contact (cross-checked with                    *)
(*        getAllPresencesForBareJid())                                      *)
(*  ack   result IQs the client wrote for the push of this step             *)
(*  sig   itemAdded/itemChanged/itemRemoved signals of this step            *)
(*  req   roster requests the client wrote during this step                 *)
(*                                                                          *)
(* Three layers per line (docs/BUILDING-A-CHECK.md):                        *)
(*  model    Roster's action for the logged step (or stutter);              *)
(*  monitor  `mon`: the reference view / latest presences computed from the *)
(*           logged inputs only, plus the previous observation; the C12     *)
(*           predicates of Roster are evaluated on it.  The one place an    *)
(*           observation enters the reference: a push from a "may" sender   *)
(*           (own full JID, another own resource, the bare server domain)   *)
(*           counts as authorised iff the client acknowledged it, because   *)
(*           both readings satisfy the property statement; the view must    *)
(*           then agree with that decision;                                 *)
(*  compare  model projection vs observation: mismatch = diverged.          *)
(***************************************************************************)
EXTENDS Roster, Integers, Json, CSV, IOUtils

TraceLog == ndJsonDeserialize(IOEnv.QXV_TRACE)

VARIABLES l, cid, mon, viol, ndiv, divs, dflag, ncases, naborts

tvars == <<vars, l, cid, mon, viol, ndiv, divs, dflag, ncases, naborts>>

Mon0 == [live |-> FALSE, valid |-> FALSE, resOK |-> FALSE, ref |-> Empty, last |-> NoLast,
         view |-> Empty, pres |-> NoPres]

TInit ==
    /\ Init
    /\ l = 1 /\ cid = "" /\ mon = Mon0 /\ viol = {} /\ ndiv = 0 /\ divs = <<>> /\ dflag = FALSE
    /\ ncases = 0 /\ naborts = 0

Full(items) == [j \in Jids |-> IF j \in DOMAIN items THEN items[j] ELSE Absent]
PresSets(p) == [j \in Jids |-> {p[j][i] : i \in 1..Len(p[j])}]

(* model projection, in the shape of the logged observation *)
SmOf == IF sess = "None" THEN "-" ELSE IF ~smOn THEN "none" ELSE IF sess = "Resumed" THEN "resumed" ELSE "new"
Proj == [view |-> view, pres |-> pres, recv |-> received, sm |-> SmOf, conn |-> sess # "None",
         ack |-> out.ack, sig |-> out.sig, req |-> out.req]
ObsProj(o) == [view |-> o.view, pres |-> PresSets(o.pres), recv |-> o.recv,
               sm |-> IF o.conn THEN o.sm ELSE "-", conn |-> o.conn,
               ack |-> o.ack, sig |-> o.sig, req |-> o.req]

ModelAct(ev) ==
    CASE ev.e = "Connect"      -> Connect(ev.k)
      [] ev.e = "Disconnect"   -> Disconnect(ev.k)
      [] ev.e = "Result"       -> Result(ev.n, Full(ev.items))
      [] ev.e = "ResultErr"    -> ResultErr(ev.n)
      [] ev.e = "ResultForged" -> ResultForged(ev.n, ev.from, Full(ev.items))
      [] ev.e = "Push"         -> Push(ev.from, ev.items)
      [] ev.e = "Presence"     -> Presence(ev.j, ev.r, ev.av)
      [] OTHER                 -> FALSE

(* the reference, from the inputs *)
MonNext(m, ev) ==
    LET o == ev.o
        a == ev.e
        fresh == a = "Connect" /\ ev.k # "resumed"
        rs    == a = "Disconnect" /\ ev.k = "cut" /\ m.resOK
        gone  == fresh \/ (a = "Disconnect" /\ ~rs)
        authorised == a = "Push" /\ (Class(ev.from) = "must" \/ (Class(ev.from) = "may" /\ o.ack > 0))
    IN [live  |-> IF a = "Connect" THEN TRUE ELSE IF a = "Disconnect" THEN rs ELSE m.live,
        resOK |-> IF a = "Connect" /\ ev.k = "smr" THEN TRUE
                  ELSE IF a = "Connect" /\ ev.k \in {"sm", "plain"} THEN FALSE ELSE m.resOK,
        valid |-> IF gone THEN FALSE ELSE IF a = "Result" THEN TRUE ELSE m.valid,
        ref   |-> IF gone THEN Empty
                  ELSE IF a = "Result" THEN Full(ev.items)
                  ELSE IF authorised THEN ApplyAll(m.ref, ev.items) ELSE m.ref,
        last  |-> IF gone THEN NoLast
                  ELSE IF a = "Presence" THEN [m.last EXCEPT ![ev.j][ev.r] = IF ev.av THEN "avail" ELSE "unavail"]
                  ELSE m.last,
        view  |-> o.view,
        pres  |-> PresSets(o.pres)]

Contacts(n) == {j \in Jids : n.ref[j].x # 0}

Failed(m, n, ev) ==
    {p \in {"ViewIsRef", "PresIsLatest", "UnauthPush", "FreshSession"} :
        CASE p = "ViewIsRef"    -> ~(P_View(n.live, n.valid, n.view, n.ref) /\ (n.live => ev.o.extra = 0))
          [] p = "PresIsLatest" -> ~P_Pres(n.live, n.pres, n.last, Contacts(n))
          [] p = "UnauthPush"   -> ev.e \in {"Push", "ResultForged"}
                                   /\ ~P_Unauth(Class(ev.from), m.view, n.view, ev.o.ack, ev.o.sig)
          [] p = "FreshSession" -> ev.e = "Connect" /\ ~P_Fresh(ev.k, n.view, n.pres)}

ResetStep(ev) ==
    /\ Reinit
    /\ cid' = ev.case /\ mon' = Mon0 /\ dflag' = FALSE /\ ncases' = ncases + 1
    /\ UNCHANGED <<viol, ndiv, divs, naborts>>

AbortStep(ev) ==
    /\ naborts' = naborts + 1
    /\ UNCHANGED <<vars, cid, mon, viol, ndiv, divs, dflag, ncases>>

OpStep(ev) ==
    /\ \/ ModelAct(ev)
       \/ (~ENABLED ModelAct(ev)) /\ UNCHANGED vars
    /\ mon' = MonNext(mon, ev)
    /\ viol' = viol \cup {[case |-> cid, line |-> l, prop |-> p, e |-> ev.e] : p \in Failed(mon, mon', ev)}
    /\ LET d == Proj' # ObsProj(ev.o) IN
        /\ dflag' = (dflag \/ d)
        /\ ndiv' = IF d /\ ~dflag THEN ndiv + 1 ELSE ndiv
        /\ divs' = IF d /\ ~dflag /\ Len(divs) < 10
                   THEN Append(divs, [case |-> cid, line |-> l, e |-> ev.e, model |-> Proj', impl |-> ObsProj(ev.o)]) ELSE divs
    /\ UNCHANGED <<cid, ncases, naborts>>

TNext ==
    /\ l <= Len(TraceLog)
    /\ l' = l + 1
    /\ LET ev == TraceLog[l] IN
        IF ev.e = "Reset" THEN ResetStep(ev)
        ELSE IF ev.e \in {"Abort", "Crash"} THEN AbortStep(ev)
        ELSE OpStep(ev)

TSpec == TInit /\ [][TNext]_tvars

Summary == [cases |-> ncases, lines |-> l - 1, viol |-> viol, ndiv |-> ndiv, divs |-> divs, aborts |-> naborts]
Done == l <= Len(TraceLog) \/ CSVWrite("%1$s", <<ToJson(Summary)>>, IOEnv.QXV_SUMMARY)
=============================================================================
