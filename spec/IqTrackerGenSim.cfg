SPECIFICATION SimSpec
CONSTANTS
  Ids = {"i1", "i2", "i3", "k1", "k2"}
  Tos = {"none", "server", "bare", "full"}
  RFroms = {"exact", "absent", "bareOf", "otherRes", "ownFull", "ownOther", "ownBare", "server", "stranger", "look", "look2"}
  Types = {"result", "error", "errorBare", "set", "get"}
  OpenKinds = {"plain", "sm", "smr", "resumed"}
  Cids = {"fresh", "empty", "dup"}
  Bodies = {"none", "sendNew"}
  Attempts = {"authfail", "bindfail", "userabort", "precut", "abandon"}
  IdRule = "replace"
  MaxHist = 99
ACTION_CONSTRAINT EmitBehaviour
CHECK_DEADLOCK FALSE
