------------------------------ MODULE MamTrace ------------------------------
(***************************************************************************)
(* Trace validation for Mam.  The trace (ndjson, written by `qxv mam`)      *)
(* holds per step the event with its arguments (the inputs) and `o`, what   *)
(* the real QXmppClient + QXmppMamManager (+ stub e2ee extension) reported: *)
(*  {"e":"Fin","a":"Fin","q":1,"fr":"none","c":true,                       *)
(*   "o":{"sent":[],"sig":[],"jobs":[],"passed":0,                          *)
(*        "done":[{"t":1,"r":"ok","c":true,                                 *)
(*                 "msgs":[{"tok":1,"how":"p"},{"tok":3,"how":"p"}]}]}}     *)
(*  sent   requests written (k = query, id = n-th query, to), pres          *)
(*  sig    archivedMessageReceived (s = archived, q = number of the query   *)
(*         whose id it carries, 0 = an id nobody used, tok) / resultsRecieved*)
(*         (s = results, q, c = complete), emission order                   *)
(*  done   tasks whose continuation ran during the step: r = ok / err, the  *)
(*         messages returned (tok from the body, how = d decrypted / p as   *)
(*         stored) and `complete`                                           *)
(*  jobs   tokens for which decryptMessage() was called during the step     *)
(*  passed QXmppClient::messageReceived emissions (the stanza was nobody's) *)
(* The Reset line carries e2ee (an encryption extension is installed).      *)
(*                                                                          *)
(* Three layers per line (docs/BUILDING-A-CHECK.md): model (Mam's step if   *)
(* Enabled), monitor (reference = Step applied to the logged events only;   *)
(* `mon.h` the logged events, `mon.fin` the tasks observed as finished; the *)
(* invariants of the extension on reference + observation), compare (model  *)
(* projection vs observation: divergence, a note only).                     *)
(***************************************************************************)
EXTENDS Mam, Integers, Json, CSV, IOUtils

TraceLog == ndJsonDeserialize(IOEnv.QXV_TRACE)

VARIABLES l, cid, mon, fl, nfail, fails, fflag, ndiv, divs, dflag, ncases, naborts

tvars == <<vars, l, cid, mon, fl, nfail, fails, fflag, ndiv, divs, dflag, ncases, naborts>>

Mon0 == [ref |-> S0, ro |-> O0, h |-> <<>>, fin |-> {}]

TInit ==
    /\ Init
    /\ l = 1 /\ cid = "" /\ mon = Mon0 /\ fl = {} /\ nfail = 0 /\ fails = <<>> /\ fflag = FALSE
    /\ ndiv = 0 /\ divs = <<>> /\ dflag = FALSE /\ ncases = 0 /\ naborts = 0

Ev(ln) == [f \in DOMAIN ln \ {"o", "e"} |-> ln[f]]
Bag(q, x) == Cardinality({i \in DOMAIN q : q[i] = x})
SameBag(p, q) == \A x \in Range(p) \cup Range(q) : Bag(p, x) = Bag(q, x)

\* the queries known from the log so far (n = number of Query events), for P_Attr only tasks of existing queries are judged
NQ(h) == Cardinality({i \in DOMAIN h : h[i].a = "Query"})

(* the invariants of the extension on reference (m -> n) and observation o *)
Failed(m, n, e, o) ==
    {p \in {"Attribution", "Once", "Tasks", "Sender", "Signals", "Sent", "Jobs"} :
        CASE p = "Attribution" -> ~P_Attr(n.h, SelectSeq(o.done, LAMBDA d : d.t \in 1..NQ(n.h)))
          [] p = "Once"        -> ~P_Once(m.fin, NQ(n.h), o.done)
          [] p = "Tasks"       -> ~SameBag(o.done, n.ro.done)
          [] p = "Sender"      -> ~P_Sender(m.ref, e, o.sig)
          [] p = "Signals"     -> o.sig # n.ro.sig
          [] p = "Sent"        -> o.sent # n.ro.sent
          [] p = "Jobs"        -> ~SameBag(o.jobs, n.ro.jobs)}

MonNext(m, e, o) ==
    LET r == Step(m.ref, e) IN
    [ref |-> r.st, ro |-> r.out, h |-> Append(m.h, e), fin |-> m.fin \cup {o.done[i].t : i \in DOMAIN o.done}]

Proj == out
ObsProj(o) == [sent |-> o.sent, sig |-> o.sig, done |-> o.done, passed |-> o.passed, jobs |-> o.jobs]
NoDone(p) == [p EXCEPT !.done = <<>>]
Differs(e, p, q) == NoDone(p) # NoDone(q) \/ (IF e.a \in {"Disconnect", "Connect"} THEN ~SameBag(p.done, q.done) ELSE p.done # q.done)

\* the model of the trace specification follows the e2ee flag of the execution through this constant-like variable:
\* Mam's E2ee is a constant, so executions with and without the extension are validated by two runs (MamTrace.cfg,
\* MamTracePlain.cfg) over the two halves of the trace
ResetStep(ln) ==
    /\ Reinit
    /\ cid' = ln.case /\ mon' = Mon0 /\ fl' = {} /\ dflag' = FALSE /\ fflag' = FALSE /\ ncases' = ncases + 1
    /\ UNCHANGED <<nfail, fails, ndiv, divs, naborts>>

AbortStep(ln) ==
    /\ naborts' = naborts + 1
    /\ UNCHANGED <<vars, cid, mon, fl, nfail, fails, fflag, ndiv, divs, dflag, ncases>>

Record(e, f, d, model, impl, ref) ==
    /\ fl' = f
    /\ fflag' = (fflag \/ f # {})
    /\ nfail' = IF f # {} /\ ~fflag THEN nfail + 1 ELSE nfail
    /\ fails' = IF f # {} /\ ~fflag /\ Len(fails) < 10
                THEN Append(fails, [case |-> cid, line |-> l, e |-> e.a, props |-> f]) ELSE fails
    /\ (f # {} /\ ~fflag) => CSVWrite("%1$s", <<ToJson([case |-> cid, line |-> l, e |-> e.a, props |-> f, ref |-> ref])>>, IOEnv.QXV_FAILS)
    /\ dflag' = (dflag \/ d)
    /\ ndiv' = IF d /\ ~dflag THEN ndiv + 1 ELSE ndiv
    /\ divs' = IF d /\ ~dflag /\ f = {} /\ ~fflag /\ Len(divs) < 10   \* the first few that are not failures
               THEN Append(divs, [case |-> cid, line |-> l, e |-> e.a, model |-> model, impl |-> impl]) ELSE divs

OpStep(ln) ==
    LET e == Ev(ln)
        o == ln.o
    IN /\ IF Enabled(st, e) THEN Apply(e) ELSE (st' = st /\ hist' = hist /\ out' = O0)   \* the model cannot follow: it does nothing
       /\ mon' = MonNext(mon, e, o)
       /\ Record(e, Failed(mon, mon', e, o), Differs(e, Proj', ObsProj(o)), Proj', ObsProj(o), mon'.ro)
       /\ UNCHANGED <<cid, ncases, naborts>>

TNext ==
    /\ l <= Len(TraceLog)
    /\ l' = l + 1
    /\ LET ln == TraceLog[l] IN
        IF ln.e = "Reset" THEN ResetStep(ln)
        ELSE IF ln.e \in {"Abort", "Crash"} THEN AbortStep(ln)
        ELSE OpStep(ln)

TSpec == TInit /\ [][TNext]_tvars

Summary == [cases |-> ncases, lines |-> l - 1, nfail |-> nfail, fails |-> fails, ndiv |-> ndiv, divs |-> divs, aborts |-> naborts]
Done == l <= Len(TraceLog) \/ CSVWrite("%1$s", <<ToJson(Summary)>>, IOEnv.QXV_SUMMARY)
=============================================================================
