SPECIFICATION Spec
CONSTANTS
  Peers = {1, 2}
  MaxTx = 6
  MaxNonce = 2
  Lifetimes = {600, 1200}
  PwOk = {TRUE, FALSE}
  Shapes = {"honest", "othsrc", "stale", "deny", "norelay", "errnomi", "oknomi", "okbadmi", "errbadmi", "stalebadmi", "unkid", "wrongm", "dup"}
  InSrc = {"srv", "oth"}
  InLens = {"ok", "pad", "over"}
  Timers = TRUE
  MaxTries = 2
  Reconnect = TRUE
  MaxHist = 99
INVARIANTS TypeOK ConnectedOnlyAuthed AuthedRequests Pristine TimersOK ChannelsRequested
PROPERTIES ForgedNoEffect DataOnlyOnChannels DeliveryOnlyBound Release RequestsCarryCreds Lifecycle
VIEW View
CHECK_DEADLOCK FALSE
