SPECIFICATION TSpec
CONSTANTS
  Cfgs <- AllCfgs
  FeatureSets <- AllFeatureSets
  MaxConn = 99
  MaxQ = 99
  MaxHist = 999
INVARIANT Done
CHECK_DEADLOCK FALSE
