SPECIFICATION Spec
CONSTANTS
  Doms = {"R", "A"}
  NI = 2
  MaxOC = 3
  MaxMsg = 0
  Kinds = {"IOpen", "IResult", "IStanza", "IWs", "IClose", "OHeader", "OVerifyAns", "OClose"}
  Shapes = {"ok", "typed"}
  FromDoms = {"R", "A", "L", "none"}
  Tos = {"L", "X"}
  Dev = {}
  MaxHist = 99
INVARIANTS TypeOK NoSpoof OneLiveOrig ExactlyOnceInOrder NoLeak
PROPERTIES AuthBeforeData ValidOnlyRelayed AcceptOnlyValidated
VIEW View
CHECK_DEADLOCK FALSE
