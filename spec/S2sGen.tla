------------------------------- MODULE S2sGen -------------------------------
(* Behaviour export for S2s (lib/vf.py: tlc_gen / tlc_simulate).              *)
(* With VIEW View (S2sGenTour*.cfg): transition tour -- every transition of   *)
(* the bounded model reached by a shortest path.  `moves` tells whether the   *)
(* last step changes the world or makes L write / accept something; the       *)
(* others are events L must ignore (lib/ext/s2s.py samples them in the quick  *)
(* tier).  SimSpec (S2sGenSim.cfg, -simulate): one disjunct per kind of event *)
(* with randomly drawn arguments, so that random walks are not dominated by   *)
(* the kinds with the most argument values.                                   *)
EXTENDS S2s, Json, CSV, IOUtils

Silent(o) == o.acc = <<>> /\ (\A i \in DOMAIN o.ins : o.ins[i] = <<>>) /\ (\A k \in DOMAIN o.oc : o.oc[k] = <<>>)
EmitBehaviour ==
    CSVWrite("%1$s", <<ToJson([steps |-> hist', moves |-> (w' # w \/ ~Silent(out'))])>>, IOEnv.QXV_GEN)

\* mentions a variable so that TLC does not evaluate the draw once as a constant expression
Rnd(S) == RandomElement({x \in S : Len(hist) >= 0})
Weight(k) == IF k \in {"OHeader", "OVerifyAns", "OResult", "IResult", "Send"} THEN 3 ELSE IF k \in {"IStanza", "IVerifyReq", "IOpen"} THEN 2 ELSE 1
SimNext ==
    \E k \in Kinds : \E x \in 1..Weight(k) :
        LET S == {e \in Events : e.a = k /\ Enabled(e)} IN S # {} /\ Apply(Rnd(S))
SimSpec == Init /\ [][SimNext]_vars
=============================================================================
