SPECIFICATION Spec
CONSTANTS
  MaxId = 3
  MaxH = 3
  MaxConn = 2
  MaxRecv = 1
  MaxHist = 99
VIEW View
ACTION_CONSTRAINT EmitBehaviour
CHECK_DEADLOCK FALSE
