SPECIFICATION SpecJ
CONSTANTS
  Rooms = {"r1"}
  Foreign = {"rx"}
  Nicks = {"n1", "n2"}
  Items = {"mod"}
  Codes = {"none", "self", "self210"}
  UnKinds = {"leave", "nick", "kick"}
  MsgNicks = {"-"}
  MsgTypes = {"groupchat", "error"}
  Subjects = {"s1"}
  Names = {}
  Users = {"u1"}
  Kinds = {"SetNick", "Join", "Leave", "PresAv", "PresUn", "PresErr", "Msg", "Disconnect", "Connect"}
  MaxHist = 7
CONSTRAINT Bound
ACTION_CONSTRAINT EmitBehaviour
CHECK_DEADLOCK FALSE
