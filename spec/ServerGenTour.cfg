SPECIFICATION Spec
CONSTANTS
  Vers = {"sasl", "sasl2"}
  Mechs = {"PLAIN", "DIGEST-MD5", "ANONYMOUS", "X-UNKNOWN"}
  Creds = {"right", "otherUser", "empty"}
  BindRes = {"ra"}
  Kinds = {"message", "presence", "iq"}
  Froms = {"absent", "own", "ownBare", "victim", "other"}
  Tos = {"victimBare", "victimFull", "domain", "absent"}
  Stanzas <- CoreStanzas
  MaxPending = 1
  MaxHist = 99
VIEW View
ACTION_CONSTRAINT EmitBehaviour
CHECK_DEADLOCK FALSE
