---------------------------- MODULE IqApiTrace ----------------------------
(***************************************************************************)
(* Trace validation for IqApi.  The trace (ndjson, written by `qxv iqapi`)  *)
(* holds per step the step (inputs: the call, what the scripted server /    *)
(* the stub encryption extension did) and `o`:                              *)
(*  {"e":"Reply","from":"addressee","p":"empty",                            *)
(*   "o":{"n":0,"v":"none","pend":0,"jobs":0,"newreq":0}}                   *)
(*  n     runs of the continuation of the task the API returned            *)
(*  pend  requests of this call the server has received and not answered    *)
(*        (ground truth of the scripted server, like o.p/o.t in TaskTrace)  *)
(*  jobs  decryption jobs handed to the stub extension and not finished     *)
(*        (ground truth of the stub)                                        *)
(* model: IqApi's action constrained to the logged pend (what the API does  *)
(* after an answer is its own business); monitor: the C07 predicates of     *)
(* IqApi on the observed counts; compare: model n vs observed n.            *)
(***************************************************************************)
EXTENDS IqApi, Integers, Json, CSV, IOUtils

TraceLog == ndJsonDeserialize(IOEnv.QXV_TRACE)

VARIABLES l, cid, mon, viol, ndiv, divs, dflag, ncases, naborts

tvars == <<vars, l, cid, mon, viol, ndiv, divs, dflag, ncases, naborts>>

Mon0 == [called |-> FALSE, n |-> 0]

TInit ==
    /\ Init
    /\ l = 1 /\ cid = "" /\ mon = Mon0 /\ viol = {} /\ ndiv = 0 /\ divs = <<>> /\ dflag = FALSE
    /\ ncases = 0 /\ naborts = 0

ModelAct(ev) ==
    /\ CASE ev.e = "Call"        -> Call(ev.api)
         [] ev.e = "Msg"         -> Msg(ev.enc)
         [] ev.e = "Reply"       -> Reply(ev.from, ev.p)
         [] ev.e = "DecryptDone" -> DecryptDone(ev.i)
         [] ev.e = "Close"       -> Close
         [] OTHER                -> FALSE
    /\ pend' = ev.o.pend

MonNext(m, ev) == [called |-> m.called \/ ev.e = "Call", n |-> ev.o.n]

Failed(m, nw, ev) ==
    {p \in {"AtMostOnce", "Settled", "Stranger"} :
        CASE p = "AtMostOnce" -> ~P_AtMostOnce(ev.o.n)
          [] p = "Settled"    -> ~P_Settled(nw.called, ev.o.pend, ev.o.jobs, ev.o.n)
          [] p = "Stranger"   -> ev.e = "Reply" /\ ~P_Stranger("Reply", ev.from, m.n, ev.o.n)}

ResetStep(ev) ==
    /\ Reinit
    /\ cid' = ev.case /\ mon' = Mon0 /\ dflag' = FALSE /\ ncases' = ncases + 1
    /\ UNCHANGED <<viol, ndiv, divs, naborts>>

AbortStep(ev) ==
    /\ naborts' = naborts + 1
    /\ UNCHANGED <<vars, cid, mon, viol, ndiv, divs, dflag, ncases>>

OpStep(ev) ==
    /\ \/ ModelAct(ev)
       \/ (~ENABLED ModelAct(ev)) /\ UNCHANGED vars
    /\ mon' = MonNext(mon, ev)
    /\ viol' = viol \cup {[case |-> cid, line |-> l, prop |-> p, e |-> ev.e] : p \in Failed(mon, mon', ev)}
    /\ LET d == (n' # ev.o.n) \/ (Cardinality(jobs') # ev.o.jobs) IN
        /\ dflag' = (dflag \/ d)
        /\ ndiv' = IF d /\ ~dflag THEN ndiv + 1 ELSE ndiv
        /\ divs' = IF d /\ ~dflag /\ Len(divs) < 10
                   THEN Append(divs, [case |-> cid, line |-> l, e |-> ev.e,
                                      model |-> [n |-> n', pend |-> pend', jobs |-> Cardinality(jobs')],
                                      impl |-> [n |-> ev.o.n, pend |-> ev.o.pend, jobs |-> ev.o.jobs]]) ELSE divs
    /\ UNCHANGED <<cid, ncases, naborts>>

TNext ==
    /\ l <= Len(TraceLog)
    /\ l' = l + 1
    /\ LET ev == TraceLog[l] IN
        IF ev.e = "Reset" THEN ResetStep(ev)
        ELSE IF ev.e \in {"Abort", "Crash"} THEN AbortStep(ev)
        ELSE OpStep(ev)

TSpec == TInit /\ [][TNext]_tvars

Summary == [cases |-> ncases, lines |-> l - 1, viol |-> viol, ndiv |-> ndiv, divs |-> divs, aborts |-> naborts]
Done == l <= Len(TraceLog) \/ CSVWrite("%1$s", <<ToJson(Summary)>>, IOEnv.QXV_SUMMARY)
=============================================================================
