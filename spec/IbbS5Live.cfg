SPECIFICATION FairSpec
CONSTANTS
  Anns = {"both", "size", "hash", "none"}
  Devs = {"all"}
  Sizes = {0, 1, 2, 3}
  MaxFaults = 1
  FaultKinds = {"Flip", "Drop", "Dup", "Swap", "Cut"}
  Foreign = {"from"}
  MaxHist = 99
INVARIANTS TypeOK
PROPERTIES Termination
CHECK_DEADLOCK FALSE
