SPECIFICATION Spec
CONSTANTS
  Doms = {"R", "A"}
  NI = 1
  MaxOC = 2
  MaxMsg = 3
  Kinds = {"IOpen", "IVerifyReq", "IClose", "Listen", "Send", "OHeader", "OResult", "OStanza", "OClose"}
  Shapes = {"ok"}
  FromDoms = {"R"}
  Tos = {"L", "X"}
  Dev = {}
  MaxHist = 99
VIEW View
ACTION_CONSTRAINT EmitBehaviour
CHECK_DEADLOCK FALSE
