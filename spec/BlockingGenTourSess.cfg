SPECIFICATION Spec
CONSTANTS
  Jids = {"j1", "j2"}
  InitSrv = {"j1"}
  Kinds = {"Fetch", "Block", "Deliver", "Srv", "Other", "Disconnect", "Connect"}
  Retries = {FALSE}
  CmdSets = {{"j2"}}
  OthSets = {{"j2"}}
  Froms = {"none"}
  MaxT = 2
  MaxO = 1
  MaxD = 1
  MaxQ = 2
  ProbeMax = 0
  MaxHist = 99
VIEW View
ACTION_CONSTRAINT EmitBehaviour
CHECK_DEADLOCK FALSE
