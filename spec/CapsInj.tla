------------------------------ MODULE CapsInj ------------------------------
(* Global injectivity of the canonical string on info SETS (not only along   *)
(* single edits): over the universe of all info sets of the given bounds,    *)
(* two different sets never have the same string S.  One state; the whole    *)
(* computation is the invariant.  It holds only when features, FORM_TYPE     *)
(* values, field names and field values come from pairwise disjoint          *)
(* alphabets (CapsInj.cfg): S does not delimit its sections, so "a<b<" is     *)
(* both {features a, b} and {feature a, FORM_TYPE b} -- the XEP's known       *)
(* weakness (XEP-0115 section 8), excluded here like '<' and '/' in names.    *)
EXTENDS Caps
LOCAL INSTANCE SequencesExt

VARIABLE n

IdSets   == {S \in SUBSET IdPool : Cardinality(S) <= MaxIds}
FeatSets == SUBSET Feats
ValSets  == {S \in SUBSET Vals : S # {} /\ Cardinality(S) <= MaxVals}
FieldSetsU == UNION {[V -> ValSets] : V \in {W \in SUBSET Vars : Cardinality(W) <= MaxFields}}
FormsU   == {[on |-> FALSE, ty |-> 0, fs |-> <<>>]} \cup {[on |-> TRUE, ty |-> ty, fs |-> fs] : ty \in FTypes, fs \in FieldSetsU}
Universe == IdSets \X FeatSets \X FormsU

FormOf(u) ==
    IF ~u.on THEN NoForm
    ELSE [on |-> TRUE,
          fields |-> <<[var |-> FT, multi |-> FALSE, vals |-> <<u.ty>>]>> \o
                     [j \in 1..Cardinality(DOMAIN u.fs) |->
                        LET v == SetToSeq(DOMAIN u.fs)[j] IN [var |-> v, multi |-> TRUE, vals |-> SetToSeq(u.fs[v])]]]
CanonU(u) == Canon(SetToSeq(u[1]), SetToSeq(u[2]), FormOf(u[3]))

IInit == n = Cardinality(Universe) /\ ids = <<>> /\ feats = <<>> /\ form = NoForm /\ canon = <<>> /\ hist = <<>>
ISpec == IInit /\ [][UNCHANGED <<vars, n>>]_<<vars, n>>
Injective == Cardinality({CanonU(u) : u \in Universe}) = n
=============================================================================
