SPECIFICATION TSpec
CONSTANTS
  Apis <- McApis
  StrangerPayloads = {"empty", "error", "foreign", "fin"}
  Payloads = {"empty", "error", "foreign", "fin"}
  MaxMsgs = 9
  MaxPend = 99
  MaxHist = 99
INVARIANT Done
CHECK_DEADLOCK FALSE
