SPECIFICATION Spec
CONSTANTS
  Ids = {"i1"}
  Tos = {"server"}
  RFroms = {}
  Types = {}
  OpenKinds = {"plain", "sm", "smr", "resumed"}
  Cids = {"fresh"}
  Bodies = {"none"}
  Attempts = {}
  IdRule = "replace"
  MaxHist = 7
CONSTRAINT SessBound
ACTION_CONSTRAINT EmitBehaviour
CHECK_DEADLOCK FALSE
