SPECIFICATION Spec
CONSTANTS
  Peers = {"p1"}
  Ress = {"r1"}
  PeerIds = {"lo1", "hi1"}
  Types = {"propose", "ringing", "proceed", "reject", "retract", "finish"}
  Variants = {"plain"}
  Wfs = {"ok"}
  Modes = {"up", "down"}
  Kinds = {"Propose", "Ring", "Proceed", "Reject", "Retract", "Finish", "Recv"}
  MaxJ = 2
  MaxP = 1
  MaxQ = 2
  MaxHist = 99
VIEW ViewS
ACTION_CONSTRAINT EmitBehaviour
CHECK_DEADLOCK FALSE
