---------------------------- MODULE CarbonsGen ----------------------------
(* Behaviour export for Carbons (see lib/vf.py: tlc_gen).  With VIEW TourView  *)
(* (CarbonsGenTour.cfg) every Recv(c, w, i) of every client configuration is   *)
(* emitted once, as a one-step behaviour from the initial state: a transition  *)
(* tour.  Without a VIEW (CarbonsGenAll.cfg) every sequence up to MaxHist over *)
(* a reduced vocabulary is a distinct state: all paths.                        *)
EXTENDS Carbons, Json, CSV, IOUtils

\* jidcfg of a behaviour = the JID the client is configured with at the *start* (Reconfigure steps change it)
StartJid == IF \E k \in 1..Len(hist') : hist'[k].a = "Reconfigure"
            THEN LET k == CHOOSE k \in 1..Len(hist') : hist'[k].a = "Reconfigure" /\ \A m \in 1..(k-1) : hist'[m].a # "Reconfigure"
                 IN hist'[k].from
            ELSE jidcfg'

EmitBehaviour ==
    CSVWrite("%1$s", <<ToJson([gen |-> gen', estab |-> estab', jidcfg |-> StartJid, steps |-> hist'])>>, IOEnv.QXV_GEN)

EmitReconfBehaviour == ReconfShape /\ EmitBehaviour
=============================================================================
