---------------------------- MODULE CarbonsGen ----------------------------
(* Behaviour export for Carbons (see lib/vf.py: tlc_gen).  With VIEW TourView  *)
(* (CarbonsGenTour.cfg) every Recv(c, w, i) of every client configuration is   *)
(* emitted once, as a one-step behaviour from the initial state: a transition  *)
(* tour.  Without a VIEW (CarbonsGenAll.cfg) every sequence up to MaxHist over *)
(* a reduced vocabulary is a distinct state: all paths.                        *)
EXTENDS Carbons, Json, CSV, IOUtils

EmitBehaviour ==
    CSVWrite("%1$s", <<ToJson([gen |-> gen', jidcfg |-> jidcfg', steps |-> hist'])>>, IOEnv.QXV_GEN)
=============================================================================
