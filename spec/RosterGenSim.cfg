SPECIFICATION SimSpec
CONSTANTS
  Jids = {"c1", "c2", "c3"}
  Items <- ItemsFields
  Ress = {"r1", "r2", "bare"}
  Froms = {"absent", "ownBare", "ownFull", "ownOther", "server", "stranger", "contact", "look1", "look2", "look3"}
  ConnKinds = {"plain", "sm", "smr", "resumed"}
  MaxReqs = 3
  MaxItems = 2
  MaxHist = 99
CONSTRAINT ReqBound
ACTION_CONSTRAINT EmitBehaviour
CHECK_DEADLOCK FALSE
