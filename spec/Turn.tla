--------------------------------- MODULE Turn ---------------------------------
(***************************************************************************)
(* The TURN client of the library: QXmppTurnAllocation                      *)
(* (src/base/QXmppStun.cpp:1246-1660, QXmppStun_p.h) against RFC 5766 and   *)
(* the long-term credential mechanism of RFC 5389 section 10.2, and its     *)
(* environment: the local API (connectToHost, disconnectFromHost,           *)
(* writeDatagram), its timers (allocation refresh, channel refresh, the     *)
(* retransmission timer of each QXmppStunTransaction) and a TURN server on  *)
(* UDP that plays honest and dishonest scripts.                             *)
(*                                                                          *)
(* The specification is the INTENDED client.  Where the unchanged tree does *)
(* something else the comment says so (marked "code:").                     *)
(*                                                                          *)
(* Client                                                                   *)
(*   st      unconnected | connecting | connected | closing   (m_state)     *)
(*   nonce   0: no long-term credentials yet (m_realm/m_nonce/m_key empty); *)
(*           n > 0: REALM known, key = MD5(user:realm:password), NONCE = n  *)
(*   tx      transactions in creation order (m_transactions; a closed one   *)
(*           is forgotten): [m, cn, lt, ch, p, open, tries]                 *)
(*             m   allocate | refresh | bind                                *)
(*             cn  0: the request carries no USERNAME/REALM/NONCE/          *)
(*                 MESSAGE-INTEGRITY; n: it carries all four, NONCE = n     *)
(*             lt  LIFETIME attribute (-1 absent), ch/p CHANNEL-NUMBER /    *)
(*                 XOR-PEER-ADDRESS (channel index, peer; -1/0 absent)      *)
(*   chans   {[c, p]}: m_channels, channel index c (number 0x4000 + c)      *)
(*   bound   channels whose ChannelBind got a success response (ghost)      *)
(*   rt, ct  refresh timer (seconds, 0 = stopped), channel timer running    *)
(*   relp    relayed port stored (0 none; the server grants 49000 + tx)     *)
(*   life    m_lifetime: the lifetime last granted (600 at first); it is    *)
(*           what the next Allocate request asks for                        *)
(* Server (scripted)                                                        *)
(*   sn      the nonce the server accepts now; salloc: the allocation       *)
(*           exists; sbound: channels bound at the server                   *)
(*   pw      the client was configured with the right password              *)
(* Observation of the last step: out (datagrams the client sent), sig       *)
(* (connected / disconnected signals), dg (datagramReceived), ret           *)
(* (writeDatagram result).                                                  *)
(***************************************************************************)
EXTENDS Integers, Sequences, FiniteSets, TLC

CONSTANTS Peers,      \* peer transport addresses, e.g. {1, 2}
          MaxTx,      \* bound on transactions created per behaviour
          MaxNonce,   \* the server's nonces are 1..MaxNonce
          Lifetimes,  \* lifetimes an honest server grants (seconds, >= 600: RFC 5766 6.2)
          PwOk,       \* subset of BOOLEAN
          Shapes,     \* response scripts the server may play (see Reply)
          InSrc,      \* source sockets of inbound ChannelData: subset of {"srv", "oth"}
          InLens,     \* subset of {"ok", "pad", "over"}: length field of inbound ChannelData
          Timers,     \* RefreshTimer / ChannelTimer / Retransmit / Timeout enabled
          MaxTries,   \* bound on transmissions of one request in the model (the code: 7)
          Reconnect,  \* connectToHost() again after the allocation ended
          MaxHist

VARIABLES pw, st, nonce, tx, chans, bound, nch, rt, ct, relp, life,
          sn, salloc, sbound, authed,
          out, sig, dg, ret,
          hist

cvars == <<st, nonce, tx, chans, bound, nch, rt, ct, relp, life>>
svars == <<sn, salloc, sbound>>
mvars == <<pw, cvars, svars, authed>>
ovars == <<out, sig, dg, ret>>
vars  == <<mvars, ovars, hist>>

States  == {"unconnected", "connecting", "connected", "closing"}
Methods == {"allocate", "refresh", "bind"}
NoTx    == [m |-> "-", cn |-> 0, lt |-> -1, ch |-> -1, p |-> 0, open |-> FALSE, tries |-> 0]
Req(m, cn, lt, ch, p) == [m |-> m, cn |-> cn, lt |-> lt, ch |-> ch, p |-> p, open |-> TRUE, tries |-> 1]

Open(t)       == t \in 1..Len(tx) /\ tx[t].open
Close(txs, t) == [txs EXCEPT ![t] = NoTx]
CloseAll(txs) == [i \in 1..Len(txs) |-> NoTx]
ChIds         == {x.c : x \in chans}
HasChan(p)    == \E x \in chans : x.p = p
ChanOf(p)     == (CHOOSE x \in chans : x.p = p).c
PeerOf(c)     == (CHOOSE x \in chans : x.c = c).p
ChSeq         == SelectSeq([i \in 1..nch |-> i - 1], LAMBDA c : c \in ChIds)   \* QMap order: ascending

\* datagrams the client emits
OReq(t, q, re) == [k |-> "req", t |-> t, re |-> re, m |-> q.m, cn |-> q.cn, lt |-> q.lt, ch |-> q.ch, p |-> q.p]
OCd(c, p)      == [k |-> "cd", t |-> 0, re |-> FALSE, m |-> "-", cn |-> 0, lt |-> -1, ch |-> c, p |-> p]

Init ==
    /\ pw \in PwOk
    /\ st = "unconnected" /\ nonce = 0 /\ tx = <<>> /\ chans = {} /\ bound = {} /\ nch = 0
    /\ rt = 0 /\ ct = FALSE /\ relp = 0 /\ life = 600
    /\ sn = 1 /\ salloc = FALSE /\ sbound = {} /\ authed = FALSE
    /\ out = <<>> /\ sig = <<>> /\ dg = <<>> /\ ret = "-"
    /\ hist = <<>>

Log(r) == hist' = Append(hist, r)
Last   == hist[Len(hist)]

(* --- the allocation is gone: everything that belonged to it is forgotten --------------------------- *)
\* code: setState(UnconnectedState) only stops the refresh timer; channels, the channel timer, other
\* outstanding transactions and realm/nonce/key survive into the next connectToHost().
GoUnconnected ==
    /\ st' = "unconnected" /\ sig' = <<"disconnected">>
    /\ tx' = CloseAll(tx) /\ chans' = {} /\ bound' = {} /\ ct' = FALSE /\ rt' = 0 /\ nonce' = 0
    /\ authed' = FALSE
    /\ out' = <<>> /\ dg' = <<>> /\ ret' = "-"
    /\ UNCHANGED <<nch, relp, life>>

(* --- local API ---------------------------------------------------------------------------------------- *)
\* connectToHost(): the first Allocate request carries no credentials (RFC 5389 10.2.1.1)
Connect ==
    /\ st = "unconnected" /\ (Len(tx) = 0 \/ Reconnect) /\ Len(tx) < MaxTx
    /\ LET q == Req("allocate", 0, life, -1, 0) IN
        /\ tx' = Append(tx, q) /\ out' = <<OReq(Len(tx) + 1, q, FALSE)>>
    /\ st' = "connecting" /\ sig' = <<>> /\ dg' = <<>> /\ ret' = "-"
    /\ Log([a |-> "Connect"])
    /\ UNCHANGED <<pw, nonce, chans, bound, nch, rt, ct, relp, life, svars, authed>>

\* disconnectFromHost(): a connected allocation is released with Refresh LIFETIME = 0 (RFC 5766 7)
Disconnect ==
    /\ IF st = "connected"
       THEN /\ Len(tx) < MaxTx
            /\ LET q == Req("refresh", nonce, 0, -1, 0) IN
                /\ tx' = Append(CloseAll(tx), q) /\ out' = <<OReq(Len(tx) + 1, q, FALSE)>>
            /\ st' = "closing" /\ sig' = <<>>
            /\ UNCHANGED <<nonce, authed>>
       ELSE /\ tx' = CloseAll(tx) /\ out' = <<>>
            /\ st' = "unconnected" /\ sig' = IF st = "unconnected" THEN <<>> ELSE <<"disconnected">>
            /\ nonce' = 0 /\ authed' = FALSE
    /\ chans' = {} /\ bound' = {} /\ ct' = FALSE /\ rt' = 0
    /\ dg' = <<>> /\ ret' = "-"
    /\ Log([a |-> "Disconnect"])
    /\ UNCHANGED <<pw, nch, relp, life, svars>>

\* writeDatagram(data, peer): binds a channel to the peer on first use and sends ChannelData
\* code: the ChannelData is sent at once, before the ChannelBind request (which leaves from a 0 ms timer)
\* and long before its success response; the server drops it (RFC 5766 11.6).  Kept as the code has it.
Write(p) ==
    /\ IF st # "connected"
       THEN /\ ret' = "fail" /\ out' = <<>>
            /\ UNCHANGED <<tx, chans, nch, ct>>
       ELSE IF HasChan(p)
       THEN /\ ret' = "ok" /\ out' = <<OCd(ChanOf(p), p)>>
            /\ UNCHANGED <<tx, chans, nch, ct>>
       ELSE /\ Len(tx) < MaxTx
            /\ LET q == Req("bind", nonce, -1, nch, p) IN
                /\ tx' = Append(tx, q)
                /\ out' = <<OCd(nch, p), OReq(Len(tx) + 1, q, FALSE)>>
            /\ chans' = chans \cup {[c |-> nch, p |-> p]} /\ nch' = nch + 1 /\ ct' = TRUE
            /\ ret' = "ok"
    /\ sig' = <<>> /\ dg' = <<>>
    /\ Log([a |-> "Write", p |-> p])
    /\ UNCHANGED <<pw, st, nonce, bound, rt, relp, life, svars, authed>>

(* --- timers ------------------------------------------------------------------------------------------- *)
\* m_timer (single shot, lifetime - 60 s): refresh()
RefreshTimer ==
    /\ Timers /\ rt > 0 /\ Len(tx) < MaxTx
    /\ LET q == Req("refresh", nonce, -1, -1, 0) IN
        /\ tx' = Append(tx, q) /\ out' = <<OReq(Len(tx) + 1, q, FALSE)>>
    /\ rt' = 0
    /\ sig' = <<>> /\ dg' = <<>> /\ ret' = "-"
    /\ Log([a |-> "RefreshTimer"])
    /\ UNCHANGED <<pw, st, nonce, chans, bound, nch, ct, relp, life, svars, authed>>

\* m_channelTimer (500 s, periodic): refreshChannels() re-binds every channel
ChannelTimer ==
    /\ Timers /\ ct /\ Len(tx) + Cardinality(chans) <= MaxTx
    /\ LET qs == [i \in 1..Len(ChSeq) |-> Req("bind", nonce, -1, ChSeq[i], PeerOf(ChSeq[i]))] IN
        /\ tx' = tx \o qs
        /\ out' = [i \in 1..Len(qs) |-> OReq(Len(tx) + i, qs[i], FALSE)]
    /\ sig' = <<>> /\ dg' = <<>> /\ ret' = "-"
    /\ Log([a |-> "ChannelTimer"])
    /\ UNCHANGED <<pw, st, nonce, chans, bound, nch, rt, ct, relp, life, svars, authed>>

\* QXmppStunTransaction::retry(): the same request again (RFC 5389 7.2.1)
Retransmit(t) ==
    /\ Timers /\ Open(t) /\ tx[t].tries < MaxTries
    /\ tx' = [tx EXCEPT ![t].tries = @ + 1]
    /\ out' = <<OReq(t, tx[t], TRUE)>>
    /\ sig' = <<>> /\ dg' = <<>> /\ ret' = "-"
    /\ Log([a |-> "Retransmit", t |-> t])
    /\ UNCHANGED <<pw, st, nonce, chans, bound, nch, rt, ct, relp, life, svars, authed>>

(* --- a transaction fails: error response that is no challenge, or no response at all ----------------- *)
Fail(t) ==
    IF tx[t].m \in {"allocate", "refresh"}
    THEN GoUnconnected
    ELSE \* ChannelBind failed: the channel is forgotten
         /\ tx' = Close(tx, t)
         /\ chans' = {x \in chans : x.c # tx[t].ch} /\ bound' = bound \ {tx[t].ch}
         /\ ct' = (ct /\ \E x \in chans : x.c # tx[t].ch)
         /\ out' = <<>> /\ sig' = <<>> /\ dg' = <<>> /\ ret' = "-"
         /\ UNCHANGED <<st, nonce, nch, rt, relp, life, authed>>

\* the 7th transmission stayed unanswered
Timeout(t) ==
    /\ Timers /\ Open(t)
    /\ Fail(t)
    /\ Log([a |-> "Timeout", t |-> t])
    /\ UNCHANGED <<pw, svars>>

(* --- responses ---------------------------------------------------------------------------------------- *)
\* r = [cls, code, mi, nonce, lt, rel, src, idm]
\*   mi  valid: MESSAGE-INTEGRITY under the long-term key | none | bad (present, does not verify)
\*   src srv: from the server's address | oth: from another address
\*   idm match: the transaction id and method of request t | unknown: an id the client never used |
\*       wrongm: the id of request t in a response of another method
R(cls, code, mi, n, lt, rel, src, idm) ==
    [cls |-> cls, code |-> code, mi |-> mi, nonce |-> n, lt |-> lt, rel |-> rel, src |-> src, idm |-> idm]

Chal(code, n) == R("err", code, "none", n, -1, "none", "srv", "match")   \* 401 / 438 carry REALM and NONCE, no integrity
Okr(l, rel)   == R("ok", 0, "valid", 0, l, rel, "srv", "match")
Err(code)     == R("err", code, "valid", 0, -1, "none", "srv", "match")

CredsOk(q) == q.cn = sn /\ pw

\* what a server following RFC 5389 10.2.2 / RFC 5766 6.2, 7.2, 11.2 answers to request q now
HonestSet(q) ==
    IF q.cn = 0 THEN {Chal(401, sn)}
    ELSE IF q.cn # sn THEN {Chal(438, sn)}
    ELSE IF ~pw THEN {Chal(401, sn)}
    ELSE CASE q.m = "allocate" -> IF salloc THEN {Err(437)} ELSE {Okr(l, "ok") : l \in Lifetimes}
           [] q.m = "refresh"  -> IF q.lt = 0 THEN {Okr(0, "none")}
                                  ELSE IF salloc THEN {Okr(l, "none") : l \in Lifetimes} ELSE {Err(437)}
           [] q.m = "bind"     -> IF salloc THEN {Okr(-1, "none")} ELSE {Err(437)}

\* a success response of the right form for request q, as a forger would build it
SuccessLike(q) ==
    CASE q.m = "allocate" -> Okr(600, "ok")
      [] q.m = "refresh"  -> Okr(IF q.lt = 0 THEN 0 ELSE 600, "none")
      [] OTHER            -> Okr(-1, "none")

\* the responses of script sh to transaction t (t open, except for "dup")
ShapeSet(t, sh) ==
    LET q == tx[t] IN
    CASE sh = "honest"   -> HonestSet(q)
      [] sh = "othsrc"   -> {[r EXCEPT !.src = "oth"] : r \in HonestSet(q)}             \* the honest answer, from another address
      [] sh = "stale"    -> IF q.cn = sn /\ sn < MaxNonce THEN {Chal(438, sn + 1)} ELSE {}  \* the server's nonce expired
      [] sh = "deny"     -> IF CredsOk(q) THEN {Err(403)} ELSE {}                      \* quota, policy, ...
      [] sh = "norelay"  -> IF CredsOk(q) /\ q.m = "allocate" /\ ~salloc THEN {Okr(600, "none")} ELSE {}
      [] sh = "errnomi"  -> IF CredsOk(q) THEN {[Err(403) EXCEPT !.mi = "none"]} ELSE {}
      \* forged: none of these may have any effect
      [] sh = "oknomi"   -> IF q.cn > 0 THEN {[SuccessLike(q) EXCEPT !.mi = "none"]} ELSE {}
      [] sh = "okbadmi"  -> IF q.cn > 0 THEN {[SuccessLike(q) EXCEPT !.mi = "bad"]} ELSE {}
      [] sh = "errbadmi" -> IF q.cn > 0 THEN {[Err(403) EXCEPT !.mi = "bad"]} ELSE {}
      [] sh = "stalebadmi" -> IF q.cn > 0 /\ q.cn < MaxNonce THEN {[Chal(438, q.cn + 1) EXCEPT !.mi = "bad"]} ELSE {}
      [] sh = "unkid"    -> {[SuccessLike(q) EXCEPT !.idm = "unknown"]}
      [] sh = "wrongm"   -> {[Okr(600, "ok") EXCEPT !.idm = "wrongm"]}
      [] OTHER           -> {}

\* RFC 5389 10.2.3: a response is processed only if it answers an outstanding request and, the request having
\* been authenticated, its MESSAGE-INTEGRITY is not wrong and (for a success response) is present.
\* (401 / 438 cannot carry one; other error responses without one are let through, as the code does.)
Acceptable(t, r) ==
    /\ Open(t) /\ r.idm = "match" /\ r.mi # "bad"
    /\ (r.cls = "ok" => r.mi = "valid")

\* a challenge the client answers with a new, authenticated transaction:
\* 401 to a request without credentials, 438 with a nonce the request did not carry (RFC 5389 10.2.3)
\* code: 401 only, and only if realm AND nonce both differ from the stored ones; 438 is treated as a failure.
IsChal(q, r) ==
    r.cls = "err" /\ ((r.code = 401 /\ q.cn = 0) \/ (r.code = 438 /\ q.cn > 0 /\ r.nonce # q.cn))

ServerEffect(q, r) ==
    IF r.cls = "ok" /\ r.mi = "valid"
    THEN /\ salloc' = (IF q.m = "allocate" THEN TRUE ELSE IF q.m = "refresh" /\ q.lt = 0 THEN FALSE ELSE salloc)
         /\ sbound' = (IF q.m = "bind" THEN sbound \cup {q.ch} ELSE IF q.m = "refresh" /\ q.lt = 0 THEN {} ELSE sbound)
    ELSE UNCHANGED <<salloc, sbound>>

Quiet == out' = <<>> /\ sig' = <<>> /\ dg' = <<>> /\ ret' = "-"

ClientReply(t, r) ==
    LET q == tx[t] IN
    IF ~Acceptable(t, r) THEN Quiet /\ UNCHANGED <<cvars, authed>>
    ELSE IF IsChal(q, r)
    THEN \* update the long-term credentials and retry the request in a new transaction
         /\ Len(tx) < MaxTx
         /\ nonce' = r.nonce
         /\ LET q2 == Req(q.m, r.nonce, q.lt, q.ch, q.p) IN
             /\ tx' = Append(Close(tx, t), q2) /\ out' = <<OReq(Len(tx) + 1, q2, FALSE)>>
         /\ sig' = <<>> /\ dg' = <<>> /\ ret' = "-"
         /\ UNCHANGED <<st, chans, bound, nch, rt, ct, relp, life, authed>>
    ELSE IF r.cls = "err" THEN Fail(t)
    ELSE CASE q.m = "allocate" ->
                IF r.rel = "none" THEN GoUnconnected      \* no usable XOR-RELAYED-ADDRESS
                ELSE /\ st' = "connected" /\ sig' = <<"connected">>
                     /\ relp' = 49000 + t /\ rt' = r.lt - 60 /\ life' = r.lt
                     /\ tx' = Close(tx, t)
                     /\ authed' = (q.cn = sn /\ pw /\ r.mi = "valid")
                     /\ out' = <<>> /\ dg' = <<>> /\ ret' = "-"
                     /\ UNCHANGED <<nonce, chans, bound, nch, ct>>
           [] q.m = "refresh" ->
                IF st = "closing" THEN GoUnconnected
                ELSE /\ rt' = r.lt - 60 /\ life' = r.lt /\ tx' = Close(tx, t)
                     /\ Quiet
                     /\ UNCHANGED <<st, nonce, chans, bound, nch, ct, relp, authed>>
           [] OTHER ->
                /\ tx' = Close(tx, t)
                /\ bound' = IF q.ch \in ChIds THEN bound \cup {q.ch} ELSE bound
                /\ Quiet
                /\ UNCHANGED <<st, nonce, chans, nch, rt, ct, relp, life, authed>>

\* the server handles request t according to script sh and its response r reaches the client
Reply(t, sh, r) ==
    /\ Open(t) /\ sh \in Shapes /\ r \in ShapeSet(t, sh)
    /\ sn' = IF sh = "stale" THEN sn + 1 ELSE sn
    /\ IF sh \in {"honest", "othsrc", "norelay"} THEN ServerEffect(tx[t], r) ELSE UNCHANGED <<salloc, sbound>>
    /\ ClientReply(t, r)
    /\ Log([a |-> "Reply", t |-> t, sh |-> sh, r |-> r])
    /\ UNCHANGED pw

\* a duplicate of a response to a transaction that is over (network duplicate / replay): t is not open
Dup(t) ==
    /\ "dup" \in Shapes /\ t \in 1..Len(tx) /\ ~Open(t)
    /\ Quiet
    /\ Log([a |-> "Reply", t |-> t, sh |-> "dup", r |-> Okr(600, "ok")])
    /\ UNCHANGED mvars

(* --- inbound data ------------------------------------------------------------------------------------- *)
\* a ChannelData message for channel index c (c = nch: a number the client never asked for) from socket src;
\* len = "over": the length field exceeds the datagram, "pad": the datagram is padded to a multiple of 4
\* code: the source address of a datagram is never looked at (src = "oth" is delivered like "srv").
ChanIn(c, src, len) ==
    /\ c \in 0..nch /\ src \in InSrc /\ len \in InLens
    /\ dg' = IF st = "connected" /\ c \in ChIds /\ len # "over" THEN <<[p |-> PeerOf(c)]>> ELSE <<>>
    /\ out' = <<>> /\ sig' = <<>> /\ ret' = "-"
    /\ Log([a |-> "ChanIn", c |-> c, src |-> src, len |-> len])
    /\ UNCHANGED mvars

\* a Data indication from the server for peer p (RFC 5766 10.4)
\* code: indications never match a transaction and are dropped, also for a peer with a permission.
DataInd(p) ==
    /\ "ok" \in InLens
    /\ Quiet
    /\ Log([a |-> "DataInd", p |-> p])
    /\ UNCHANGED mvars

Next ==
    \/ Connect \/ Disconnect \/ RefreshTimer \/ ChannelTimer
    \/ \E p \in Peers : Write(p) \/ DataInd(p)
    \/ \E t \in 1..Len(tx) : Retransmit(t) \/ Timeout(t) \/ Dup(t)
    \/ \E t \in 1..Len(tx) : \E sh \in Shapes : \E r \in ShapeSet(t, sh) : Reply(t, sh, r)
    \/ \E c \in 0..nch : \E src \in InSrc : \E len \in InLens : ChanIn(c, src, len)

Spec == Init /\ [][Next]_vars

(* --- invariants ---------------------------------------------------------------------------------------- *)
TxOK(q) ==
    /\ q.m \in Methods \cup {"-"} /\ q.cn \in 0..MaxNonce /\ q.open \in BOOLEAN /\ q.tries \in 0..MaxTries
    /\ (q.m = "bind" <=> q.ch >= 0)

TypeOK ==
    /\ pw \in BOOLEAN /\ st \in States /\ nonce \in 0..MaxNonce /\ Len(tx) <= MaxTx
    /\ \A t \in 1..Len(tx) : TxOK(tx[t])
    /\ \A x \in chans : x.c \in 0..(nch - 1) /\ x.p \in Peers
    /\ \A x, y \in chans : (x.c = y.c \/ x.p = y.p) => x = y
    /\ bound \subseteq ChIds
    /\ rt >= 0 /\ ct \in BOOLEAN /\ sn \in 1..MaxNonce /\ salloc \in BOOLEAN /\ life \in Lifetimes \cup {600}

\* the allocation is reported only after a success response to an Allocate request that carried valid
\* credentials for the server's realm and current nonce
ConnectedOnlyAuthed == st \in {"connected", "closing"} => authed

\* every request created after the first challenge carries USERNAME / REALM / NONCE / MESSAGE-INTEGRITY;
\* only the first Allocate of an attempt goes without
AuthedRequests ==
    \A t \in 1..Len(tx) : tx[t].open =>
        /\ (tx[t].cn = 0 => tx[t].m = "allocate" /\ nonce = 0 /\ st = "connecting")
        /\ tx[t].cn <= nonce

\* nothing belongs to an allocation that does not exist
Pristine ==
    st = "unconnected" => /\ \A t \in 1..Len(tx) : ~tx[t].open
                          /\ chans = {} /\ ~ct /\ rt = 0 /\ nonce = 0
TimersOK ==
    /\ (rt > 0 => st = "connected")
    /\ (ct => chans # {} /\ st = "connected")
    /\ (chans # {} => st = "connected")
    /\ (st = "connected" => rt > 0 \/ \E t \in 1..Len(tx) : tx[t].open /\ tx[t].m = "refresh")
    /\ (st = "connecting" => \E t \in 1..Len(tx) : tx[t].open /\ tx[t].m = "allocate")
    /\ (st = "closing" => \E t \in 1..Len(tx) : tx[t].open /\ tx[t].m = "refresh" /\ tx[t].lt = 0)

\* every channel in use has a ChannelBind behind it that has not failed
ChannelsRequested ==
    \A x \in chans : x.c \in bound \/ \E t \in 1..Len(tx) : tx[t].open /\ tx[t].m = "bind" /\ tx[t].ch = x.c /\ tx[t].p = x.p

(* --- action properties (evaluated on every transition; hist' names the step) --------------------------- *)
Step == hist'[Len(hist')]
Taken == hist' # hist

\* responses with an unknown transaction id, of another method, to a finished transaction, failing
\* integrity or (success) lacking it change nothing
Unauthentic(t, r) == ~Open(t) \/ r.idm # "match" \/ r.mi = "bad" \/ (r.cls = "ok" /\ r.mi = "none")
ForgedNoEffect ==
    [][Taken /\ Step.a = "Reply" /\ Unauthentic(Step.t, Step.r)
        => cvars' = cvars /\ authed' = authed /\ out' = <<>> /\ sig' = <<>> /\ dg' = <<>>]_vars

\* application data leaves only as ChannelData on a channel requested for exactly that peer, while connected
DataOnlyOnChannels ==
    [][Taken => \A i \in 1..Len(out') : out'[i].k = "cd" =>
            /\ Step.a = "Write" /\ st = "connected" /\ st' = "connected"
            /\ [c |-> out'[i].ch, p |-> Step.p] \in chans'
            /\ (out'[i].ch \in bound' \/ \E t \in 1..Len(tx') : tx'[t].open /\ tx'[t].m = "bind" /\ tx'[t].ch = out'[i].ch)]_vars

\* inbound data is delivered only from a channel of the current allocation, labelled with that channel's peer
DeliveryOnlyBound ==
    [][Taken /\ dg' # <<>> => Step.a = "ChanIn" /\ st = "connected" /\ Step.len # "over"
            /\ [c |-> Step.c, p |-> dg'[1].p] \in chans]_vars

\* disconnectFromHost() on a connected allocation sends Refresh LIFETIME 0 with the current credentials;
\* the allocation ends unconnected, and when the server confirmed, it is gone there too
Release ==
    [][Taken =>
        /\ (Step.a = "Disconnect" /\ st = "connected" =>
                st' = "closing" /\ Len(out') = 1 /\ out'[1].m = "refresh" /\ out'[1].lt = 0 /\ out'[1].cn = nonce /\ nonce > 0)
        /\ (Step.a = "Disconnect" /\ st # "connected" => st' = "unconnected")
        /\ (st = "closing" /\ st' = "unconnected" /\ Step.a = "Reply" /\ Step.r.cls = "ok" => ~salloc')]_vars

\* every request sent after a challenge carries the credentials of the latest challenge
RequestsCarryCreds ==
    [][Taken => \A i \in 1..Len(out') : (out'[i].k = "req" /\ ~out'[i].re) =>
            IF Step.a = "Connect" THEN out'[i].cn = 0 ELSE out'[i].cn = nonce' /\ nonce' > 0]_vars

Edges == {<<"unconnected", "connecting">>, <<"connecting", "connected">>, <<"connecting", "unconnected">>,
          <<"connected", "closing">>, <<"connected", "unconnected">>, <<"closing", "unconnected">>}
Lifecycle ==
    [][/\ (st' # st => <<st, st'>> \in Edges)
       /\ (Taken => sig' = IF st' = "connected" /\ st # "connected" THEN <<"connected">>
                           ELSE IF st' = "unconnected" /\ st # "unconnected" THEN <<"disconnected">> ELSE <<>>)]_vars

(* --- re-initialisation used by the trace specification ------------------------------------------------- *)
Reinit(p) ==
    /\ pw' = p
    /\ st' = "unconnected" /\ nonce' = 0 /\ tx' = <<>> /\ chans' = {} /\ bound' = {} /\ nch' = 0
    /\ rt' = 0 /\ ct' = FALSE /\ relp' = 0 /\ life' = 600
    /\ sn' = 1 /\ salloc' = FALSE /\ sbound' = {} /\ authed' = FALSE
    /\ out' = <<>> /\ sig' = <<>> /\ dg' = <<>> /\ ret' = "-"
    /\ hist' = <<>>

Bound == Len(hist) <= MaxHist
View  == mvars
=============================================================================
