SPECIFICATION ISpec
CONSTANTS
  Cats = {1, 2}
  Types = {1}
  Langs = {0, 1}
  Names = {0, 1}
  Feats = {1, 2, 3}
  FTypes = {11, 12}
  Vars = {21, 22}
  Vals = {31, 32}
  MaxIds = 2
  MaxFeats = 3
  MaxFields = 2
  MaxVals = 2
  MaxHist = 99
INVARIANT Injective
CHECK_DEADLOCK FALSE
