SPECIFICATION TSpec
CONSTANTS
  Cats = {0, 1, 2, 3, 4, 5, 6, 7, 8, 9}
  Types = {0, 1, 2, 3, 4, 5, 6, 7, 8, 9}
  Langs = {0, 1, 2, 3, 4, 5, 6, 7, 8, 9}
  Names = {0, 1, 2, 3, 4, 5, 6, 7, 8, 9}
  Feats = {0, 1, 2, 3, 4, 5, 6, 7, 8, 9}
  FTypes = {1, 2, 3, 4, 5, 6, 7, 8, 9}
  Vars = {0, 1, 2, 3, 4, 5, 6, 7, 8, 9}
  Vals = {0, 1, 2, 3, 4, 5, 6, 7, 8, 9}
  MaxIds = 99
  MaxFeats = 99
  MaxFields = 99
  MaxVals = 99
  MaxHist = 9999
INVARIANT Done
CHECK_DEADLOCK FALSE
