---------------------------- MODULE ClientAuxGen ----------------------------
(* Behaviour export for ClientAux (see TaskGen / ClientStreamGen): every     *)
(* generated transition writes the environment's moves that lead to it.      *)
(*  - ClientAuxGenTour*.cfg: VIEW = a quotient of the model-checking state   *)
(*    (no connection counter, token identity reduced to "some token", the    *)
(*    server ghost reduced to what the invariants read), so hist is a        *)
(*    shortest path to every transition of the quotient: a transition tour   *)
(*    small enough to replay over sockets.  GenViewFine keeps the members    *)
(*    GenView masks (thorough tier).  The exhaustive check of the invariants *)
(*    is ClientAux.cfg, not this.                                            *)
(*  - ClientAuxGenAll*.cfg: no VIEW, CONSTRAINT Bound: every sequence of     *)
(*    moves up to MaxHist.                                                   *)
(*  - ClientAuxGenSim.cfg: the same emitter under -simulate (random walks).  *)
EXTENDS ClientAuxMC, Json, CSV, IOUtils

EmitBehaviour ==
    CSVWrite("%1$s", <<ToJson([cfg |-> cfg', steps |-> hist'])>>, IOEnv.QXV_GEN)

GenViewFine == <<cfg, [NormC EXCEPT !.conn = 0, !.tok = IF @ = 0 THEN 0 ELSE 1],
                 s.att, s.live, s.csi, s.carb, s.resumable, s.req, s.pend, s.offered, s.dirty>>

GenView == <<cfg, [NormC EXCEPT !.conn = 0, !.tok = IF @ = 0 THEN 0 ELSE 1, !.reqTok = FALSE, !.usedHt = FALSE, !.cur2 = FALSE],
             s.att, s.live, s.csi = c.app, s.carb, s.resumable, s.req, s.dirty>>
=============================================================================
