SPECIFICATION Spec
CONSTANTS
  Rooms = {"r1"}
  Foreign = {"rx", "lk"}
  Nicks = {"n1", "n2", "n3"}
  Items = {"mod"}
  Codes = {"none", "self", "self210"}
  UnKinds = {"leave", "nick", "kick", "ban", "remove"}
  MsgNicks = {"-"}
  MsgTypes = {"groupchat"}
  Subjects = {"s1"}
  Names = {"N1"}
  Users = {"u1"}
  Kinds = {"SetNick", "Join", "Leave", "PresAv", "PresUn", "PresErr", "Invite", "Disconnect", "Connect", "OwnPres"}
  MaxHist = 99
VIEW View
ACTION_CONSTRAINT EmitBehaviour
CHECK_DEADLOCK FALSE
