SPECIFICATION Spec
CONSTANTS
  MaxRefs = 2
  Kinds = {"void", "copy", "move"}
  Bodies = {"none", "destroyCtx", "dropOthers", "refinish", "reThen"}
  MaxHist = 99
INVARIANTS TypeOK AtMostOnce ValueSeen ExactlyOnce Released
PROPERTIES NoRunAfterDeath
VIEW View
CHECK_DEADLOCK FALSE
