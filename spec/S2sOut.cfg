SPECIFICATION Spec
CONSTANTS
  Doms = {"R", "A"}
  NI = 1
  MaxOC = 3
  MaxMsg = 3
  Kinds = {"IOpen", "IVerifyReq", "IClose", "Listen", "Send", "OHeader", "OResult", "OStanza", "OClose", "XFrom"}
  Shapes = {"ok"}
  FromDoms = {"R"}
  Tos = {"L", "X"}
  Dev = {}
  MaxHist = 99
INVARIANTS TypeOK NoSpoof OneLiveOrig ExactlyOnceInOrder NoLeak
PROPERTIES AuthBeforeData ValidOnlyRelayed AcceptOnlyValidated
VIEW View
CHECK_DEADLOCK FALSE
