SPECIFICATION Spec
CONSTANTS
  Apis = {"legacy"}
  Archives = {"own", "muc"}
  Froms = {"none", "own", "muc", "evil"}
  E2ee = FALSE
  Encs = {FALSE}
  Kinds = {"Query", "Result", "Fin", "FinErr"}
  MaxQ = 2
  MaxM = 2
  MaxD = 0
  MaxDepth = 99
  MaxHist = 99
VIEW View
ACTION_CONSTRAINT EmitBehaviour
CHECK_DEADLOCK FALSE
