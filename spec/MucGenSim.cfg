SPECIFICATION SimSpec
CONSTANTS
  Rooms = {"r1", "r2"}
  Foreign = {"rx", "lk"}
  Nicks = {"n1", "n2", "n3"}
  Items = {"plain", "member", "mod", "admin", "owner", "ownermod"}
  Codes = {"none", "self", "self201", "self210"}
  UnKinds = {"leave", "nick", "kick", "ban", "remove"}
  MsgNicks = {"-", "n1", "n2", "n3"}
  MsgTypes = {"groupchat", "chat", "error"}
  Subjects = {"s1", "s2"}
  Names = {"N1", "N2"}
  Users = {"u1", "u2"}
  Kinds = {"SetNick", "Join", "Leave", "SendMsg", "ReqPerm", "ReqConf", "Kick", "Ban", "SetSubj",
           "PresAv", "PresUn", "PresErr", "Msg", "Invite", "Disco", "ConfRes", "PermRes",
           "Disconnect", "Connect", "OwnPres"}
  MaxHist = 99
ACTION_CONSTRAINT EmitBehaviour
CHECK_DEADLOCK FALSE
