SPECIFICATION SimSpec
CONSTANTS
  Apis = {"task", "legacy"}
  Archives = {"own", "muc"}
  Froms = {"none", "own", "muc", "evil"}
  E2ee = FALSE
  Encs = {FALSE}
  Kinds = {"Query", "Result", "Fin", "FinErr", "Decrypt", "Disconnect", "Connect"}
  MaxQ = 5
  MaxM = 14
  MaxD = 2
  MaxDepth = 99
  MaxHist = 99
ACTION_CONSTRAINT EmitBehaviour
CHECK_DEADLOCK FALSE
