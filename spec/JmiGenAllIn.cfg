SPECIFICATION SpecIn
CONSTANTS
  Peers = {"p1"}
  Ress = {"r1"}
  PeerIds = {"lo1", "hi1"}
  Types = {"propose", "proceed", "reject", "retract", "finish"}
  Variants = {"plain"}
  Wfs = {"ok"}
  Modes = {"sm"}
  Kinds = {"Finish", "Recv", "Ack", "FailAll"}
  MaxJ = 2
  MaxP = 1
  MaxQ = 3
  MaxHist = 6
CONSTRAINT Bound
ACTION_CONSTRAINT EmitBehaviour
CHECK_DEADLOCK FALSE
