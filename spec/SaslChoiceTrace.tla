-------------------------- MODULE SaslChoiceTrace --------------------------
(***************************************************************************)
(* Trace validation for SaslChoice (C05).  One line per case, written by   *)
(* `qxv saslchoice`:                                                       *)
(*   {"e":"Authenticate","k":7,"c":{"v":2,"offered":[..],"fastFeature":..,  *)
(*    "fastMechs":[..],"useFast":..,"userAgent":..,"disabled":[..],         *)
(*    "preferred":"..","creds":{"pw":..,"token":"..","google":..,..}},      *)
(*    "o":[{"ord":"1,0|","m":"SCRAM-SHA-1","n":1,"el":"auth","err":"",      *)
(*          "fast":false}, ...]}                                            *)
(* c = the inputs the harness gave to the real SaslManager / Sasl2Manager,  *)
(* o = one observation per ordering of the offer: m = mechanism attribute   *)
(* of the first element the manager sent ("(none)" if it sent nothing),     *)
(* n = number of elements sent, err = reported AuthenticationError type.    *)
(*                                                                          *)
(*  - model:   SaslChoice's Authenticate on the logged case (out = Choose); *)
(*  - monitor: the predicates P_* of SaslChoice evaluated on (logged case,  *)
(*             observed mechanism, observed number of elements) -- the      *)
(*             property prescribes the output, so these use observations    *)
(*             only; a failure is a violation;                              *)
(*  - compare: observed mechanism vs the model's Choose; a difference that  *)
(*             breaks no predicate (possible only among mechanisms the      *)
(*             statement does not rank, the X-* family) marks the case      *)
(*             diverged.                                                    *)
(***************************************************************************)
EXTENDS SaslChoice, Integers, Json, CSV, IOUtils

TraceLog == ndJsonDeserialize(IOEnv.QXV_TRACE)

VARIABLES l, viol, ndiv, divs, ncases, nobs, nsent, dist
tvars == <<vars, l, viol, ndiv, divs, ncases, nobs, nsent, dist>>

SeqRange(s) == {s[i] : i \in DOMAIN s}

Conv(j) == [v |-> j.v, offered |-> SeqRange(j.offered), fastFeature |-> j.fastFeature,
            fastMechs |-> SeqRange(j.fastMechs), useFast |-> j.useFast, userAgent |-> j.userAgent,
            disabled |-> SeqRange(j.disabled), preferred |-> j.preferred,
            creds |-> [pw |-> j.creds.pw, token |-> j.creds.token, google |-> j.creds.google,
                       wlive |-> j.creds.wlive, fb |-> j.creds.fb]]

\* vacuity guard: how the model's choice is distributed over the validated cases
OutcomeKinds == {"none", "preferred", "ht", "scram", "digest", "plain", "anonymous", "xgoogle", "xwlive", "xfacebook"}
OutcomeKind(k, C, ch) == IF ch = None THEN "none" ELSE IF k.preferred \in C THEN "preferred" ELSE Table[ch].fam

TInit ==
    /\ c = [v |-> 1, offered |-> {}, fastFeature |-> FALSE, fastMechs |-> {}, useFast |-> TRUE, userAgent |-> TRUE,
            disabled |-> {}, preferred |-> "", creds |-> [pw |-> FALSE, token |-> "", google |-> FALSE, wlive |-> FALSE, fb |-> FALSE]]
    /\ phase = "offered" /\ out = None /\ sent = 0 /\ hist = <<>>
    /\ l = 1 /\ viol = {} /\ ndiv = 0 /\ divs = <<>> /\ ncases = 0 /\ nobs = 0 /\ nsent = 0
    /\ dist = [x \in OutcomeKinds |-> 0]

\* "reports a mechanism mismatch": the error type is part of the observation
P_ReportsMismatch(o) == o.m = None => o.err = "MechanismMismatch"

AllProps == PropNames \cup {"ReportsMismatch"}
FailedProps(k, C, o) ==
    {p \in PropNames : ~HoldsC(p, k, C, o.m, o.n)} \cup (IF P_ReportsMismatch(o) THEN {} ELSE {"ReportsMismatch"})

\* the orderings of one case almost always give the same observation: evaluate each distinct one once
CaseStep(ev) ==
    LET k == Conv(ev.c)
        C == Candidates(k)
        ch == Choose(k)
        D == {[m |-> ev.o[i].m, n |-> ev.o[i].n, err |-> ev.o[i].err] : i \in DOMAIN ev.o}
        F == [o \in D |-> FailedProps(k, C, o)]
        bad == UNION {{[k |-> ev.k, ord |-> ev.o[i].ord, prop |-> p, m |-> ev.o[i].m, model |-> ch] :
                            p \in F[[m |-> ev.o[i].m, n |-> ev.o[i].n, err |-> ev.o[i].err]]} : i \in DOMAIN ev.o}
        d == \E o \in D : o.m # ch
    IN
    \* model: the specification's own step on the logged inputs
    /\ c' = k /\ phase' = "done" /\ out' = ch /\ sent' = (IF ch = None THEN 0 ELSE 1) /\ hist' = <<>>
    \* monitor
    /\ viol' = IF bad # {} /\ Cardinality(viol) < 400 THEN viol \cup bad ELSE viol
    \* compare
    /\ ndiv' = IF d THEN ndiv + 1 ELSE ndiv
    /\ divs' = IF d /\ Len(divs) < 10 THEN Append(divs, [k |-> ev.k, model |-> ch, impl |-> [i \in DOMAIN ev.o |-> ev.o[i].m]]) ELSE divs
    /\ ncases' = ncases + 1
    /\ nobs' = nobs + Len(ev.o)
    /\ nsent' = nsent + (IF ch = None THEN 0 ELSE 1)
    /\ dist' = [dist EXCEPT ![OutcomeKind(k, C, ch)] = @ + 1]

TNext ==
    /\ l <= Len(TraceLog)
    /\ l' = l + 1
    /\ LET ev == TraceLog[l] IN
        IF ev.e = "Authenticate" THEN CaseStep(ev)
        ELSE UNCHANGED <<vars, viol, ndiv, divs, ncases, nobs, nsent, dist>>

TSpec == TInit /\ [][TNext]_tvars

Summary == [cases |-> ncases, lines |-> l - 1, observations |-> nobs, nonempty |-> nsent,
            viol |-> viol, ndiv |-> ndiv, divs |-> divs, dist |-> dist]
Done == l <= Len(TraceLog) \/ CSVWrite("%1$s", <<ToJson(Summary)>>, IOEnv.QXV_SUMMARY)
=============================================================================
