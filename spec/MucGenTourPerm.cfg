SPECIFICATION Spec
CONSTANTS
  Rooms = {"r1"}
  Foreign = {"rx"}
  Nicks = {"n1"}
  Items = {"owner"}
  Codes = {"self"}
  UnKinds = {"leave"}
  MsgNicks = {"-"}
  MsgTypes = {"groupchat"}
  Subjects = {"s1"}
  Names = {"N1"}
  Users = {"u1", "u2"}
  Kinds = {"ReqPerm", "PermRes"}
  MaxHist = 99
VIEW View
ACTION_CONSTRAINT EmitBehaviour
CHECK_DEADLOCK FALSE
