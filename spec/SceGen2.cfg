SPECIFICATION Spec
CONSTANTS
  MaxSet = 2
  Bases <- BasesNone
  Ordered = TRUE
ACTION_CONSTRAINT EmitBehaviour
CHECK_DEADLOCK FALSE
