SPECIFICATION Spec
CONSTANTS
  MaxSet = 2
  Bases <- BasesNone
  SendModes <- NoSends
  PlainApis <- NoSends
  Ordered = TRUE
ACTION_CONSTRAINT EmitBehaviour
CHECK_DEADLOCK FALSE
