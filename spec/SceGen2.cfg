SPECIFICATION Spec
CONSTANTS
  MaxSet = 2
  Ordered = TRUE
ACTION_CONSTRAINT EmitBehaviour
CHECK_DEADLOCK FALSE
