SPECIFICATION Spec
CONSTANTS
  Rooms = {"r1"}
  Foreign = {"rx", "lk"}
  Nicks = {"n1"}
  Items = {"plain", "admin", "ownermod"}
  Codes = {"self"}
  UnKinds = {"leave"}
  MsgNicks = {"-", "n1"}
  MsgTypes = {"groupchat", "chat", "error"}
  Subjects = {"s1", "s2"}
  Names = {"N1"}
  Users = {"u1"}
  Kinds = {"SetNick", "Join", "PresAv", "PresUn", "Msg", "Disco", "ConfRes", "SendMsg", "SetSubj", "Kick", "Ban", "ReqConf", "Disconnect", "Connect"}
  MaxHist = 99
VIEW View
ACTION_CONSTRAINT EmitBehaviour
CHECK_DEADLOCK FALSE
