SPECIFICATION Spec
CONSTANTS
  Senders = {"o1", "a1", "b1"}
  EchoSenders = {"o1"}
  MsgKeys = {"o1", "o2", "a1", "a2", "b1"}
  MaxDec = 1
  ManualMax = 1
  Combos <- CombosT2
  MaxHist = 3
VIEW GenView
ACTION_CONSTRAINT EmitBehaviour
CHECK_DEADLOCK FALSE
