SPECIFICATION Spec
CONSTANTS
  Senders = {"o1", "a1", "b1"}
  EchoSenders = {"o1"}
  MsgKeys = {"o1", "a1", "b1", "k"}
  MaxDec = 1
  ManualMax = 1
  Combos <- CombosT2
  MaxHist = 3
VIEW GenView
ACTION_CONSTRAINT EmitBehaviour
CHECK_DEADLOCK FALSE
