SPECIFICATION Spec
CONSTANTS
  Classes = {"OwnBare", "OwnFullOther", "Contact"}
  Wrappers = {"none", "sent", "received"}
  Inners = {"chatIn"}
  Gens = {"v1", "v2"}
  JidCfgs = {"plain"}
  Estabs = {"configured"}
  Hows = {}
  MaxHist = 4
CONSTRAINT Bound
ACTION_CONSTRAINT EmitBehaviour
CHECK_DEADLOCK FALSE
