SPECIFICATION Spec
CONSTANTS
  Doms = {"R", "A"}
  NI = 1
  MaxOC = 1
  MaxMsg = 2
  Kinds = {"IOpen", "IResult", "IVerifyReq", "IStanza", "IWs", "IClose", "Send", "OHeader", "OVerifyAns", "OResult", "OClose", "XFrom"}
  Shapes = {"ok"}
  FromDoms = {"R"}
  Tos = {"L"}
  Dev = {}
  MaxHist = 99
VIEW View
ACTION_CONSTRAINT EmitBehaviour
CHECK_DEADLOCK FALSE
