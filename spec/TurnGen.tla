------------------------------ MODULE TurnGen ------------------------------
(* Behaviour export for Turn: every transition TLC generates writes the     *)
(* step sequence that leads to it, the password choice of the run and       *)
(* whether the step left the model state unchanged (`loop`).  With VIEW     *)
(* (TurnGenTour*.cfg) hist is the BFS-shortest path to the source state     *)
(* plus the step: a transition tour.  lib/ext/turn.py packs all no-effect   *)
(* steps of one state (forged responses, duplicates, inbound data, writes   *)
(* on an existing channel) into one behaviour behind the path to that state *)
(* -- they are self-loops, so the packed sequence is a behaviour of Turn -- *)
(* and keeps the maximal ones of the rest.  Without VIEW                    *)
(* (TurnGenAll.cfg) every path up to MaxHist is exported; TurnGenSim.cfg is *)
(* for -simulate (deeper random walks, more transactions and nonces).       *)
EXTENDS Turn, Json, CSV, IOUtils

EmitBehaviour ==
    CSVWrite("%1$s", <<ToJson([pw |-> pw', loop |-> (mvars' = mvars), steps |-> hist'])>>, IOEnv.QXV_GEN)
=============================================================================
