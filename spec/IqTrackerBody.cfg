SPECIFICATION Spec
CONSTANTS
  Ids = {"i1", "k1"}
  Tos = {"server", "full"}
  RFroms = {"exact", "absent", "stranger"}
  Types = {"result", "error", "set"}
  OpenKinds = {"plain", "sm", "smr", "resumed"}
  Cids = {"fresh", "empty"}
  Bodies = {"none", "sendNew"}
  Attempts = {"authfail", "bindfail", "userabort", "precut", "abandon"}
  IdRule = "replace"
  MaxHist = 99
INVARIANTS TypeOK AtMostOnce DoneOnce NonePending WireUnique
PROPERTIES GivenUp WrongSender RightSender FreshOpen
VIEW View
CHECK_DEADLOCK FALSE
