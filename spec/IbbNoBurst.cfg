SPECIFICATION Spec
CONSTANTS
  W = 4
  Anns = {"both", "size", "hash", "none"}
  Devs = {"all"}
  Sizes = {0, 1, 2, 3, 4, 5, 6, 7, 9}
  MaxFaults = 1
  MaxInject = 1
  FaultKinds = {"Lose", "Drop", "Dup", "Flip", "WrongSid", "WrongFrom", "Swap", "EarlyClose"}
  InjectKinds = {"from", "res", "sid"}
  InjectElems = {"open", "data", "close"}
  Bursts = {}
  MaxHist = 999
INVARIANTS TypeOK Safe FaultDetected CleanSuccess CleanInv
PROPERTIES ForeignInert
VIEW View
CHECK_DEADLOCK FALSE
