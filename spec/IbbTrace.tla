----------------------------- MODULE IbbTrace -----------------------------
(***************************************************************************)
(* Trace validation for Ibb.  The trace (ndjson, written by `qxv ibb`)     *)
(* holds, per step of the harness network, the step with its arguments and *)
(* what the two real QXmppTransferManagers showed afterwards:              *)
(*  {"e":"Reset","case":"i7","n":3,"size":12000,"bs":4096,"sender":"real",  *)
(*   "ann":"both|size|hash|none"}   what the offer announced (set by the    *)
(*   harness: the fields of QXmppTransferFileInfo it filled in)             *)
(*  {"e":"RDeliver","o":{"rs":"Transfer","re":"NoError","rw":1,            *)
(*      "ss":"Transfer","se":"NoError","held":0,"eq":0,                    *)
(*      "s2r":[{"t":"data","seq":1,"pay":2,"sid":"ok","from":"S"}],        *)
(*      "r2s":[{"t":"res"}]}}                                              *)
(*  {"e":"Fault","k":"Dup","o":{...}}                                       *)
(*  {"e":"Inject","w":"from|res|sid","t":"open|data|close","seq":2,"o":..}  *)
(*  (an element with the right sid from a stranger / another resource of    *)
(*  the sender's account, or from the sender for another session; in o.s2r  *)
(*  its "from" is "X" / "Y" / "S" and its "sid" "ok" / "bad")               *)
(*  {"e":"Burst","k":65535,"done":65535,"o":{...}}                          *)
(*  {"e":"End","o":{..., "eq":1,"rlen":12000,"slen":12000,"rsha":..,        *)
(*                  "ssha":..,"rfin":1,"sfin":1,"offered":true, ...}}       *)
(* o.rs/o.re, o.ss/o.se: state() and error() of the receiving / sending     *)
(* job; o.rw: blocks written to the receiving application's device; o.eq:   *)
(* that device holds exactly the bytes of the file (1/0; -1 not evaluated   *)
(* at this step: files of more than 1 MiB are compared at End only);        *)
(* o.s2r / o.r2s / o.held: the harness's own channel (ground truth), each    *)
(* stanza projected (seq as sent; pay = k iff the payload is block k).      *)
(* Only steps that were applied are logged ("Fault" lines = faults that     *)
(* happened).                                                               *)
(*                                                                          *)
(* Three layers per line (as in TaskTrace):                                 *)
(*  - model:   Ibb's action for the logged step, W = 65536;                 *)
(*  - monitor: `mon`, from logged steps only (number of stream faults, offer *)
(*             made); the C19 predicates of Ibb are evaluated on the logged *)
(*             outcome: P_Safe at every step, P_ForeignInert at every        *)
(*             delivery of an element that is not from the offering JID for  *)
(*             this session (job state, error and blocks written unchanged), *)
(*             P_FaultDetected and           *)
(*             P_CleanSuccess at End (quiescent by construction of the      *)
(*             harness, and checked: both logged channels empty);           *)
(*  - compare: model projection vs logged observation; a mismatch (e.g. a   *)
(*             different error code) marks the execution diverged only.     *)
(***************************************************************************)
EXTENDS Ibb, Integers, Json, CSV, IOUtils, FiniteSets

TraceLog == ndJsonDeserialize(IOEnv.QXV_TRACE)

VARIABLES l, cid, mon, viol, ndiv, divs, dflag, ncases, nfaulted, nclean

tvars == <<vars, l, cid, mon, viol, ndiv, divs, dflag, ncases, nfaulted, nclean>>

\* prs/pre/prw: the previous observation of the job; phf: the stanza then at the head of the channel
\* to the receiver did not come from the offering full JID for this session
Mon0 == [nflt |-> 0, offered |-> FALSE, kinds |-> <<>>, ann |-> "both", dev |-> "all",
         prs |-> "None", pre |-> "NoError", prw |-> 0, phf |-> FALSE]
HeadForeign(o) == Len(o.s2r) > 0 /\ (o.s2r[1].from # "S" \/ o.s2r[1].sid # "ok")

TInit ==
    /\ Init /\ n = 0
    /\ l = 1 /\ cid = "" /\ mon = Mon0 /\ viol = {} /\ ndiv = 0 /\ divs = <<>> /\ dflag = FALSE
    /\ ncases = 0 /\ nfaulted = 0 /\ nclean = 0

ProjMsg(m) == [t |-> m.t, seq |-> m.seq, pay |-> m.pay, sid |-> m.sid, from |-> m.from]
Proj == [rs |-> rState, re |-> rErr, rw |-> nw, ss |-> sState, se |-> sErr,
         held |-> IF held.t = "none" THEN 0 ELSE 1,
         s2r |-> [i \in 1..Len(s2r) |-> ProjMsg(s2r[i])],
         r2s |-> [i \in 1..Len(r2s) |-> [t |-> r2s[i].t]]]
\* the same fields of a logged observation
Obs(o) == [rs |-> o.rs, re |-> o.re, rw |-> o.rw, ss |-> o.ss, se |-> o.se, held |-> o.held,
           s2r |-> [i \in 1..Len(o.s2r) |-> ProjMsg(o.s2r[i])],
           r2s |-> [i \in 1..Len(o.r2s) |-> [t |-> o.r2s[i].t]]]

ModelAct(ev) ==
    CASE ev.e = "Offer"    -> Offer
      [] ev.e = "RDeliver" -> RDeliver
      [] ev.e = "SDeliver" -> SDeliver
      [] ev.e = "Fault"    -> Fault(ev.k)
      [] ev.e = "Inject"   -> Inject(ev.w, ev.t, ev.seq)
      [] ev.e = "Burst"    -> Burst(ev.k)
      [] OTHER             -> FALSE

MonNext(m, ev) ==
    [ann |-> m.ann, dev |-> m.dev, prs |-> ev.o.rs, pre |-> ev.o.re, prw |-> ev.o.rw, phf |-> HeadForeign(ev.o),
     nflt |-> IF ev.e = "Fault" THEN m.nflt + 1 ELSE m.nflt,
     offered |-> m.offered \/ ev.e = "Offer",
     kinds |-> IF ev.e = "Fault" THEN Append(m.kinds, ev.k) ELSE m.kinds]

\* property predicates on logged facts
FailedStep(m, ev) ==
    LET o == ev.o IN
    {p \in {"Safe", "ForeignInert"} :
        CASE p = "Safe" -> o.eq # -1 /\ ~P_Safe(m.ann, m.dev, o.rs, o.re, o.eq = 1)
          [] p = "ForeignInert" -> ev.e = "RDeliver" /\ ~P_ForeignInert(m.phf, m.prs, m.pre, m.prw, o.rs, o.re, o.rw)}
FailedEnd(m, o) ==
    LET q == m.offered /\ Len(o.s2r) = 0 /\ Len(o.r2s) = 0 IN
    {p \in {"Safe", "FaultDetected", "CleanSuccess"} :
        CASE p = "Safe"          -> ~P_Safe(m.ann, m.dev, o.rs, o.re, o.eq = 1)
          [] p = "FaultDetected" -> ~P_FaultDetected(m.ann, IF m.nflt = 1 THEN m.kinds[1] ELSE "none", m.nflt, o.rs, o.re)
          [] p = "CleanSuccess"  -> ~P_CleanSuccess(m.nflt, m.dev, q, o.rs, o.re, o.ss, o.se, o.eq = 1)}

ResetStep(ev) ==
    /\ Reinit(ev.n, ev.ann, ev.dev, ev.devAt)
    /\ cid' = ev.case /\ mon' = [Mon0 EXCEPT !.ann = ev.ann, !.dev = ev.dev] /\ dflag' = FALSE /\ ncases' = ncases + 1
    /\ UNCHANGED <<viol, ndiv, divs, nfaulted, nclean>>

Diverge(d, model, impl) ==
    /\ dflag' = (dflag \/ d)
    /\ ndiv' = IF d /\ ~dflag THEN ndiv + 1 ELSE ndiv
    /\ divs' = IF d /\ ~dflag /\ Len(divs) < 10
               THEN Append(divs, [case |-> cid, line |-> l, model |-> model, impl |-> impl]) ELSE divs

OpStep(ev) ==
    /\ \/ ModelAct(ev)
       \/ (~ENABLED ModelAct(ev)) /\ UNCHANGED vars
    /\ mon' = MonNext(mon, ev)
    /\ viol' = viol \cup {[case |-> cid, line |-> l, prop |-> p, e |-> ev.e] : p \in FailedStep(mon, ev)}
    /\ Diverge(Proj' # Obs(ev.o), Proj', Obs(ev.o))
    /\ UNCHANGED <<cid, ncases, nfaulted, nclean>>

EndStep(ev) ==
    /\ UNCHANGED <<vars, mon, cid, ncases>>
    /\ viol' = viol \cup {[case |-> cid, line |-> l, prop |-> p, e |-> ev.e] : p \in FailedEnd(mon, ev.o)}
    /\ nfaulted' = nfaulted + (IF mon.nflt > 0 THEN 1 ELSE 0)
    /\ nclean' = nclean + (IF mon.nflt = 0 THEN 1 ELSE 0)
    /\ Diverge(Proj # Obs(ev.o) \/ (ev.o.eq = 1) # (got = File(n)), Proj, Obs(ev.o))

\* lines that carry no observation (harness notes): skipped
OtherStep(ev) == UNCHANGED <<vars, mon, cid, ncases, viol, ndiv, divs, dflag, nfaulted, nclean>>

TNext ==
    /\ l <= Len(TraceLog)
    /\ l' = l + 1
    /\ LET ev == TraceLog[l] IN
        CASE ev.e = "Reset" -> ResetStep(ev)
          [] ev.e = "End"   -> EndStep(ev)
          [] ev.e \in {"Offer", "RDeliver", "SDeliver", "Fault", "Inject", "Burst"} -> OpStep(ev)
          [] OTHER -> OtherStep(ev)

TSpec == TInit /\ [][TNext]_tvars

Summary == [cases |-> ncases, lines |-> l - 1, viol |-> viol, ndiv |-> ndiv, divs |-> divs,
            faulted |-> nfaulted, clean |-> nclean]
Done == l <= Len(TraceLog) \/ CSVWrite("%1$s", <<ToJson(Summary)>>, IOEnv.QXV_SUMMARY)
=============================================================================
