SPECIFICATION TSpec
CONSTANTS
  W = 65536
  Anns = {"both"}
  Devs = {"all", "short", "fail"}
  Sizes = {0}
  MaxFaults = 99
  MaxInject = 99
  FaultKinds = {"Lose", "Drop", "Dup", "Flip", "WrongSid", "WrongFrom", "Swap", "EarlyClose"}
  InjectKinds = {"from", "res", "sid"}
  InjectElems = {"open", "data", "close"}
  Bursts = {}
  MaxHist = 99
INVARIANT Done
CHECK_DEADLOCK FALSE
