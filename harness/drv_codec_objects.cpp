// Field tables for objects built through setters (see codec_fields.h) and the typed scalar
// helpers of QXmppUtils.  Part of `qxv codec`.
#include "codec_fields.h"
#include "codec_xml.h"

using namespace QXmpp::Private;

namespace {

using qxvfields::Field;
using qxvfields::makeType;

// concrete strings for a character class (kept in step with ClassValues of drv_codec.cpp)
const QStringList &classNames()
{
    static const QStringList c { "Plain", "Lt", "Gt", "Amp", "Quot", "Apos", "NonAscii", "Astral", "InnerSpace", "Newline" };
    return c;
}

QString classString(Ctx &ctx, int cls, int variant)
{
    static const QVector<QStringList> fixed {
        { "qxvplain", "Zz09.-_~" },
        { "<", "q<z", "<b>x</b>", "</x><y>", "<![CDATA[x]]>" },
        { ">", "q>z", "]]>", "/>" },
        { "&", "q&z", "&amp;", "&lt;", "&#60;", "&nope;" },
        { "\"", "q\"z", "\"/><inj x=\"" },
        { "'", "q'z", "'/><inj x='" },
        { QStringLiteral("é"), QStringLiteral("qäöüßz"), QStringLiteral("日本語"), QStringLiteral("é"), QStringLiteral("x y") },
        { QStringLiteral("\U0001F600"), QStringLiteral("q\U0001D11Ez"), QStringLiteral("\U0010FFFDx") },
        { "a b", "a  b" },
        { "a\nb", "a\tb" },
    };
    const auto &l = fixed[cls];
    if (variant < l.size()) {
        return l[variant];
    }
    // seeded random string of the class, padded so that it has no white space at the edges
    static const QString plain = QStringLiteral("abcXYZ019-_.:;/@#%+=,!?()[]{}|~^$*`\\");
    QString s;
    int n = 1 + int(ctx.rnd(8));
    for (int i = 0; i < n; i++) {
        if (ctx.rnd(2)) {
            s += plain[int(ctx.rnd(plain.size()))];
        } else {
            s += (cls == 8) ? QStringLiteral(" ") : (cls == 9) ? QStringLiteral("\n") : l[0];
        }
    }
    return QStringLiteral("r") + s + QStringLiteral("z");
}

// ---------------------------------------------------------------------------------------------
QVector<ObjectType> buildTypes()
{
    QVector<ObjectType> r;

    {
        using T = QXmppMessage;
        r << makeType<T>("QXmppMessage", {
            F_STR(T, "to", setTo, to), F_STR(T, "from", setFrom, from), F_STR(T, "id", setId, id), F_STR(T, "lang", setLang, lang),
            F_ENUM(T, "type", QXmppMessage::Type, 0, 5, setType, type),
            F_STR(T, "body", setBody, body), F_STR(T, "subject", setSubject, subject), F_STR(T, "thread", setThread, thread),
            F_CUSTOM(T, "parentThread", "str", SETL({ if (o.thread().isEmpty()) o.setThread("t"); o.setParentThread(plain ? v.plain : v.str); }), GETL(return o.parentThread())),
            F_ENUM(T, "state", QXmppMessage::State, 0, 6, setState, state),
            F_DT(T, "stamp", setStamp, stamp),
            // XEP-0184: a receipt (received/@id) and a receipt request exclude each other (documented in toXml)
            F_CUSTOM(T, "receipt", "bool|str", SETL(if (v.idx % 2) { o.setReceiptRequested(true); } else { o.setReceiptId(plain ? v.plain : v.str); }),
                     GETL(return qxvfields::b2s(o.isReceiptRequested()) + QChar('|') + o.receiptId())),
            F_BOOL(T, "attention", setAttentionRequested, isAttentionRequested),
            F_STR(T, "mucInvitationJid", setMucInvitationJid, mucInvitationJid),
            F_CUSTOM(T, "mucInvitationPassword", "str", SETL({ if (o.mucInvitationJid().isEmpty()) o.setMucInvitationJid("room@muc"); o.setMucInvitationPassword(plain ? v.plain : v.str); }), GETL(return o.mucInvitationPassword())),
            F_CUSTOM(T, "mucInvitationReason", "str", SETL({ if (o.mucInvitationJid().isEmpty()) o.setMucInvitationJid("room@muc"); o.setMucInvitationReason(plain ? v.plain : v.str); }), GETL(return o.mucInvitationReason())),
            F_BOOL(T, "private", setPrivate, isPrivate),
            F_STR(T, "replaceId", setReplaceId, replaceId),
            F_BOOL(T, "markable", setMarkable, isMarkable),
            F_CUSTOM(T, "marker", "enum+str", SETL({ o.setMarker(QXmppMessage::Marker(1 + v.idx % 3)); o.setMarkerId(plain ? v.plain : v.str); }), GETL(return QString::number(o.marker()) + QChar(0x1f) + o.markedId())),
            F_CUSTOM(T, "markedThread", "str", SETL({ if (o.marker() == QXmppMessage::NoMarker) { o.setMarker(QXmppMessage::Displayed); o.setMarkerId("m1"); } o.setMarkedThread(plain ? v.plain : v.str); }), GETL(return o.markedThread())),
            F_CUSTOM(T, "hints", "flags", SETL({ for (int b = 0; b < 4; b++) if ((v.idx + 1) & (1 << b)) o.addHint(QXmppMessage::Hint(1 << b)); }), GETL({ int m = 0; for (int b = 0; b < 4; b++) m |= o.hasHint(QXmppMessage::Hint(1 << b)) ? (1 << b) : 0; return QString::number(m); })),
            F_STR(T, "originId", setOriginId, originId),
            F_CUSTOM(T, "stanzaIds", "list:struct", SETL(QVector<QXmppStanzaId> l; for (const auto &m : qxvfields::members(v, plain)) { QXmppStanzaId a; a.id = m; a.by = QStringLiteral("room@muc"); l << a; } o.setStanzaIds(l)),
                     GETL(QStringList l; for (const auto &s : o.stanzaIds()) l << s.id + QChar('|') + s.by; return qxvfields::list2s(l))),
            F_STR(T, "attachId", setAttachId, attachId),
            F_STR(T, "mixUserJid", setMixUserJid, mixUserJid), F_STR(T, "mixUserNick", setMixUserNick, mixUserNick),
            F_ENUM(T, "encryptionMethod", QXmpp::EncryptionMethod, 2, 4, setEncryptionMethod, encryptionMethod),
            F_CUSTOM(T, "encryptionName", "str", SETL({ if (o.encryptionMethodNs().isEmpty()) o.setEncryptionMethodNs("urn:example:enc"); o.setEncryptionName(plain ? v.plain : v.str); }), GETL(return o.encryptionName())),
            F_CUSTOM(T, "spoiler", "bool+str", SETL(o.setIsSpoiler(true); if (v.idx % 3) { o.setSpoilerHint(plain ? v.plain : v.str); }),
                     GETL(return qxvfields::b2s(o.isSpoiler()) + QChar('|') + o.spoilerHint())),
            F_STR(T, "outOfBandUrl", setOutOfBandUrl, outOfBandUrl),
            F_CUSTOM(T, "reply", "str", SETL({ QXmpp::Reply rp; rp.to = plain ? v.plain : v.str; rp.id = plain ? v.plain : v.str; o.setReply(rp); }), GETL({ auto rp = o.reply(); return rp ? rp->to + QChar('|') + rp->id : QStringLiteral("(none)"); })),
            F_CUSTOM(T, "reaction", "str+set:str", SETL(QXmppMessageReaction re; re.setMessageId(plain ? v.plain : v.str); auto em = qxvfields::members(v, plain); em.removeDuplicates(); /* setEmojis(): "Duplicates are not allowed" */ re.setEmojis(qxvfields::fromStrings<QVector<QString>>(em)); o.setReaction(re)),
                     GETL(auto re = o.reaction(); if (!re) return QStringLiteral("(none)"); return re->messageId() + QChar('|') + qxvfields::set2s(qxvfields::toStrings(re->emojis())))),
            F_CUSTOM(T, "mixInvitation", "str", SETL({ QXmppMixInvitation mi; mi.setInviterJid(plain ? v.plain : v.str); mi.setInviteeJid("b@x"); mi.setChannelJid("c@x"); mi.setToken(plain ? v.plain : v.str); o.setMixInvitation(mi); }), GETL({ auto mi = o.mixInvitation(); return mi ? mi->inviterJid() + '|' + mi->inviteeJid() + '|' + mi->channelJid() + '|' + mi->token() : QStringLiteral("(none)"); })),
            F_CUSTOM(T, "jingleMessageInitiation", "nonza", SETL(QXmppJingleMessageInitiationElement e; e.setId(plain ? v.plain : v.str); switch (v.idx % 4) {
                     case 0: e.setType(QXmppJingleMessageInitiationElement::Type::Reject); e.setContainsTieBreak(true); break;
                     case 1: e.setType(QXmppJingleMessageInitiationElement::Type::Finish); e.setMigratedTo(plain ? v.plain : v.str); break;
                     case 2: { e.setType(QXmppJingleMessageInitiationElement::Type::Retract); QXmppJingleReason r; r.setType(QXmppJingleReason::Busy); e.setReason(r); e.setContainsTieBreak(true); break; }
                     default: e.setType(QXmppJingleMessageInitiationElement::Type::Proceed); } o.setJingleMessageInitiationElement(e)),
                     GETL(auto e = o.jingleMessageInitiationElement(); if (!e) return QStringLiteral("(none)"); return QString::number(int(e->type())) + QChar('|') + e->id() + QChar('|') + qxvfields::b2s(e->containsTieBreak()) + QChar('|') + e->migratedTo() + QChar('|') + (e->reason() ? QString::number(e->reason()->type()) : QStringLiteral("-")))),
            F_CUSTOM(T, "fallbackMarkers", "str", SETL({ QXmppFallback fb(plain ? v.plain : v.str, { QXmppFallback::Reference { QXmppFallback::Body, QXmppFallback::Range { uint32_t(v.idx), std::numeric_limits<uint32_t>::max() } } }); o.setFallbackMarkers({ fb }); }), GETL({ QStringList l; for (const auto &fb : o.fallbackMarkers()) { l << fb.forNamespace(); for (const auto &rf : fb.references()) l << QString::number(int(rf.element)) + '|' + (rf.range ? QString::number(rf.range->start) + '-' + QString::number(rf.range->end) : QStringLiteral("-")); } return l.join(QChar(0x1f)); })),
        });
    }
    {
        using T = QXmppPresence;
        r << makeType<T>("QXmppPresence", {
            F_STR(T, "to", setTo, to), F_STR(T, "from", setFrom, from), F_STR(T, "id", setId, id), F_STR(T, "lang", setLang, lang),
            F_ENUM(T, "type", QXmppPresence::Type, 0, 8, setType, type),
            F_ENUM(T, "availableStatusType", QXmppPresence::AvailableStatusType, 0, 5, setAvailableStatusType, availableStatusType),
            F_INT(T, "priority", qint8, setPriority, priority),
            F_STR(T, "statusText", setStatusText, statusText),
            // the password travels inside <x xmlns=muc/>, which is written for MUC-supporting presences only
            F_CUSTOM(T, "muc", "bool+str", SETL(o.setMucSupported(true); if (v.idx % 2) { o.setMucPassword(plain ? v.plain : v.str); }), GETL(return qxvfields::b2s(o.isMucSupported()) + QChar('|') + o.mucPassword())),
            F_CUSTOM(T, "mucStatusCodes", "list:int", SETL(QList<int> l; const int a = 100 + v.idx % 200; switch (qxvfields::listShape(v)) { case 0: break; case 1: l << a; break; case 2: l << a << 110; break; case 3: l << a << a; break; case 4: l << a << 110 << a; break; case 5: l << 0 << a; break; case 6: l << 999 << 100; break; default: l << a << -1; } o.setMucStatusCodes(l)),
                     GETL(QStringList l; for (int c : o.mucStatusCodes()) l << QString::number(c); return qxvfields::list2s(l))),
            F_CUSTOM(T, "mucItem", "str", SETL({ QXmppMucItem it; it.setJid(plain ? v.plain : v.str); it.setNick(plain ? v.plain : v.str); it.setReason(plain ? v.plain : v.str); it.setActor(plain ? v.plain : v.str);
                                            it.setAffiliation(QXmppMucItem::Affiliation(v.idx % 6)); it.setRole(QXmppMucItem::Role(v.idx % 5)); o.setMucItem(it); }), GETL({ auto it = o.mucItem(); return it.jid() + '|' + it.nick() + '|' + it.reason() + '|' + it.actor() + '|' + QString::number(it.affiliation()) + '|' + QString::number(it.role()); })),
            // XEP-0153: the hash belongs to VCardUpdateValidPhoto only
            F_CUSTOM(T, "vCardUpdate", "enum+bytes", SETL(auto t = QXmppPresence::VCardUpdateType(v.idx % 4); o.setVCardUpdateType(t); if (t == QXmppPresence::VCardUpdateValidPhoto) { o.setPhotoHash(v.str.toUtf8() + QByteArray(1, char(1 + v.idx))); }),
                     GETL(return QString::number(o.vCardUpdateType()) + QChar('|') + qxvfields::bytes2s(o.photoHash()))),
            // XEP-0115: <c/> is written when hash, node and ver are all present
            F_CUSTOM(T, "capability", "str+bytes", SETL(o.setCapabilityHash(plain ? v.plain : v.str); o.setCapabilityNode(plain ? v.plain : v.str); o.setCapabilityVer(v.str.toUtf8() + QByteArray(1, char(1 + v.idx)) + QByteArray(v.idx % 3, '\0'))),
                     GETL(return o.capabilityHash() + QChar('|') + o.capabilityNode() + QChar('|') + qxvfields::bytes2s(o.capabilityVer()))),
            F_BOOL(T, "isPreparingMujiSession", setIsPreparingMujiSession, isPreparingMujiSession),
            F_STR(T, "oldJid", setOldJid, oldJid),
            F_DT(T, "lastUserInteraction", setLastUserInteraction, lastUserInteraction),
            F_STR(T, "mixUserJid", setMixUserJid, mixUserJid), F_STR(T, "mixUserNick", setMixUserNick, mixUserNick),
        });
    }
    {
        using T = QXmppIq;
        r << makeType<T>("QXmppIq", {
            F_STR(T, "to", setTo, to), F_STR(T, "from", setFrom, from), F_STR(T, "id", setId, id), F_STR(T, "lang", setLang, lang),
            F_ENUM(T, "type", QXmppIq::Type, 0, 4, setType, type),
            F_CUSTOM(T, "error", "enum+str", SETL({ o.setType(QXmppIq::Error); o.setError(QXmppStanza::Error(QXmppStanza::Error::Type(v.idx % 5), QXmppStanza::Error::Condition(v.idx % 21), plain ? v.plain : v.str)); }), GETL({ auto e = o.errorOptional(); return e ? QString::number(e->type()) + '|' + QString::number(e->condition()) + '|' + e->text() : QStringLiteral("(none)"); })),
            F_CUSTOM(T, "extensions", "str", SETL({ QXmppElement e; e.setTagName("x"); e.setAttribute("xmlns", "urn:example:x"); e.setAttribute("a", plain ? v.plain : v.str); e.setValue(plain ? v.plain : v.str); o.setExtensions({ e }); }), GETL({ QStringList l; for (const auto &e : o.extensions()) l << e.tagName() + '|' + e.attribute("xmlns") + '|' + e.attribute("a") + '|' + e.value(); return l.join(QChar(0x1f)); })),
        });
    }
    {
        using T = QXmppStanza::Error;
        r << makeType<T>("QXmppStanza::Error", {
            F_ENUM(T, "type", QXmppStanza::Error::Type, 0, 5, setType, type),
            F_ENUM(T, "condition", QXmppStanza::Error::Condition, 0, 21, setCondition, condition),
            F_STR(T, "text", setText, text), F_STR(T, "by", setBy, by),
            F_CUSTOM(T, "redirectionUri", "str", SETL({ o.setCondition(QXmppStanza::Error::Redirect); o.setRedirectionUri(plain ? v.plain : v.str); }), GETL(return o.redirectionUri())),
            // XEP-0363: either <file-too-large/> with the maximum size or <retry/> with a date
            F_CUSTOM(T, "upload", "bool+int:qint64|datetime", SETL(if (v.idx % 2) { o.setFileTooLarge(true); auto b = qxvfields::intBounds<qint64>(); o.setMaxFileSize(qMax<qint64>(0, b[v.idx % b.size()])); } else { o.setRetryDate(qxvfields::dateTimes()[v.idx % qxvfields::dateTimes().size()]); }),
                     GETL(return qxvfields::b2s(o.fileTooLarge()) + QChar('|') + QString::number(o.maxFileSize()) + QChar('|') + qxvfields::dt2s(o.retryDate()))),
        }, [](T &o) { o.setType(QXmppStanza::Error::Cancel); o.setCondition(QXmppStanza::Error::BadRequest); });
    }
    {
        using T = QXmppExtendedAddress;
        r << makeType<T>("QXmppExtendedAddress", {
            F_STR(T, "jid", setJid, jid), F_STR(T, "type", setType, type), F_STR(T, "description", setDescription, description), F_BOOL(T, "delivered", setDelivered, isDelivered),
        }, [](T &o) { o.setJid("a@b"); o.setType("to"); });
    }
    {
        using T = QXmppVersionIq;
        r << makeType<T>("QXmppVersionIq", {
            F_STR(T, "id", setId, id), F_ENUM(T, "type", QXmppIq::Type, 1, 3, setType, type),
            F_STR(T, "name", setName, name), F_STR(T, "os", setOs, os), F_STR(T, "version", setVersion, version),
        });
    }
    {
        using T = QXmppBindIq;
        r << makeType<T>("QXmppBindIq", { F_STR(T, "id", setId, id), F_STR(T, "jid", setJid, jid), F_STR(T, "resource", setResource, resource) });
    }
    {
        using T = QXmppRosterIq::Item;
        r << makeType<T>("QXmppRosterIq::Item", {
            F_STR(T, "bareJid", setBareJid, bareJid), F_STR(T, "name", setName, name), F_STR(T, "subscriptionStatus", setSubscriptionStatus, subscriptionStatus),
            F_ENUM(T, "subscriptionType", QXmppRosterIq::Item::SubscriptionType, 0, 5, setSubscriptionType, subscriptionType),
            F_BOOL(T, "isApproved", setIsApproved, isApproved),
            F_CUSTOM(T, "groups", "set:str", SETL(const auto m = qxvfields::members(v, plain); o.setGroups(QSet<QString>(m.begin(), m.end()))), GETL(return qxvfields::set2s(o.groups().values()))),
            F_BOOL(T, "isMixChannel", setIsMixChannel, isMixChannel),
            F_CUSTOM(T, "mixParticipantId", "str", SETL({ o.setIsMixChannel(true); o.setMixParticipantId(plain ? v.plain : v.str); }), GETL(return o.mixParticipantId())),
        }, [](T &o) { o.setBareJid("c@d"); });
    }
    {
        using T = QXmppRosterIq;
        r << makeType<T>("QXmppRosterIq", {
            F_STR(T, "id", setId, id), F_ENUM(T, "type", QXmppIq::Type, 1, 3, setType, type), F_STR(T, "version", setVersion, version), F_BOOL(T, "mixAnnotate", setMixAnnotate, mixAnnotate),
            F_CUSTOM(T, "items", "list:struct", SETL(QList<QXmppRosterIq::Item> l; for (const auto &m : qxvfields::members(v, plain)) { QXmppRosterIq::Item a; a.setBareJid(m); a.setName(m); l << a; } o.setItems(l)),
                     GETL(QStringList l; for (const auto &i : o.items()) l << i.bareJid() + '|' + i.name(); return qxvfields::list2s(l))),
        });
    }
    {
        using T = QXmppDiscoveryIq;
        // which children are written depends on the query type (info: identities, features, form; items: items)
        r << makeType<T>("QXmppDiscoveryIq[info]", {
            F_STR(T, "id", setId, id), F_STR(T, "queryNode", setQueryNode, queryNode),
            F_LIST(T, "features", setFeatures, features),
            F_CUSTOM(T, "identities", "list:struct", SETL(QList<QXmppDiscoveryIq::Identity> l; for (const auto &m : qxvfields::members(v, plain)) { QXmppDiscoveryIq::Identity i; i.setCategory(m); i.setType(m); i.setName(m); i.setLanguage("en"); l << i; } o.setIdentities(l)),
                     GETL(QStringList l; for (const auto &i : o.identities()) l << i.category() + '|' + i.type() + '|' + i.name() + '|' + i.language(); return qxvfields::list2s(l))),
        }, [](T &o) { o.setQueryType(QXmppDiscoveryIq::InfoQuery); });
        r << makeType<T>("QXmppDiscoveryIq[items]", {
            F_STR(T, "id", setId, id), F_STR(T, "queryNode", setQueryNode, queryNode),
            F_CUSTOM(T, "items", "list:struct", SETL(QList<QXmppDiscoveryIq::Item> l; for (const auto &m : qxvfields::members(v, plain)) { QXmppDiscoveryIq::Item i; i.setJid(m); i.setName(m); i.setNode(m); l << i; } o.setItems(l)),
                     GETL(QStringList l; for (const auto &i : o.items()) l << i.jid() + '|' + i.name() + '|' + i.node(); return qxvfields::list2s(l))),
        }, [](T &o) { o.setQueryType(QXmppDiscoveryIq::ItemsQuery); });
        // a default-constructed IQ (no setQueryType()) must serialize to something it parses back
        r << makeType<T>("QXmppDiscoveryIq[default-constructed]", { F_STR(T, "id", setId, id), F_STR(T, "queryNode", setQueryNode, queryNode) });
    }
    {
        using T = QXmppEntityTimeIq;
        r << makeType<T>("QXmppEntityTimeIq", {
            F_STR(T, "id", setId, id),
            F_CUSTOM(T, "tzo", "int", SETL({ const auto &t = qxvfields::tzOffsets(); if (!o.utc().isValid()) o.setUtc(qxvfields::dateTimes()[0]); o.setTzo(t[v.idx % t.size()]); }), GETL(return QString::number(o.tzo()))),
            F_DT(T, "utc", setUtc, utc),
        }, [](T &o) { o.setType(QXmppIq::Result); });
    }
    {
        using T = QXmppResultSetQuery;
        r << makeType<T>("QXmppResultSetQuery", {
            F_CUSTOM(T, "max", "int", SETL({ static const int t[] = { 0, 1, 10, std::numeric_limits<int>::max() }; o.setMax(t[v.idx % 4]); }), GETL(return QString::number(o.max()))),
            F_CUSTOM(T, "index", "int", SETL({ static const int t[] = { 0, 1, 10, std::numeric_limits<int>::max() }; o.setIndex(t[v.idx % 4]); }), GETL(return QString::number(o.index()))),
            F_STR(T, "before", setBefore, before), F_STR(T, "after", setAfter, after),
        });
    }
    {
        using T = QXmppResultSetReply;
        r << makeType<T>("QXmppResultSetReply", {
            F_STR(T, "first", setFirst, first), F_STR(T, "last", setLast, last),
            F_CUSTOM(T, "count", "int", SETL({ static const int t[] = { 0, 1, 10, std::numeric_limits<int>::max() }; o.setCount(t[v.idx % 4]); }), GETL(return QString::number(o.count()))),
            F_CUSTOM(T, "index", "int", SETL({ static const int t[] = { 0, 1, 10, std::numeric_limits<int>::max() }; if (o.first().isEmpty()) o.setFirst("f"); o.setIndex(t[v.idx % 4]); }), GETL(return QString::number(o.index()))),
        });
    }
    {
        using T = QXmppMucItem;
        r << makeType<T>("QXmppMucItem", {
            F_STR(T, "actor", setActor, actor), F_STR(T, "jid", setJid, jid), F_STR(T, "nick", setNick, nick), F_STR(T, "reason", setReason, reason),
            F_ENUM(T, "affiliation", QXmppMucItem::Affiliation, 0, 6, setAffiliation, affiliation), F_ENUM(T, "role", QXmppMucItem::Role, 0, 5, setRole, role),
        });
    }
    {
        using T = QXmppVCardIq;
        r << makeType<T>("QXmppVCardIq", {
            F_STR(T, "id", setId, id),
            F_CUSTOM(T, "birthday", "date", SETL({ o.setBirthday(QDate(1900 + v.idx * 13, 1 + v.idx % 12, 1 + v.idx % 28)); }), GETL(return o.birthday().toString(Qt::ISODate))),
            F_STR(T, "description", setDescription, description), F_STR(T, "email", setEmail, email), F_STR(T, "firstName", setFirstName, firstName),
            F_STR(T, "fullName", setFullName, fullName), F_STR(T, "lastName", setLastName, lastName), F_STR(T, "middleName", setMiddleName, middleName),
            F_STR(T, "nickName", setNickName, nickName), F_STR(T, "url", setUrl, url),
            F_CUSTOM(T, "photo", "bytes", SETL({ o.setPhoto(v.str.toUtf8() + QByteArray(1, char(v.idx)) + QByteArray(2, '\0')); o.setPhotoType("image/png"); }), GETL(return qxvfields::bytes2s(o.photo()) + '|' + o.photoType())),
            F_CUSTOM(T, "addresses", "str", SETL({ QXmppVCardAddress a; a.setCountry(plain ? v.plain : v.str); a.setLocality(plain ? v.plain : v.str); a.setPostcode(plain ? v.plain : v.str); a.setRegion(plain ? v.plain : v.str); a.setStreet(plain ? v.plain : v.str);
                                              a.setType(QXmppVCardAddress::Type(1 << (v.idx % 4))); o.setAddresses({ a }); }), GETL({ QStringList l; for (const auto &a : o.addresses()) l << a.country() + '|' + a.locality() + '|' + a.postcode() + '|' + a.region() + '|' + a.street() + '|' + QString::number(int(a.type())); return l.join(QChar(0x1f)); })),
            F_CUSTOM(T, "emails", "list:struct", SETL(QList<QXmppVCardEmail> l; for (const auto &m : qxvfields::members(v, plain)) { QXmppVCardEmail e; e.setAddress(m); e.setType(QXmppVCardEmail::Type(1 << (v.idx % 5))); l << e; } o.setEmails(l)),
                     GETL(QStringList l; for (const auto &e : o.emails()) l << e.address() + '|' + QString::number(int(e.type())); return qxvfields::list2s(l))),
            F_CUSTOM(T, "phones", "list:struct", SETL(QList<QXmppVCardPhone> l; for (const auto &m : qxvfields::members(v, plain)) { QXmppVCardPhone p; p.setNumber(m); p.setType(QXmppVCardPhone::Type(1 << (v.idx % 13))); l << p; } o.setPhones(l)),
                     GETL(QStringList l; for (const auto &p : o.phones()) l << p.number() + '|' + QString::number(int(p.type())); return qxvfields::list2s(l))),
            F_CUSTOM(T, "organization", "str", SETL({ QXmppVCardOrganization g; g.setOrganization(plain ? v.plain : v.str); g.setUnit(plain ? v.plain : v.str); g.setTitle(plain ? v.plain : v.str); g.setRole(plain ? v.plain : v.str); o.setOrganization(g); }), GETL({ auto g = o.organization(); return g.organization() + '|' + g.unit() + '|' + g.title() + '|' + g.role(); })),
        });
    }
    {
        using T = QXmppDataForm;
        r << makeType<T>("QXmppDataForm", {
            F_ENUM(T, "type", QXmppDataForm::Type, 1, 4, setType, type),
            F_STR(T, "title", setTitle, title), F_STR(T, "instructions", setInstructions, instructions),
            F_CUSTOM(T, "textField", "str", SETL({ QXmppDataForm::Field f(QXmppDataForm::Field::TextSingleField); f.setKey(plain ? v.plain : v.str); f.setLabel(plain ? v.plain : v.str); f.setDescription(plain ? v.plain : v.str); f.setValue(plain ? v.plain : v.str); f.setRequired(v.idx % 2);
                                              auto fs = o.fields(); fs << f; o.setFields(fs); }), GETL({ QStringList l; for (const auto &f : o.fields()) if (f.type() == QXmppDataForm::Field::TextSingleField) l << f.key() + '|' + f.label() + '|' + f.description() + '|' + f.value().toString() + '|' + qxvfields::b2s(f.isRequired()); return l.join(QChar(0x1f)); })),
            F_CUSTOM(T, "listMultiValues", "list:str", SETL(QXmppDataForm::Field f(QXmppDataForm::Field::ListMultiField); f.setKey("lm"); f.setValue(qxvfields::members(v, plain)); auto fs = o.fields(); fs << f; o.setFields(fs)),
                     GETL(QStringList l; for (const auto &f : o.fields()) if (f.type() == QXmppDataForm::Field::ListMultiField) l << qxvfields::list2s(f.value().toStringList()); return l.join(QChar(0x1e)))),
            F_CUSTOM(T, "jidMultiValues", "list:str", SETL(QXmppDataForm::Field f(QXmppDataForm::Field::JidMultiField); f.setKey("jm"); f.setValue(qxvfields::members(v, plain)); auto fs = o.fields(); fs << f; o.setFields(fs)),
                     GETL(QStringList l; for (const auto &f : o.fields()) if (f.type() == QXmppDataForm::Field::JidMultiField) l << qxvfields::list2s(f.value().toStringList()); return l.join(QChar(0x1e)))),
            F_CUSTOM(T, "listOptions", "list:struct", SETL(QXmppDataForm::Field f(QXmppDataForm::Field::ListSingleField); f.setKey("ls"); QList<QPair<QString, QString>> ops; for (const auto &m : qxvfields::members(v, plain)) { ops << qMakePair(m, m); } f.setOptions(ops); auto fs = o.fields(); fs << f; o.setFields(fs)),
                     GETL(QStringList l; for (const auto &f : o.fields()) if (f.type() == QXmppDataForm::Field::ListSingleField) { QStringList ol; for (const auto &op : f.options()) ol << op.first + '=' + op.second; l << qxvfields::list2s(ol); } return l.join(QChar(0x1e)))),
            F_CUSTOM(T, "boolField", "bool", SETL({ QXmppDataForm::Field f(QXmppDataForm::Field::BooleanField); f.setKey("flag"); f.setValue(v.idx % 2 == 0); auto fs = o.fields(); fs << f; o.setFields(fs); }), GETL({ QStringList l; for (const auto &f : o.fields()) if (f.type() == QXmppDataForm::Field::BooleanField) l << qxvfields::b2s(f.value().toBool()); return l.join(QChar(0x1f)); })),
            F_CUSTOM(T, "textMultiValues", "list:str", SETL(QXmppDataForm::Field f(QXmppDataForm::Field::TextMultiField); f.setKey("tm"); f.setValue(qxvfields::members(v, plain)); auto fs = o.fields(); fs << f; o.setFields(fs)),
                     GETL(QStringList l; for (const auto &f : o.fields()) if (f.type() == QXmppDataForm::Field::TextMultiField) l << qxvfields::list2s(f.value().toStringList()); return l.join(QChar(0x1e)))),
        }, [](T &o) { o.setType(QXmppDataForm::Form); });
    }
    {
        using T = QXmppMixInvitation;
        r << makeType<T>("QXmppMixInvitation", { F_STR(T, "inviterJid", setInviterJid, inviterJid), F_STR(T, "inviteeJid", setInviteeJid, inviteeJid), F_STR(T, "channelJid", setChannelJid, channelJid), F_STR(T, "token", setToken, token) });
    }
    {
        using T = QXmppMixIq;
        // XEP-0405/0369: the PAM wrapper carries the channel JID in requests, the participant id comes back in results
        r << makeType<T>("QXmppMixIq[client-join,set]", {
            F_STR(T, "id", setId, id), F_STR(T, "channelJid", setChannelJid, channelJid), F_STR(T, "channelId", setChannelId, channelId), F_STR(T, "nick", setNick, nick),
            F_CUSTOM(T, "subscriptions", "flags", SETL(o.setSubscriptions(QXmppMixConfigItem::Nodes(1 << (v.idx % 8)))), GETL(return QString::number(int(o.subscriptions())))),
        }, [](T &o) { o.setType(QXmppIq::Set); o.setActionType(QXmppMixIq::ClientJoin); });
        r << makeType<T>("QXmppMixIq[join,result]", {
            F_STR(T, "id", setId, id), F_STR(T, "participantId", setParticipantId, participantId), F_STR(T, "channelId", setChannelId, channelId), F_STR(T, "nick", setNick, nick),
            F_ENUM(T, "actionType", QXmppMixIq::Type, 3, 2, setActionType, actionType),
        }, [](T &o) { o.setType(QXmppIq::Result); o.setActionType(QXmppMixIq::Join); });
    }
    {
        using T = QXmppMamQueryIq;
        r << makeType<T>("QXmppMamQueryIq", {
            F_STR(T, "id", setId, id), F_STR(T, "node", setNode, node), F_STR(T, "queryId", setQueryId, queryId),
            F_CUSTOM(T, "rsm", "str", SETL({ QXmppResultSetQuery q; q.setMax(10 + v.idx); q.setAfter(plain ? v.plain : v.str); o.setResultSetQuery(q); }), GETL(return QString::number(o.resultSetQuery().max()) + '|' + o.resultSetQuery().after())),
        }, [](T &o) { o.setType(QXmppIq::Set); });
    }
    {
        using T = QXmppMamResultIq;
        r << makeType<T>("QXmppMamResultIq", {
            F_STR(T, "id", setId, id), F_BOOL(T, "complete", setComplete, complete),
            F_CUSTOM(T, "rsm", "str", SETL({ QXmppResultSetReply q; q.setFirst(plain ? v.plain : v.str); q.setLast(plain ? v.plain : v.str); q.setCount(v.idx); o.setResultSetReply(q); }), GETL(return o.resultSetReply().first() + '|' + o.resultSetReply().last() + '|' + QString::number(o.resultSetReply().count()))),
        }, [](T &o) { o.setType(QXmppIq::Result); });
    }
    {
        using T = QXmppPushEnableIq;
        r << makeType<T>("QXmppPushEnableIq", {
            F_STR(T, "id", setId, id), F_STR(T, "jid", setJid, jid), F_STR(T, "node", setNode, node),
            F_CUSTOM(T, "mode", "enum", SETL({ o.setMode(v.idx % 2 ? QXmppPushEnableIq::Enable : QXmppPushEnableIq::Disable); }), GETL(T c(o); return QString::number(int(c.mode())))),
        }, [](T &o) { o.setType(QXmppIq::Set); });
    }
    {
        using T = QXmppIbbOpenIq;
        r << makeType<T>("QXmppIbbOpenIq", {
            F_STR(T, "sid", setSid, sid),
            F_CUSTOM(T, "blockSize", "int:long", SETL({ static const long t[] = { 0, 1, 4096, 65535, 65536, std::numeric_limits<int>::max() }; o.setBlockSize(t[v.idx % 6]); }), GETL(return QString::number(o.blockSize()))),
        }, [](T &o) { o.setType(QXmppIq::Set); });
    }
    {
        using T = QXmppIbbCloseIq;
        r << makeType<T>("QXmppIbbCloseIq", { F_STR(T, "sid", setSid, sid) }, [](T &o) { o.setType(QXmppIq::Set); });
    }
    {
        using T = QXmppIbbDataIq;
        r << makeType<T>("QXmppIbbDataIq", { F_STR(T, "sid", setSid, sid), F_INT(T, "sequence", quint16, setSequence, sequence), F_BYTES(T, "payload", setPayload, payload) },
                         [](T &o) { o.setType(QXmppIq::Set); });
    }
    {
        using T = QXmppByteStreamIq;
        r << makeType<T>("QXmppByteStreamIq", {
            F_STR(T, "sid", setSid, sid), F_ENUM(T, "mode", QXmppByteStreamIq::Mode, 0, 3, setMode, mode), F_STR(T, "activate", setActivate, activate), F_STR(T, "streamHostUsed", setStreamHostUsed, streamHostUsed),
            F_CUSTOM(T, "streamHosts", "list:struct", SETL(QList<QXmppByteStreamIq::StreamHost> l; auto b = qxvfields::intBounds<quint16>(); for (const auto &m : qxvfields::members(v, plain)) { QXmppByteStreamIq::StreamHost h; h.setJid(m); h.setHost(m); h.setPort(b[v.idx % b.size()]); h.setZeroconf(m); l << h; } o.setStreamHosts(l)),
                     GETL(QStringList l; for (const auto &h : o.streamHosts()) l << h.jid() + '|' + h.host() + '|' + QString::number(h.port()) + '|' + h.zeroconf(); return qxvfields::list2s(l))),
        }, [](T &o) { o.setType(QXmppIq::Set); });
    }
    {
        using T = QXmppJinglePayloadType;
        r << makeType<T>("QXmppJinglePayloadType", {
            F_INT(T, "id", quint8, setId, id),
            // 0 channels is not a value of the field (1 is the default and is not written)
            F_CUSTOM(T, "channels", "int:quint8", SETL(auto b = qxvfields::intBounds<quint8>(); o.setChannels(qMax<quint8>(1, b[v.idx % b.size()]))), GETL(return QString::number(o.channels()))),
            F_CUSTOM(T, "clockrate", "int:uint", SETL({ static const unsigned t[] = { 0, 1, 8000, 48000, 90000, std::numeric_limits<unsigned>::max() }; o.setClockrate(t[v.idx % 6]); }), GETL(return QString::number(o.clockrate()))),
            F_CUSTOM(T, "maxptime", "int:uint", SETL({ static const unsigned t[] = { 0, 1, 20, 65536, std::numeric_limits<unsigned>::max() }; o.setMaxptime(t[v.idx % 5]); }), GETL(return QString::number(o.maxptime()))),
            F_CUSTOM(T, "ptime", "int:uint", SETL({ static const unsigned t[] = { 0, 1, 20, 65536, std::numeric_limits<unsigned>::max() }; o.setPtime(t[v.idx % 5]); }), GETL(return QString::number(o.ptime()))),
            F_STR(T, "name", setName, name),
            F_CUSTOM(T, "parameters", "strmap", SETL({ o.setParameters({ { plain ? v.plain : v.str, plain ? v.plain : v.str }, { "k2", "v2" } }); }), GETL({ QStringList l; auto m = o.parameters(); for (auto it = m.begin(); it != m.end(); ++it) l << it.key() + '=' + it.value(); return l.join(QChar(0x1f)); })),
        });
    }
    {
        using T = QXmppJingleCandidate;
        r << makeType<T>("QXmppJingleCandidate", {
            F_CUSTOM(T, "component", "int", SETL({ static const int t[] = { 0, 1, 2, 256, std::numeric_limits<int>::max() }; o.setComponent(t[v.idx % 5]); }), GETL(return QString::number(o.component()))),
            F_STR(T, "foundation", setFoundation, foundation),
            F_CUSTOM(T, "generation", "int", SETL({ static const int t[] = { 0, 1, 2, std::numeric_limits<int>::max() }; o.setGeneration(t[v.idx % 4]); }), GETL(return QString::number(o.generation()))),
            F_CUSTOM(T, "host", "addr", SETL({ static const char *t[] = { "192.0.2.1", "2001:db8::1", "127.0.0.1", "::1" }; o.setHost(QHostAddress(QString::fromLatin1(t[v.idx % 4]))); }), GETL(return o.host().toString())),
            F_STR(T, "id", setId, id),
            F_CUSTOM(T, "network", "int", SETL({ static const int t[] = { 0, 1, 2, std::numeric_limits<int>::max() }; o.setNetwork(t[v.idx % 4]); }), GETL(return QString::number(o.network()))),
            F_INT(T, "port", quint16, setPort, port),
            F_STR(T, "protocol", setProtocol, protocol),
            F_CUSTOM(T, "priority", "int", SETL({ static const int t[] = { 0, 1, 2130706431, std::numeric_limits<int>::max() }; o.setPriority(t[v.idx % 4]); }), GETL(return QString::number(o.priority()))),
            F_ENUM(T, "type", QXmppJingleCandidate::Type, 0, 4, setType, type),
        });
    }
    {
        using T = QXmppJingleIq;
        r << makeType<T>("QXmppJingleIq", {
            F_STR(T, "id", setId, id), F_ENUM(T, "action", QXmppJingleIq::Action, 0, 15, setAction, action),
            F_STR(T, "initiator", setInitiator, initiator), F_STR(T, "responder", setResponder, responder), F_STR(T, "sid", setSid, sid),
            F_STR(T, "mujiGroupChatJid", setMujiGroupChatJid, mujiGroupChatJid),
            F_CUSTOM(T, "reason", "enum+str", SETL({ o.reason().setType(QXmppJingleReason::Type(1 + v.idx % 17)); o.reason().setText(plain ? v.plain : v.str); }), GETL(return QString::number(o.reason().type()) + '|' + o.reason().text())),
            F_CUSTOM(T, "content", "str", SETL({ QXmppJingleIq::Content c; c.setCreator(plain ? v.plain : v.str); c.setName(plain ? v.plain : v.str); c.setSenders(plain ? v.plain : v.str);
                                            { QXmppJingleCandidate cand; cand.setId("c1"); cand.setHost(QHostAddress(QStringLiteral("192.0.2.7"))); cand.setPort(3478); cand.setProtocol("udp"); cand.setType(QXmppJingleCandidate::HostType); c.addTransportCandidate(cand); } c.setTransportUser(plain ? v.plain : v.str); c.setTransportPassword(plain ? v.plain : v.str);
                                            QXmppJingleDescription d; d.setMedia(plain ? v.plain : v.str); d.setSsrc(qxvfields::intBounds<quint32>()[v.idx % 10]); d.setType("urn:xmpp:jingle:apps:rtp:1"); c.setDescription(d); o.setContents({ c }); }), GETL({ QStringList l; for (const auto &c : o.contents()) l << c.creator() + '|' + c.name() + '|' + c.senders() + '|' + c.transportUser() + '|' + c.transportPassword() + '|' + c.description().media() + '|' + QString::number(c.description().ssrc()); return l.join(QChar(0x1f)); })),
        }, [](T &o) { o.setType(QXmppIq::Set); });
    }
    {
        using T = QXmppHttpUploadRequestIq;
        r << makeType<T>("QXmppHttpUploadRequestIq", {
            F_STR(T, "id", setId, id), F_STR(T, "fileName", setFileName, fileName),
            F_CUSTOM(T, "size", "int:qint64", SETL({ auto b = qxvfields::intBounds<qint64>(); o.setSize(qMax<qint64>(0, b[v.idx % b.size()])); }), GETL(return QString::number(o.size()))),
        }, [](T &o) { o.setType(QXmppIq::Get); });
    }
    {
        using T = QXmppHttpUploadSlotIq;
        r << makeType<T>("QXmppHttpUploadSlotIq", {
            F_STR(T, "id", setId, id),
            F_CUSTOM(T, "putHeaders", "strmap", SETL({ o.setPutHeaders({ { "Authorization", plain ? v.plain : v.str }, { "Cookie", "c=1" } }); }), GETL({ QStringList l; auto m = o.putHeaders(); for (auto it = m.begin(); it != m.end(); ++it) l << it.key() + '=' + it.value(); return l.join(QChar(0x1f)); })),
        }, [](T &o) { o.setType(QXmppIq::Result); o.setPutUrl(QUrl("https://upload.example/put")); o.setGetUrl(QUrl("https://upload.example/get")); });
    }
    {
        using T = QXmppRegisterIq;
        r << makeType<T>("QXmppRegisterIq", {
            F_STR(T, "id", setId, id), F_STR(T, "email", setEmail, email), F_STR(T, "instructions", setInstructions, instructions), F_STR(T, "password", setPassword, password), F_STR(T, "username", setUsername, username),
            F_BOOL(T, "isRegistered", setIsRegistered, isRegistered), F_BOOL(T, "isRemove", setIsRemove, isRemove), F_STR(T, "outOfBandUrl", setOutOfBandUrl, outOfBandUrl),
        });
    }
    {
        using T = QXmppNonSASLAuthIq;
        r << makeType<T>("QXmppNonSASLAuthIq", { F_STR(T, "id", setId, id), F_STR(T, "username", setUsername, username), F_STR(T, "password", setPassword, password), F_STR(T, "resource", setResource, resource) },
                         [](T &o) { o.setType(QXmppIq::Set); });
    }
    {
        using T = QXmppPubSubAffiliation;
        r << makeType<T>("QXmppPubSubAffiliation", { F_ENUM(T, "type", QXmppPubSubAffiliation::Affiliation, 0, 6, setType, type), F_STR(T, "node", setNode, node), F_STR(T, "jid", setJid, jid) });
    }
    {
        using T = QXmppPubSubSubscription;
        // written without a namespace of its own; which attributes apply depends on the parent:
        // <subscribe-options/> inside <pubsub/>, expiry inside <event/>
        r << makeType<T>("QXmppPubSubSubscription[pubsub]", {
            F_STR(T, "jid", setJid, jid), F_STR(T, "node", setNode, node), F_STR(T, "subId", setSubId, subId),
            F_ENUM(T, "state", QXmppPubSubSubscription::State, 0, 5, setState, state), F_ENUM(T, "configurationSupport", QXmppPubSubSubscription::ConfigurationSupport, 0, 3, setConfigurationSupport, configurationSupport),
        }, [](T &o) { o.setJid("juliet@capulet.example"); }, QStringLiteral("http://jabber.org/protocol/pubsub"));
        r << makeType<T>("QXmppPubSubSubscription[event]", {
            F_STR(T, "jid", setJid, jid), F_STR(T, "node", setNode, node), F_STR(T, "subId", setSubId, subId), F_DT(T, "expiry", setExpiry, expiry),
            F_ENUM(T, "state", QXmppPubSubSubscription::State, 0, 5, setState, state),
        }, [](T &o) { o.setJid("juliet@capulet.example"); }, QStringLiteral("http://jabber.org/protocol/pubsub#event"));
    }
    {
        using T = QXmppMessageReaction;
        r << makeType<T>("QXmppMessageReaction", {
            F_STR(T, "messageId", setMessageId, messageId),
            F_CUSTOM(T, "emojis", "set:str", SETL(auto em = qxvfields::members(v, plain); em.removeDuplicates(); /* setEmojis(): "Duplicates are not allowed" */ o.setEmojis(qxvfields::fromStrings<QVector<QString>>(em))), GETL(return qxvfields::set2s(qxvfields::toStrings(o.emojis())))),
        });
    }
    {
        using T = QXmppTrustMessageKeyOwner;
        r << makeType<T>("QXmppTrustMessageKeyOwner", {
            F_STR(T, "jid", setJid, jid),
            F_CUSTOM(T, "trustedKeys", "list:bytes", SETL(QList<QByteArray> l; for (const auto &m : qxvfields::members(v, plain)) { l << m.toUtf8(); } o.setTrustedKeys(l)), GETL(QStringList l; for (const auto &k : o.trustedKeys()) l << qxvfields::bytes2s(k); return qxvfields::list2s(l))),
            F_CUSTOM(T, "distrustedKeys", "list:bytes", SETL(QList<QByteArray> l; for (const auto &m : qxvfields::members(v, plain)) { l << m.toUtf8(); } o.setDistrustedKeys(l)), GETL(QStringList l; for (const auto &k : o.distrustedKeys()) l << qxvfields::bytes2s(k); return qxvfields::list2s(l))),
        });
    }
    {
        using T = QXmppTrustMessageElement;
        r << makeType<T>("QXmppTrustMessageElement", {
            F_STR(T, "usage", setUsage, usage), F_STR(T, "encryption", setEncryption, encryption),
            F_CUSTOM(T, "keyOwners", "list:struct", SETL(QList<QXmppTrustMessageKeyOwner> l; for (const auto &m : qxvfields::members(v, plain)) { QXmppTrustMessageKeyOwner k; k.setJid(m); k.setTrustedKeys({ QByteArray("a") }); l << k; } o.setKeyOwners(l)),
                     GETL(QStringList l; for (const auto &k : o.keyOwners()) l << k.jid(); return qxvfields::list2s(l))),
        });
    }
    {
        using T = QXmppExternalService;
        r << makeType<T>("QXmppExternalService", {
            F_STR(T, "host", setHost, host), F_STR(T, "type", setType, type),
            F_CUSTOM(T, "action", "enum", SETL({ o.setAction(QXmppExternalService::Action(v.idx % 3)); }), GETL(return o.action() ? QString::number(int(*o.action())) : QStringLiteral("(none)"))),
            F_CUSTOM(T, "expires", "datetime", SETL({ o.setExpires(qxvfields::dateTimes()[v.idx % qxvfields::dateTimes().size()]); }), GETL(return o.expires() ? qxvfields::dt2s(*o.expires()) : QStringLiteral("(none)"))),
            F_CUSTOM(T, "name", "str", SETL({ o.setName(plain ? v.plain : v.str); }), GETL(return o.name().value_or(QStringLiteral("(none)")))),
            F_CUSTOM(T, "password", "str", SETL({ o.setPassword(plain ? v.plain : v.str); }), GETL(return o.password().value_or(QStringLiteral("(none)")))),
            F_CUSTOM(T, "port", "int", SETL({ static const int t[] = { 0, 1, 3478, 65535 }; o.setPort(t[v.idx % 4]); }), GETL(return o.port() ? QString::number(*o.port()) : QStringLiteral("(none)"))),
            F_CUSTOM(T, "restricted", "bool", SETL({ o.setRestricted(v.idx % 2 == 0); }), GETL(return o.restricted() ? qxvfields::b2s(*o.restricted()) : QStringLiteral("(none)"))),
            F_CUSTOM(T, "transport", "enum", SETL({ o.setTransport(QXmppExternalService::Transport(v.idx % 2)); }), GETL(return o.transport() ? QString::number(int(*o.transport())) : QStringLiteral("(none)"))),
            F_CUSTOM(T, "username", "str", SETL({ o.setUsername(plain ? v.plain : v.str); }), GETL(return o.username().value_or(QStringLiteral("(none)")))),
        }, [](T &o) { o.setHost("h.example"); o.setType("stun"); });
    }
    {
        using T = QXmppStreamFeatures;
        r << makeType<T>("QXmppStreamFeatures", {
            F_ENUM(T, "bindMode", QXmppStreamFeatures::Mode, 0, 3, setBindMode, bindMode), F_ENUM(T, "sessionMode", QXmppStreamFeatures::Mode, 0, 3, setSessionMode, sessionMode),
            F_ENUM(T, "nonSaslAuthMode", QXmppStreamFeatures::Mode, 0, 3, setNonSaslAuthMode, nonSaslAuthMode), F_ENUM(T, "tlsMode", QXmppStreamFeatures::Mode, 0, 3, setTlsMode, tlsMode),
            F_ENUM(T, "streamManagementMode", QXmppStreamFeatures::Mode, 0, 3, setStreamManagementMode, streamManagementMode),
            F_ENUM(T, "clientStateIndicationMode", QXmppStreamFeatures::Mode, 0, 3, setClientStateIndicationMode, clientStateIndicationMode),
            F_ENUM(T, "registerMode", QXmppStreamFeatures::Mode, 0, 3, setRegisterMode, registerMode),
            F_BOOL(T, "preApprovedSubscriptions", setPreApprovedSubscriptionsSupported, preApprovedSubscriptionsSupported), F_BOOL(T, "rosterVersioning", setRosterVersioningSupported, rosterVersioningSupported),
            F_LIST(T, "authMechanisms", setAuthMechanisms, authMechanisms),
            F_LIST(T, "compressionMethods", setCompressionMethods, compressionMethods),
            F_CUSTOM(T, "sasl2Feature", "str", SETL({ Sasl2::StreamFeature f; f.mechanisms = { plain ? v.plain : v.str, QStringLiteral("SCRAM-SHA-1") }; f.streamResumptionAvailable = v.idx % 2; if (v.idx % 3) f.bind2Feature = Bind2Feature { { plain ? v.plain : v.str } };
                                                 if (v.idx % 4) f.fast = FastFeature { { plain ? v.plain : v.str }, bool(v.idx % 2) }; o.setSasl2Feature(f); }), GETL({ auto f = o.sasl2Feature(); if (!f) return QStringLiteral("(none)"); QStringList l = f->mechanisms; l << qxvfields::b2s(f->streamResumptionAvailable); if (f->bind2Feature) for (const auto &x : f->bind2Feature->features) l << "b:" + x;
                       if (f->fast) { for (const auto &x : f->fast->mechanisms) l << "f:" + x; l << qxvfields::b2s(f->fast->tls0rtt); } return l.join(QChar(0x1f)); })),
        });
    }

    // ---- pubsub items and further extension elements ------------------------------------------
    {
        using T = QXmppPubSubBaseItem;
        r << makeType<T>("QXmppPubSubBaseItem", { F_STR(T, "id", setId, id), F_STR(T, "publisher", setPublisher, publisher) });
    }
    {
        using T = QXmppTuneItem;
        r << makeType<T>("QXmppTuneItem", {
            F_STR(T, "id", setId, id), F_STR(T, "artist", setArtist, artist), F_STR(T, "source", setSource, source), F_STR(T, "title", setTitle, title), F_STR(T, "track", setTrack, track),
            F_CUSTOM(T, "length", "int:quint16", SETL(auto b = qxvfields::intBounds<quint16>(); o.setLength(b[v.idx % b.size()])), GETL(return o.length() ? QString::number(*o.length()) : QStringLiteral("(none)"))),
            F_CUSTOM(T, "rating", "int:1..10", SETL(o.setRating(quint8(1 + v.idx % 10))), GETL(return o.rating() ? QString::number(*o.rating()) : QStringLiteral("(none)"))),
        });
    }
    {
        using T = QXmppGeolocItem;
        r << makeType<T>("QXmppGeolocItem", {
            F_STR(T, "id", setId, id), F_STR(T, "country", setCountry, country), F_STR(T, "locality", setLocality, locality),
            F_CUSTOM(T, "latitude", "double", SETL(static const double t[] = { 0.0, 48.25, -89.5, 90.0, -90.0, 12.125 }; o.setLatitude(t[v.idx % 6])), GETL(return o.latitude() ? QString::number(*o.latitude(), 'g', 12) : QStringLiteral("(none)"))),
            F_CUSTOM(T, "longitude", "double", SETL(static const double t[] = { 0.0, 11.5, -179.5, 180.0, -180.0, 7.0625 }; o.setLongitude(t[v.idx % 6])), GETL(return o.longitude() ? QString::number(*o.longitude(), 'g', 12) : QStringLiteral("(none)"))),
            F_CUSTOM(T, "accuracy", "double", SETL(static const double t[] = { 0.0, 1.0, 20.5, 1000.0 }; o.setAccuracy(t[v.idx % 4])), GETL(return o.accuracy() ? QString::number(*o.accuracy(), 'g', 12) : QStringLiteral("(none)"))),
        });
    }
    {
        using T = QXmppMixInfoItem;
        r << makeType<T>("QXmppMixInfoItem", {
            F_STR(T, "id", setId, id), F_STR(T, "name", setName, name), F_STR(T, "description", setDescription, description),
            F_LIST(T, "contactJids", setContactJids, contactJids),
        }, [](T &o) { o.setFormType(QXmppDataForm::Result); });
    }
    {
        using T = QXmppMixParticipantItem;
        r << makeType<T>("QXmppMixParticipantItem", { F_STR(T, "id", setId, id), F_STR(T, "nick", setNick, nick), F_STR(T, "jid", setJid, jid) });
    }
    {
        using T = QXmppOutOfBandUrl;
        r << makeType<T>("QXmppOutOfBandUrl", {
            F_STR(T, "url", setUrl, url),
            F_CUSTOM(T, "description", "str", SETL(o.setDescription(plain ? v.plain : v.str)), GETL(return o.description().value_or(QStringLiteral("(none)")))),
        }, [](T &o) { o.setUrl("https://example.org/x"); });
    }
    {
        using T = QXmppThumbnail;
        r << makeType<T>("QXmppThumbnail", {
            F_STR(T, "uri", setUri, uri),
            F_CUSTOM(T, "width", "int:uint32", SETL(auto b = qxvfields::intBounds<quint32>(); o.setWidth(b[v.idx % b.size()])), GETL(return o.width() ? QString::number(*o.width()) : QStringLiteral("(none)"))),
            F_CUSTOM(T, "height", "int:uint32", SETL(auto b = qxvfields::intBounds<quint32>(); o.setHeight(b[v.idx % b.size()])), GETL(return o.height() ? QString::number(*o.height()) : QStringLiteral("(none)"))),
        }, [](T &o) { o.setUri("cid:sha1+ffd7c8d28e9c5e82afea41f97108c6b4@bob.xmpp.org"); });
    }
    {
        using T = QXmppFileMetadata;
        r << makeType<T>("QXmppFileMetadata", {
            F_CUSTOM(T, "lastModified", "datetime", SETL(o.setLastModified(qxvfields::dateTimes()[v.idx % qxvfields::dateTimes().size()])), GETL(return o.lastModified() ? qxvfields::dt2s(*o.lastModified()) : QStringLiteral("(none)"))),
            F_CUSTOM(T, "description", "str", SETL(o.setDescription(plain ? v.plain : v.str)), GETL(return o.description().value_or(QStringLiteral("(none)")))),
            F_CUSTOM(T, "filename", "str", SETL(o.setFilename(plain ? v.plain : v.str)), GETL(return o.filename().value_or(QStringLiteral("(none)")))),
            F_CUSTOM(T, "size", "int:uint64", SETL(auto b = qxvfields::intBounds<quint64>(); o.setSize(b[v.idx % b.size()])), GETL(return o.size() ? QString::number(*o.size()) : QStringLiteral("(none)"))),
            F_CUSTOM(T, "width", "int:uint32", SETL(auto b = qxvfields::intBounds<quint32>(); o.setWidth(b[v.idx % b.size()])), GETL(return o.width() ? QString::number(*o.width()) : QStringLiteral("(none)"))),
            F_CUSTOM(T, "height", "int:uint32", SETL(auto b = qxvfields::intBounds<quint32>(); o.setHeight(b[v.idx % b.size()])), GETL(return o.height() ? QString::number(*o.height()) : QStringLiteral("(none)"))),
            F_CUSTOM(T, "length", "int:uint32", SETL(auto b = qxvfields::intBounds<quint32>(); o.setLength(b[v.idx % b.size()])), GETL(return o.length() ? QString::number(*o.length()) : QStringLiteral("(none)"))),
            F_CUSTOM(T, "hashes", "enum+bytes", SETL(QXmppHash h; h.setAlgorithm(QXmpp::HashAlgorithm(int(QXmpp::HashAlgorithm::Sha256) + v.idx % 2)); h.setHash(v.str.toUtf8() + QByteArray(1, char(v.idx))); o.setHashes({ h })),
                     GETL(QStringList l; for (const auto &h : o.hashes()) l << QString::number(int(h.algorithm())) + '|' + qxvfields::bytes2s(h.hash()); return l.join(QChar(0x1f)))),
        });
    }
    {
        using T = QXmppBookmarkSet;
        r << makeType<T>("QXmppBookmarkSet", {
            F_CUSTOM(T, "conferences", "list:struct", SETL(QList<QXmppBookmarkConference> l; for (const auto &m : qxvfields::members(v, plain)) { QXmppBookmarkConference c; c.setJid(m); c.setName(m); c.setNickName(m); c.setAutoJoin(v.idx % 2); l << c; } o.setConferences(l)),
                     GETL(QStringList l; for (const auto &c : o.conferences()) l << c.jid() + '|' + c.name() + '|' + c.nickName() + '|' + qxvfields::b2s(c.autoJoin()); return qxvfields::list2s(l))),
            F_CUSTOM(T, "urls", "list:struct", SETL(QList<QXmppBookmarkUrl> l; for (const auto &m : qxvfields::members(v, plain)) { QXmppBookmarkUrl u; u.setName(m); u.setUrl(QUrl(QStringLiteral("https://example.org/%1").arg(v.idx))); l << u; } o.setUrls(l)),
                     GETL(QStringList l; for (const auto &u : o.urls()) l << u.name() + '|' + u.url().toString(); return qxvfields::list2s(l))),
        });
    }
    {
        using T = QXmppSdpParameter;
        r << makeType<T>("QXmppSdpParameter", { F_STR(T, "name", setName, name), F_STR(T, "value", setValue, value) }, [](T &o) { o.setName("n"); });
    }
    {
        using T = QXmppJingleRtpCryptoElement;
        r << makeType<T>("QXmppJingleRtpCryptoElement", {
            F_INT(T, "tag", quint32, setTag, tag), F_STR(T, "cryptoSuite", setCryptoSuite, cryptoSuite), F_STR(T, "keyParams", setKeyParams, keyParams), F_STR(T, "sessionParams", setSessionParams, sessionParams),
        }, [](T &o) { o.setCryptoSuite("AES_CM_128_HMAC_SHA1_80"); o.setKeyParams("inline:x"); });
    }
    {
        using T = QXmppJingleRtpFeedbackProperty;
        r << makeType<T>("QXmppJingleRtpFeedbackProperty", {
            F_STR(T, "type", setType, type),
            // "If there are parameters, they must be used instead of the subtype" (toXml)
            F_CUSTOM(T, "subtypeOrParameters", "str", SETL(if (v.idx % 2) { o.setSubtype(plain ? v.plain : v.str); } else { QXmppSdpParameter p; p.setName(plain ? v.plain : v.str); p.setValue(plain ? v.plain : v.str); o.setParameters({ p }); }),
                     GETL(QStringList l { o.subtype() }; for (const auto &p : o.parameters()) l << p.name() + '=' + p.value(); return l.join(QChar(0x1f)))),
        }, [](T &o) { o.setType("nack"); });
    }
    {
        using T = QXmppJingleRtpFeedbackInterval;
        r << makeType<T>("QXmppJingleRtpFeedbackInterval", { F_INT(T, "value", quint64, setValue, value) });
    }
    {
        using T = QXmppJingleRtpHeaderExtensionProperty;
        r << makeType<T>("QXmppJingleRtpHeaderExtensionProperty", {
            F_INT(T, "id", quint32, setId, id), F_STR(T, "uri", setUri, uri), F_ENUM(T, "senders", QXmppJingleRtpHeaderExtensionProperty::Senders, 0, 3, setSenders, senders),
            F_CUSTOM(T, "parameters", "list:struct", SETL(QVector<QXmppSdpParameter> l; for (const auto &m : qxvfields::members(v, plain)) { QXmppSdpParameter p; p.setName(m.isEmpty() ? QStringLiteral("n") : m); p.setValue(m); l << p; } o.setParameters(l)),
                     GETL(QStringList l; for (const auto &p : o.parameters()) l << p.name() + '=' + p.value(); return qxvfields::list2s(l))),
        }, [](T &o) { o.setUri("urn:ietf:params:rtp-hdrext:toffset"); });
    }
    {
        using T = QXmppJingleMessageInitiationElement;
        using Ty = QXmppJingleMessageInitiationElement::Type;
        // The parser switches on the element type: one table per discriminator value, so that the presence
        // lattice (none, each single, all but one, all) of the optional fields runs for every value.
        const auto reason = F_CUSTOM(T, "reason", "enum+str", SETL(QXmppJingleReason r; r.setType(QXmppJingleReason::Type(1 + v.idx % 17)); r.setText(plain ? v.plain : v.str); o.setReason(r)),
                                     GETL(auto r = o.reason(); return r ? QString::number(r->type()) + QChar('|') + r->text() : QStringLiteral("(none)")));
        const auto tieBreak = F_CUSTOM(T, "containsTieBreak", "bool", SETL(o.setContainsTieBreak(true)), GETL(return qxvfields::b2s(o.containsTieBreak())));
        const auto migratedTo = F_STR(T, "migratedTo", setMigratedTo, migratedTo);
        const auto description = F_CUSTOM(T, "description", "str", SETL(QXmppJingleDescription d; d.setMedia(plain ? v.plain : v.str); d.setType("urn:xmpp:jingle:apps:rtp:1"); o.setDescription(d)),
                                          GETL(auto d = o.description(); return d ? d->media() + QChar('|') + d->type() : QStringLiteral("(none)")));
        const auto id = F_STR(T, "id", setId, id);
        auto init = [](Ty ty) { return [ty](T &o) { o.setType(ty); o.setId("a73sjjvkla37jfea"); }; };
        r << makeType<T>("QXmppJingleMessageInitiationElement[propose]", { id, description }, init(Ty::Propose));
        r << makeType<T>("QXmppJingleMessageInitiationElement[ringing]", { id }, init(Ty::Ringing));
        r << makeType<T>("QXmppJingleMessageInitiationElement[proceed]", { id }, init(Ty::Proceed));
        r << makeType<T>("QXmppJingleMessageInitiationElement[reject]", { id, reason, tieBreak }, init(Ty::Reject));
        r << makeType<T>("QXmppJingleMessageInitiationElement[retract]", { id, reason, tieBreak }, init(Ty::Retract));
        r << makeType<T>("QXmppJingleMessageInitiationElement[finish]", { id, reason, migratedTo }, init(Ty::Finish));
    }
    {
        using T = QXmppCallInviteElement;
        r << makeType<T>("QXmppCallInviteElement", {
            F_STR(T, "id", setId, id), F_ENUM(T, "type", QXmppCallInviteElement::Type, 2, 3, setType, type),
        }, [](T &o) { o.setType(QXmppCallInviteElement::Type::Accept); o.setId("id1"); });
        r << makeType<T>("QXmppCallInviteElement[invite]", {
            F_BOOL(T, "audio", setAudio, audio), F_BOOL(T, "video", setVideo, video),
            F_CUSTOM(T, "jingle", "str", SETL(QXmppCallInviteElement::Jingle j; j.sid = plain ? v.plain : v.str; if (v.idx % 2) { j.jid = plain ? v.plain : v.str; } o.setJingle(j)),
                     GETL(auto j = o.jingle(); return j ? j->sid + '|' + j->jid.value_or(QStringLiteral("(none)")) : QStringLiteral("(none)"))),
            F_CUSTOM(T, "external", "list:struct", SETL(QVector<QXmppCallInviteElement::External> l; for (const auto &m : qxvfields::members(v, plain, 1)) { QXmppCallInviteElement::External e; e.uri = m; l << e; } o.setExternal(l)),
                     GETL(auto e = o.external(); if (!e) return QStringLiteral("(none)"); QStringList l; for (const auto &x : *e) l << x.uri; return qxvfields::list2s(l))),
        }, [](T &o) { o.setType(QXmppCallInviteElement::Type::Invite); });
    }
    {
        using T = QXmppDialback;
        r << makeType<T>("QXmppDialback", {
            F_STR(T, "to", setTo, to), F_STR(T, "from", setFrom, from), F_STR(T, "id", setId, id), F_ENUM(T, "command", QXmppDialback::Command, 0, 2, setCommand, command),
            F_STR(T, "key", setKey, key), F_STR(T, "type", setType, type),
        });
    }
    {
        using T = QXmppArchiveChatIq;
        r << makeType<T>("QXmppArchiveChatIq", {
            F_STR(T, "id", setId, id),
            F_CUSTOM(T, "chat", "str+datetime", SETL(QXmppArchiveChat c; c.setWith(plain ? v.plain : v.str); c.setSubject(plain ? v.plain : v.str); c.setThread(plain ? v.plain : v.str); c.setStart(qxvfields::dateTimes()[v.idx % 10]); c.setVersion(v.idx);
                                                     QXmppArchiveMessage m; m.setBody(plain ? v.plain : v.str); m.setDate(qxvfields::dateTimes()[v.idx % 10].addSecs(60)); m.setReceived(v.idx % 2); c.setMessages({ m }); o.setChat(c)),
                     GETL(auto c = o.chat(); QStringList l { c.with(), c.subject(), c.thread(), qxvfields::dt2s(c.start()), QString::number(c.version()) }; for (const auto &m : c.messages()) l << m.body() + '|' + qxvfields::dt2s(m.date()) + '|' + qxvfields::b2s(m.isReceived()); return l.join(QChar(0x1f)))),
        }, [](T &o) { o.setType(QXmppIq::Result); });
    }

    // ---- private nonzas: aggregates with public members -----------------------------------
    {
        using T = SmEnable;
        r << makeType<T>("SmEnable", { M_BOOL(T, resume), M_INT(T, max, quint64) });
    }
    {
        using T = SmEnabled;
        r << makeType<T>("SmEnabled", { M_BOOL(T, resume), M_STR(T, id), M_INT(T, max, quint64), M_STR(T, location) });
    }
    {
        using T = SmResume;
        r << makeType<T>("SmResume", { M_INT(T, h, quint32), M_STR(T, previd) });
    }
    {
        using T = SmResumed;
        r << makeType<T>("SmResumed", { M_INT(T, h, quint32), M_STR(T, previd) });
    }
    {
        using T = SmAck;
        r << makeType<T>("SmAck", { M_INT(T, seqNo, quint32) });
    }
    {
        using T = SmFailed;
        r << makeType<T>("SmFailed", {
            F_CUSTOM(T, "error", "enum", SETL({ o.error = QXmppStanza::Error::Condition(v.idx % 21); }), GETL(return o.error ? QString::number(int(*o.error)) : QStringLiteral("(none)"))) });
    }
    {
        using T = Sasl::Auth;
        r << makeType<T>("Sasl::Auth", { M_STR(T, mechanism), M_BYTES(T, value) }, [](T &o) { o.mechanism = "PLAIN"; });
    }
    {
        using T = Sasl::Challenge;
        r << makeType<T>("Sasl::Challenge", { M_BYTES(T, value) });
    }
    {
        using T = Sasl::Response;
        r << makeType<T>("Sasl::Response", { M_BYTES(T, value) });
    }
    {
        using T = Sasl::Failure;
        r << makeType<T>("Sasl::Failure", {
            F_CUSTOM(T, "condition", "enum", SETL({ o.condition = Sasl::ErrorCondition(v.idx % 11); }), GETL(return o.condition ? QString::number(int(*o.condition)) : QStringLiteral("(none)"))),
            M_STR(T, text) });
    }
    {
        using T = Bind2Feature;
        r << makeType<T>("Bind2Feature", {
            F_CUSTOM(T, "features", "list:str", SETL(o.features = qxvfields::fromStrings<decltype(o.features)>(qxvfields::members(v, plain))), GETL(return qxvfields::list2s(qxvfields::toStrings(o.features)))) });
    }
    {
        using T = Bind2Request;
        r << makeType<T>("Bind2Request", {
            M_STR(T, tag), M_BOOL(T, csiInactive), M_BOOL(T, carbonsEnable),
            F_CUSTOM(T, "smEnable", "nonza", SETL({ o.smEnable = SmEnable { v.idx % 2 == 0, quint64(v.idx) * 1000 }; }), GETL(return o.smEnable ? qxvfields::b2s(o.smEnable->resume) + '|' + QString::number(o.smEnable->max) : QStringLiteral("(none)"))) });
    }
    {
        using T = Bind2Bound;
        r << makeType<T>("Bind2Bound", {
            F_CUSTOM(T, "smFailed", "nonza", SETL({ o.smFailed = SmFailed { QXmppStanza::Error::Condition(v.idx % 21) }; }), GETL(return o.smFailed ? (o.smFailed->error ? QString::number(int(*o.smFailed->error)) : QStringLiteral("noerr")) : QStringLiteral("(none)"))),
            F_CUSTOM(T, "smEnabled", "nonza", SETL({ o.smEnabled = SmEnabled { v.idx % 2 == 0, plain ? v.plain : v.str, quint64(v.idx), plain ? v.plain : v.str }; }), GETL(return o.smEnabled ? qxvfields::b2s(o.smEnabled->resume) + '|' + o.smEnabled->id + '|' + QString::number(o.smEnabled->max) + '|' + o.smEnabled->location : QStringLiteral("(none)"))) });
    }
    {
        using T = FastFeature;
        r << makeType<T>("FastFeature", {
            F_CUSTOM(T, "mechanisms", "list:str", SETL(o.mechanisms = qxvfields::fromStrings<decltype(o.mechanisms)>(qxvfields::members(v, plain))), GETL(return qxvfields::list2s(qxvfields::toStrings(o.mechanisms)))),
            M_BOOL(T, tls0rtt) });
    }
    {
        using T = FastTokenRequest;
        r << makeType<T>("FastTokenRequest", { M_STR(T, mechanism) }, [](T &o) { o.mechanism = "HT-SHA-256-NONE"; });
    }
    {
        using T = FastToken;
        r << makeType<T>("FastToken", { M_DT(T, expiry), M_STR(T, token) }, [](T &o) { o.expiry = qxvfields::dateTimes()[0]; o.token = "t"; });
    }
    {
        using T = FastRequest;
        r << makeType<T>("FastRequest", {
            F_CUSTOM(T, "count", "int:quint64", SETL({ auto b = qxvfields::intBounds<quint64>(); o.count = b[v.idx % b.size()]; }), GETL(return o.count ? QString::number(*o.count) : QStringLiteral("(none)"))),
            M_BOOL(T, invalidate) });
    }
    {
        using T = Sasl2::UserAgent;
        r << makeType<T>("Sasl2::UserAgent", {
            F_CUSTOM(T, "id", "uuid", SETL({ o.id = QUuid::createUuidV5(QUuid(), v.str + QString::number(v.idx)); }), GETL(return o.id.toString())),
            M_STR(T, software), M_STR(T, device) }, {}, QStringLiteral("urn:xmpp:sasl:2"));
    }
    {
        using T = Sasl2::Authenticate;
        r << makeType<T>("Sasl2::Authenticate", {
            M_STR(T, mechanism), M_BYTES(T, initialResponse),
            F_CUSTOM(T, "userAgent", "nonza", SETL({ o.userAgent = Sasl2::UserAgent { QUuid::createUuidV5(QUuid(), QString::number(v.idx)), plain ? v.plain : v.str, plain ? v.plain : v.str }; }), GETL(return o.userAgent ? o.userAgent->id.toString() + '|' + o.userAgent->software + '|' + o.userAgent->device : QStringLiteral("(none)"))),
            F_CUSTOM(T, "bindRequest", "nonza", SETL({ o.bindRequest = Bind2Request { plain ? v.plain : v.str, v.idx % 2 == 0, v.idx % 3 == 0, {} }; }), GETL(return o.bindRequest ? o.bindRequest->tag + '|' + qxvfields::b2s(o.bindRequest->csiInactive) + '|' + qxvfields::b2s(o.bindRequest->carbonsEnable) : QStringLiteral("(none)"))),
            F_CUSTOM(T, "smResume", "nonza", SETL({ o.smResume = SmResume { quint32(v.idx) * 7919u, plain ? v.plain : v.str }; }), GETL(return o.smResume ? QString::number(o.smResume->h) + '|' + o.smResume->previd : QStringLiteral("(none)"))),
            F_CUSTOM(T, "tokenRequest", "nonza", SETL({ o.tokenRequest = FastTokenRequest { plain ? v.plain : v.str }; }), GETL(return o.tokenRequest ? o.tokenRequest->mechanism : QStringLiteral("(none)"))),
            F_CUSTOM(T, "fast", "nonza", SETL({ o.fast = FastRequest { v.idx % 2 ? std::optional<uint64_t>(v.idx) : std::nullopt, v.idx % 3 == 0 }; }), GETL(return o.fast ? (o.fast->count ? QString::number(*o.fast->count) : QStringLiteral("-")) + '|' + qxvfields::b2s(o.fast->invalidate) : QStringLiteral("(none)"))),
        }, [](T &o) { o.mechanism = "SCRAM-SHA-1"; });
    }
    {
        using T = Sasl2::Challenge;
        r << makeType<T>("Sasl2::Challenge", { M_BYTES(T, data) });
    }
    {
        using T = Sasl2::Response;
        r << makeType<T>("Sasl2::Response", { M_BYTES(T, data) });
    }
    {
        using T = Sasl2::Success;
        r << makeType<T>("Sasl2::Success", {
            F_CUSTOM(T, "additionalData", "bytes", SETL({ o.additionalData = v.str.toUtf8() + QByteArray(1, char(v.idx)); }), GETL(return o.additionalData ? qxvfields::bytes2s(*o.additionalData) : QStringLiteral("(none)"))),
            M_STR(T, authorizationIdentifier),
            F_CUSTOM(T, "bound", "nonza", SETL({ Bind2Bound b; if (v.idx % 2) b.smEnabled = SmEnabled { true, plain ? v.plain : v.str, quint64(v.idx), {} }; else b.smFailed = SmFailed { QXmppStanza::Error::ItemNotFound }; o.bound = b; }), GETL(return o.bound ? (o.bound->smEnabled ? o.bound->smEnabled->id + '|' + QString::number(o.bound->smEnabled->max) : QStringLiteral("-")) + '|' + (o.bound->smFailed ? QStringLiteral("failed") : QStringLiteral("-")) : QStringLiteral("(none)"))),
            F_CUSTOM(T, "smResumed", "nonza", SETL({ o.smResumed = SmResumed { quint32(v.idx) * 104729u, plain ? v.plain : v.str }; }), GETL(return o.smResumed ? QString::number(o.smResumed->h) + '|' + o.smResumed->previd : QStringLiteral("(none)"))),
            F_CUSTOM(T, "smFailed", "nonza", SETL({ o.smFailed = SmFailed { QXmppStanza::Error::Condition(v.idx % 21) }; }), GETL(return o.smFailed ? (o.smFailed->error ? QString::number(int(*o.smFailed->error)) : QStringLiteral("noerr")) : QStringLiteral("(none)"))),
            F_CUSTOM(T, "token", "nonza", SETL({ o.token = FastToken { qxvfields::dateTimes()[v.idx % 10], plain ? v.plain : v.str }; }), GETL(return o.token ? qxvfields::dt2s(o.token->expiry) + '|' + o.token->token : QStringLiteral("(none)"))),
        }, [](T &o) { o.authorizationIdentifier = "user@example.org"; });
    }
    {
        using T = Sasl2::Failure;
        r << makeType<T>("Sasl2::Failure", {
            F_CUSTOM(T, "condition", "enum", SETL({ o.condition = Sasl::ErrorCondition(v.idx % 11); }), GETL(return QString::number(int(o.condition)))),
            M_STR(T, text) }, [](T &o) { o.condition = Sasl::ErrorCondition::NotAuthorized; });
    }
    {
        using T = Sasl2::Continue;
        r << makeType<T>("Sasl2::Continue", {
            M_BYTES(T, additionalData),
            F_CUSTOM(T, "tasks", "list:str", SETL(o.tasks = qxvfields::fromStrings<decltype(o.tasks)>(qxvfields::members(v, plain, 1))), GETL(return qxvfields::list2s(qxvfields::toStrings(o.tasks)))),
            M_STR(T, text) }, [](T &o) { o.tasks = { QStringLiteral("HOTP-EXAMPLE") }; });
    }
    {
        using T = Sasl2::Abort;
        r << makeType<T>("Sasl2::Abort", { M_STR(T, text) });
    }
    return r;
}

}  // namespace

const QVector<ObjectType> &objectTypes()
{
    static const QVector<ObjectType> t = buildTypes();
    return t;
}

// (Plans with map = -1 have one slot per field: see Lattice in spec/Codec.tla.)
// A plan of Codec.tla has K slots; field j of a type with more fields takes the value of slot
// digit_map(j) (the map-th base-K digit of j), so that over the maps 0..ceil(log_K n)-1 every pair
// of fields receives every pair of slot values.
QJsonObject objectCase(Ctx &ctx, const QString &cls, int map, const QJsonArray &vals, int variant, bool logGetters, int shape)
{
    const ObjectType *t = nullptr;
    for (const auto &x : objectTypes()) {
        if (x.name == cls) {
            t = &x;
        }
    }
    if (!t || vals.isEmpty()) {
        return { { "cls", cls }, { "skipped", true }, { "bad", QJsonArray() }, { "nset", 0 } };
    }
    const int K = vals.size();
    int div = 1;
    for (int i = 0; i < map; i++) {
        div *= K;
    }
    QVector<PlanValue> pv(t->fields.size());
    QJsonArray assigned;
    for (int j = 0; j < pv.size(); j++) {
        // map < 0: the plan names every field itself (presence lattice: empty, singletons, all-but-one, all)
        const auto slot = map < 0 ? vals[j % K] : vals[(j / div) % K];
        int c = slot.isString() ? classNames().indexOf(slot.toString()) : -1;
        pv[j].cls = c;
        if (c >= 0) {
            pv[j].str = classString(ctx, c, variant);
            pv[j].plain = QStringLiteral("qxvp%1").arg(j);
            pv[j].idx = c + 10 * variant + j;
            pv[j].shape = shape;
        }
        assigned.append(c >= 0 ? QJsonValue(classNames()[c]) : QJsonValue());
    }
    auto res = t->run(pv, logGetters);
    res["cls"] = cls;
    res["map"] = map;
    res["variant"] = variant;
    if (shape >= 0) {
        res["shape"] = QString::fromLatin1(qxvfields::listShapeName(shape));
    }
    res["vals"] = vals;
    res["skipped"] = false;
    return res;
}

// Typed scalar helpers of QXmppUtils (parseInt<T>/serializeInt, parseBoolean/serializeBoolean,
// parseBase64/serializeBase64, datetimeFromString/datetimeToString) over their lexical range.
QJsonObject scalarChecks()
{
    QJsonArray bad;
    int n = 0;
    auto fail = [&](const QString &what, const QString &in, const QString &got) {
        bad.append(QJsonObject { { "k", what }, { "in", in }, { "got", got } });
    };
    auto ints = [&](auto tag, const char *name) {
        using I = decltype(tag);
        for (auto v : qxvfields::intBounds<I>()) {
            n++;
            auto s = serializeInt<I>(v);
            auto back = parseInt<I>(s);
            if (!back || *back != v) {
                fail(QStringLiteral("parseInt<%1>").arg(QLatin1String(name)), s, back ? QString::number(*back) : QStringLiteral("nullopt"));
            }
        }
    };
    ints(int8_t {}, "int8_t");
    ints(uint8_t {}, "uint8_t");
    ints(int16_t {}, "int16_t");
    ints(uint16_t {}, "uint16_t");
    ints(int32_t {}, "int32_t");
    ints(uint32_t {}, "uint32_t");
    ints(int64_t {}, "int64_t");
    ints(uint64_t {}, "uint64_t");
    // booleans: all four lexical forms
    for (const auto &p : QList<QPair<QString, bool>> { { "true", true }, { "1", true }, { "false", false }, { "0", false } }) {
        n++;
        auto b = parseBoolean(p.first);
        if (!b || *b != p.second) {
            fail("parseBoolean", p.first, b ? qxvfields::b2s(*b) : QStringLiteral("nullopt"));
        }
    }
    for (bool v : { true, false }) {
        n++;
        auto b = parseBoolean(serializeBoolean(v));
        if (!b || *b != v) {
            fail("serializeBoolean", qxvfields::b2s(v), b ? qxvfields::b2s(*b) : QStringLiteral("nullopt"));
        }
    }
    // base64
    for (const auto &bytes : QList<QByteArray> { QByteArray(), QByteArray("a"), QByteArray("ab"), QByteArray("abc"), QByteArray(3, '\0'), QByteArray("\xff\xfe\x00\x01", 4), QByteArray(1000, '\x7f') }) {
        n++;
        auto back = parseBase64(serializeBase64(bytes));
        if (!back || *back != bytes) {
            fail("parseBase64", qxvfields::bytes2s(bytes).left(40), back ? qxvfields::bytes2s(*back).left(40) : QStringLiteral("nullopt"));
        }
    }
    // date-times with and without milliseconds
    for (const auto &dt : qxvfields::dateTimes()) {
        n++;
        auto s = QXmppUtils::datetimeToString(dt);
        auto back = QXmppUtils::datetimeFromString(s);
        if (back != dt) {
            fail("datetime", s, qxvfields::dt2s(back));
        }
    }
    // time-zone designators: every boundary of the components of (+|-)hh:mm
    for (int tz : qxvfields::tzOffsets()) {
        n++;
        const auto s = QXmppUtils::timezoneOffsetToString(tz);
        const int back = QXmppUtils::timezoneOffsetFromString(s);
        if (back != tz) {
            fail("timezoneOffset", s + QStringLiteral(" (") + QString::number(tz) + QStringLiteral(" s)"), QString::number(back));
        }
    }
    for (const auto &s : QStringList { "2023-05-17T12:34:56Z", "2023-05-17T12:34:56.789Z", "2023-05-17T14:34:56+02:00", "2023-05-17T12:34:56.5Z",
                                       "2023-05-17T07:04:56-05:30", "2023-05-17T12:04:56.001-00:30", "1999-12-31T23:59:59.999-12:00", "2024-02-29T00:00:00.000+14:00" }) {
        n++;
        auto dt = QXmppUtils::datetimeFromString(s);
        auto again = QXmppUtils::datetimeFromString(QXmppUtils::datetimeToString(dt));
        if (!dt.isValid() || again != dt) {
            fail("datetime-text", s, qxvfields::dt2s(again));
        }
    }
    return { { "n", n }, { "bad", bad } };
}
