// qxv ice — drives real QXmppIceConnection/QXmppIceComponent objects on loopback UDP (C15).
//
// Two kinds of execution, one JSON object per input line (written by lib/props/C15.py):
//
//  {"case":ID,"kind":"script","ctl":B,"steps":[...]}   behaviour of spec/Ice.tla: one component, bound on
//      127.0.0.1, and two harness sockets: `cand` (the address signalled as the peer's candidate; also
//      plays the honest peer, who knows the credentials) and `unk` (any other address).  Steps:
//      {"a":"SetRemote"} {"a":"Start"} {"a":"Tick"}
//      {"a":"Recv","d":{"cls","auth","uc","src","tx","ra","un"}}
//      Every datagram is built with QXmppStunMessage::encode under the key the step's `auth` says.
//      After every step the harness waits for quiescence (a marker datagram sent behind the step's
//      datagram on the same socket has come out of the component's datagramReceived signal, then the
//      event loop is spun until nothing more is observed) and logs what the component did.
//
//  {"case":ID,"kind":"nego","ctlA":B,"first":"A|B","comps":[1],"lose":[i,...],"forge":[...],"payloads":[[..],..]}
//      two real connections that exchanged credentials and candidates, connected through a relay in the
//      harness that can lose first transmissions; an attacker socket injects forged datagrams meanwhile.
//
// Trace format: see spec/IceTrace.tla.
#include "qxv.h"

#include "QXmppStun.h"
#include "QXmppUtils.h"

#include <QCoreApplication>
#include <QElapsedTimer>
#include <QHostAddress>
#include <QMessageAuthenticationCode>
#include <QUdpSocket>

#include <memory>

namespace {

const quint16 kBindingResponse = 0x0101;

QJsonArray toJ(const QByteArray &b)
{
    QJsonArray a;
    for (char ch : b) {
        a.append(int(quint8(ch)));
    }
    return a;
}

QByteArray fromJ(const QJsonValue &v)
{
    const auto a = v.toArray();
    QByteArray r(a.size(), 0);
    for (int i = 0; i < a.size(); i++) {
        r[i] = char(a[i].toInt());
    }
    return r;
}

// --- an independent look at a datagram the component emitted (own TLV walk, Qt's HMAC) ----------------
struct Seen {
    bool stun = false;
    quint16 type = 0;
    QByteArray id;
    bool useCandidate = false;
    bool controlling = false, controlled = false;
    int miOff = -1;
    quint32 priority = 0;
    bool hasPriority = false;
    QByteArray xorAddr;  // raw value of XOR-MAPPED-ADDRESS
    QString username;
};

Seen look(const QByteArray &b)
{
    Seen s;
    if (b.size() < 20) {
        return s;
    }
    const int len = (quint8(b[2]) << 8) | quint8(b[3]);
    if (len != b.size() - 20 || quint8(b[4]) != 0x21 || quint8(b[5]) != 0x12 || quint8(b[6]) != 0xa4 || quint8(b[7]) != 0x42) {
        return s;
    }
    s.stun = true;
    s.type = quint16((quint8(b[0]) << 8) | quint8(b[1]));
    s.id = b.mid(8, 12);
    int o = 20;
    while (o + 4 <= b.size()) {
        const quint16 t = quint16((quint8(b[o]) << 8) | quint8(b[o + 1]));
        const int l = (quint8(b[o + 2]) << 8) | quint8(b[o + 3]);
        if (o + 4 + l > b.size()) {
            break;
        }
        const QByteArray v = b.mid(o + 4, l);
        if (t == 0x0008 && s.miOff < 0) {
            s.miOff = o;
        } else if (t == 0x0025) {
            s.useCandidate = true;
        } else if (t == 0x802a) {
            s.controlling = true;
        } else if (t == 0x8029) {
            s.controlled = true;
        } else if (t == 0x0024 && l == 4) {
            s.hasPriority = true;
            s.priority = (quint32(quint8(v[0])) << 24) | (quint32(quint8(v[1])) << 16) | (quint32(quint8(v[2])) << 8) | quint8(v[3]);
        } else if (t == 0x0020) {
            s.xorAddr = v;
        } else if (t == 0x0006) {
            s.username = QString::fromUtf8(v);
        }
        o += 4 + l + ((4 - l % 4) % 4);
    }
    return s;
}

// "ok" | "bad" | "none": MESSAGE-INTEGRITY of b under key (RFC 5389 15.4), computed with Qt, not with qxmpp
QString miUnder(const QByteArray &b, const Seen &s, const QByteArray &key)
{
    if (s.miOff < 0) {
        return "none";
    }
    if (s.miOff + 24 > b.size()) {
        return "bad";
    }
    QByteArray prefix = b.left(s.miOff);
    const int l = s.miOff - 20 + 24;
    prefix[2] = char(l >> 8);
    prefix[3] = char(l);
    const QByteArray mac = QMessageAuthenticationCode::hash(prefix, key, QCryptographicHash::Sha1);
    return mac == b.mid(s.miOff + 4, 20) ? "ok" : "bad";
}

QString clsOf(quint16 type)
{
    if ((type & 0x3eef) != 0x0001) {
        return "other";
    }
    switch (type & 0x0110) {
    case 0x0000:
        return "request";
    case 0x0100:
        return "response";
    case 0x0110:
        return "error";
    default:
        return "indication";
    }
}

QByteArray rndBytes(Ctx &ctx, int n)
{
    QByteArray b(n, 0);
    for (auto &ch : b) {
        ch = char(ctx.rnd(256));
    }
    return b;
}

// truncated MESSAGE-INTEGRITY: a 12-byte value instead of 20
QByteArray truncateMi(const QByteArray &enc)
{
    // enc ends with the MESSAGE-INTEGRITY attribute (encoded without fingerprint)
    QByteArray b = enc.left(enc.size() - 8);
    const int mi = b.size() - 16;
    b[mi + 2] = 0;
    b[mi + 3] = 12;
    const int len = b.size() - 20;
    b[2] = char(len >> 8);
    b[3] = char(len);
    return b;
}

int rfcHostPriority(int localPref, int component)
{
    return (1 << 24) * 126 + (1 << 8) * localPref + (256 - component);
}

bool spin(int maxMs, const std::function<bool()> &done)
{
    QElapsedTimer t;
    t.start();
    while (!done()) {
        if (t.elapsed() > maxMs) {
            return false;
        }
        QCoreApplication::processEvents(QEventLoop::AllEvents, 5);
    }
    return true;
}

// =====================================================================================================
// scripted executions: one component, behaviours of Ice.tla
// =====================================================================================================
struct Script {
    Ctx &ctx;
    std::unique_ptr<QXmppIceConnection> conn;
    QXmppIceComponent *comp = nullptr;
    QUdpSocket cand, unk;
    QHostAddress lo { QHostAddress::LocalHost };
    quint16 compPort = 0;
    const QString peerUser = QStringLiteral("pEEr");
    const QString peerPwd = QStringLiteral("peerpasswordpeerpasswo");
    bool ctl = false;
    bool remoteSet = false;

    // observations of the current step
    QJsonArray emits, pairLog, sel;
    int connSignals = 0, retransmits = 0, dataOther = 0;
    QStringList warnings;
    QSet<QByteArray> seenTx;              // ids of requests the component sent
    QMap<QString, QByteArray> openTx;     // address -> id of the last check request not yet answered
    QSet<QByteArray> markers;             // marker payloads that came out of datagramReceived
    QSet<QByteArray> sentIds;             // ids of requests the harness sent (for "echo")
    int markerNo = 0;
    bool prevIsc = false;

    explicit Script(Ctx &c) : ctx(c) { }
    ~Script() { conn.reset(); }  // before the observation members its log slot writes to

    QString addrName(quint16 port) const
    {
        if (port == cand.localPort()) {
            return "cand";
        }
        if (port == unk.localPort()) {
            return "unk";
        }
        return "other";
    }

    bool setup(bool controlling)
    {
        ctl = controlling;
        if (!cand.bind(lo, 0) || !unk.bind(lo, 0)) {
            return false;
        }
        conn = std::make_unique<QXmppIceConnection>();
        QObject::connect(conn.get(), &QXmppLoggable::logMessage, conn.get(), [this](QXmppLogger::MessageType type, const QString &text) {
            onLog(type, text);
        });
        conn->setIceControlling(controlling);
        conn->addComponent(1);
        comp = conn->component(1);
        if (!comp || !conn->bind({ lo })) {
            return false;
        }
        const auto lc = comp->localCandidates();
        if (lc.isEmpty()) {
            return false;
        }
        compPort = lc.first().port();
        QObject::connect(comp, &QXmppIceComponent::connected, comp, [this]() { connSignals++; });
        QObject::connect(comp, &QXmppIceComponent::datagramReceived, comp, [this](const QByteArray &d) {
            if (d.startsWith("QXVMARK")) {
                markers << d;
            } else {
                dataOther++;
            }
        });
        return true;
    }

    void onLog(QXmppLogger::MessageType type, const QString &text)
    {
        static const QString kState = QStringLiteral("ICE pair changed to state ");
        static const QString kSel = QStringLiteral("ICE pair selected ");
        if (text.startsWith(kState)) {
            // "<state> <host> port <port> (local ...)"
            const auto parts = text.mid(kState.size()).split(' ');
            if (parts.size() >= 4) {
                pairLog.append(QJsonObject { { "a", addrName(quint16(parts[3].toUInt())) }, { "st", QString(parts[0]).remove('-') } });
            }
        } else if (text.startsWith(kSel)) {
            const auto parts = text.mid(kSel.size()).split(' ');
            if (parts.size() >= 3) {
                sel.append(addrName(quint16(parts[2].toUInt())));
            }
        } else if (type == QXmppLogger::WarningMessage) {
            warnings << text;
        }
    }

    void drain(QUdpSocket &s, const QString &name)
    {
        while (s.hasPendingDatagrams()) {
            QByteArray b(int(s.pendingDatagramSize()), 0);
            QHostAddress h;
            quint16 p = 0;
            s.readDatagram(b.data(), b.size(), &h, &p);
            if (p != compPort) {
                continue;
            }
            const Seen v = look(b);
            if (!v.stun) {
                emits.append(QJsonObject { { "to", name }, { "cls", "data" }, { "tx", "none" }, { "uc", false }, { "mi", "none" } });
                continue;
            }
            const QString cls = clsOf(v.type);
            QString tx = "other";
            if (cls == "request") {
                if (seenTx.contains(v.id)) {
                    retransmits++;
                    continue;  // the transaction's own retransmission timer, not an effect of this step
                }
                seenTx << v.id;
                openTx[name] = v.id;
                tx = "new";
            } else if (sentIds.contains(v.id)) {
                tx = "echo";
            }
            // requests are keyed with the peer's password, responses with the component's own
            const QByteArray key = (cls == "request" ? peerPwd : conn->localPassword()).toUtf8();
            emits.append(QJsonObject { { "to", name }, { "cls", cls }, { "tx", tx }, { "uc", v.useCandidate }, { "mi", miUnder(b, v, key) } });
        }
    }

    // quiescence after a datagram was written on `via`: a marker behind it has been through the component,
    // then the event loop is spun until three consecutive rounds observe nothing new
    bool settle(QUdpSocket *via)
    {
        bool ok = true;
        if (via) {
            const QByteArray marker = "QXVMARK" + QByteArray::number(++markerNo);
            via->writeDatagram(marker, lo, compPort);
            ok = spin(8000, [&]() { return markers.contains(marker); });
        }
        int idle = 0;
        for (int i = 0; i < 200 && idle < 3; i++) {
            const int before = emits.size() + pairLog.size() + sel.size() + connSignals + retransmits;
            QCoreApplication::processEvents(QEventLoop::AllEvents);
            QCoreApplication::sendPostedEvents(nullptr, QEvent::DeferredDelete);
            drain(cand, "cand");
            drain(unk, "unk");
            const int after = emits.size() + pairLog.size() + sel.size() + connSignals + retransmits;
            idle = (after == before) ? idle + 1 : 0;
        }
        return ok;
    }

    void beginStep()
    {
        emits = QJsonArray();
        pairLog = QJsonArray();
        sel = QJsonArray();
        connSignals = 0;
        retransmits = 0;
        warnings.clear();
    }

    QJsonObject observe()
    {
        // last logged state per address, in address order (what Ice.tla's pairs would show)
        QMap<QString, QString> last;
        for (const auto &p : std::as_const(pairLog)) {
            last[p.toObject()["a"].toString()] = p.toObject()["st"].toString();
        }
        QJsonArray pl;
        for (auto it = last.cbegin(); it != last.cend(); ++it) {
            pl.append(QJsonObject { { "a", it.key() }, { "st", it.value() } });
        }
        const bool isc = comp->isConnected();
        QJsonObject o { { "emit", emits }, { "pairs", pl }, { "sel", sel }, { "conn", connSignals },
                        { "isc", isc }, { "wasc", prevIsc }, { "re", retransmits } };
        prevIsc = isc;
        return o;
    }

    QByteArray build(const QJsonObject &d, bool &possible)
    {
        const QString cls = d["cls"].toString(), auth = d["auth"].toString(), tx = d["tx"].toString();
        QXmppStunMessage m;
        QByteArray key;
        // STUN message type = method | class bits (RFC 5389 6): Binding, or Allocate for "another method"
        const quint16 method = d["meth"].toString("binding") == "binding" ? 0x0001 : 0x0003;
        const quint16 classBits = cls == "request" ? 0x0000 : cls == "indication" ? 0x0010 : cls == "response" ? 0x0100 : 0x0110;
        m.setType(method | classBits);
        if (cls == "request" || cls == "indication") {
            // (an indication is given everything a connectivity check carries)
            const QByteArray id = rndBytes(ctx, 12);
            sentIds << id;
            m.setId(id);
            if (!d.contains("pr") || d["pr"].toBool()) {
                m.setPriority(quint32((1 << 24) * 110 + (1 << 8) * 65535 + 255));
            }
            m.setUsername(d["un"].toString() == "ok" ? conn->localUser() + ':' + peerUser : QStringLiteral("someone:else"));
            const QString ra = d["ra"].toString();
            if (ra == "controlling") {
                m.iceControlling = QByteArray::fromHex("0102030405060708");
            } else if (ra == "controlled") {
                m.iceControlled = QByteArray::fromHex("1112131415161718");
            }
            m.useCandidate = d["uc"].toBool();
            key = conn->localPassword().toUtf8();
        } else {
            if (tx == "fresh") {
                m.setId(rndBytes(ctx, 12));
            } else if (openTx.contains(tx)) {
                m.setId(openTx[tx]);
            } else {
                // no check is outstanding on that pair (in the model such a step is a no-op; if the model
                // expected one, the comparison of effects shows the divergence): an id nobody used
                m.setId(rndBytes(ctx, 12));
            }
            if (cls == "response") {
                m.xorMappedHost = lo;
                m.xorMappedPort = compPort;
            } else {
                m.errorCode = 400;
                m.errorPhrase = QStringLiteral("Bad Request");
            }
            key = peerPwd.toUtf8();
        }
        if (auth == "valid") {
            return m.encode(key, true);
        } else if (auth == "none") {
            return m.encode(QByteArray(), true);
        } else if (auth == "wrong") {
            return m.encode(QByteArray("not-the-session-password"), true);
        } else {
            return truncateMi(m.encode(key, false));
        }
    }

    void run(const QString &caseId, const QJsonArray &steps)
    {
        ctx.reset(caseId, { { "kind", "script" }, { "ctl", ctl } });
        for (const auto &sv : steps) {
            const auto s = sv.toObject();
            const QString a = s["a"].toString();
            QJsonObject ev { { "e", a } };
            beginStep();
            bool quiet = true;
            if (a == "SetRemote") {
                if (remoteSet) {
                    break;
                }
                conn->setRemoteUser(peerUser);
                conn->setRemotePassword(peerPwd);
                QXmppJingleCandidate c;
                c.setComponent(1);
                c.setHost(lo);
                c.setPort(cand.localPort());
                c.setProtocol(QStringLiteral("udp"));
                c.setType(QXmppJingleCandidate::HostType);
                c.setPriority(rfcHostPriority(65535, 1));
                c.setId(QStringLiteral("peercand01"));
                c.setFoundation(QStringLiteral("1"));
                conn->addRemoteCandidate(c);
                remoteSet = true;
                quiet = settle(nullptr);
            } else if (a == "Start") {
                conn->connectToHost();
                quiet = settle(&unk);
            } else if (a == "Tick") {
                // the component's own 500 ms timer: wait for the check it starts (hang detector only)
                spin(3000, [&]() {
                    drain(cand, "cand");
                    drain(unk, "unk");
                    return !emits.isEmpty();
                });
                quiet = settle(&unk);
            } else if (a == "Recv") {
                const auto d = s["d"].toObject();
                ev["d"] = d;
                bool possible = true;
                const QByteArray bytes = build(d, possible);
                if (!possible) {
                    break;
                }
                QUdpSocket &from = d["src"].toString() == "cand" ? cand : unk;
                from.writeDatagram(bytes, lo, compPort);
                quiet = settle(&from);
                // a response consumes the transaction it answers (whatever the component made of it)
                const QString dc = d["cls"].toString();
                if (d["auth"].toString() == "valid" && (dc == "response" || dc == "error") && d["meth"].toString("binding") == "binding" &&
                    d["tx"].toString() != "fresh") {
                    openTx.remove(d["tx"].toString());
                }
            } else {
                fprintf(stderr, "ice: unknown step %s\n", qPrintable(a));
                exit(2);
            }
            ev["o"] = observe();
            ev["quiet"] = quiet;
            ctx.emit_(ev);
            if (!quiet) {
                break;  // the marker never came out: the component stopped reading; nothing more can be said
            }
        }
    }
};

// =====================================================================================================
// honest negotiations: two real connections, relay with loss, attacker socket
// =====================================================================================================
struct Agent {
    std::unique_ptr<QXmppIceConnection> conn;
    int connected = 0, disconnected = 0;
    QStringList selected;               // "ICE pair selected" lines: remote port
    QList<QByteArray> received;         // datagramReceived, all components
};

struct Nego {
    Ctx &ctx;
    QHostAddress lo { QHostAddress::LocalHost };
    Agent A, B;
    // relay: A talks to rB (which B's candidates are advertised as), B talks to rA
    QList<QUdpSocket *> rA, rB;        // per component
    QList<quint16> portA, portB;       // the agents' own ports per component
    QUdpSocket attacker;
    int attackerRx = 0;
    QSet<QByteArray> firstSeen;         // transaction id + class: first transmissions already seen
    int firstNo = 0;
    QSet<int> lose;
    int lost = 0, relayed = 0;
    QJsonArray lostLog;
    // PRIORITY attribute of the connectivity checks the agents send (distinct values per component)
    QJsonArray reqPrio;
    QSet<QString> reqPrioSeen;
    QList<int> compIds;
    int curComp = 0;

    explicit Nego(Ctx &c) : ctx(c) { }
    ~Nego()
    {
        qDeleteAll(rA);
        qDeleteAll(rB);
    }

    void hook(Agent &ag, const QString &name)
    {
        Agent *p = &ag;
        QObject::connect(ag.conn.get(), &QXmppIceConnection::connected, ag.conn.get(), [p]() { p->connected++; });
        QObject::connect(ag.conn.get(), &QXmppIceConnection::disconnected, ag.conn.get(), [p]() { p->disconnected++; });
        QObject::connect(ag.conn.get(), &QXmppLoggable::logMessage, ag.conn.get(), [p](QXmppLogger::MessageType, const QString &text) {
            static const QString kSel = QStringLiteral("ICE pair selected ");
            if (text.startsWith(kSel)) {
                const auto parts = text.mid(kSel.size()).split(' ');
                if (parts.size() >= 3) {
                    p->selected << parts[2];
                }
            }
        });
        Q_UNUSED(name)
    }

    // forward everything pending on relay socket `in` out of `out` to port `dst`; first transmissions of
    // STUN messages are numbered in order of appearance and those in `lose` are dropped
    void pump(QUdpSocket *in, QUdpSocket *out, quint16 expectSrc, quint16 dst, const QString &dir)
    {
        while (in->hasPendingDatagrams()) {
            QByteArray b(int(in->pendingDatagramSize()), 0);
            QHostAddress h;
            quint16 p = 0;
            in->readDatagram(b.data(), b.size(), &h, &p);
            if (p != expectSrc) {
                continue;  // not from the agent this relay leg belongs to
            }
            const Seen v = look(b);
            if (v.stun && clsOf(v.type) == "request") {
                const QString pk = QString("%1:%2:%3").arg(curComp).arg(v.hasPriority).arg(v.priority);
                if (!reqPrioSeen.contains(pk)) {
                    reqPrioSeen << pk;
                    reqPrio.append(QJsonObject { { "comp", curComp }, { "has", v.hasPriority }, { "prio", int(v.priority) } });
                }
            }
            if (v.stun) {
                const QByteArray k = v.id + QByteArray::number(v.type);
                if (!firstSeen.contains(k)) {
                    firstSeen << k;
                    const int no = firstNo++;
                    if (lose.contains(no)) {
                        lost++;
                        lostLog.append(QJsonObject { { "no", no }, { "dir", dir }, { "cls", clsOf(v.type) } });
                        continue;
                    }
                }
            }
            relayed++;
            out->writeDatagram(b, lo, dst);
        }
    }

    void pumpAll()
    {
        for (int i = 0; i < rA.size(); i++) {
            curComp = i < compIds.size() ? compIds[i] : 0;
            pump(rB[i], rA[i], portA[i], portB[i], "AB");  // A wrote to rB; B must see it coming from rA
            pump(rA[i], rB[i], portB[i], portA[i], "BA");
        }
        while (attacker.hasPendingDatagrams()) {
            QByteArray b(int(attacker.pendingDatagramSize()), 0);
            attacker.readDatagram(b.data(), b.size());
            attackerRx++;
        }
    }

    QJsonArray candsOf(const Agent &ag)
    {
        QJsonArray r;
        const auto cands = ag.conn->localCandidates();
        for (const auto &c : cands) {
            r.append(QJsonObject { { "type", QXmppJingleCandidate::typeToString(c.type()) }, { "prio", c.priority() },
                                   { "comp", c.component() }, { "proto", c.protocol() } });
        }
        return r;
    }

    QByteArray forged(const QJsonObject &f, const Agent &target, const Agent &other)
    {
        QXmppStunMessage m;
        const QString cls = f["cls"].toString();
        m.setId(rndBytes(ctx, 12));
        if (cls == "request" || cls == "indication") {
            const quint16 method = f["meth"].toString("binding") == "binding" ? 0x0001 : 0x0003;
            m.setType(method | (cls == "request" ? 0x0000 : 0x0010));
            m.setPriority(quint32((1 << 24) * 110 + (1 << 8) * 65535 + 255));
            m.setUsername(target.conn->localUser() + ':' + other.conn->localUser());
            m.useCandidate = f["uc"].toBool();
            if (f["ra"].toString() == "controlling") {
                m.iceControlling = QByteArray::fromHex("0102030405060708");
            } else if (f["ra"].toString() == "controlled") {
                m.iceControlled = QByteArray::fromHex("1112131415161718");
            }
        } else {
            m.setType(kBindingResponse);
            m.xorMappedHost = lo;
            m.xorMappedPort = 1;
        }
        const QString auth = f["auth"].toString();
        if (auth == "none") {
            return m.encode(QByteArray(), true);
        } else if (auth == "wrong") {
            return m.encode(QByteArray("not-the-session-password"), true);
        }
        return truncateMi(m.encode(QByteArray("not-the-session-password"), false));
    }

    void run(const QJsonObject &b)
    {
        const QString caseId = b["case"].toString();
        const bool ctlA = b["ctlA"].toBool();
        QList<int> comps;
        for (const auto &c : b["comps"].toArray()) {
            comps << c.toInt();
        }
        compIds = comps;
        for (const auto &x : b["lose"].toArray()) {
            lose << x.toInt();
        }
        ctx.reset(caseId, { { "kind", "nego" }, { "ctlA", ctlA }, { "first", b["first"] }, { "comps", b["comps"] },
                            { "lose", b["lose"] }, { "nforge", b["forge"].toArray().size() } });
        A.conn = std::make_unique<QXmppIceConnection>();
        B.conn = std::make_unique<QXmppIceConnection>();
        hook(A, "A");
        hook(B, "B");
        A.conn->setIceControlling(ctlA);
        B.conn->setIceControlling(!ctlA);
        bool ok = attacker.bind(lo, 0);
        for (int c : comps) {
            A.conn->addComponent(c);
            B.conn->addComponent(c);
        }
        ok = ok && A.conn->bind({ lo }) && B.conn->bind({ lo });
        for (int c : comps) {
            auto *ca = A.conn->component(c);
            auto *cb = B.conn->component(c);
            ok = ok && ca && cb && !ca->localCandidates().isEmpty() && !cb->localCandidates().isEmpty();
            if (!ok) {
                break;
            }
            portA << ca->localCandidates().first().port();
            portB << cb->localCandidates().first().port();
            auto *sa = new QUdpSocket, *sb = new QUdpSocket;
            ok = ok && sa->bind(lo, 0) && sb->bind(lo, 0);
            rA << sa;
            rB << sb;
            Agent *pa = &A, *pb = &B;
            QObject::connect(ca, &QXmppIceComponent::datagramReceived, ca, [pa](const QByteArray &d) { pa->received << d; });
            QObject::connect(cb, &QXmppIceComponent::datagramReceived, cb, [pb](const QByteArray &d) { pb->received << d; });
        }
        if (!ok) {
            ctx.emit_({ { "e", "NegoSetupFailed" } });
            return;
        }
        ctx.emit_({ { "e", "Cands" }, { "who", "A" }, { "c", candsOf(A) } });
        ctx.emit_({ { "e", "Cands" }, { "who", "B" }, { "c", candsOf(B) } });

        // exchange credentials and candidates (each side learns the other's candidates at the relay's address)
        A.conn->setRemoteUser(B.conn->localUser());
        A.conn->setRemotePassword(B.conn->localPassword());
        B.conn->setRemoteUser(A.conn->localUser());
        B.conn->setRemotePassword(A.conn->localPassword());
        auto advertise = [&](QXmppIceConnection *to, const QXmppIceConnection *from, const QList<QUdpSocket *> &relay) {
            auto cands = from->localCandidates();
            if (b["rev"].toBool()) {
                std::reverse(cands.begin(), cands.end());
            }
            for (auto c : cands) {
                const int i = comps.indexOf(c.component());
                if (i < 0) {
                    continue;
                }
                c.setPort(relay[i]->localPort());
                to->addRemoteCandidate(c);
            }
        };
        advertise(A.conn.get(), B.conn.get(), rB);
        advertise(B.conn.get(), A.conn.get(), rA);

        const auto forge = b["forge"].toArray();
        int nforged = 0;
        auto inject = [&](const QString &when) {
            for (const auto &fv : forge) {
                const auto f = fv.toObject();
                if (f["when"].toString() != when) {
                    continue;
                }
                const bool toA = f["to"].toString() == "A";
                const QByteArray d = forged(f, toA ? A : B, toA ? B : A);
                const auto &ports = toA ? portA : portB;
                for (quint16 p : ports) {
                    attacker.writeDatagram(d, lo, p);
                    nforged++;
                }
            }
        };

        inject("before");
        QElapsedTimer t;
        t.start();
        if (b["first"].toString() == "A") {
            A.conn->connectToHost();
            for (int i = 0; i < 3; i++) {
                QCoreApplication::processEvents();
                pumpAll();
            }
            B.conn->connectToHost();
        } else {
            B.conn->connectToHost();
            for (int i = 0; i < 3; i++) {
                QCoreApplication::processEvents();
                pumpAll();
            }
            A.conn->connectToHost();
        }
        bool during = false;
        // until both report connected, or one gives up by itself (its own 30 s timer): no verdict by stopwatch
        const bool finished = spin(45000, [&]() {
            pumpAll();
            if (!during && relayed >= 2) {
                during = true;
                inject("during");
            }
            return (A.connected && B.connected) || A.disconnected || B.disconnected;
        });
        if (!during) {
            inject("during");
        }
        inject("after");
        // let trailing checks, responses and anything the forged datagrams provoked arrive
        for (int i = 0; i < 30; i++) {
            QCoreApplication::processEvents(QEventLoop::AllEvents, 2);
            pumpAll();
        }
        QJsonArray relayPorts;
        for (auto *s : std::as_const(rA)) {
            relayPorts.append(QString::number(s->localPort()));
        }
        for (auto *s : std::as_const(rB)) {
            relayPorts.append(QString::number(s->localPort()));
        }
        auto selOk = [&](const Agent &ag, const QList<QUdpSocket *> &relay) {
            // every selected pair points at the relay leg of the honest peer
            for (const auto &p : ag.selected) {
                bool found = false;
                for (auto *s : relay) {
                    found = found || p == QString::number(s->localPort());
                }
                if (!found) {
                    return false;
                }
            }
            return !ag.selected.isEmpty();
        };
        ctx.emit_({ { "e", "Nego" },
                    { "finished", finished },
                    { "connA", A.connected }, { "connB", B.connected },
                    { "discA", A.disconnected }, { "discB", B.disconnected },
                    { "iscA", A.conn->isConnected() }, { "iscB", B.conn->isConnected() },
                    { "selA", selOk(A, rB) }, { "selB", selOk(B, rA) },
                    { "nselA", A.selected.size() }, { "nselB", B.selected.size() },
                    { "attackerRx", attackerRx }, { "forged", nforged },
                    { "lost", lost }, { "lostLog", lostLog }, { "reqPrio", reqPrio }, { "relayed", relayed }, { "ms", int(t.elapsed()) } });

        // application datagrams both ways, every component
        if (A.conn->isConnected() && B.conn->isConnected()) {
            const auto payloads = b["payloads"].toArray();
            for (int ci = 0; ci < comps.size(); ci++) {
                for (const auto &pv : payloads) {
                    const QByteArray pl = fromJ(pv);
                    for (int dir = 0; dir < 2; dir++) {
                        Agent &src = dir == 0 ? A : B;
                        Agent &dst = dir == 0 ? B : A;
                        dst.received.clear();
                        const qint64 w = src.conn->component(comps[ci])->sendDatagram(pl);
                        spin(4000, [&]() {
                            pumpAll();
                            return !dst.received.isEmpty();
                        });
                        QJsonArray got;
                        for (const auto &g : std::as_const(dst.received)) {
                            got.append(toJ(g));
                        }
                        ctx.emit_({ { "e", "Data" }, { "dir", dir == 0 ? "AB" : "BA" }, { "comp", comps[ci] }, { "w", double(w) },
                                    { "sent", toJ(pl) }, { "got", got } });
                    }
                }
            }
        }
        pumpAll();
        ctx.emit_({ { "e", "NegoEnd" }, { "attackerRx", attackerRx } });
        A.conn->close();
        B.conn->close();
    }
};

}  // namespace

QXV_DRIVER(ice)
{
    int n = 0;
    for (const auto &bv : ctx.behaviours()) {
        const auto b = bv.toObject();
        const QString id = b.contains("case") ? b["case"].toString() : QString("i%1").arg(++n);
        if (b["kind"].toString() == "nego") {
            Nego ng(ctx);
            ng.run(b);
        } else {
            Script sc(ctx);
            if (!sc.setup(b["ctl"].toBool())) {
                fprintf(stderr, "ice: cannot bind loopback sockets\n");
                return 2;
            }
            sc.run(id, b["steps"].toArray());
        }
        QCoreApplication::sendPostedEvents(nullptr, QEvent::DeferredDelete);
    }
    return 0;
}
