// qxv carbons — drives a real QXmppClient with QXmppCarbonManagerV2 ("v2") or QXmppCarbonManager
// ("v1") installed along behaviours of spec/Carbons.tla (property C11).
//
// "estab" (optional, default "configured"): how the own address of the session comes about.  "configured": the
// application's JID is used as it is (session faked).  "bound<R>": the client goes through RFC 6120 resource binding
// on the real receive path -- <stream:features><bind/></stream:features> is injected, the client sends its bind
// request, the harness answers <iq type='result'><bind><jid>USER@DOMAIN/RESOURCE</jid></bind></iq> with a resource of
// class R (Plain, Slash: contains '/', At: contains '@', Unicode, Long) -- and the own bare JID (ground truth of the
// sender classes) is what RFC 7622 makes of that JID: everything before the FIRST '/'.
// Behaviour: {"gen":"v1|v2","jidcfg":"plain|nores|mixed",
//             "steps":[{"a":"Recv","c":<sender class>,"w":<wrapper>,"i":<inner kind>} |
//                      {"a":"Reconfigure","j":"plain|nores|mixed","how":"setJid|setUserDomain|assign|copySetJid"},...]}
// Reconfigure: the application changes the account of the *same* client object (as it would before
// reconnecting with another account): configuration().setJid(), setUser()+setDomain()+setResource(), assigning
// a freshly built configuration object, or copying the configuration, setJid() on the copy and assigning it
// back.  Sender classes of later steps are relative to the new JID; the class PreviousOwnBare is the bare JID
// configured before the switch.  The harness never calls jidBare() itself: the configured identity it uses as
// ground truth is user() + "@" + domain(), so only the library's own reads can warm a cache.
// Every step is concretised into several stanzas (one per concrete spelling of the sender class:
// fixed spellings plus seeded random ones); each is injected through the real receive path
// (QXmppOutgoingClient::handlePacketReceived) and what the application is shown is recorded from
//   ch "client"      QXmppClient::messageReceived
//   ch "handler"     a QXmppMessageHandler extension (sees the message, returns false)
//   ch "mgrSent"     QXmppCarbonManager::messageSent        (v1 only)
//   ch "mgrReceived" QXmppCarbonManager::messageReceived    (v1 only)
// Trace line (see spec/CarbonsTrace.tla):
//   {"e":"Recv","c":..,"w":..,"i":..,
//    "x":{"own":B,"ofrom":..,"hasfrom":bool,"oto":..,"oid":..,"obody":..,"otype":..},
//    "inners":[{from,to,id,body,type,priv,stamp}...],   the wrapped message(s): what an unwrap may present
//    "never":[{id,body}...],                 second-level messages (wrapped inside the wrapped one)
//    "shown":[{ch,from,to,id,body,type,fwd}...]}
#include "fixture.h"
#include "qxv.h"

#include "QXmppCarbonManager.h"
#include "QXmppCarbonManagerV2.h"
#include "QXmppMessage.h"
#include "QXmppMessageHandler.h"
#include "QXmppUtils.h"

#include <QCryptographicHash>

#include <memory>

namespace {

struct Shown {
    QString ch;
    QXmppMessage msg;
};

class Recorder : public QXmppClientExtension, public QXmppMessageHandler
{
public:
    explicit Recorder(QVector<Shown> *sink) : sink(sink) { }
    bool handleMessage(const QXmppMessage &m) override
    {
        sink->append({ QStringLiteral("handler"), m });
        return false;
    }
    QVector<Shown> *sink;
};

QString typeName(QXmppMessage::Type t)
{
    switch (t) {
    case QXmppMessage::Error:
        return "error";
    case QXmppMessage::Normal:
        return "normal";
    case QXmppMessage::Chat:
        return "chat";
    case QXmppMessage::GroupChat:
        return "groupchat";
    case QXmppMessage::Headline:
        return "headline";
    }
    return "?";
}

QString esc(const QString &s) { return s.toHtmlEscaped(); }

struct Rnd {
    std::mt19937_64 g;
    quint64 n(quint64 m) { return m ? g() % m : 0; }
    // printable text with XML specials and non-ASCII, never empty, no leading/trailing blank
    QString text(int minLen = 3, int maxLen = 14)
    {
        static const QStringList alphabet = {
            "a", "b", "c", "x", "y", "z", "Q", "R", "0", "7", " ", " ", "<", ">", "&", "\"", "'", "/", "@", ".",
            QString::fromUtf8("\xc3\xa9"), QString::fromUtf8("\xd0\xb6"), QString::fromUtf8("\xe6\xbc\xa2"),
            QString::fromUtf8("\xf0\x9f\x98\x80"), "]]>", "=", "-"
        };
        int len = minLen + int(n(maxLen - minLen + 1));
        QString s = "t";
        for (int i = 0; i < len; i++) {
            s += alphabet[int(n(alphabet.size()))];
        }
        return s + "e";
    }
    // a JID part made of harmless characters
    QString word(int minLen = 3, int maxLen = 8)
    {
        static const char cs[] = "abcdefghijklmnopqrstuvwxyz0123456789";
        int len = minLen + int(n(maxLen - minLen + 1));
        QString s;
        for (int i = 0; i < len; i++) {
            s += QChar(cs[n(sizeof(cs) - 1)]);
        }
        return s;
    }
};

struct Msg {  // a concrete message: the fields the application can tell apart
    QString from, to, id, body, type;
    QString extra;  // further payload XML
    bool hasFrom = true;
    bool priv = false;          // carries <private xmlns='urn:xmpp:carbons:2'/>
    QString stamp;              // XEP-0203 delay stamp (UTC, ISO), "" = none
    QString neverId, neverBody; // a message wrapped in a <forwarded/> of this message's own: must never be shown
};

QString stampOf(const QXmppMessage &m)
{
    return m.stamp().isValid() ? m.stamp().toUTC().toString(Qt::ISODate) : QString();
}

QString msgXml(const Msg &m, const QString &children = {}, bool withNs = false)
{
    QString s = "<message";
    if (withNs) {
        s += " xmlns=\"jabber:client\"";
    }
    if (m.hasFrom) {
        s += " from=\"" + esc(m.from) + "\"";
    }
    s += " to=\"" + esc(m.to) + "\" id=\"" + esc(m.id) + "\" type=\"" + m.type + "\">";
    if (!m.body.isEmpty()) {
        s += "<body>" + esc(m.body) + "</body>";
    }
    s += m.extra + children + "</message>";
    return s;
}

QString carbon(const QString &tag, const QString &innerXml, const QString &carbonNs = "urn:xmpp:carbons:2",
               const QString &fwdNs = "urn:xmpp:forward:0")
{
    return "<" + tag + " xmlns=\"" + carbonNs + "\"><forwarded xmlns=\"" + fwdNs + "\">" + innerXml + "</forwarded></" + tag + ">";
}

QJsonObject msgJson(const Msg &m)
{
    return { { "from", m.from }, { "to", m.to }, { "id", m.id }, { "body", m.body }, { "type", m.type },
             { "priv", m.priv }, { "stamp", m.stamp } };
}

struct Env {
    std::unique_ptr<TestClient> client;
    QVector<Shown> shown;
    QString B, R, domain, local;
    QString prevB;  // bare JID configured before the last Reconfigure
    void readIdentity()
    {
        auto &cfg = client->configuration();
        local = cfg.user();
        domain = cfg.domain();
        B = local.isEmpty() ? domain : local + "@" + domain;
        R = cfg.resource();
    }
};

QString jidOfCfg(const QString &jidcfg)
{
    return jidcfg == "plain" ? "me@example.org/dev1"
        : jidcfg == "nores"  ? "me@example.org"
                             : "Me.Name@Example.ORG/Dev One";
}

QString swapCase(const QString &s)
{
    QString r;
    for (auto ch : s) {
        r += ch.isUpper() ? ch.toLower() : ch.toUpper();
    }
    return r;
}

// concrete spellings of a sender class relative to the configured JID; `fixed` first, then random ones
QStringList spellings(const QString &cls, const Env &e, Rnd &r, int nRandom)
{
    const QString &B = e.B;
    QStringList l;
    auto addIfNot = [&](const QString &s) {
        if (s != B && !l.contains(s)) {
            l << s;
        }
    };
    if (cls == "OwnBare") {
        l << B;
    } else if (cls == "OwnBareCase") {
        addIfNot(B.toUpper());
        addIfNot(B.toLower());
        addIfNot(swapCase(B));
        addIfNot(e.local + "@" + swapCase(e.domain));
        addIfNot(swapCase(e.local) + "@" + e.domain);
    } else if (cls == "OwnFullPrefix") {
        // bound resource with a '/': the own bare JID plus the first resource segment(s)
        const int slash = e.R.indexOf('/');
        if (slash < 0) {
            fprintf(stderr, "carbons: OwnFullPrefix without a slash in the resource\n");
            exit(2);
        }
        l << B + "/" + e.R.left(slash);
        if (e.R.lastIndexOf('/') != slash) {
            l << B + "/" + e.R.left(e.R.lastIndexOf('/'));
        }
    } else if (cls == "OwnFullSelf") {
        l << B + "/" + e.R;
    } else if (cls == "OwnFullOther") {
        l << B + "/other" << B + "/" + e.R + "2" << B + "/" + B;
        for (int i = 0; i < nRandom; i++) {
            l << B + "/" + r.word();
        }
    } else if (cls == "OwnBareSlash") {
        l << B + "/";
    } else if (cls == "OwnBareSpace") {
        l << " " + B << B + " " << " " + B + " ";
    } else if (cls == "Domain") {
        l << e.domain;
    } else if (cls == "SuffixLookalike") {
        l << B + ".evil.net" << B + "x" << B + "@evil.net" << B + "." ;
        for (int i = 0; i < nRandom; i++) {
            l << B + "." + r.word() + ".net";
        }
    } else if (cls == "PrefixLookalike") {
        l << "x" + B << "evil." + B << "evil@" + e.domain + "@" + B;
        for (int i = 0; i < nRandom; i++) {
            l << r.word() + B;
        }
    } else if (cls == "Truncated") {
        l << B.left(B.size() - 1) << e.local + "@" << e.local << B.mid(1);
    } else if (cls == "Empty") {
        l << QString() /* attribute absent */ << QStringLiteral("\x01" "emptyattr");
    } else if (cls == "Contact") {
        l << "alice@example.net" << e.local + "@example.net" << "alice@" + e.domain;
        for (int i = 0; i < nRandom; i++) {
            l << r.word() + "@" + r.word() + ".example";
        }
    } else if (cls == "ContactFull") {
        l << "alice@example.net/phone" << "alice@" + e.domain + "/" + e.R;
        for (int i = 0; i < nRandom; i++) {
            l << r.word() + "@" + r.word() + ".example/" + r.word();
        }
    } else if (cls == "OwnAsResource") {
        l << "evil@example.net/" + B << e.domain + "/" + B << "evil@example.net/" + B + "/" + e.R;
        for (int i = 0; i < nRandom; i++) {
            l << r.word() + "@" + r.word() + ".example/" + B;
        }
    } else if (cls == "PreviousOwnBare") {
        if (e.prevB.isEmpty() || e.prevB == B) {
            fprintf(stderr, "carbons: PreviousOwnBare without a previous account\n");
            exit(2);
        }
        l << e.prevB;
    } else if (cls == "Homoglyph") {
        // Latin e -> Cyrillic ie, Latin o -> Greek omicron, Latin a -> Cyrillic a
        QString h = B;
        h.replace(QChar('e'), QChar(0x0435)).replace(QChar('E'), QChar(0x0415));
        addIfNot(h);
        h = B;
        h.replace(QChar('o'), QChar(0x03BF)).replace(QChar('O'), QChar(0x039F));
        addIfNot(h);
        h = B;
        h.replace(QChar('a'), QChar(0x0430)).replace(QChar('m'), QChar(0x217F));
        addIfNot(h);
        // zero width joiner inside
        addIfNot(B.left(1) + QChar(0x200D) + B.mid(1));
    } else {
        fprintf(stderr, "carbons: unknown sender class %s\n", qPrintable(cls));
        exit(2);
    }
    return l;
}

Msg makeInner(const QString &kind, const Env &e, Rnd &r, const QString &id, const QString &tag)
{
    Msg m;
    m.id = id;
    m.type = "chat";
    m.body = tag + " " + r.text();
    if (kind == "chatIn") {
        m.from = "bob@example.net/" + r.word();
        m.to = e.B + "/" + e.R;
    } else if (kind == "chatOut") {
        m.from = e.B + "/other";
        m.to = "bob@example.net";
    } else if (kind == "spoof") {
        m.from = "victim@bank.example/" + r.word();
        m.to = "boss@corp.example";
    } else if (kind == "noBody") {
        m.from = "bob@example.net/" + r.word();
        m.to = e.B;
        m.body.clear();
        m.extra = "<composing xmlns=\"http://jabber.org/protocol/chatstates\"/>";
    } else if (kind == "error") {
        m.from = "bob@example.net";
        m.to = e.B + "/" + e.R;
        m.type = "error";
        m.extra = "<error type=\"cancel\"><service-unavailable xmlns=\"urn:ietf:params:xml:ns:xmpp-stanzas\"/></error>";
    } else if (kind == "rich") {
        m.from = r.word() + "@" + r.word() + ".example/" + r.word();
        m.to = e.B + "/" + r.word();
        m.type = r.n(2) ? "chat" : "normal";
        m.extra = "<thread>" + esc(r.text()) + "</thread><subject>" + esc(r.text()) + "</subject>"
                  "<request xmlns=\"urn:xmpp:receipts\"/><stanza-id xmlns=\"urn:xmpp:sid:0\" by=\"" + esc(e.B) + "\" id=\"" + esc(r.word()) + "\"/>"
                  "<markable xmlns=\"urn:xmpp:chat-markers:0\"/><active xmlns=\"http://jabber.org/protocol/chatstates\"/>";
    } else if (kind == "private" || kind == "noCopy" || kind == "delay" || kind == "headline" || kind == "groupchat" || kind == "fwdInside") {
        // the other XEP-0280 / XEP-0334 / XEP-0203 / XEP-0297 markers an inner message may carry itself
        m.from = "bob@example.net/" + r.word();
        m.to = e.B + "/" + e.R;
        if (kind == "private") {
            m.extra = "<private xmlns=\"urn:xmpp:carbons:2\"/>";
            m.priv = true;
        } else if (kind == "noCopy") {
            m.extra = "<no-copy xmlns=\"urn:xmpp:hints\"/><no-store xmlns=\"urn:xmpp:hints\"/>";
        } else if (kind == "delay") {
            m.stamp = "2002-09-10T23:08:25Z";
            m.extra = "<delay xmlns=\"urn:xmpp:delay\" from=\"example.net\" stamp=\"" + m.stamp + "\"/>";
        } else if (kind == "headline") {
            m.type = "headline";
        } else if (kind == "groupchat") {
            m.type = "groupchat";
            m.from = "room@muc.example.net/" + r.word();
        } else {
            m.neverId = id + "x";
            m.neverBody = "third " + r.text();
            m.extra = "<forwarded xmlns=\"urn:xmpp:forward:0\"><message xmlns=\"jabber:client\" from=\"carol@example.net/x\" to=\"" +
                esc(e.B) + "\" id=\"" + m.neverId + "\" type=\"chat\"><body>" + esc(m.neverBody) + "</body></message></forwarded>";
        }
    } else {
        fprintf(stderr, "carbons: unknown inner kind %s\n", qPrintable(kind));
        exit(2);
    }
    return m;
}

void runBehaviour(Ctx &ctx, const QString &caseId, const QJsonObject &b, int nRandom, bool allFixed)
{
    const auto gen = b["gen"].toString();
    const auto jidcfg = b["jidcfg"].toString();
    const auto steps = b["steps"].toArray();

    // every random choice of this execution derives from (seed, behaviour), so that a replay of one
    // behaviour out of context reproduces the same stanzas
    Rnd r;
    {
        auto h = QCryptographicHash::hash(QJsonDocument(b).toJson(QJsonDocument::Compact), QCryptographicHash::Sha1);
        quint64 s = ctx.seed;
        for (int i = 0; i < 8; i++) {
            s = s * 1099511628211ULL + quint8(h[i]);
        }
        r.g.seed(s);
    }

    Env e;
    e.client = std::make_unique<TestClient>(TestClient::NoExtensions, jidOfCfg(jidcfg));
    auto &c = *e.client;
    e.readIdentity();
    const auto estab = b.contains("estab") ? b["estab"].toString() : QStringLiteral("configured");
    if (estab == "configured") {
        c.fakeSession();
    }

    if (gen == "v2") {
        c.addNewExtension<QXmppCarbonManagerV2>();
    } else {
        auto *m = c.addNewExtension<QXmppCarbonManager>();
        QObject::connect(m, &QXmppCarbonManager::messageSent, &c, [&e](const QXmppMessage &msg) {
            e.shown.append({ "mgrSent", msg });
        });
        QObject::connect(m, &QXmppCarbonManager::messageReceived, &c, [&e](const QXmppMessage &msg) {
            e.shown.append({ "mgrReceived", msg });
        });
    }
    c.addExtension(new Recorder(&e.shown));
    QObject::connect(&c, &QXmppClient::messageReceived, &c, [&e](const QXmppMessage &msg) {
        e.shown.append({ "client", msg });
    });

    bool bound = true;
    QString boundJid;
    if (estab != "configured") {
        // resource the server assigns
        QString res;
        if (estab == "boundPlain") {
            res = "srv-" + r.word();
        } else if (estab == "boundSlash") {
            res = r.n(2) ? QString("QXmpp/7f3a") : r.word() + "/" + r.word() + (r.n(2) ? "/" + r.word() : QString());
        } else if (estab == "boundAt") {
            res = r.n(2) ? QString("dev@home") : r.word() + "@" + r.word() + ".example";
        } else if (estab == "boundUnicode") {
            res = QString::fromUtf8("b\xc3\xbcro-\xe6\xbc\xa2-") + r.word();
        } else if (estab == "boundLong") {
            while (res.size() < 300) {
                res += r.word() + "-";
            }
        } else {
            fprintf(stderr, "carbons: unknown way to establish the address %s\n", qPrintable(estab));
            exit(2);
        }
        boundJid = e.B + "/" + res;
        // authenticated stream, then the server offers resource binding
        c.streamPrivate()->isAuthenticated = true;
        c.takeSent();
        c.inject("<stream:features><bind xmlns=\"urn:ietf:params:xml:ns:xmpp-bind\"/></stream:features>");
        QString bindId;
        for (const auto &raw : c.takeSent()) {
            if (raw.contains("urn:ietf:params:xml:ns:xmpp-bind")) {
                bindId = QxvXml(raw).el.attribute("id");
            }
        }
        bound = !bindId.isEmpty();
        if (bound) {
            c.inject("<iq type=\"result\" id=\"" + esc(bindId) + "\"><bind xmlns=\"urn:ietf:params:xml:ns:xmpp-bind\"><jid>" +
                     esc(boundJid) + "</jid></bind></iq>");
            QCoreApplication::processEvents();
            c.takeSent();
            // ground truth (RFC 7622): bare JID = everything before the first '/', resource = the rest; the account
            // (local part, domain) is the one that was configured
            e.R = res;
            bound = c.streamPrivate()->sessionStarted;
        }
    }

    ctx.reset(caseId, { { "gen", gen }, { "jidcfg", jidcfg }, { "estab", estab }, { "own", e.B }, { "bound", boundJid }, { "session", bound } });
    if (!bound) {
        return;  // the client did not take the bind result (it diverged): nothing can be delivered on this stream
    }

    int n = 0;
    for (const auto &sv : steps) {
        const auto s = sv.toObject();
        if (s["a"].toString() == "Reconfigure") {
            const auto j = s["j"].toString(), how = s["how"].toString();
            const QString full = jidOfCfg(j);
            const QString oldB = e.B;
            auto &cfg = c.configuration();
            if (how == "setJid") {
                cfg.setJid(full);
            } else if (how == "setUserDomain") {
                cfg.setUser(QXmppUtils::jidToUser(full));
                cfg.setDomain(QXmppUtils::jidToDomain(full));
                if (!QXmppUtils::jidToResource(full).isEmpty()) {
                    cfg.setResource(QXmppUtils::jidToResource(full));
                }
            } else if (how == "assign") {
                QXmppConfiguration fresh;
                fresh.setJid(full);
                fresh.setPassword(QStringLiteral("pw"));
                cfg = fresh;
            } else if (how == "copySetJid") {
                QXmppConfiguration copy = cfg;
                copy.setJid(full);
                cfg = copy;
            } else {
                fprintf(stderr, "carbons: unknown way to reconfigure %s\n", qPrintable(how));
                exit(2);
            }
            e.readIdentity();
            e.prevB = oldB;  // as in the model: the class PreviousOwnBare exists iff this differs from the new one
            ctx.emit_({ { "e", "Reconfigure" }, { "j", j }, { "how", how }, { "own", e.B }, { "prev", oldB } });
            continue;
        }
        const auto cls = s["c"].toString(), w = s["w"].toString(), ik = s["i"].toString();
        if (cls == "PreviousOwnBare" && (e.prevB.isEmpty() || e.prevB == e.B)) {
            break;  // (cannot happen for behaviours of the model: the class exists only after a switch of account)
        }
        auto sp = spellings(cls, e, r, nRandom);
        QStringList use;
        if (allFixed || sp.size() <= 2) {
            use = sp;
        } else {
            // the first fixed spelling and one other, chosen by the seed
            use << sp[0] << sp[1 + int(r.n(sp.size() - 1))];
        }
        for (const auto &spell : use) {
            ++n;
            Msg outer;
            outer.hasFrom = !spell.isNull();
            outer.from = spell == QStringLiteral("\x01" "emptyattr") ? QString() : spell;
            outer.to = e.B + "/" + e.R;
            outer.id = QString("o%1").arg(n);
            outer.type = "chat";
            Msg in1 = makeInner(ik, e, r, QString("i%1").arg(n), "inner");
            Msg in2 = makeInner(ik == "chatIn" ? "chatOut" : "chatIn", e, r, QString("j%1").arg(n), "second");
            QJsonArray inners, never;
            QString children;
            if (w == "none") {
                outer.body = "outer " + r.text();
            } else if (w == "sent" || w == "received") {
                children = carbon(w, msgXml(in1, {}, true));
                inners.append(msgJson(in1));
            } else if (w == "sentBody" || w == "recvBody") {
                outer.body = "outer " + r.text();
                outer.extra = "<thread>" + esc(r.text()) + "</thread><x xmlns=\"urn:example:other\"><sent/></x>";
                children = carbon(w == "sentBody" ? "sent" : "received", msgXml(in1, {}, true)) +
                    "<request xmlns=\"urn:xmpp:receipts\"/>";
                inners.append(msgJson(in1));
            } else if (w == "privSent") {
                children = "<private xmlns=\"urn:xmpp:carbons:2\"/>" + carbon("sent", msgXml(in1, {}, true));
                inners.append(msgJson(in1));
            } else if (w == "both") {
                children = carbon("sent", msgXml(in1, {}, true)) + carbon("received", msgXml(in2, {}, true));
                inners.append(msgJson(in1));
                inners.append(msgJson(in2));
            } else if (w == "nestedSent" || w == "nestedRecv") {
                // level 1 is itself a carbon wrapper (with no body of its own) around level 2
                Msg lvl1 = in1;
                lvl1.body.clear();
                lvl1.extra.clear();
                lvl1.priv = false;
                lvl1.stamp.clear();
                lvl1.neverId.clear();
                lvl1.neverBody.clear();
                auto lvl1Xml = msgXml(lvl1, carbon(w == "nestedSent" ? "received" : "sent", msgXml(in2, {}, true)), true);
                children = carbon(w == "nestedSent" ? "sent" : "received", lvl1Xml);
                in1 = lvl1;
                inners.append(msgJson(in1));
                never.append(QJsonObject { { "id", in2.id }, { "body", in2.body } });
            } else if (w == "emptyCarbon") {
                children = "<sent xmlns=\"urn:xmpp:carbons:2\"/>";
                outer.body = "outer " + r.text();
            } else if (w == "fwdWrongNs") {
                children = carbon("sent", msgXml(in1, {}, true), "urn:xmpp:carbons:2", "urn:example:forward");
                inners.append(msgJson(in1));
            } else if (w == "msgWrongNs") {
                children = carbon("received", msgXml(in1).replace("<message ", "<message xmlns=\"urn:example:notclient\" "));
                inners.append(msgJson(in1));
            } else if (w == "fwdOnly") {
                children = "<forwarded xmlns=\"urn:xmpp:forward:0\">" + msgXml(in1, {}, true) + "</forwarded>";
                outer.body = "outer " + r.text();
                inners.append(msgJson(in1));
            } else if (w == "wrongNs") {
                children = carbon("sent", msgXml(in1, {}, true), "urn:xmpp:carbons:1");
                inners.append(msgJson(in1));
            } else {
                fprintf(stderr, "carbons: unknown wrapper %s\n", qPrintable(w));
                exit(2);
            }

            // a message wrapped by one of the candidate inner messages itself (XEP-0297 inside) is never to be shown
            for (const Msg *im : { &in1, &in2 }) {
                if (!im->neverId.isEmpty() && children.contains(im->neverId)) {
                    never.append(QJsonObject { { "id", im->neverId }, { "body", im->neverBody } });
                }
            }
            e.shown.clear();
            c.inject(msgXml(outer, children));
            QCoreApplication::processEvents();

            QJsonArray shown;
            for (const auto &sh : std::as_const(e.shown)) {
                const auto &m = sh.msg;
                shown.append(QJsonObject { { "ch", sh.ch }, { "from", m.from() }, { "to", m.to() }, { "id", m.id() },
                                           { "body", m.body() }, { "type", typeName(m.type()) }, { "fwd", m.isCarbonForwarded() },
                                           { "priv", m.isPrivate() }, { "stamp", stampOf(m) } });
            }
            ctx.emit_({ { "e", "Recv" }, { "c", cls }, { "w", w }, { "i", ik },
                        { "x", QJsonObject { { "own", e.B }, { "ofrom", outer.from }, { "hasfrom", outer.hasFrom }, { "oto", outer.to },
                                             { "oid", outer.id }, { "obody", outer.body }, { "otype", outer.type },
                                             { "opriv", w == "privSent" } } },
                        { "inners", inners }, { "never", never }, { "shown", shown } });
        }
    }
    c.takeSent();
}

}  // namespace

QXV_DRIVER(carbons)
{
    const bool thorough = ctx.tier == "thorough";
    const int nRandom = ctx.optInt("random", thorough ? 2 : 1);
    const bool allFixed = ctx.optInt("allfixed", thorough ? 1 : 0);
    int n = 0;
    for (const auto &bv : ctx.behaviours()) {
        auto b = bv.toObject();
        if (!b.contains("steps")) {
            continue;
        }
        runBehaviour(ctx, QString("c%1").arg(++n), b, nRandom, allFixed);
    }
    return 0;
}
