// The receiving application's output device for the transfer drivers: a QBuffer that counts the
// writes and, at its `at`-th write (1-based), may misbehave like a capacity-limited / non-blocking
// device ("short": accepts all but the last byte of the block -- nothing of a 1-byte block -- and
// returns that count, no error) or like a failing one ("fail": write() returns -1, nothing stored).
// "all": accepts everything.  Only that one write misbehaves (spec/Ibb.tla: dev, devAt).
#pragma once

#include "relay.h"

#include <QFile>

namespace {

class FaultyBuffer : public CountingBuffer
{
public:
    QString mode = "all";
    qint64 at = 0;
    bool misbehaved = false;

protected:
    qint64 writeData(const char *data, qint64 len) override
    {
        if (mode != "all" && writes + 1 == at) {
            ++writes;
            misbehaved = true;
            if (mode == "fail") {
                return -1;
            }
            const qint64 k = len - 1;
            if (k > 0) {
                --writes;   // the base class counts the call
                return CountingBuffer::writeData(data, k);
            }
            return 0;
        }
        return CountingBuffer::writeData(data, len);
    }
};

// How the receiving application accepts the offer: "device" = accept(QIODevice*) with the buffer
// above; otherwise accept(filePath) with a destination file that does not exist ("new") or already
// holds an older file: "shorter" (half the size), "longer" (7000 bytes more), "same" (same size,
// other content).  The oracle then reads the FILE back from disk.
inline void prepareDestination(const QString &how, const QString &path, qint64 size, quint64 seed)
{
    QFile::remove(path);
    if (how == "new") {
        return;
    }
    const qint64 old = how == "shorter" ? size / 2 : (how == "longer" ? size + 7000 : size);
    QFile f(path);
    if (!f.open(QIODevice::WriteOnly)) {
        fprintf(stderr, "ibb: cannot prepare %s\n", qPrintable(path));
        exit(2);
    }
    f.write(randomBytes(old, seed ^ 0x0ddf11e5ULL));
    f.close();
}

// what the destination holds now: the job's QFile is flushed first (the library keeps it open and
// buffered until the job is deleted), then the file is read through a handle of our own
inline QByteArray readDestination(QObject *job, const QString &path)
{
    if (job) {
        const auto files = job->findChildren<QFile *>();
        for (auto *f : files) {
            f->flush();
        }
    }
    QFile f(path);
    if (!f.open(QIODevice::ReadOnly)) {
        return QByteArray();
    }
    return f.readAll();
}

}  // namespace
