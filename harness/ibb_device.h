// The receiving application's output device for the transfer drivers: a QBuffer that counts the
// writes and, at its `at`-th write (1-based), may misbehave like a capacity-limited / non-blocking
// device ("short": accepts all but the last byte of the block -- nothing of a 1-byte block -- and
// returns that count, no error) or like a failing one ("fail": write() returns -1, nothing stored).
// "all": accepts everything.  Only that one write misbehaves (spec/Ibb.tla: dev, devAt).
#pragma once

#include "relay.h"

namespace {

class FaultyBuffer : public CountingBuffer
{
public:
    QString mode = "all";
    qint64 at = 0;
    bool misbehaved = false;

protected:
    qint64 writeData(const char *data, qint64 len) override
    {
        if (mode != "all" && writes + 1 == at) {
            ++writes;
            misbehaved = true;
            if (mode == "fail") {
                return -1;
            }
            const qint64 k = len - 1;
            if (k > 0) {
                --writes;   // the base class counts the call
                return CountingBuffer::writeData(data, k);
            }
            return 0;
        }
        return CountingBuffer::writeData(data, len);
    }
};

}  // namespace
