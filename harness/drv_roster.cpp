// qxv roster — drives a real QXmppClient + QXmppRosterManager along behaviours of spec/Roster.tla.
// Session steps are real connections to a scripted server on 127.0.0.1 (srvscript.h): SASL PLAIN,
// bind, XEP-0198 enable / resume / failed-resume, connection cut, disconnectFromServer().  Roster
// results, pushes and presences are written by the server on the open connection.
//
// Behaviour: {"steps":[{"a":"Connect","k":"smr"},{"a":"Result","n":1,"items":{"c1":{…}}},
//                      {"a":"Push","from":"look1","items":[{"j":"c1","it":{…item record…}}]}, ...]}
//   an item record has every field of QXmppRosterIq::Item: {x,n,s,a,ap,g,mx,p} (x=0: absent / remove)
// Trace line per step (see spec/RosterTrace.tla): the step with its arguments and
//   o = {view:{c1:{x,n,s,a,ap,g,mx,p},..} (every field of getRosterEntry()), extra:n, pres:{c1:[..],..}, recv:bool, sm:"none|new|resumed", conn:bool,
//        ack:n, err:n, sig:[..], req:n}
// view/pres/recv/sm/conn are read from the public getters after the step, ack/err/req from the
// stanzas the client wrote during the step, sig from the manager's item signals.
#include "qxv.h"
#include "srvscript.h"

#include "QXmppPresence.h"
#include "QXmppRosterIq.h"
#include "QXmppRosterManager.h"

namespace {

const QStringList kUniverse { "c1", "c2", "c3" };
const QStringList kRess { "r1", "r2", "bare" };
const QString kOwnBare = QStringLiteral("me@example.org");
const QString kOwnFull = QStringLiteral("me@example.org/dev1");

QString contactJid(const QString &j) { return j + QStringLiteral("@contacts.example"); }

// An item of spec/Roster.tla is a record over every field QXmppRosterIq::Item parses:
// {x present, n name, s subscription, a ask, ap approved, g groups, mx MIX channel, p MIX participant-id}.
QString itemXml(const QString &j, const QJsonObject &it)
{
    if (it["x"].toInt() == 0) {
        return QStringLiteral("<item jid='%1' subscription='remove'/>").arg(contactJid(j));
    }
    QString xml = QStringLiteral("<item jid='%1'").arg(contactJid(j));
    if (!it["n"].toString().isEmpty()) {
        xml += QStringLiteral(" name='%1'").arg(it["n"].toString());
    }
    if (!it["s"].toString().isEmpty()) {
        xml += QStringLiteral(" subscription='%1'").arg(it["s"].toString());
    }
    if (!it["a"].toString().isEmpty()) {
        xml += QStringLiteral(" ask='%1'").arg(it["a"].toString());
    }
    if (it["ap"].toBool()) {
        xml += QStringLiteral(" approved='true'");
    }
    xml += ">";
    for (const auto &g : it["g"].toArray()) {
        xml += QStringLiteral("<group>%1</group>").arg(g.toString());
    }
    if (it["mx"].toBool()) {
        xml += QStringLiteral("<channel xmlns='urn:xmpp:mix:roster:0'");
        if (!it["p"].toString().isEmpty()) {
            xml += QStringLiteral(" participant-id='%1'").arg(it["p"].toString());
        }
        xml += "/>";
    }
    return xml + "</item>";
}

// sender classes of spec/Roster.tla -> concrete `from` attribute ("" = no attribute)
QString fromAttr(const QString &cls, const QString &firstItemJid)
{
    if (cls == "absent") return {};
    if (cls == "ownBare") return kOwnBare;
    if (cls == "ownFull") return kOwnFull;
    if (cls == "ownOther") return kOwnBare + "/other";
    if (cls == "server") return QStringLiteral("example.org");
    if (cls == "stranger") return QStringLiteral("mallory@evil.example/x");
    if (cls == "contact") return contactJid(firstItemJid.isEmpty() ? "c1" : firstItemJid) + "/r1";
    if (cls == "look1") return QStringLiteral("me@example.org.evil.example/dev1");  // own bare JID is a prefix
    if (cls == "look2") return QStringLiteral("me@evil.example");                    // same local part
    if (cls == "look3") return QStringLiteral("other@example.org/dev1");            // same server, same resource
    return QStringLiteral("unknown@class.invalid");
}

struct Env {
    TestClient c;
    QXmppRosterManager *rm;
    SrvScript srv;
    QStringList sig;
    QStringList reqIds;     // roster requests the server has seen and not answered
    QSet<QString> seenReq;
    int pushNo = 0;

    explicit Env(LoopPeer &peer) : c(TestClient::NoExtensions, kOwnFull), rm(new QXmppRosterManager(&c)), srv(peer, c)
    {
        c.addExtension(rm);
        auto shortJid = [](const QString &bare) {
            return bare.endsWith("@contacts.example") ? bare.left(bare.indexOf('@')) : bare;
        };
        QObject::connect(rm, &QXmppRosterManager::itemAdded, rm, [this, shortJid](const QString &j) { sig << "added:" + shortJid(j); });
        QObject::connect(rm, &QXmppRosterManager::itemChanged, rm, [this, shortJid](const QString &j) { sig << "changed:" + shortJid(j); });
        QObject::connect(rm, &QXmppRosterManager::itemRemoved, rm, [this, shortJid](const QString &j) { sig << "removed:" + shortJid(j); });
    }

    // every field of the entry the manager exposes, in the record shape of the specification
    QJsonObject entryOf(const QString &j) const
    {
        const auto bare = contactJid(j);
        if (!rm->getRosterBareJids().contains(bare)) {
            return { { "x", 0 }, { "n", "" }, { "s", "" }, { "a", "" }, { "ap", false }, { "g", QJsonArray() }, { "mx", false }, { "p", "" } };
        }
        const auto e = rm->getRosterEntry(bare);
        QString sub;
        switch (e.subscriptionType()) {
        case QXmppRosterIq::Item::None: sub = "none"; break;
        case QXmppRosterIq::Item::From: sub = "from"; break;
        case QXmppRosterIq::Item::To: sub = "to"; break;
        case QXmppRosterIq::Item::Both: sub = "both"; break;
        case QXmppRosterIq::Item::Remove: sub = "remove"; break;
        case QXmppRosterIq::Item::NotSet: sub = ""; break;
        }
        QStringList groups = e.groups().values();
        groups.sort();
        return { { "x", e.bareJid() == bare ? 1 : 2 }, { "n", e.name() }, { "s", sub }, { "a", e.subscriptionStatus() },
                 { "ap", e.isApproved() }, { "g", jarr(groups) }, { "mx", e.isMixChannel() }, { "p", e.mixParticipantId() } };
    }

    // what the client wrote during the step: roster requests, replies to the push with id pushId
    QJsonObject observe(const QString &pushId)
    {
        int ack = 0, err = 0, req = 0;
        for (const auto &s : c.takeSent()) {
            if (!s.startsWith("<iq")) {
                continue;
            }
            QxvXml x(s);
            const auto type = x.el.attribute("type"), id = x.el.attribute("id");
            const auto q = x.el.firstChildElement("query");
            if (type == "get" && q.namespaceURI() == "jabber:iq:roster") {
                if (!seenReq.contains(id)) {  // a stanza resent after resumption is the same request
                    seenReq.insert(id);
                    reqIds << id;
                    ++req;
                }
            } else if (!pushId.isEmpty() && id == pushId) {
                if (type == "result") {
                    ++ack;
                } else if (type == "error") {
                    ++err;
                }
            }
        }
        QJsonObject view, pres;
        for (const auto &j : kUniverse) {
            view[j] = entryOf(j);
            auto res = rm->getResources(contactJid(j));
            auto keys = rm->getAllPresencesForBareJid(contactJid(j)).keys();
            QStringList l;
            for (const auto &r : res) {
                l << (r.isEmpty() ? QStringLiteral("bare") : r);
            }
            if (QStringList(keys) != QStringList(res)) {
                l << "!getAllPresencesForBareJid-differs";
            }
            l.sort();
            pres[j] = jarr(l);
        }
        int extra = 0;
        for (const auto &b : rm->getRosterBareJids()) {
            if (!b.endsWith("@contacts.example") || !kUniverse.contains(b.left(b.indexOf('@')))) {
                ++extra;
            }
        }
        auto st = c.streamManagementState();
        QJsonObject o {
            { "view", view }, { "extra", extra }, { "pres", pres }, { "recv", rm->isRosterReceived() },
            { "sm", st == QXmppClient::NoStreamManagement ? "none" : st == QXmppClient::NewStream ? "new" : "resumed" },
            { "conn", c.isConnected() }, { "ack", ack }, { "err", err }, { "sig", jarr(sig) }, { "req", req }
        };
        sig.clear();
        return o;
    }
};

QString rosterItems(const QJsonObject &items)
{
    QString xml;
    for (const auto &j : kUniverse) {
        if (items.contains(j) && items[j].toObject()["x"].toInt() > 0) {
            xml += itemXml(j, items[j].toObject());
        }
    }
    return xml;
}

void runBehaviour(Ctx &ctx, LoopPeer &peer, const QString &caseId, const QJsonArray &steps)
{
    ctx.reset(caseId, { { "jids", jarr(kUniverse) }, { "ress", jarr(kRess) } });
    ctx.out.flush();  // a crash inside the library must not lose the executions already recorded
    Env e(peer);
    for (const auto &sv : steps) {
        const auto s = sv.toObject();
        const auto a = s["a"].toString();
        QJsonObject ev = s;
        ev.remove("a");
        ev["e"] = a;
        bool ok = true;
        QString pushId;
        QElapsedTimer stepTimer;
        stepTimer.start();
        // The behaviour comes from the model; if the implementation did something else an operation
        // may be impossible (no open connection, no outstanding request): end the execution there.
        if (a == "Connect") {
            SrvScript::Kind k;
            ok = SrvScript::kindFrom(s["k"].toString(), k) && !e.c.isConnected();
            if (ok && k != SrvScript::Resumed) {
                e.reqIds.clear();  // the server-side session is gone and with it the requests it had not answered
            }
            ok = ok && e.srv.connect(k);
        } else if (a == "Disconnect") {
            if (!peer.isOpen() || !e.c.isConnected()) {
                ok = e.srv.fail("not connected");
            } else {
                ok = s["k"].toString() == "user" ? e.srv.userDisconnect() : e.srv.cut();
            }
        } else if (a == "Result" || a == "ResultErr" || a == "ResultForged") {
            const int n = s["n"].toInt();
            if (n < 1 || n > e.reqIds.size()) {
                ok = e.srv.fail("no such outstanding roster request");
            } else {
                const auto id = e.reqIds[n - 1];
                QString from;
                if (a == "ResultForged") {
                    from = fromAttr(s["from"].toString(), "c1");
                } else {
                    e.reqIds.removeAt(n - 1);
                }
                const auto fromA = from.isEmpty() ? QString() : QStringLiteral(" from='%1'").arg(from);
                if (a == "ResultErr") {
                    ok = e.srv.deliver(QStringLiteral("<iq type='error' id='%1'%2><error type='cancel'><service-unavailable "
                                                      "xmlns='urn:ietf:params:xml:ns:xmpp-stanzas'/></error></iq>")
                                           .arg(id, fromA));
                } else {
                    ok = e.srv.deliver(QStringLiteral("<iq type='result' id='%1'%2 to='%3'><query xmlns='jabber:iq:roster'>%4</query></iq>")
                                           .arg(id, fromA, kOwnFull, rosterItems(s["items"].toObject())));
                }
            }
        } else if (a == "Push") {
            const auto items = s["items"].toArray();
            QString xml, first;
            for (const auto &iv : items) {
                const auto it = iv.toObject();
                if (first.isEmpty()) {
                    first = it["j"].toString();
                }
                xml += itemXml(it["j"].toString(), it["it"].toObject());
            }
            pushId = QStringLiteral("push%1").arg(++e.pushNo);
            const auto from = fromAttr(s["from"].toString(), first);
            ok = e.srv.deliver(QStringLiteral("<iq type='set' id='%1'%2 to='%3'><query xmlns='jabber:iq:roster'>%4</query></iq>")
                                   .arg(pushId, from.isEmpty() ? QString() : QStringLiteral(" from='%1'").arg(from), kOwnFull, xml));
        } else if (a == "Presence") {
            const auto r = s["r"].toString();
            const auto from = contactJid(s["j"].toString()) + (r == "bare" ? QString() : "/" + r);
            ok = e.srv.deliver(QStringLiteral("<presence from='%1' to='%2'%3/>")
                                   .arg(from, kOwnFull, s["av"].toBool() ? QString() : QStringLiteral(" type='unavailable'")));
        } else {
            fprintf(stderr, "roster: unknown step %s\n", qPrintable(a));
            exit(2);
        }
        if (!ok) {
            ctx.emit_({ { "e", "Abort" }, { "at", a }, { "why", e.srv.why } });
            break;
        }
        if (ctx.opt.contains("timing")) {
            fprintf(stderr, "%s %lld ms\n", qPrintable(a), (long long)stepTimer.elapsed());
        }
        ev["o"] = e.observe(pushId);
        ctx.emit_(ev);
    }
    // leave no connection behind for the next execution
    if (peer.isOpen()) {
        peer.cut();
        qxvSpin([&] { return !e.c.isConnected(); }, 1000);
    }
}

}  // namespace

QXV_DRIVER(roster)
{
    LoopPeer peer;
    auto behs = ctx.behaviours();
    int n = 0;
    for (const auto &bv : behs) {
        runBehaviour(ctx, peer, QString("r%1").arg(++n), bv.toObject()["steps"].toArray());
    }
    return 0;
}
