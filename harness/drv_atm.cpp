// qxv atm — drives the real QXmppAtmManager + QXmppAtmTrustMemoryStorage (on an unconnected
// QXmppClient) along behaviours of spec/Atm.tla.
// Behaviour: {"policy":"None|Toakafa","init":[15 levels, accounts x keys],
//             "steps":[{"a":"Manual","o":"a","auth":["a1"],"dis":[]},
//                      {"a":"TrustMsg","from":"own","sk":"o1","owners":[{"o":"a","t":["k"],"d":[]},{"o":"b","t":[],"d":["k"]}]},
//                      {"a":"OwnEcho","from":"own","sk":"o1","owners":[...]}]}
// After every step the trust level of every (account, key) pair and the postponed decisions held
// under every key id are read back through the trust manager / storage API and logged
// (see spec/AtmTrace.tla).
#include "fixture.h"
#include "qxv.h"

#include "QXmppAtmManager.h"
#include "QXmppAtmTrustMemoryStorage.h"
#include "QXmppE2eeMetadata.h"
#include "QXmppMessage.h"
#include "QXmppTask.h"
#include "QXmppTrustMessageElement.h"
#include "QXmppTrustMessageKeyOwner.h"

#include <algorithm>
#include <memory>

// QXmppAtmManager declares `friend class tst_QXmppAtmManager` (the repository's unit test). A
// harness class of that name reaches the private message handler without any hook in /repo.
class tst_QXmppAtmManager
{
public:
    static QXmppTask<void> handleMessage(QXmppAtmManager &m, const QXmppMessage &msg) { return m.handleMessage(msg); }
};

namespace {

const QString ENC = QStringLiteral("eu.siacs.conversations.axolotl");
const QString NS_ATM = QStringLiteral("urn:xmpp:atm:1");
const QStringList ACCTS = { "own", "a", "b" };
// key ids; a key is an (account, key id) pair: "k" exists under every account
const QStringList KEYS = { "o1", "o2", "a1", "b1", "k" };
// ids of keys that send trust messages (each belongs to one account, see spec/Atm.tla)
const QStringList SENDER_IDS = { "o1", "o2", "a1", "b1" };
const QString OWN_FULL = QStringLiteral("me@example.org/dev1");

QString bareJid(const QString &acct)
{
    return acct == "own" ? QStringLiteral("me@example.org") : acct + QStringLiteral("@example.org");
}
QString acctOf(const QString &jid)
{
    for (const auto &a : ACCTS) {
        if (bareJid(a) == jid) {
            return a;
        }
    }
    return {};
}

QString levelName(QXmpp::TrustLevel l)
{
    switch (l) {
    case QXmpp::TrustLevel::Undecided:
        return "Und";
    case QXmpp::TrustLevel::AutomaticallyDistrusted:
        return "ADis";
    case QXmpp::TrustLevel::ManuallyDistrusted:
        return "MDis";
    case QXmpp::TrustLevel::AutomaticallyTrusted:
        return "ATru";
    case QXmpp::TrustLevel::ManuallyTrusted:
        return "MTru";
    case QXmpp::TrustLevel::Authenticated:
        return "Auth";
    }
    return QStringLiteral("?%1").arg(int(l));
}
bool levelOf(const QString &n, QXmpp::TrustLevel &out)
{
    static const QMap<QString, QXmpp::TrustLevel> m {
        { "Und", QXmpp::TrustLevel::Undecided }, { "ADis", QXmpp::TrustLevel::AutomaticallyDistrusted },
        { "MDis", QXmpp::TrustLevel::ManuallyDistrusted }, { "ATru", QXmpp::TrustLevel::AutomaticallyTrusted },
        { "MTru", QXmpp::TrustLevel::ManuallyTrusted }, { "Auth", QXmpp::TrustLevel::Authenticated }
    };
    if (!m.contains(n)) {
        return false;
    }
    out = m[n];
    return true;
}

template<typename T>
bool settle(QXmppTask<T> &t)
{
    for (int i = 0; i < 1000 && !t.isFinished(); ++i) {
        QCoreApplication::processEvents();
    }
    QCoreApplication::processEvents();
    return t.isFinished();
}

QList<QByteArray> keyList(const QJsonValue &v)
{
    QList<QByteArray> r;
    for (const auto &k : v.toArray()) {
        r << k.toString().toUtf8();
    }
    return r;
}

struct Env {
    std::unique_ptr<QXmppAtmTrustMemoryStorage> storage;  // must outlive the manager (owned by the client)
    std::unique_ptr<TestClient> client;
    QXmppAtmManager *manager = nullptr;
    bool ok = true;  // false: an API task did not finish -> end the execution

    Env()
    {
        storage = std::make_unique<QXmppAtmTrustMemoryStorage>();
        client = std::make_unique<TestClient>(TestClient::NoExtensions, OWN_FULL);
        manager = new QXmppAtmManager(storage.get());
        client->addExtension(manager);
    }
    ~Env()
    {
        client.reset();  // deletes the manager first
        storage.reset();
    }

    // full projected state, read back through the API
    void observe(QJsonObject &ev)
    {
        QJsonArray lv;
        for (const auto &a : ACCTS) {
            for (const auto &k : KEYS) {
                auto t = manager->trustLevel(ENC, bareJid(a), k.toUtf8());
                if (!settle(t)) {
                    ok = false;
                    lv.append("?");
                    continue;
                }
                lv.append(levelName(t.result()));
            }
        }
        ev["lv"] = lv;
        // stored keys outside the universe (wrong owner JID, unknown key id)
        int known = 0, stored = 0;
        {
            auto t = manager->keys(ENC);
            if (settle(t)) {
                const auto all = t.result();
                for (auto it = all.constBegin(); it != all.constEnd(); ++it) {
                    for (auto jt = it.value().constBegin(); jt != it.value().constEnd(); ++jt) {
                        ++stored;
                        if (!acctOf(jt.key()).isEmpty() && KEYS.contains(QString::fromUtf8(jt.value()))) {
                            ++known;
                        }
                    }
                }
            } else {
                ok = false;
            }
        }
        ev["xk"] = stored - known;
        // postponed decisions per sender key id
        struct H {
            QString sk, o, k;
            bool t;
        };
        QVector<H> held;
        int stray = 0, listed = 0;
        for (const auto &sk : KEYS) {
            auto t = storage->keysForPostponedTrustDecisions(ENC, { sk.toUtf8() });
            if (!settle(t)) {
                ok = false;
                continue;
            }
            const auto res = t.result();
            for (auto it = res.constBegin(); it != res.constEnd(); ++it) {
                for (auto jt = it.value().constBegin(); jt != it.value().constEnd(); ++jt) {
                    ++listed;
                    auto o = acctOf(jt.key());
                    auto k = QString::fromUtf8(jt.value());
                    if (o.isEmpty() || !KEYS.contains(k) || !SENDER_IDS.contains(sk)) {
                        ++stray;
                        continue;
                    }
                    held.append({ sk, o, k, it.key() });
                }
            }
        }
        {
            // everything that is held, whatever the sender key: entries under unknown sender keys
            auto t = storage->keysForPostponedTrustDecisions(ENC);
            int total = 0;
            if (settle(t)) {
                const auto res = t.result();
                for (auto it = res.constBegin(); it != res.constEnd(); ++it) {
                    total += it.value().size();
                }
                // more entries than found under the key ids of the universe: unknown sender keys
                if (total > listed) {
                    stray += total - listed;
                }
            } else {
                ok = false;
            }
        }
        std::sort(held.begin(), held.end(), [](const H &x, const H &y) {
            return std::tie(x.sk, x.o, x.k, x.t) < std::tie(y.sk, y.o, y.k, y.t);
        });
        QJsonArray pp;
        for (const auto &h : held) {
            pp.append(QJsonObject { { "sk", h.sk }, { "o", h.o }, { "k", h.k }, { "t", h.t } });
        }
        ev["pp"] = pp;
        ev["xp"] = stray;
    }

    // trust messages the manager tried to send (recorded, not constrained)
    QJsonArray takeSent()
    {
        QJsonArray r;
        for (const auto &s : client->takeSent()) {
            QxvXml x(s);
            auto to = acctOf(x.el.attribute("to"));
            int owners = 0;
            auto tm = x.el.firstChildElement("trust-message");
            for (auto ko = tm.firstChildElement("key-owner"); !ko.isNull(); ko = ko.nextSiblingElement("key-owner")) {
                ++owners;
            }
            r.append(QJsonObject { { "to", to.isEmpty() ? x.el.attribute("to") : to }, { "owners", owners } });
        }
        return r;
    }
};

QXmppMessage buildMessage(const QString &fromFull, const QString &sk, const QJsonArray &owners)
{
    QList<QXmppTrustMessageKeyOwner> kos;
    for (const auto &ov : owners) {
        auto o = ov.toObject();
        QXmppTrustMessageKeyOwner ko;
        ko.setJid(bareJid(o["o"].toString()));
        ko.setTrustedKeys(keyList(o["t"]));
        ko.setDistrustedKeys(keyList(o["d"]));
        kos << ko;
    }
    QXmppTrustMessageElement el;
    el.setUsage(NS_ATM);
    el.setEncryption(ENC);
    el.setKeyOwners(kos);
    QXmppE2eeMetadata md;
    md.setSenderKey(sk.toUtf8());
    QXmppMessage m;
    m.setFrom(fromFull);
    m.setTo(OWN_FULL);
    m.setE2eeMetadata(md);
    m.setTrustMessageElement(el);
    return m;
}

void runBehaviour(Ctx &ctx, const QString &caseId, const QJsonObject &b)
{
    Env e;
    const auto policy = b["policy"].toString();
    {
        auto t = e.manager->setSecurityPolicy(ENC, policy == "Toakafa" ? QXmpp::Toakafa : QXmpp::NoSecurityPolicy);
        settle(t);
    }
    const auto init = b["init"].toArray();
    int i = 0;
    for (const auto &a : ACCTS) {
        for (const auto &k : KEYS) {
            QXmpp::TrustLevel l;
            if (i < init.size() && levelOf(init[i].toString(), l) && l != QXmpp::TrustLevel::Undecided) {
                auto t = e.manager->addKeys(ENC, bareJid(a), { k.toUtf8() }, l);
                settle(t);
            }
            ++i;
        }
    }
    QJsonObject r { { "policy", policy } };
    e.observe(r);
    ctx.reset(caseId, r);

    for (const auto &sv : b["steps"].toArray()) {
        if (!e.ok) {
            break;  // the implementation did not complete an API call: end the execution here
        }
        const auto s = sv.toObject();
        const auto a = s["a"].toString();
        QJsonObject ev { { "e", a } };
        bool fin = false;
        if (a == "Manual") {
            ev["o"] = s["o"];
            ev["auth"] = s["auth"];
            ev["dis"] = s["dis"];
            auto t = e.manager->makeTrustDecisions(ENC, bareJid(s["o"].toString()), keyList(s["auth"]), keyList(s["dis"]));
            fin = settle(t);
        } else if (a == "TrustMsg" || a == "OwnEcho") {
            const auto from = s["from"].toString();
            const auto sk = s["sk"].toString();
            ev["from"] = from;
            ev["sk"] = sk;
            ev["owners"] = s["owners"];
            // OwnEcho: the message comes from this very device (full JID), e.g. reflected by carbons;
            // TrustMsg: from another resource of the account
            const auto fromFull = a == "OwnEcho" ? OWN_FULL : bareJid(from) + QStringLiteral("/") + sk;
            auto t = tst_QXmppAtmManager::handleMessage(*e.manager, buildMessage(fromFull, sk, s["owners"].toArray()));
            fin = settle(t);
        } else {
            fprintf(stderr, "atm: unknown step %s\n", qPrintable(a));
            exit(2);
        }
        ev["fin"] = fin;
        if (!fin) {
            e.ok = false;
        }
        e.observe(ev);
        ev["sent"] = e.takeSent();
        ctx.emit_(ev);
    }
}

}  // namespace

QXV_DRIVER(atm)
{
    auto behs = ctx.behaviours();
    int n = ctx.optInt("base", 0);  // case ids continue across the chunks of a parallel replay
    for (const auto &bv : behs) {
        runBehaviour(ctx, QString("t%1").arg(++n), bv.toObject());
    }
    return 0;
}
