// qxv mam — drives a real QXmppClient + QXmppMamManager (optionally with a stub end-to-end encryption extension)
// along behaviours of spec/Mam.tla (extension `mam`, XEP-0313).
//
// The client is the in-memory TestClient of fixture.h with the session moves of blocking_session.h.  The archives,
// the forging entities and the outcome of decryption exist only in the model: <result/> messages, <fin/> results and
// IQ errors are injected through the real receive path (QXmppOutgoingClient::handlePacketReceived); the stub
// extension answers isEncrypted() from a marker element and keeps the promise of every decryptMessage() call until a
// Decrypt step finishes it (success: body "dec:<body>", failure: QXmppError).
//
// Behaviour: {"id":"b3","e2ee":true,"steps":[{"a":"Query","api":"task","to":"own"},
//             {"a":"Result","q":1,"fr":"none","enc":true,"tok":1},{"a":"Fin","q":1,"fr":"none","c":true},
//             {"a":"Decrypt","tok":1,"ok":true}, ...]}
// Trace line per step (spec/MamTrace.tla): the event with its arguments, "e" = its kind, and
//   o = {sent:[{k,id,to}], sig:[{s,q,tok,c}], done:[{t,r,msgs:[{tok,how}],c}], jobs:[tok..], passed:n}
#include "blocking_session.h"
#include "blocking_supervise.h"
#include "qxv.h"

#include "QXmppE2eeExtension.h"
#include "QXmppMamManager.h"
#include "QXmppMessage.h"
#include "QXmppPromise.h"
#include "QXmppTask.h"

#include <map>
#include <memory>

namespace {

const QString kOwnBare = QStringLiteral("me@example.org");
const QString kOwnFull = QStringLiteral("me@example.org/dev1");
const QString kMuc = QStringLiteral("room@conference.example.org");
const char *kNsMam = "urn:xmpp:mam:2";
const char *kNsMark = "urn:qxv:e2ee:0";

QString archiveJid(const QString &to) { return to == "muc" ? kMuc : QString(); }
QString archiveName(const QString &jid) { return jid.isEmpty() ? QStringLiteral("own") : jid == kMuc ? QStringLiteral("muc") : "?" + jid; }
QString fromJid(const QString &fr)
{
    return fr == "own" ? kOwnBare : fr == "muc" ? kMuc
        : fr == "evil"                          ? QStringLiteral("mallory@evil.example/x")
                                                : QString();
}
int tokOfBody(QString body)
{
    if (body.startsWith("dec:")) {
        body = body.mid(4);
    }
    return body.startsWith('m') ? body.mid(1).toInt() : -1;
}

// The archived message is "encrypted" iff it carries <encrypted xmlns='urn:qxv:e2ee:0'/>; its id is "m<tok>" (the id
// is in the public part of a message, the body is not).
class StubE2ee : public QXmppE2eeExtension
{
public:
    std::map<int, QXmppPromise<MessageDecryptResult>> jobs;  // tok -> promise of the running job
    std::map<int, QXmppMessage> input;
    QJsonArray started;

    QXmppTask<MessageEncryptResult> encryptMessage(QXmppMessage &&, const std::optional<QXmppSendStanzaParams> &) override
    {
        QXmppPromise<MessageEncryptResult> p;
        p.finish(MessageEncryptResult { QXmppError { "qxv: nothing is sent encrypted in this driver", {} } });
        return p.task();
    }
    QXmppTask<MessageDecryptResult> decryptMessage(QXmppMessage &&m) override
    {
        const int tok = m.id().startsWith('m') ? m.id().mid(1).toInt() : -1;
        started.append(tok);
        QXmppPromise<MessageDecryptResult> p;
        auto task = p.task();
        if (jobs.count(tok)) {
            // a second job for the same archived message (only a diverging implementation does that): fails at once
            p.finish(MessageDecryptResult { QXmppError { "qxv: duplicate job", {} } });
            return task;
        }
        input.emplace(tok, m);
        jobs.emplace(tok, std::move(p));
        return task;
    }
    QXmppTask<IqEncryptResult> encryptIq(QXmppIq &&, const std::optional<QXmppSendStanzaParams> &) override
    {
        QXmppPromise<IqEncryptResult> p;
        p.finish(IqEncryptResult { QXmppError { "qxv: no encrypted IQs", {} } });
        return p.task();
    }
    QXmppTask<IqDecryptResult> decryptIq(const QDomElement &) override
    {
        QXmppPromise<IqDecryptResult> p;
        p.finish(IqDecryptResult { NotEncrypted {} });
        return p.task();
    }
    bool isEncrypted(const QDomElement &el) override
    {
        for (auto ch = el.firstChildElement(); !ch.isNull(); ch = ch.nextSiblingElement()) {
            if (ch.tagName() == "encrypted" && ch.namespaceURI() == kNsMark) {
                return true;
            }
        }
        return false;
    }
    bool isEncrypted(const QXmppMessage &) override { return false; }

    void finish(int tok, bool ok)
    {
        auto it = jobs.find(tok);
        if (it == jobs.end()) {
            return;
        }
        auto p = std::move(it->second);
        auto m = input.at(tok);
        jobs.erase(it);
        input.erase(tok);
        if (ok) {
            m.setBody(QStringLiteral("dec:m%1").arg(tok));
            p.finish(MessageDecryptResult { std::move(m) });
        } else {
            p.finish(MessageDecryptResult { QXmppError { "qxv: decryption failed", {} } });
        }
    }
};

struct Env : QObject {
    std::unique_ptr<TestClient> c;
    std::unique_ptr<QxvSession> sess;
    std::unique_ptr<StubE2ee> stub;
    QXmppMamManager *mgr = nullptr;
    QJsonArray sig, done;
    int passed = 0;
    QMap<int, QString> queryId;  // n-th query -> its query id
    int nquery = 0;

    ~Env() override
    {
        sess.reset();
        c.reset();
        stub.reset();
    }

    int queryOf(const QString &id) const
    {
        for (auto it = queryId.begin(); it != queryId.end(); ++it) {
            if (it.value() == id) {
                return it.key();
            }
        }
        return id == "nobody-asked" ? 0 : -1;
    }

    bool start(bool e2ee)
    {
        TestClient::resetIdCounter();
        c = std::make_unique<TestClient>(TestClient::NoExtensions, kOwnFull);
        mgr = c->addNewExtension<QXmppMamManager>();
        if (e2ee) {
            stub = std::make_unique<StubE2ee>();
            c->setEncryptionExtension(stub.get());
        }
        QObject::connect(mgr, &QXmppMamManager::archivedMessageReceived, this, [this](const QString &qid, const QXmppMessage &m) {
            sig.append(QJsonObject { { "s", "archived" }, { "q", queryOf(qid) }, { "tok", tokOfBody(m.body()) }, { "c", false } });
        });
        QObject::connect(mgr, &QXmppMamManager::resultsRecieved, this, [this](const QString &qid, const QXmppResultSetReply &, bool complete) {
            sig.append(QJsonObject { { "s", "results" }, { "q", queryOf(qid) }, { "tok", 0 }, { "c", complete } });
        });
        QObject::connect(c.get(), &QXmppClient::messageReceived, this, [this](const QXmppMessage &) { ++passed; });
        sess = std::make_unique<QxvSession>(*c);
        if (!sess->open(false) || !c->isConnected()) {
            return false;
        }
        int stanzas = 0;
        sentProjection(stanzas);  // the initial presence
        sess->acknowledge(stanzas);
        return true;
    }

    QJsonArray sentProjection(int &stanzas)
    {
        QJsonArray r;
        const bool onWire = sess->socketConnected();
        for (const auto &s : c->takeSent()) {
            if (!onWire) {
                continue;  // XmppSocket::sendData logs before it notices that there is no connection
            }
            if (!s.startsWith("<presence") && !s.startsWith("<message") && !s.startsWith("<iq")) {
                r.append(QJsonObject { { "k", "other" }, { "id", 0 }, { "to", s.left(12) } });
                continue;
            }
            ++stanzas;
            QxvXml x(s);
            const auto tag = x.el.tagName(), type = x.el.attribute("type"), id = x.el.attribute("id"), to = x.el.attribute("to");
            const auto q = x.el.firstChildElement("query");
            if (tag == "presence") {
                r.append(QJsonObject { { "k", "pres" }, { "id", 0 }, { "to", "" } });
            } else if (tag == "iq" && type == "set" && q.namespaceURI() == kNsMam && q.attribute("queryid") == id) {
                // the n-th request written is the n-th query of the model (queries are written when they are made)
                r.append(QJsonObject { { "k", "query" }, { "id", queryOf(id) }, { "to", archiveName(to) } });
            } else {
                r.append(QJsonObject { { "k", "other" }, { "id", 0 }, { "to", tag + ":" + type + ":" + id } });
            }
        }
        return r;
    }

    QJsonObject observe()
    {
        int stanzas = 0;
        QJsonObject o { { "sent", sentProjection(stanzas) }, { "sig", sig }, { "done", done }, { "passed", passed },
                        { "jobs", stub ? stub->started : QJsonArray() } };
        sig = {};
        done = {};
        passed = 0;
        if (stub) {
            stub->started = {};
        }
        sess->acknowledge(stanzas);
        return o;
    }

    // the query id of a query that was never written (made without a connection) is not known to anybody
    QString idOfQuery(int n) const { return n == 0 ? QStringLiteral("nobody-asked") : queryId.value(n, QStringLiteral("never-written-%1").arg(n)); }

    void query(const QString &api, const QString &to)
    {
        const int n = ++nquery;
        if (api == "legacy") {
            queryId[n] = mgr->retrieveArchivedMessages(archiveJid(to));
            return;
        }
        // the task API does not tell its query id: it is the id of the request it writes (read below); set before
        // the continuation can run
        const auto before = c->sent.size();
        auto task = mgr->retrieveMessages(archiveJid(to));
        for (int i = before; i < c->sent.size(); ++i) {
            if (c->sent[i].startsWith("<iq")) {
                QxvXml x(c->sent[i]);
                queryId[n] = x.el.attribute("id");
            }
        }
        task.then(this, [this, n](QXmppMamManager::RetrieveResult &&r) {
            if (auto *ok = std::get_if<QXmppMamManager::RetrievedMessages>(&r)) {
                QJsonArray msgs;
                for (const auto &m : ok->messages) {
                    msgs.append(QJsonObject { { "tok", tokOfBody(m.body()) }, { "how", m.body().startsWith("dec:") ? "d" : "p" } });
                }
                done.append(QJsonObject { { "t", n }, { "r", "ok" }, { "msgs", msgs }, { "c", ok->result.complete() } });
            } else {
                done.append(QJsonObject { { "t", n }, { "r", "err" }, { "msgs", QJsonArray() }, { "c", false } });
            }
        });
    }

    QString fromAttr(const QString &fr)
    {
        const auto j = fromJid(fr);
        return j.isEmpty() ? QString() : QStringLiteral(" from='%1'").arg(j);
    }

    void injectResult(int q, const QString &fr, bool enc, int tok)
    {
        c->inject(QStringLiteral("<message id='r%1'%2 to='%3'><result xmlns='%4' queryid='%5' id='a%1'>"
                                 "<forwarded xmlns='urn:xmpp:forward:0'><delay xmlns='urn:xmpp:delay' stamp='2020-01-01T00:00:00Z'/>"
                                 "<message xmlns='jabber:client' id='m%1' from='witch@shakespeare.lit/x' to='%6' type='chat'>"
                                 "<body>m%1</body>%7</message></forwarded></result></message>")
                      .arg(tok)
                      .arg(fromAttr(fr), kOwnFull, kNsMam, idOfQuery(q), kOwnBare,
                           enc ? QStringLiteral("<encrypted xmlns='%1'/>").arg(kNsMark) : QString()));
    }
    void injectFin(int q, const QString &fr, bool complete)
    {
        c->inject(QStringLiteral("<iq type='result' id='%1'%2 to='%3'><fin xmlns='%4'%5><set xmlns='http://jabber.org/protocol/rsm'>"
                                 "<first index='0'>a1</first><last>a9</last><count>9</count></set></fin></iq>")
                      .arg(idOfQuery(q), fromAttr(fr), kOwnFull, kNsMam, complete ? QStringLiteral(" complete='true'") : QString()));
    }
    void injectErr(int q, const QString &to)
    {
        c->inject(QStringLiteral("<iq type='error' id='%1'%2 to='%3'><error type='cancel'><item-not-found xmlns='urn:ietf:params:xml:ns:xmpp-stanzas'/></error></iq>")
                      .arg(idOfQuery(q), fromAttr(to == "muc" ? "muc" : "none"), kOwnFull));
    }
};

void runBehaviour(Ctx &ctx, const QString &caseId, const QJsonObject &beh)
{
    ctx.reset(caseId, { { "e2ee", beh["e2ee"].toBool() } });
    ctx.out.flush();
    Env e;
    if (!e.start(beh["e2ee"].toBool())) {
        fprintf(stderr, "mam: the in-memory session could not be established\n");
        exit(2);
    }
    QMap<int, QString> toOf;  // archive of the n-th query (for the sender of an IQ error)
    for (const auto &sv : beh["steps"].toArray()) {
        const auto s = sv.toObject();
        const auto a = s["a"].toString();
        QJsonObject ev = s;
        ev["e"] = a;
        if (a == "Query") {
            toOf[e.nquery + 1] = s["to"].toString();
            e.query(s["api"].toString(), s["to"].toString());
        } else if (a == "Result") {
            if (e.sess->up) {
                e.injectResult(s["q"].toInt(), s["fr"].toString(), s["enc"].toBool(), s["tok"].toInt());
            }
        } else if (a == "Fin") {
            if (e.sess->up) {
                e.injectFin(s["q"].toInt(), s["fr"].toString(), s["c"].toBool());
            }
        } else if (a == "FinErr") {
            if (e.sess->up) {
                e.injectErr(s["q"].toInt(), toOf.value(s["q"].toInt()));
            }
        } else if (a == "Decrypt") {
            if (e.stub) {
                e.stub->finish(s["tok"].toInt(), s["ok"].toBool());
            }
        } else if (a == "Disconnect") {
            if (e.sess->up) {
                e.sess->close(s["kd"].toString() == "resumable");
            }
        } else if (a == "Connect") {
            if (!e.sess->up && !e.sess->open(s["kc"].toString() == "resumed")) {
                fprintf(stderr, "mam: reconnect failed\n");
                exit(2);
            }
        } else {
            fprintf(stderr, "mam: unknown step %s\n", qPrintable(a));
            exit(2);
        }
        QCoreApplication::processEvents();
        ev["o"] = e.observe();
        ctx.emit_(ev);
        ctx.out.flush();  // what was observed before a crash is kept
    }
}

}  // namespace

QXV_DRIVER(mam)
{
    const auto behs = ctx.behaviours();
    auto caseId = [&](int i) {
        const auto b = behs[i].toObject();
        return b.contains("id") ? b["id"].toString() : QStringLiteral("b%1").arg(i + 1);
    };
    return qxvSupervise(ctx, behs.size(), [&](int i) { runBehaviour(ctx, caseId(i), behs[i].toObject()); }, caseId);
}
