// qxv stun — drives the real QXmppStunMessage codec and the public HMAC/CRC helpers along the
// case table of spec/Stun.tla (C14).
//
// Input, one JSON object per line (written by lib/props/C14.py from the TLC export):
//   {"case":ID,"m":{"type":T,"id":[12 bytes],"a":[{"n":NAME,"b":[bytes],"x":N},...]},"klen":L,"fp":B,
//    "steps":[{"a":"Encode"},{"a":"Decode","key":"same|other|none"},{"a":"FlipAll"}]}
//   {"case":ID,"helper":true,"steps":[{"a":"Hmac","kl":L,"tl":T},{"a":"Crc","tl":T}]}
//   {"case":ID,"fuzz":true,"n":N}
// Output: see spec/StunTrace.tla.  Keys and helper texts are fixed functions of their length
// (keyBytes/textBytes, mirrored in lib/refstun.py).
#include "qxv.h"

#include "QXmppStun.h"
#include "QXmppUtils.h"

#include <QHostAddress>
#include <QSet>

#include <memory>

namespace {

QByteArray keyBytes(int len)
{
    QByteArray k(len, 0);
    for (int i = 0; i < len; i++) {
        k[i] = char((len * 13 + i * 7 + 5) & 0xff);
    }
    return k;
}

QByteArray textBytes(int len)
{
    QByteArray t(len, 0);
    for (int i = 0; i < len; i++) {
        t[i] = char((i * 31 + len) & 0xff);
    }
    return t;
}

QByteArray fromJ(const QJsonValue &v)
{
    const auto a = v.toArray();
    QByteArray r(a.size(), 0);
    for (int i = 0; i < a.size(); i++) {
        r[i] = char(a[i].toInt());
    }
    return r;
}

QJsonArray toJ(const QByteArray &b)
{
    QJsonArray a;
    for (char ch : b) {
        a.append(int(quint8(ch)));
    }
    return a;
}

quint32 be32(const QByteArray &b)
{
    return (quint32(quint8(b[0])) << 24) | (quint32(quint8(b[1])) << 16) | (quint32(quint8(b[2])) << 8) | quint32(quint8(b[3]));
}

QByteArray be32Bytes(quint32 v)
{
    QByteArray b(4, 0);
    b[0] = char(v >> 24);
    b[1] = char(v >> 16);
    b[2] = char(v >> 8);
    b[3] = char(v);
    return b;
}

QHostAddress addrOf(const QByteArray &ip)
{
    if (ip.size() == 4) {
        return QHostAddress(be32(ip));
    }
    Q_IPV6ADDR a;
    for (int i = 0; i < 16; i++) {
        a[i] = quint8(ip[i]);
    }
    return QHostAddress(a);
}

QByteArray ipBytes(const QHostAddress &h)
{
    if (h.protocol() == QAbstractSocket::IPv4Protocol) {
        return be32Bytes(h.toIPv4Address());
    }
    if (h.protocol() == QAbstractSocket::IPv6Protocol) {
        Q_IPV6ADDR a = h.toIPv6Address();
        QByteArray b(16, 0);
        for (int i = 0; i < 16; i++) {
            b[i] = char(a[i]);
        }
        return b;
    }
    return {};
}

// attribute names of spec/Stun.tla and their STUN type codes, in codec order
struct AttrDef {
    const char *name;
    quint16 code;
};
const AttrDef kAttrs[] = {
    { "Mapped", 0x0001 }, { "ChangeRequest", 0x0003 }, { "Source", 0x0004 }, { "Changed", 0x0005 },
    { "Other", 0x802c }, { "XorMapped", 0x0020 }, { "XorPeer", 0x0012 }, { "XorRelayed", 0x0016 },
    { "ErrorCode", 0x0009 }, { "Priority", 0x0024 }, { "UseCandidate", 0x0025 }, { "ChannelNumber", 0x000c },
    { "Data", 0x0013 }, { "Lifetime", 0x000d }, { "Nonce", 0x0015 }, { "Realm", 0x0014 },
    { "RequestedTransport", 0x0019 }, { "ReservationToken", 0x0022 }, { "Software", 0x8022 },
    { "Username", 0x0006 }, { "IceControlling", 0x802a }, { "IceControlled", 0x8029 }
};

// the seven address-valued attributes of an object, by specification name
QHostAddress *hostField(QXmppStunMessage &m, const QString &n, quint16 **port)
{
    if (n == "Mapped") { *port = &m.mappedPort; return &m.mappedHost; }
    if (n == "Source") { *port = &m.sourcePort; return &m.sourceHost; }
    if (n == "Changed") { *port = &m.changedPort; return &m.changedHost; }
    if (n == "Other") { *port = &m.otherPort; return &m.otherHost; }
    if (n == "XorMapped") { *port = &m.xorMappedPort; return &m.xorMappedHost; }
    if (n == "XorPeer") { *port = &m.xorPeerPort; return &m.xorPeerHost; }
    if (n == "XorRelayed") { *port = &m.xorRelayedPort; return &m.xorRelayedHost; }
    return nullptr;
}

// Round trip of the address attributes judged on the objects themselves: QHostAddress equality and protocol()
// of what was set against what came back, and the port.  A scope id is not part of a STUN address (RFC 5389
// 15.1: family, port, 4 or 16 address bytes): the comparison is modulo scope id.  An attribute set with port 0
// is "not set" for the library and is not looked at.
bool hostsEqual(const QJsonObject &mset, QXmppStunMessage &built, QXmppStunMessage &decoded, QString *why)
{
    const auto attrs = mset["a"].toArray();
    for (const auto &av : attrs) {
        const QString n = av.toObject()["n"].toString();
        quint16 *ps = nullptr, *pd = nullptr;
        QHostAddress *hs = hostField(built, n, &ps), *hd = hostField(decoded, n, &pd);
        if (!hs || !hd || *ps == 0) {
            continue;
        }
        QHostAddress s = *hs;
        s.setScopeId(QString());
        if (!(s == *hd) || s.protocol() != hd->protocol() || *ps != *pd) {
            *why = n + ": set " + hs->toString() + " port " + QString::number(*ps) + ", decoded " + hd->toString() + " port " + QString::number(*pd);
            return false;
        }
    }
    return true;
}

bool buildMessage(const QJsonObject &m, QXmppStunMessage &msg, const QJsonArray &scoped = {})
{
    msg.setType(quint16(m["type"].toInt()));
    const QByteArray id = fromJ(m["id"]);
    if (id.size() != 12) {
        return false;
    }
    msg.setId(id);
    const auto attrs = m["a"].toArray();
    int idx = -1;
    for (const auto &av : attrs) {
        const auto a = av.toObject();
        const QString n = a["n"].toString();
        const QByteArray b = fromJ(a["b"]);
        const int x = a["x"].toInt();
        idx++;
        quint16 *pp = nullptr;
        if (QHostAddress *hp = hostField(msg, n, &pp)) {
            *hp = addrOf(b);
            if (idx < scoped.size() && scoped[idx].toBool()) {
                hp->setScopeId(QStringLiteral("lo"));   // e.g. fe80::1%lo
            }
            *pp = quint16(x);
            continue;
        }
        if (n == "Mapped") {
            msg.mappedHost = addrOf(b);
            msg.mappedPort = quint16(x);
        } else if (n == "Source") {
            msg.sourceHost = addrOf(b);
            msg.sourcePort = quint16(x);
        } else if (n == "Changed") {
            msg.changedHost = addrOf(b);
            msg.changedPort = quint16(x);
        } else if (n == "Other") {
            msg.otherHost = addrOf(b);
            msg.otherPort = quint16(x);
        } else if (n == "XorMapped") {
            msg.xorMappedHost = addrOf(b);
            msg.xorMappedPort = quint16(x);
        } else if (n == "XorPeer") {
            msg.xorPeerHost = addrOf(b);
            msg.xorPeerPort = quint16(x);
        } else if (n == "XorRelayed") {
            msg.xorRelayedHost = addrOf(b);
            msg.xorRelayedPort = quint16(x);
        } else if (n == "ChangeRequest") {
            msg.setChangeRequest(be32(b));
        } else if (n == "Priority") {
            msg.setPriority(be32(b));
        } else if (n == "Lifetime") {
            msg.setLifetime(be32(b));
        } else if (n == "ErrorCode") {
            msg.errorCode = x;
            msg.errorPhrase = QString::fromUtf8(b);
        } else if (n == "UseCandidate") {
            msg.useCandidate = true;
        } else if (n == "ChannelNumber") {
            msg.setChannelNumber(quint16((quint8(b[0]) << 8) | quint8(b[1])));
        } else if (n == "Data") {
            msg.setData(b);
        } else if (n == "Nonce") {
            msg.setNonce(b);
        } else if (n == "Realm") {
            msg.setRealm(QString::fromUtf8(b));
        } else if (n == "RequestedTransport") {
            msg.setRequestedTransport(quint8(b[0]));
        } else if (n == "ReservationToken") {
            msg.setReservationToken(b);
        } else if (n == "Software") {
            msg.setSoftware(QString::fromUtf8(b));
        } else if (n == "Username") {
            msg.setUsername(QString::fromUtf8(b));
        } else if (n == "IceControlling") {
            msg.iceControlling = b;
        } else if (n == "IceControlled") {
            msg.iceControlled = b;
        } else {
            return false;
        }
    }
    return true;
}

// Which attributes an object holds is visible only through what it writes: the attribute types of
// its own encoding without key and fingerprint (there is no public "has attribute" accessor).
QSet<quint16> writtenTypes(const QXmppStunMessage &msg)
{
    QSet<quint16> r;
    const QByteArray e = msg.encode(QByteArray(), false);
    int o = 20;
    while (o + 4 <= e.size()) {
        const quint16 t = quint16((quint8(e[o]) << 8) | quint8(e[o + 1]));
        const int l = (quint8(e[o + 2]) << 8) | quint8(e[o + 3]);
        r << t;
        o += 4 + l + ((4 - l % 4) % 4);
    }
    return r;
}

// the decoded object in the shape of the specification's message
QJsonObject project(const QXmppStunMessage &d)
{
    const auto present = writtenTypes(d);
    QJsonArray attrs;
    auto add = [&](const char *n, const QByteArray &b, int x) {
        attrs.append(QJsonObject { { "n", n }, { "b", toJ(b) }, { "x", x } });
    };
    for (const auto &def : kAttrs) {
        if (!present.contains(def.code)) {
            continue;
        }
        const QString n = def.name;
        if (n == "Mapped") {
            add(def.name, ipBytes(d.mappedHost), d.mappedPort);
        } else if (n == "Source") {
            add(def.name, ipBytes(d.sourceHost), d.sourcePort);
        } else if (n == "Changed") {
            add(def.name, ipBytes(d.changedHost), d.changedPort);
        } else if (n == "Other") {
            add(def.name, ipBytes(d.otherHost), d.otherPort);
        } else if (n == "XorMapped") {
            add(def.name, ipBytes(d.xorMappedHost), d.xorMappedPort);
        } else if (n == "XorPeer") {
            add(def.name, ipBytes(d.xorPeerHost), d.xorPeerPort);
        } else if (n == "XorRelayed") {
            add(def.name, ipBytes(d.xorRelayedHost), d.xorRelayedPort);
        } else if (n == "ChangeRequest") {
            add(def.name, be32Bytes(d.changeRequest()), 0);
        } else if (n == "Priority") {
            add(def.name, be32Bytes(d.priority()), 0);
        } else if (n == "Lifetime") {
            add(def.name, be32Bytes(d.lifetime()), 0);
        } else if (n == "ErrorCode") {
            add(def.name, d.errorPhrase.toUtf8(), d.errorCode);
        } else if (n == "UseCandidate") {
            add(def.name, {}, 0);
        } else if (n == "ChannelNumber") {
            QByteArray b(2, 0);
            b[0] = char(d.channelNumber() >> 8);
            b[1] = char(d.channelNumber());
            add(def.name, b, 0);
        } else if (n == "Data") {
            add(def.name, d.data(), 0);
        } else if (n == "Nonce") {
            add(def.name, d.nonce(), 0);
        } else if (n == "Realm") {
            add(def.name, d.realm().toUtf8(), 0);
        } else if (n == "RequestedTransport") {
            add(def.name, QByteArray(1, char(d.requestedTransport())), 0);
        } else if (n == "ReservationToken") {
            add(def.name, d.reservationToken(), 0);
        } else if (n == "Software") {
            add(def.name, d.software().toUtf8(), 0);
        } else if (n == "Username") {
            add(def.name, d.username().toUtf8(), 0);
        } else if (n == "IceControlling") {
            add(def.name, d.iceControlling, 0);
        } else if (n == "IceControlled") {
            add(def.name, d.iceControlled, 0);
        }
    }
    return QJsonObject { { "type", int(d.type()) }, { "id", toJ(d.id()) }, { "a", attrs } };
}

QJsonObject emptyMsg()
{
    return QJsonObject { { "type", 0 }, { "id", QJsonArray() }, { "a", QJsonArray() } };
}

bool tryDecode(const QByteArray &bytes, const QByteArray &key)
{
    QXmppStunMessage d;
    return d.decode(bytes, key);
}

void runCase(Ctx &ctx, const QJsonObject &b, QVector<QPair<QByteArray, int>> &pool)
{
    const QString caseId = b["case"].toString();
    const QJsonObject m = b["m"].toObject();
    const int klen = b["klen"].toInt();
    const bool fp = b["fp"].toBool();
    // what the application sets (mset: includes address attributes with port 0 and scope ids) vs the message
    // that is thereby built (m)
    const QJsonObject mset = b.contains("mset") ? b["mset"].toObject() : m;
    ctx.reset(caseId, { { "kind", "case" }, { "m", m }, { "klen", klen }, { "fp", fp }, { "sub", b["sub"] }, { "v", b["v"] },
                        { "ac", b["ac"].toInt() }, { "pc", b["pc"].toInt() } });
    QXmppStunMessage msg;
    if (!buildMessage(mset, msg, b["scoped"].toArray())) {
        fprintf(stderr, "stun: bad message description in case %s\n", qPrintable(caseId));
        exit(2);
    }
    const QByteArray key = keyBytes(klen);
    QByteArray bytes;
    bool encoded = false;
    // the receive buffer of the last Decode(same) (a heap object of its own, like the one a receive loop
    // refills for every datagram) and the message decoded from it, which its holder keeps
    std::unique_ptr<QByteArray> rbuf;
    std::unique_ptr<QXmppStunMessage> held;
    const auto steps = b["steps"].toArray();
    for (const auto &sv : steps) {
        const auto s = sv.toObject();
        const QString a = s["a"].toString();
        if (a == "Encode") {
            bytes = msg.encode(key, fp);
            encoded = true;
            pool.append({ bytes, klen });
            ctx.emit_({ { "e", "Encode" }, { "bytes", toJ(bytes) } });
        } else if (!encoded) {
            break;  // behaviour out of order: nothing to query
        } else if (a == "Decode") {
            const QString kn = s["key"].toString();
            QList<QPair<QString, QByteArray>> keys;
            if (kn == "same") {
                keys.append({ "same", key });
            } else if (kn == "none") {
                keys.append({ "none", QByteArray() });
            } else {
                // another key: of the same length (20 if the case has none), differing in the first / the last byte
                QByteArray k1 = klen ? key : keyBytes(20);
                QByteArray k2 = k1;
                k1[0] = char(k1[0] ^ 0x01);
                k2[k2.size() - 1] = char(k2[k2.size() - 1] ^ 0x80);
                keys.append({ "first", k1 });
                if (k2 != k1) {
                    keys.append({ "last", k2 });
                }
            }
            for (const auto &kv : keys) {
                if (kn == "same") {
                    held.reset();
                    rbuf = std::make_unique<QByteArray>(bytes.constData(), bytes.size());  // deep copy
                    held = std::make_unique<QXmppStunMessage>();
                }
                QXmppStunMessage local;
                QXmppStunMessage &d = kn == "same" ? *held : local;
                const bool ok = d.decode(kn == "same" ? *rbuf : bytes, kv.second);
                QJsonObject ev { { "e", "Decode" }, { "key", kn == "other" ? "other" : kn }, { "kv", kv.first }, { "ok", ok } };
                ev["d"] = ok ? project(d) : emptyMsg();
                QString why;
                ev["heq"] = !ok || hostsEqual(mset, msg, d, &why);
                if (!why.isEmpty()) {
                    ev["hwhy"] = why;
                }
                // what was decoded, encoded again the same way, gives the same bytes
                ev["re"] = ok && kn != "other" && d.encode(key, fp) == bytes;
                ctx.emit_(ev);
            }
        } else if (a == "ReuseBuffer") {
            // the next datagram (other bytes, same size) is written into the same buffer: no reallocation
            if (!rbuf || !held) {
                break;
            }
            char *p = rbuf->data();
            for (int i = 0; i < rbuf->size(); i++) {
                p[i] = char(~p[i]);
            }
            ctx.emit_({ { "e", "ReuseBuffer" } });
        } else if (a == "FreeBuffer") {
            if (!rbuf || !held) {
                break;
            }
            ctx.emit_({ { "e", "FreeBuffer" } });
            ctx.out.flush();  // what was observed so far survives a sanitizer abort in the next step
            rbuf.reset();
        } else if (a == "Observe") {
            // the holder reads every attribute back and encodes the message again
            if (!held) {
                break;
            }
            ctx.emit_({ { "e", "Observe" }, { "d", project(*held) }, { "re", held->encode(key, fp) == bytes } });
        } else if (a == "FlipAll") {
            // every single-bit corruption of the encoded message, decoded under the sender's key
            qint64 n = 0, nacc = 0;
            QJsonArray acc;
            QByteArray f = bytes;
            for (int pos = 0; pos < f.size(); pos++) {
                for (int bit = 0; bit < 8; bit++) {
                    f[pos] = char(f[pos] ^ (1 << bit));
                    n++;
                    if (tryDecode(f, key)) {
                        nacc++;
                        if ((klen || fp) && acc.size() < 32) {
                            acc.append(QJsonObject { { "pos", pos + 1 }, { "bit", bit } });
                        }
                    }
                    f[pos] = char(f[pos] ^ (1 << bit));
                }
            }
            ctx.emit_({ { "e", "FlipAll" }, { "key", "same" }, { "n", n }, { "nacc", nacc }, { "acc", acc } });
        } else {
            fprintf(stderr, "stun: unknown step %s\n", qPrintable(a));
            exit(2);
        }
    }
}

void runHelper(Ctx &ctx, const QJsonObject &b)
{
    ctx.reset(b["case"].toString(), { { "kind", "helper" } });
    const auto steps = b["steps"].toArray();
    for (const auto &sv : steps) {
        const auto s = sv.toObject();
        const QString a = s["a"].toString();
        if (a == "Hmac") {
            const int kl = s["kl"].toInt(), tl = s["tl"].toInt();
            const QByteArray out = QXmppUtils::generateHmacSha1(keyBytes(kl), textBytes(tl));
            ctx.emit_({ { "e", "Hmac" }, { "kl", kl }, { "tl", tl }, { "out", toJ(out) } });
        } else if (a == "Crc") {
            const int tl = s["tl"].toInt();
            const quint32 out = QXmppUtils::generateCrc32(textBytes(tl));
            ctx.emit_({ { "e", "Crc" }, { "tl", tl }, { "out", toJ(be32Bytes(out)) } });
        }
    }
}

// Arbitrary bytes: the sanitizers are the oracle for "never crashes or reads out of bounds"; what is
// accepted is logged (a bounded sample with its bytes) so that the integrity/fingerprint predicates
// are evaluated on it as well.
void runFuzz(Ctx &ctx, const QJsonObject &b, const QVector<QPair<QByteArray, int>> &pool)
{
    ctx.reset(b["case"].toString(), { { "kind", "fuzz" } });
    const qint64 n = qint64(b["n"].toDouble());
    qint64 nacc = 0, nkeyed = 0;
    QJsonArray acc;
    QJsonObject shapes;
    qint64 shapeCount[6] = { 0, 0, 0, 0, 0, 0 };
    for (qint64 it = 0; it < n; it++) {
        QByteArray buf;
        int klen = 0;
        const int shape = int(ctx.rnd(6));
        shapeCount[shape]++;
        if (shape == 0 || pool.isEmpty()) {
            // raw noise of any length
            buf.resize(int(ctx.rnd(120)));
            for (auto &ch : buf) {
                ch = char(ctx.rnd(256));
            }
        } else if (shape == 1) {
            // a header that passes the length and cookie tests, noise after it
            const int body = int(ctx.rnd(30)) * 4;
            buf.resize(20 + body);
            for (auto &ch : buf) {
                ch = char(ctx.rnd(256));
            }
            buf[2] = char(body >> 8);
            buf[3] = char(body);
            buf[4] = 0x21;
            buf[5] = 0x12;
            buf[6] = char(0xa4);
            buf[7] = 0x42;
            // bias the first attribute header towards known types with hostile lengths
            if (body >= 4 && ctx.rnd(4)) {
                const auto &def = kAttrs[ctx.rnd(sizeof(kAttrs) / sizeof(kAttrs[0]))];
                const quint16 code = ctx.rnd(8) == 0 ? (ctx.rnd(2) ? 0x0008 : 0x8028) : def.code;
                buf[20] = char(code >> 8);
                buf[21] = char(code);
                const int l = ctx.rnd(3) == 0 ? int(ctx.rnd(65536)) : int(ctx.rnd(body + 8));
                buf[22] = char(l >> 8);
                buf[23] = char(l);
            }
        } else {
            // a real encoded message, damaged
            const auto &src = pool[int(ctx.rnd(pool.size()))];
            buf = src.first;
            klen = ctx.rnd(4) ? src.second : 0;
            if (shape == 2) {
                // truncated, header length fixed up or not
                buf.truncate(int(ctx.rnd(buf.size() + 1)));
                if (buf.size() >= 20 && ctx.rnd(2)) {
                    buf[2] = char((buf.size() - 20) >> 8);
                    buf[3] = char(buf.size() - 20);
                }
            } else if (shape == 3) {
                // some bytes replaced
                const int k = 1 + int(ctx.rnd(4));
                for (int i = 0; i < k && !buf.isEmpty(); i++) {
                    buf[int(ctx.rnd(buf.size()))] = char(ctx.rnd(256));
                }
            } else if (shape == 4) {
                // an attribute length field overwritten (walk to a random attribute)
                int o = 20, hops = int(ctx.rnd(8));
                while (hops-- > 0 && o + 4 <= buf.size()) {
                    const int l = (quint8(buf[o + 2]) << 8) | quint8(buf[o + 3]);
                    const int nx = o + 4 + l + ((4 - l % 4) % 4);
                    if (nx + 4 > buf.size()) {
                        break;
                    }
                    o = nx;
                }
                if (o + 4 <= buf.size()) {
                    const int l = ctx.rnd(2) ? int(ctx.rnd(65536)) : int(ctx.rnd(64));
                    buf[o + 2] = char(l >> 8);
                    buf[o + 3] = char(l);
                }
            } else {
                // extended with noise, header length fixed up
                const int extra = int(ctx.rnd(10)) * 4;
                for (int i = 0; i < extra; i++) {
                    buf.append(char(ctx.rnd(256)));
                }
                if (buf.size() >= 20) {
                    buf[2] = char((buf.size() - 20) >> 8);
                    buf[3] = char(buf.size() - 20);
                }
            }
        }
        const QByteArray key = keyBytes(klen);
        QXmppStunMessage d;
        QStringList errors;
        const bool ok = d.decode(buf, key, &errors);
        if (ok) {
            // touch everything that was decoded (an out-of-bounds read would surface here or in decode)
            volatile int sink = d.toString().size() + d.encode(key, true).size();
            (void)sink;
            nacc++;
            if (klen) {
                nkeyed++;
            }
            // keep a bounded sample, preferring keyed ones (the integrity predicate applies to them)
            if (acc.size() < 240 && (klen || acc.size() < 100)) {
                acc.append(QJsonObject { { "bytes", toJ(buf) }, { "klen", klen }, { "shape", shape } });
            }
        }
        quint32 cookie;
        QByteArray id;
        QXmppStunMessage::peekType(buf, cookie, id);
    }
    QJsonArray sc;
    for (auto c : shapeCount) {
        sc.append(double(c));
    }
    ctx.emit_({ { "e", "Fuzz" }, { "n", double(n) }, { "nacc", double(nacc) }, { "nkeyed", double(nkeyed) }, { "shapes", sc }, { "acc", acc } });
}

}  // namespace

QXV_DRIVER(stun)
{
    QVector<QPair<QByteArray, int>> pool;
    for (const auto &bv : ctx.behaviours()) {
        const auto b = bv.toObject();
        if (b["fuzz"].toBool()) {
            runFuzz(ctx, b, pool);
        } else if (b["helper"].toBool()) {
            runHelper(ctx, b);
        } else {
            runCase(ctx, b, pool);
        }
    }
    return 0;
}
