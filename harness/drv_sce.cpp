// qxv sce — drives the real QXmppMessage along behaviours of spec/Sce.tla (property C17).
// Behaviour: {"steps":[{"a":"Set","k":"body"},{"a":"Set","k":"stanzaId"},{"a":"Split"},{"a":"Recover"}]}
//
//   Set(k)   the kind's real setter(s) with distinctive values "qxv-<kind>-<seed>"
//   Split    public part  = QXmppMessage::toXml(writer, ScePublic)               (QXmppClient::sendSensitive)
//            sensitive    = <envelope><content> serializeExtensions(SceSensitive, jabber:client) </content></envelope>
//                           written with QXmppSceEnvelopeWriter                   (the e2ee manager)
//            unsplit      = toXml(writer, SceAll)
//            observation: child elements / root attributes of each part classified by (name, namespace) with a
//            table of this file, AND -- independent of that table's partition -- every kind's distinctive
//            values searched as raw substrings of each serialization.
//   Recover  fresh message: parse(public, ScePublic); parseExtensions(content, SceSensitive);
//            observation: kinds whose getters report exactly the distinctive values again.
//            Also logged (conformance only): unsplit XML parsed in SceAll / ScePublic / SceSensitive.
//
// The VALUE of a field is a dimension wherever the serializer can branch on it: one kind per value class in a slot
// (every QXmpp::EncryptionMethod of the XEP-0380 marker via setEncryptionMethod / a custom namespace via
// setEncryptionMethodNs, every message type, optional sub-fields left out: ...NoBy, ...Bare, ...NoTo, ...).
//
// CLIENT PATH (second binding of Emit(Public, S)): the composed message is handed to a real QXmppClient
// (fixture TestClient, fakeSession) with a stub QXmppE2eeExtension installed by setEncryptionExtension():
//   Send(api, style, how)  api = sendSensitive | reply (with e2ee metadata); the stub's encryptMessage SUCCEEDS and
//            returns the message as the API contract and QXmppOmemoManager do -- sensitive fields still set, an
//            encrypted payload element added (style omemo: also XEP-0380 marker, fallback body, fallback marker when
//            there is a body / trust message); how = ready (finished task) | later (finished from the event loop).
//            Observation: the <message/> stanzas the client logged as sent (count), the first one's children / root
//            attributes classified like a public part, every kind's distinctive values searched in its raw text, and
//            -- for comparison -- toXml(SceAll) / toXml(ScePublic) of the message the stub returned.
//   SendPlain(api)  api = send | sendPacket: control, never encrypted; the same observation, expected to be in the clear.
//
// `qxv sce --list=1` prints the kinds this driver knows (lib/props/C17.py compares with the spec's table).
#include "fixture.h"
#include "qxv.h"

#include "QXmppBitsOfBinaryContentId.h"
#include "QXmppBitsOfBinaryData.h"
#include "QXmppBitsOfBinaryDataList.h"
#include "QXmppFallback.h"
#include "QXmppFileMetadata.h"
#include "QXmppFileShare.h"
#include "QXmppHttpFileSource.h"
#include "QXmppJingleData.h"
#include "QXmppMessage.h"
#include "QXmppMessageReaction.h"
#include "QXmppMixInvitation.h"
#include "QXmppOutOfBandUrl.h"
#include "QXmppSceEnvelope_p.h"
#include "QXmppTrustMessageElement.h"
#include "QXmppTrustMessageKeyOwner.h"
#include "QXmppE2eeExtension.h"
#include "QXmppE2eeMetadata.h"
#include "QXmppPromise.h"
#include "QXmppTask.h"
#include "QXmppUtils.h"

#include <QBuffer>
#include <QCryptographicHash>
#include <QMimeDatabase>
#include <QRegularExpression>
#include <QXmlStreamWriter>

#include <functional>
#include <vector>

namespace {

using Msg = QXmppMessage;

template<typename T>
QString ser(const T &o)
{
    QByteArray out;
    QXmlStreamWriter w(&out);
    o.toXml(&w);
    return QString::fromUtf8(out);
}
template<typename T>
QString serOpt(const std::optional<T> &o)
{
    return o ? ser(*o) : QString();
}

struct Kind {
    QString name;
    QString slot;
    // applies the real setter(s); T = distinctive token
    std::function<void(Msg &, const QString &T, quint64 seed)> set;
    // raw strings that identify this kind's values in a serialization (default: the token)
    std::function<QStringList(const QString &T, quint64 seed)> needles;
};

QDateTime stampFor(bool legacy, quint64 seed)
{
    return QDateTime(QDate(2021, 3, 4), QTime(legacy ? 7 : 5, 6, int(seed % 60)), Qt::UTC);
}

QDomElement parseMessageXml(const QString &xml, QDomDocument &keep)
{
    keep = qxvParseStream(xml);
    return keep.documentElement().firstChildElement();
}

Kind flagKind(const QString &name, std::function<void(Msg &)> f)
{
    return Kind { name, name, [f](Msg &m, const QString &, quint64) { f(m); }, [](const QString &, quint64) { return QStringList(); } };
}
Kind tokKind(const QString &name, const QString &slot, std::function<void(Msg &, const QString &)> f)
{
    return Kind { name, slot, [f](Msg &m, const QString &T, quint64) { f(m, T); }, [](const QString &T, quint64) { return QStringList { T }; } };
}

Kind jmiKind(const QString &name, QXmppJingleMessageInitiationElement::Type type)
{
    using J = QXmppJingleMessageInitiationElement;
    return tokKind(name, "jmi", [type](Msg &m, const QString &T) {
        J e;
        e.setType(type);
        e.setId(T);
        if (type == J::Type::Propose) {
            QXmppJingleDescription d;
            d.setType(QStringLiteral("urn:xmpp:jingle:apps:rtp:1"));
            d.setMedia(QStringLiteral("audio"));
            e.setDescription(d);
        }
        if (type == J::Type::Reject || type == J::Type::Retract || type == J::Type::Finish) {
            QXmppJingleReason r;
            r.setType(type == J::Type::Finish ? QXmppJingleReason::Success : QXmppJingleReason::Busy);
            r.setText(T + "-reason");
            e.setReason(r);
        }
        if (type == J::Type::Finish) {
            e.setMigratedTo(T + "-migrated");
        }
        m.setJingleMessageInitiationElement(e);
    });
}

Kind callKind(const QString &name, QXmppCallInviteElement::Type type)
{
    using C = QXmppCallInviteElement;
    return tokKind(name, "callInvite", [type](Msg &m, const QString &T) {
        C e;
        e.setType(type);
        e.setId(T);
        if (type == C::Type::Invite || type == C::Type::Accept) {
            e.setJingle(C::Jingle { T + "-sid", T + "@call.example.org/r" });
            e.setExternal(QVector<C::External> { C::External { "https://call.example.org/" + T } });
        }
        if (type == C::Type::Invite) {
            e.setVideo(true);
        }
        m.setCallInviteElement(e);
    });
}

const std::vector<Kind> &kinds()
{
    static const std::vector<Kind> K = [] {
        std::vector<Kind> k;
        // XEP-0091 has no setter (stamp type is private): the only way to hold one is to have parsed one.
        k.push_back(Kind { "legacyDelay", "stamp",
                           [](Msg &m, const QString &, quint64 seed) {
                               QDomDocument keep;
                               auto el = parseMessageXml(QStringLiteral("<message type='chat'><x xmlns='jabber:x:delay' stamp='%1'/></message>")  // type: the class default, so only the stamp is set
                                                             .arg(stampFor(true, seed).toString(QStringLiteral("yyyyMMddThh:mm:ss"))),
                                                         keep);
                               m.parse(el);
                           },
                           [](const QString &, quint64 seed) { return QStringList { stampFor(true, seed).toString(QStringLiteral("yyyyMMddThh:mm:ss")) }; } });
        // origin class `parsed`: the message comes from XML with the default element AND a language variant of it
        const auto langVariant = [](const QString &name, const QString &slot, const QString &tag) {
            return tokKind(name, slot, [tag](Msg &m, const QString &T) {
                QDomDocument keep;
                auto el = parseMessageXml(QStringLiteral("<message type='chat'><%1>%2-default</%1><%1 xml:lang='de'>%2</%1></message>").arg(tag, T), keep);
                m.parse(el);
            });
        };
        k.push_back(langVariant("bodyLang", "body", "body"));
        k.push_back(langVariant("subjectLang", "subject", "subject"));
        k.push_back(tokKind("to", "to", [](Msg &m, const QString &T) { m.setTo(T + "@example.org/r"); }));
        k.push_back(tokKind("from", "from", [](Msg &m, const QString &T) { m.setFrom(T + "@example.org/r"); }));
        k.push_back(tokKind("id", "id", [](Msg &m, const QString &T) { m.setId(T); }));
        k.push_back(tokKind("lang", "lang", [](Msg &m, const QString &T) { m.setLang(T); }));
        k.push_back(flagKind("typeNormal", [](Msg &m) { m.setType(Msg::Normal); }));
        k.push_back(flagKind("typeGroupchat", [](Msg &m) { m.setType(Msg::GroupChat); }));
        k.push_back(flagKind("typeHeadline", [](Msg &m) { m.setType(Msg::Headline); }));
        k.push_back(flagKind("typeError", [](Msg &m) { m.setType(Msg::Error); }));
        for (auto &s : k) {
            if (s.name.startsWith("type")) {
                s.slot = "type";
            }
        }
        k.push_back(tokKind("error", "error", [](Msg &m, const QString &T) {
            m.setError(QXmppStanza::Error(QXmppStanza::Error::Cancel, QXmppStanza::Error::ServiceUnavailable, T));
        }));
        k.push_back(tokKind("addresses", "addresses", [](Msg &m, const QString &T) {
            QXmppExtendedAddress a;
            a.setJid(T + "@example.org");
            a.setType(QStringLiteral("cc"));
            a.setDescription(T + "-desc");
            m.setExtendedAddresses({ a });
        }));
        k.push_back(tokKind("fallbackBody", "fallbackBody", [](Msg &m, const QString &T) { m.setE2eeFallbackBody(T); }));
        k.push_back(flagKind("private", [](Msg &m) { m.setPrivate(true); }));
        k.push_back(flagKind("hintNoPermanentStore", [](Msg &m) { m.addHint(Msg::NoPermanentStore); }));
        k.push_back(flagKind("hintNoStore", [](Msg &m) { m.addHint(Msg::NoStore); }));
        k.push_back(flagKind("hintNoCopy", [](Msg &m) { m.addHint(Msg::NoCopy); }));
        k.push_back(flagKind("hintStore", [](Msg &m) { m.addHint(Msg::Store); }));
        k.push_back(tokKind("stanzaId", "stanzaId", [](Msg &m, const QString &T) {
            m.setStanzaIds({ QXmppStanzaId { T, T + "-by.example.org" } });
        }));
        k.push_back(tokKind("stanzaIdNoBy", "stanzaId", [](Msg &m, const QString &T) {
            m.setStanzaIds({ QXmppStanzaId { T, QString() } });
        }));
        k.push_back(tokKind("originId", "originId", [](Msg &m, const QString &T) { m.setOriginId(T); }));
        k.push_back(tokKind("mix", "mix", [](Msg &m, const QString &T) {
            m.setMixUserJid(T + "@example.org");
            m.setMixUserNick(T + "-nick");
        }));
        k.push_back(tokKind("mixJidOnly", "mix", [](Msg &m, const QString &T) { m.setMixUserJid(T + "@example.org"); }));
        k.push_back(tokKind("mixNickOnly", "mix", [](Msg &m, const QString &T) { m.setMixUserNick(T + "-nick"); }));
        // XEP-0380: every value of QXmpp::EncryptionMethod (NoEncryption = not set)
        k.push_back(tokKind("emeCustom", "eme", [](Msg &m, const QString &T) {
            m.setEncryptionMethodNs("urn:qxv:" + T);  // encryptionMethod() == QXmpp::UnknownEncryption
            m.setEncryptionName(T + "-name");
        }));
        const auto eme = [](const QString &name, QXmpp::EncryptionMethod method) {
            Kind kd = flagKind(name, [method](Msg &m) { m.setEncryptionMethod(method); });
            kd.slot = "eme";
            return kd;
        };
        k.push_back(eme("emeOtr", QXmpp::Otr));
        k.push_back(eme("emeLegacyOpenPgp", QXmpp::LegacyOpenPgp));
        k.push_back(eme("emeOx", QXmpp::Ox));
        k.push_back(eme("emeOmemo0", QXmpp::Omemo0));
        k.push_back(eme("emeOmemo1", QXmpp::Omemo1));
        k.push_back(eme("emeOmemo2", QXmpp::Omemo2));
        k.push_back(tokKind("subject", "subject", [](Msg &m, const QString &T) { m.setSubject(T); }));
        k.push_back(tokKind("body", "body", [](Msg &m, const QString &T) { m.setBody(T); }));
        k.push_back(tokKind("thread", "thread", [](Msg &m, const QString &T) {
            m.setThread(T);
            m.setParentThread(T + "-parent");
        }));
        k.push_back(tokKind("threadNoParent", "thread", [](Msg &m, const QString &T) { m.setThread(T); }));
        k.push_back(tokKind("oobNoDesc", "oob", [](Msg &m, const QString &T) {
            QXmppOutOfBandUrl u;
            u.setUrl("https://example.org/" + T);
            m.setOutOfBandUrls({ u });
        }));
        k.push_back(tokKind("oob", "oob", [](Msg &m, const QString &T) {
            QXmppOutOfBandUrl u;
            u.setUrl("https://example.org/" + T);
            u.setDescription(T + "-desc");
            m.setOutOfBandUrls({ u });
        }));
        k.push_back(tokKind("xhtml", "xhtml", [](Msg &m, const QString &T) { m.setXhtml("<p>" + T + "</p>"); }));
        k.push_back(flagKind("stateActive", [](Msg &m) { m.setState(Msg::Active); }));
        k.push_back(flagKind("stateInactive", [](Msg &m) { m.setState(Msg::Inactive); }));
        k.push_back(flagKind("stateGone", [](Msg &m) { m.setState(Msg::Gone); }));
        k.push_back(flagKind("stateComposing", [](Msg &m) { m.setState(Msg::Composing); }));
        k.push_back(flagKind("statePaused", [](Msg &m) { m.setState(Msg::Paused); }));
        for (auto &s : k) {
            if (s.name.startsWith("state")) {
                s.slot = "state";
            }
        }
        k.push_back(Kind { "delay", "stamp",
                           [](Msg &m, const QString &, quint64 seed) { m.setStamp(stampFor(false, seed)); },
                           [](const QString &, quint64 seed) { return QStringList { QXmppUtils::datetimeToString(stampFor(false, seed)) }; } });
        k.push_back(tokKind("receiptReceived", "receiptReceived", [](Msg &m, const QString &T) { m.setReceiptId(T); }));
        k.push_back(flagKind("receiptRequest", [](Msg &m) { m.setReceiptRequested(true); }));
        k.push_back(flagKind("attention", [](Msg &m) { m.setAttentionRequested(true); }));
        k.push_back(tokKind("mucInvitation", "mucInvitation", [](Msg &m, const QString &T) {
            m.setMucInvitationJid(T + "@conference.example.org");
            m.setMucInvitationPassword(T + "-pw");
            m.setMucInvitationReason(T + "-reason");
        }));
        k.push_back(tokKind("mucInvitationBare", "mucInvitation", [](Msg &m, const QString &T) {
            m.setMucInvitationJid(T + "@conference.example.org");
        }));
        k.push_back(Kind { "bob", "bob",
                           [](Msg &m, const QString &T, quint64) {
                               QXmppBitsOfBinaryData d;
                               QXmppBitsOfBinaryContentId cid;
                               cid.setAlgorithm(QCryptographicHash::Sha1);
                               cid.setHash(QCryptographicHash::hash(T.toUtf8(), QCryptographicHash::Sha1));
                               d.setCid(cid);
                               d.setContentType(QMimeDatabase().mimeTypeForName(QStringLiteral("text/plain")));
                               d.setData(T.toUtf8());
                               QXmppBitsOfBinaryDataList l;
                               l << d;
                               m.setBitsOfBinaryData(l);
                           },
                           [](const QString &T, quint64) {
                               return QStringList { QString::fromLatin1(T.toUtf8().toBase64()),
                                                    QString::fromLatin1(QCryptographicHash::hash(T.toUtf8(), QCryptographicHash::Sha1).toHex()) };
                           } });
        k.push_back(tokKind("replace", "replace", [](Msg &m, const QString &T) { m.setReplaceId(T); }));
        k.push_back(flagKind("markable", [](Msg &m) { m.setMarkable(true); }));
        const auto marker = [](const QString &name, Msg::Marker mk) {
            return tokKind(name, "marker", [mk](Msg &m, const QString &T) {
                m.setMarker(mk);
                m.setMarkerId(T);
                m.setMarkedThread(T + "-thread");
            });
        };
        k.push_back(marker("markerReceived", Msg::Received));
        k.push_back(marker("markerDisplayed", Msg::Displayed));
        k.push_back(marker("markerAcknowledged", Msg::Acknowledged));
        k.push_back(tokKind("markerDisplayedNoThread", "marker", [](Msg &m, const QString &T) {
            m.setMarker(Msg::Displayed);
            m.setMarkerId(T);
        }));
        using J = QXmppJingleMessageInitiationElement::Type;
        k.push_back(jmiKind("jmiPropose", J::Propose));
        k.push_back(jmiKind("jmiRinging", J::Ringing));
        k.push_back(jmiKind("jmiProceed", J::Proceed));
        k.push_back(jmiKind("jmiReject", J::Reject));
        k.push_back(jmiKind("jmiRetract", J::Retract));
        k.push_back(jmiKind("jmiFinish", J::Finish));
        k.push_back(tokKind("attachTo", "attachTo", [](Msg &m, const QString &T) { m.setAttachId(T); }));
        k.push_back(tokKind("spoiler", "spoiler", [](Msg &m, const QString &T) {
            m.setIsSpoiler(true);
            m.setSpoilerHint(T);
        }));
        k.push_back(flagKind("spoilerBare", [](Msg &m) { m.setIsSpoiler(true); }));
        k.back().slot = "spoiler";
        k.push_back(tokKind("mixInvitation", "mixInvitation", [](Msg &m, const QString &T) {
            QXmppMixInvitation i;
            i.setInviterJid(T + "-inviter@example.org");
            i.setInviteeJid(T + "-invitee@example.org");
            i.setChannelJid(T + "-channel@mix.example.org");
            i.setToken(T + "-token");
            m.setMixInvitation(i);
        }));
        k.push_back(Kind { "trustMessage", "trustMessage",
                           [](Msg &m, const QString &T, quint64) {
                               QXmppTrustMessageKeyOwner o;
                               o.setJid(T + "-owner@example.org");
                               o.setTrustedKeys({ T.toUtf8() });
                               QXmppTrustMessageElement e;
                               e.setUsage("urn:qxv:usage:" + T);
                               e.setEncryption("urn:qxv:enc:" + T);
                               e.setKeyOwners({ o });
                               m.setTrustMessageElement(e);
                           },
                           [](const QString &T, quint64) { return QStringList { T, QString::fromLatin1(T.toUtf8().toBase64()) }; } });
        k.push_back(tokKind("reaction", "reaction", [](Msg &m, const QString &T) {
            QXmppMessageReaction r;
            r.setMessageId(T);
            r.setEmojis({ T + "-emoji", QStringLiteral("\U0001F44D") });  // parse() sorts them
            m.setReaction(r);
        }));
        k.push_back(tokKind("fileShare", "fileShare", [](Msg &m, const QString &T) {
            QXmppFileMetadata md;
            md.setFilename(T + ".png");
            md.setDescription(T + "-desc");
            md.setSize(4711);
            QXmppFileShare fs;
            fs.setDisposition(QXmppFileShare::Inline);
            fs.setId(T + "-id");
            fs.setMetadata(md);
            fs.setHttpSources({ QXmppHttpFileSource(QUrl("https://files.example.org/" + T)) });
            m.setSharedFiles({ fs });
        }));
        k.push_back(tokKind("fileSources", "fileSources", [](Msg &m, const QString &T) {
            QXmppFileSourcesAttachment a;
            a.setId(T + "-id");
            a.setHttpSources({ QXmppHttpFileSource(QUrl("https://files.example.org/" + T)) });
            m.setFileSourcesAttachments({ a });
        }));
        k.push_back(tokKind("reply", "reply", [](Msg &m, const QString &T) {
            m.setReply(QXmpp::Reply { T + "-to@example.org/r", T });
        }));
        k.push_back(tokKind("replyNoTo", "reply", [](Msg &m, const QString &T) {
            m.setReply(QXmpp::Reply { QString(), T });
        }));
        using C = QXmppCallInviteElement::Type;
        k.push_back(callKind("callInvite", C::Invite));
        k.push_back(callKind("callRetract", C::Retract));
        k.push_back(callKind("callAccept", C::Accept));
        k.push_back(callKind("callReject", C::Reject));
        k.push_back(callKind("callLeft", C::Left));
        k.push_back(tokKind("fallbackMarker", "fallbackMarker", [](Msg &m, const QString &T) {
            m.setFallbackMarkers({ QXmppFallback("urn:qxv:" + T, { QXmppFallback::Reference { QXmppFallback::Body, QXmppFallback::Range { 0, 5 } } }) });
        }));
        return k;
    }();
    return K;
}

const Kind *findKind(const QString &name)
{
    for (const auto &k : kinds()) {
        if (k.name == name) {
            return &k;
        }
    }
    return nullptr;
}

// projection of the message state through the public getters, per slot
QString slotValue(const Msg &m, const QString &slot)
{
    const auto b = [](bool v) { return v ? QStringLiteral("1") : QString(); };
    if (slot == "to") return m.to();
    if (slot == "from") return m.from();
    if (slot == "id") return m.id();
    if (slot == "lang") return m.lang();
    if (slot == "type") return m.type() == Msg::Chat ? QString() : QString::number(int(m.type()));
    if (slot == "error") {
        auto e = m.errorOptional();
        return e ? QStringLiteral("%1|%2|%3").arg(int(e->type())).arg(int(e->condition())).arg(e->text()) : QString();
    }
    if (slot == "addresses") {
        QString r;
        for (const auto &a : m.extendedAddresses()) r += ser(a);
        return r;
    }
    if (slot == "fallbackBody") return m.e2eeFallbackBody();
    if (slot == "private") return b(m.isPrivate());
    if (slot == "hintNoPermanentStore") return b(m.hasHint(Msg::NoPermanentStore));
    if (slot == "hintNoStore") return b(m.hasHint(Msg::NoStore));
    if (slot == "hintNoCopy") return b(m.hasHint(Msg::NoCopy));
    if (slot == "hintStore") return b(m.hasHint(Msg::Store));
    if (slot == "stanzaId") {
        QString r;
        for (const auto &s : m.stanzaIds()) r += s.id + "|" + s.by + ";";
        return r;
    }
    if (slot == "originId") return m.originId();
    if (slot == "mix") return m.mixUserJid().isEmpty() && m.mixUserNick().isEmpty() ? QString() : m.mixUserJid() + "|" + m.mixUserNick();
    if (slot == "eme") {
        return m.encryptionMethodNs().isEmpty() && m.encryptionName().isEmpty()
            ? QString()
            : m.encryptionMethodNs() + "|" + m.encryptionName() + "|" + QString::number(int(m.encryptionMethod()));
    }
    if (slot == "subject") return m.subject();
    if (slot == "body") return m.body();
    if (slot == "thread") return m.thread().isEmpty() && m.parentThread().isEmpty() ? QString() : m.thread() + "|" + m.parentThread();
    if (slot == "oob") {
        QString r;
        for (const auto &u : m.outOfBandUrls()) r += u.url() + "|" + u.description().value_or(QString()) + ";";
        return r;
    }
    if (slot == "xhtml") return m.xhtml();
    if (slot == "state") return m.state() == Msg::None ? QString() : QString::number(int(m.state()));
    if (slot == "stamp") return m.stamp().isValid() ? m.stamp().toUTC().toString(Qt::ISODateWithMs) : QString();
    if (slot == "receiptReceived") return m.receiptId();
    if (slot == "receiptRequest") return b(m.isReceiptRequested());
    if (slot == "attention") return b(m.isAttentionRequested());
    if (slot == "mucInvitation") {
        auto r = m.mucInvitationJid() + "|" + m.mucInvitationPassword() + "|" + m.mucInvitationReason();
        return r == "||" ? QString() : r;
    }
    if (slot == "bob") {
        QString r;
        for (const auto &d : m.bitsOfBinaryData()) {
            r += d.cid().toContentId() + "|" + d.contentType().name() + "|" + QString::fromLatin1(d.data().toBase64()) + ";";
        }
        return r;
    }
    if (slot == "replace") return m.replaceId();
    if (slot == "markable") return b(m.isMarkable());
    if (slot == "marker") return m.marker() == Msg::NoMarker ? QString() : QStringLiteral("%1|%2|%3").arg(int(m.marker())).arg(m.markedId(), m.markedThread());
    if (slot == "jmi") return serOpt(m.jingleMessageInitiationElement());
    if (slot == "attachTo") return m.attachId();
    if (slot == "spoiler") return m.isSpoiler() ? "1|" + m.spoilerHint() : QString();
    if (slot == "mixInvitation") return serOpt(m.mixInvitation());
    if (slot == "trustMessage") return serOpt(m.trustMessageElement());
    if (slot == "reaction") return serOpt(m.reaction());
    if (slot == "fileShare") {
        QString r;
        for (const auto &f : m.sharedFiles()) r += ser(f);
        return r;
    }
    if (slot == "fileSources") {
        QString r;
        for (const auto &f : m.fileSourcesAttachments()) {
            r += f.id() + "|";
            for (const auto &h : f.httpSources()) r += h.url().toString() + ",";
            r += QString::number(f.encryptedSources().size()) + ";";
        }
        return r;
    }
    if (slot == "reply") {
        auto r = m.reply();
        return r ? r->to + "|" + r->id : QString();
    }
    if (slot == "callInvite") return serOpt(m.callInviteElement());
    if (slot == "fallbackMarker") {
        QStringList l;  // set of distinct markers (they accompany both parts)
        for (const auto &f : m.fallbackMarkers()) {
            auto s = ser(f);
            if (!l.contains(s)) l << s;
        }
        l.sort();
        return l.join(';');
    }
    fprintf(stderr, "sce: unknown slot %s\n", qPrintable(slot));
    exit(2);
}

struct Table {
    quint64 seed;
    QMap<QString, QString> expected;  // kind -> slot value after its setter alone
    QMap<QString, QStringList> needles;
    QString token(const QString &kind) const { return QStringLiteral("qxv-%1-%2").arg(kind).arg(seed); }
    explicit Table(quint64 s) : seed(s)
    {
        for (const auto &k : kinds()) {
            Msg m;
            k.set(m, token(k.name), seed);
            auto v = slotValue(m, k.slot);
            if (v.isEmpty() || v == slotValue(Msg(), k.slot)) {
                fprintf(stderr, "sce: setter of %s does not change its getter\n", qPrintable(k.name));
                exit(2);
            }
            expected[k.name] = v;
            needles[k.name] = k.needles(token(k.name), seed);
        }
    }
    QStringList present(const Msg &m) const
    {
        QStringList r;
        for (const auto &k : kinds()) {
            if (slotValue(m, k.slot) == expected[k.name]) r << k.name;
        }
        return r;
    }
    // kinds whose distinctive values occur in the raw text (+ "?tok:<x>" for unknown qxv tokens)
    QStringList tokensIn(const QString &raw) const
    {
        QStringList r;
        for (const auto &k : kinds()) {
            for (const auto &n : needles[k.name]) {
                if (raw.contains(n)) {
                    r << k.name;
                    break;
                }
            }
        }
        static const QRegularExpression re(QStringLiteral("qxv-([A-Za-z0-9]+)-(\\d+)"));
        auto it = re.globalMatch(raw);
        while (it.hasNext()) {
            auto mt = it.next();
            if (!findKind(mt.captured(1)) && !r.contains("?tok:" + mt.captured(1))) {
                r << "?tok:" + mt.captured(1);
            }
        }
        return r;
    }
};

// (tag, namespace) -> kind; `publicPart`: a <body/> of the public part is by definition the fallback body
QString classify(const QDomElement &el, bool publicPart)
{
    const auto tag = el.tagName();
    const auto ns = el.namespaceURI();
    struct Row {
        const char *tag, *ns, *kind;
    };
    static const Row rows[] = {
        { "subject", "jabber:client", "subject" },
        { "thread", "jabber:client", "thread" },
        { "error", "jabber:client", "error" },
        { "addresses", "http://jabber.org/protocol/address", "addresses" },
        { "private", "urn:xmpp:carbons:2", "private" },
        { "no-permanent-store", "urn:xmpp:hints", "hintNoPermanentStore" },
        { "no-store", "urn:xmpp:hints", "hintNoStore" },
        { "no-copy", "urn:xmpp:hints", "hintNoCopy" },
        { "store", "urn:xmpp:hints", "hintStore" },
        { "stanza-id", "urn:xmpp:sid:0", "stanzaId" },
        { "origin-id", "urn:xmpp:sid:0", "originId" },
        { "mix", "urn:xmpp:mix:core:1", "mix" },
        { "encryption", "urn:xmpp:eme:0", "eme" },
        { "x", "jabber:x:oob", "oob" },
        { "x", "jabber:x:delay", "legacyDelay" },
        { "x", "jabber:x:conference", "mucInvitation" },
        { "html", "http://jabber.org/protocol/xhtml-im", "xhtml" },
        { "active", "http://jabber.org/protocol/chatstates", "stateActive" },
        { "inactive", "http://jabber.org/protocol/chatstates", "stateInactive" },
        { "gone", "http://jabber.org/protocol/chatstates", "stateGone" },
        { "composing", "http://jabber.org/protocol/chatstates", "stateComposing" },
        { "paused", "http://jabber.org/protocol/chatstates", "statePaused" },
        { "delay", "urn:xmpp:delay", "delay" },
        { "received", "urn:xmpp:receipts", "receiptReceived" },
        { "request", "urn:xmpp:receipts", "receiptRequest" },
        { "attention", "urn:xmpp:attention:0", "attention" },
        { "data", "urn:xmpp:bob", "bob" },
        { "replace", "urn:xmpp:message-correct:0", "replace" },
        { "markable", "urn:xmpp:chat-markers:0", "markable" },
        { "received", "urn:xmpp:chat-markers:0", "markerReceived" },
        { "displayed", "urn:xmpp:chat-markers:0", "markerDisplayed" },
        { "acknowledged", "urn:xmpp:chat-markers:0", "markerAcknowledged" },
        { "propose", "urn:xmpp:jingle-message:0", "jmiPropose" },
        { "ringing", "urn:xmpp:jingle-message:0", "jmiRinging" },
        { "proceed", "urn:xmpp:jingle-message:0", "jmiProceed" },
        { "reject", "urn:xmpp:jingle-message:0", "jmiReject" },
        { "retract", "urn:xmpp:jingle-message:0", "jmiRetract" },
        { "finish", "urn:xmpp:jingle-message:0", "jmiFinish" },
        { "attach-to", "urn:xmpp:message-attaching:1", "attachTo" },
        { "spoiler", "urn:xmpp:spoiler:0", "spoiler" },
        { "invitation", "urn:xmpp:mix:misc:0", "mixInvitation" },
        { "trust-message", "urn:xmpp:tm:1", "trustMessage" },
        { "reactions", "urn:xmpp:reactions:0", "reaction" },
        { "file-sharing", "urn:xmpp:sfs:0", "fileShare" },
        { "sources", "urn:xmpp:sfs:0", "fileSources" },
        { "reply", "urn:xmpp:reply:0", "reply" },
        { "invite", "urn:xmpp:call-invites:0", "callInvite" },
        { "retract", "urn:xmpp:call-invites:0", "callRetract" },
        { "accept", "urn:xmpp:call-invites:0", "callAccept" },
        { "reject", "urn:xmpp:call-invites:0", "callReject" },
        { "left", "urn:xmpp:call-invites:0", "callLeft" },
        { "fallback", "urn:xmpp:fallback:0", "fallbackMarker" },
        { "encrypted", "urn:qxv:e2ee:0", "e2eePayload" },  // the stub extension's payload (client path)
    };
    if (tag == "body" && ns == "jabber:client") {
        if (publicPart) {
            return QStringLiteral("fallbackBody");  // by definition; its text is judged by the raw-substring search
        }
        return el.text().contains("qxv-bodyLang-") ? QStringLiteral("bodyLang") : QStringLiteral("body");
    }
    if (tag == "subject" && ns == "jabber:client" && el.text().contains("qxv-subjectLang-")) {
        return QStringLiteral("subjectLang");
    }
    for (const auto &r : rows) {
        if (tag == QLatin1String(r.tag) && ns == QLatin1String(r.ns)) {
            const auto kind = QString::fromLatin1(r.kind);
            // value classes of one element
            if (kind == "eme") {
                static const QMap<QString, QString> methods {
                    { "urn:xmpp:otr:0", "emeOtr" }, { "jabber:x:encrypted", "emeLegacyOpenPgp" }, { "urn:xmpp:openpgp:0", "emeOx" },
                    { "eu.siacs.conversations.axolotl", "emeOmemo0" }, { "urn:xmpp:omemo:1", "emeOmemo1" }, { "urn:xmpp:omemo:2", "emeOmemo2" }
                };
                return methods.value(el.attribute("namespace"), QStringLiteral("emeCustom"));
            }
            if (kind == "stanzaId") return el.hasAttribute("by") ? kind : QStringLiteral("stanzaIdNoBy");
            if (kind == "mix") {
                // both children are always written, an unset one empty
                const bool j = !el.firstChildElement("jid").text().isEmpty(), n = !el.firstChildElement("nick").text().isEmpty();
                return j && n ? kind : (j ? QStringLiteral("mixJidOnly") : QStringLiteral("mixNickOnly"));
            }
            if (kind == "thread") return el.hasAttribute("parent") ? kind : QStringLiteral("threadNoParent");
            if (kind == "oob") return el.firstChildElement("desc").isNull() ? QStringLiteral("oobNoDesc") : kind;
            if (kind == "mucInvitation") return el.hasAttribute("password") || el.hasAttribute("reason") ? kind : QStringLiteral("mucInvitationBare");
            if (kind == "markerDisplayed") return el.hasAttribute("thread") ? kind : QStringLiteral("markerDisplayedNoThread");
            if (kind == "spoiler") return el.text().isEmpty() ? QStringLiteral("spoilerBare") : kind;
            if (kind == "reply") return el.hasAttribute("to") ? kind : QStringLiteral("replyNoTo");
            return kind;
        }
    }
    return "?" + tag + "|" + ns;
}

// element kinds of one part: children of `parent`, plus (for a <message/>) the root attributes that carry data
QStringList elementKinds(const QDomElement &parent, bool isMessage, bool publicPart)
{
    QStringList r;
    if (isMessage) {
        const auto attrs = parent.attributes();
        for (int i = 0; i < attrs.count(); i++) {
            auto a = attrs.item(i).toAttr();
            auto n = a.name();
            if (n == "type") {  // always written; "chat" is the default and not a kind
                const auto v = a.value();
                if (v == "normal") r << "typeNormal";
                else if (v == "groupchat") r << "typeGroupchat";
                else if (v == "headline") r << "typeHeadline";
                else if (v == "error") r << "typeError";
                else if (v != "chat") r << "?@type=" + v;
                continue;
            }
            if (n == "xml:lang" || n == "lang") {
                r << "lang";
            } else if (n == "to" || n == "from" || n == "id") {
                r << n;
            } else if (!n.startsWith("xmlns")) {
                r << "?@" + n;
            }
        }
    }
    for (auto c = parent.firstChildElement(); !c.isNull(); c = c.nextSiblingElement()) {
        r << classify(c, publicPart);
    }
    r.sort();
    return r;
}

QString toXmlMode(const Msg &m, QXmpp::SceMode mode)
{
    QByteArray out;
    QXmlStreamWriter w(&out);
    m.toXml(&w, mode);
    return QString::fromUtf8(out);
}

QString sensitiveEnvelope(const Msg &m)
{
    QByteArray out;
    QXmlStreamWriter w(&out);
    QXmppSceEnvelopeWriter env(w);
    env.start();
    env.writeContent([&] { m.serializeExtensions(&w, QXmpp::SceSensitive, QStringLiteral("jabber:client")); });
    env.end();
    return QString::fromUtf8(out);
}

// ---------------------------------------------------------------------------------------------- client path
// Stub end-to-end encryption: succeeds, and returns the message the way the contract says (QXmppE2eeExtension /
// QXmppOmemoManagerPrivate::encryptMessage): the sensitive fields stay on the message, the client is expected to
// strip them by serializing the outer stanza with ScePublic.  The payload is an opaque digest of the sensitive
// serialization (OMEMO is not built, so it travels as a QXmppElement extension).
class StubE2ee : public QXmppE2eeExtension
{
public:
    const Table *tab = nullptr;
    QString style = "plain";
    bool later = false;
    int calls = 0;
    std::optional<Msg> last;  // what encryptMessage returned
    struct Pending {
        QXmppPromise<MessageEncryptResult> promise;
        Msg message;
    };
    std::vector<Pending> pending;

    Msg encrypt(Msg m)
    {
        const auto digest = QCryptographicHash::hash(sensitiveEnvelope(m).toUtf8(), QCryptographicHash::Sha256).toHex();
        if (style == "omemo") {
            m.setFallbackMarkers({});
            if (!m.body().isEmpty() || m.trustMessageElement()) {
                m.setEncryptionMethod(QXmpp::Omemo2);
                m.setEncryptionName({});
                findKind("fallbackBody")->set(m, tab->token("fallbackBody"), tab->seed);
                findKind("fallbackMarker")->set(m, tab->token("fallbackMarker"), tab->seed);
            }
        }
        QDomDocument doc;
        doc.setContent(QStringLiteral("<encrypted xmlns='urn:qxv:e2ee:0'>%1</encrypted>").arg(QString::fromLatin1(digest)), true);
        auto ext = m.extensions();
        ext << QXmppElement(doc.documentElement());
        m.setExtensions(ext);
        return m;
    }

    QXmppTask<MessageEncryptResult> encryptMessage(QXmppMessage &&message, const std::optional<QXmppSendStanzaParams> &) override
    {
        ++calls;
        QXmppPromise<MessageEncryptResult> p;
        auto task = p.task();
        auto enc = encrypt(std::move(message));
        last = enc;
        if (later) {
            pending.push_back(Pending { p, enc });
            QMetaObject::invokeMethod(
                qApp, [this] { finishPending(); }, Qt::QueuedConnection);
        } else {
            p.finish(MessageEncryptResult { std::make_unique<Msg>(std::move(enc)) });
        }
        return task;
    }
    void finishPending()
    {
        auto ps = std::move(pending);
        pending.clear();
        for (auto &x : ps) {
            x.promise.finish(MessageEncryptResult { std::make_unique<Msg>(std::move(x.message)) });
        }
    }
    QXmppTask<MessageDecryptResult> decryptMessage(QXmppMessage &&) override
    {
        QXmppPromise<MessageDecryptResult> p;
        p.finish(MessageDecryptResult { NotEncrypted {} });
        return p.task();
    }
    QXmppTask<IqEncryptResult> encryptIq(QXmppIq &&, const std::optional<QXmppSendStanzaParams> &) override
    {
        QXmppPromise<IqEncryptResult> p;
        p.finish(IqEncryptResult { QXmppError { "qxv: IQs are not part of C17", {} } });
        return p.task();
    }
    QXmppTask<IqDecryptResult> decryptIq(const QDomElement &) override
    {
        QXmppPromise<IqDecryptResult> p;
        p.finish(IqDecryptResult { NotEncrypted {} });
        return p.task();
    }
    bool isEncrypted(const QDomElement &) override { return false; }
    bool isEncrypted(const QXmppMessage &) override { return false; }
};

struct SendRig {
    std::unique_ptr<TestClient> client;
    StubE2ee stub;
    void start(const Table *tab)
    {
        client = std::make_unique<TestClient>(TestClient::NoExtensions);
        client->fakeSession(false);
        stub.tab = tab;
        client->setEncryptionExtension(&stub);
        client->takeSent();
    }
    // the <message/> stanzas among what the client logged as sent
    QStringList sentMessages()
    {
        QStringList r;
        for (const auto &s : client->takeSent()) {
            if (s.startsWith("<message")) {
                r << s;
            }
        }
        return r;
    }
    QJsonObject observeWire(const Table &tab, bool publicPart, bool raw)
    {
        const auto sent = sentMessages();
        QJsonObject o { { "sent", sent.size() }, { "wire", QJsonArray() }, { "wtok", QJsonArray() } };
        if (!sent.isEmpty()) {
            QDomDocument d;
            auto el = parseMessageXml(sent[0], d);
            o["wire"] = jarr(elementKinds(el, true, publicPart));
            o["wtok"] = jarr(tab.tokensIn(sent.join(QString())));
            if (raw) {
                o["wireXml"] = sent.join("\n");
            }
        }
        return o;
    }
};

}  // namespace

QXV_DRIVER(sce)
{
    if (ctx.optInt("list", 0)) {
        ctx.reset("list");
        QJsonArray a;
        for (const auto &k : kinds()) {
            a.append(QJsonObject { { "k", k.name }, { "slot", k.slot } });
        }
        ctx.emit_({ { "e", "Kinds" }, { "kinds", a } });
        return 0;
    }
    const bool raw = ctx.optInt("raw", 0);
    Table tab(ctx.seed);
    SendRig rig;
    bool rigUp = false;
    auto behs = ctx.behaviours();
    int n = 0;
    for (const auto &bv : behs) {
        const auto steps = bv.toObject()["steps"].toArray();
        ctx.reset(QString("s%1").arg(++n), { { "seed", qint64(ctx.seed) } });
        Msg m;
        QString pubXml, sensXml, allXml;
        bool split = false;
        for (const auto &sv : steps) {
            const auto s = sv.toObject();
            const auto a = s["a"].toString();
            QJsonObject ev { { "e", a } };
            if (a == "Set") {
                if (split) {
                    break;
                }
                const auto *k = findKind(s["k"].toString());
                if (!k) {
                    fprintf(stderr, "sce: behaviour uses kind %s unknown to the driver\n", qPrintable(s["k"].toString()));
                    return 2;
                }
                k->set(m, tab.token(k->name), ctx.seed);
                ev["k"] = k->name;
                ev["o"] = QJsonObject { { "set", jarr(tab.present(m)) } };
            } else if (a == "Split") {
                pubXml = toXmlMode(m, QXmpp::ScePublic);
                sensXml = sensitiveEnvelope(m);
                allXml = toXmlMode(m, QXmpp::SceAll);
                split = true;
                QDomDocument d1, d2, d3;
                auto pubEl = parseMessageXml(pubXml, d1);
                auto allEl = parseMessageXml(allXml, d3);
                if (!d2.setContent(sensXml, true)) {
                    ev["o"] = QJsonObject { { "bad", "sensitive part is not well-formed" } };
                    ctx.emit_(ev);
                    break;
                }
                auto content = QXmppSceEnvelopeReader(d2.documentElement()).contentElement();
                QJsonObject o {
                    { "pub", jarr(elementKinds(pubEl, true, true)) },
                    { "sens", jarr(elementKinds(content, false, false)) },
                    { "all", jarr(elementKinds(allEl, true, false)) },
                    { "ptok", jarr(tab.tokensIn(pubXml)) },
                    { "stok", jarr(tab.tokensIn(sensXml)) },
                    { "atok", jarr(tab.tokensIn(allXml)) },
                };
                if (raw) {
                    o["pubXml"] = pubXml;
                    o["sensXml"] = sensXml;
                    o["allXml"] = allXml;
                }
                ev["o"] = o;
            } else if (a == "Recover") {
                if (!split) {
                    break;
                }
                QDomDocument d1, d2, d3;
                auto pubEl = parseMessageXml(pubXml, d1);
                auto allEl = parseMessageXml(allXml, d3);
                d2.setContent(sensXml, true);
                auto content = QXmppSceEnvelopeReader(d2.documentElement()).contentElement();
                // the receiving side: public stanza first, then the decrypted content
                Msg r;
                r.parse(pubEl, QXmpp::ScePublic);
                r.parseExtensions(content, QXmpp::SceSensitive);
                // conformance observations on the unsplit serialization
                Msg ra, rp, rs;
                ra.parse(allEl, QXmpp::SceAll);
                rp.parse(allEl, QXmpp::ScePublic);
                rs.parseExtensions(allEl, QXmpp::SceSensitive);
                ev["o"] = QJsonObject {
                    { "rec", jarr(tab.present(r)) },
                    { "rall", jarr(tab.present(ra)) },
                    { "xpub", jarr(tab.present(rp)) },
                    { "xsens", jarr(tab.present(rs)) },
                };
            } else if (a == "Send" || a == "SendPlain") {
                if (split) {
                    break;
                }
                if (!rigUp) {
                    rig.start(&tab);
                    rigUp = true;
                }
                rig.client->takeSent();
                const auto api = s["api"].toString();
                ev["api"] = api;
                QJsonObject o;
                if (a == "Send") {
                    rig.stub.style = s["style"].toString();
                    rig.stub.later = s["how"].toString() == "later";
                    rig.stub.last.reset();
                    ev["style"] = rig.stub.style;
                    ev["how"] = s["how"];
                    const int calls0 = rig.stub.calls;
                    bool finished = false;
                    auto task = api == "reply" ? [&] {
                        QXmppE2eeMetadata md;
                        md.setEncryption(QXmpp::Omemo2);
                        return rig.client->reply(Msg(m), md);
                    }()
                                               : rig.client->sendSensitive(Msg(m));
                    task.then(rig.client.get(), [&finished](QXmpp::SendResult &&) { finished = true; });
                    // quiescence: the stub has no unfinished task left and posted events are delivered
                    for (int spin = 0; spin < 50 && (!rig.stub.pending.empty() || spin == 0); ++spin) {
                        QCoreApplication::processEvents();
                    }
                    o = rig.observeWire(tab, true, raw);
                    o["encryptCalls"] = rig.stub.calls - calls0;
                    if (rig.stub.last) {
                        QDomDocument d1, d2;
                        o["call"] = jarr(elementKinds(parseMessageXml(toXmlMode(*rig.stub.last, QXmpp::SceAll), d1), true, false));
                        o["cpub"] = jarr(elementKinds(parseMessageXml(toXmlMode(*rig.stub.last, QXmpp::ScePublic), d2), true, true));
                    } else {
                        o["call"] = QJsonArray();
                        o["cpub"] = QJsonArray();
                    }
                } else {
                    if (api == "send") {
                        rig.client->send(Msg(m));
                    } else {
                        rig.client->sendPacket(m);
                    }
                    QCoreApplication::processEvents();
                    o = rig.observeWire(tab, false, raw);
                }
                ev["o"] = o;
                ctx.emit_(ev);
                break;  // a behaviour ends with its send
            } else {
                fprintf(stderr, "sce: unknown op %s\n", qPrintable(a));
                return 2;
            }
            ctx.emit_(ev);
        }
    }
    return 0;
}
