// qxv task — drives real QXmppPromise<T>/QXmppTask<T> along behaviours of spec/Task.tla.
// Behaviour: {"kind":"void|copy|move","steps":[{"a":"Then","b":"none"},{"a":"Finish","v":1,"b":"none"},...]}
// After every operation the observable state is logged (see spec/TaskTrace.tla).
#include "qxv.h"

#include "QXmppPromise.h"
#include "QXmppTask.h"

#include <functional>
#include <QObject>

#include <memory>
#include <vector>

namespace {

struct CopyVal {
    static int live;
    int payload;
    explicit CopyVal(int p) : payload(p) { ++live; }
    CopyVal(const CopyVal &o) : payload(o.payload) { ++live; }
    CopyVal(CopyVal &&o) noexcept : payload(o.payload) { ++live; }
    CopyVal &operator=(const CopyVal &) = default;
    CopyVal &operator=(CopyVal &&) = default;
    ~CopyVal() { --live; }
};
int CopyVal::live = 0;

struct MoveVal {
    static int live;
    int payload;
    std::unique_ptr<int> heap;  // something a sanitizer can complain about
    explicit MoveVal(int p) : payload(p), heap(new int(p)) { ++live; }
    MoveVal(const MoveVal &) = delete;
    MoveVal(MoveVal &&o) noexcept : payload(o.payload), heap(std::move(o.heap)) { ++live; }
    MoveVal &operator=(MoveVal &&) = default;
    ~MoveVal() { --live; }
};
int MoveVal::live = 0;

template<typename T>
struct Env {
    std::vector<QXmppPromise<T>> ps;
    std::vector<QXmppTask<T>> ts;
    QObject *ctxObj = nullptr;
    std::vector<QObject *> oldCtx;  // contexts of replaced continuations that were kept alive
    int runs = 0;
    int got = 0;
    QString body;       // body of the continuation, set by the operation that may trigger it
    char executing = 0; // 'p' finish() is running on ps[0], 't' then() on ts[0]
    std::shared_ptr<int> sentinel = std::make_shared<int>(0);
    int refinished = 0;  // the body's guarded second completion went through (never, if finish() marks first)
    int runs2 = 0;       // runs of continuations attached when no value was left (late / re-entrant then())
    std::function<void()> reThen;  // attaches such a continuation to ts[0] (set by runBehaviour)

    void refinish()
    {
        if constexpr (std::is_void_v<T>) {
            ps[0].finish();
        } else {
            ps[0].finish(T(9));
        }
    }

    void runBody()
    {
        if (body == "destroyCtx") {
            delete ctxObj;
            ctxObj = nullptr;
        } else if (body == "refinish") {
            // re-entry: a second completion source guarded by isFinished(), the idiom of the
            // library's own managers (`if (promise.task().isFinished()) return; promise.finish(..)`)
            if (!ps.empty() && refinished == 0 && !ps[0].task().isFinished()) {
                ++refinished;
                refinish();
            }
        } else if (body == "reThen") {
            // re-entry: attach a second continuation to a copy of the own task while this one runs
            // (only from finish(): inside a continuation that then() runs directly the value is still
            // being handed over, which is outside what the model describes)
            if (executing == 'p' && !ts.empty() && ctxObj && reThen) {
                reThen();
            }
        } else if (body == "dropOthers") {
            if (executing == 'p') {
                ts.clear();
                if (ps.size() > 1) {
                    ps.erase(ps.begin() + 1, ps.end());
                }
            } else {
                ps.clear();
                if (ts.size() > 1) {
                    ts.erase(ts.begin() + 1, ts.end());
                }
            }
        }
    }
};

template<typename T>
struct Cont {
    Env<T> *env;
    std::shared_ptr<int> cap;  // captured state: must be released with the continuation
    std::shared_ptr<QXmppTask<T>> self;  // optionally a copy of the task the continuation is attached to
    void operator()(T &&v)
    {
        ++*cap;  // touch the capture (use-after-free would be reported by ASan)
        env->runs++;
        env->got = v.payload;
        if constexpr (std::is_same_v<T, MoveVal>) {
            env->got = *v.heap;  // the moved-in value must still own its heap part
        }
        env->runBody();
    }
};
struct ContVoid {
    Env<void> *env;
    std::shared_ptr<int> cap;
    std::shared_ptr<QXmppTask<void>> self;
    void operator()()
    {
        ++*cap;
        env->runs++;
        env->got = 0;
        env->runBody();
    }
};

// continuation attached when the value is already gone: must never run for a non-void task
template<typename T>
struct LateCont {
    Env<T> *env;
    std::shared_ptr<int> cap;
    std::shared_ptr<QXmppTask<T>> self;
    void operator()(T &&)
    {
        ++*cap;
        env->runs2++;
    }
};
struct LateContVoid {
    Env<void> *env;
    std::shared_ptr<int> cap;
    std::shared_ptr<QXmppTask<void>> self;
    void operator()()
    {
        ++*cap;
        env->runs2++;
    }
};

template<typename T>
void attachLate(Env<T> &e, bool sc)
{
    auto self = sc ? std::make_shared<QXmppTask<T>>(e.ts[0]) : std::shared_ptr<QXmppTask<T>>();
    auto copy = e.ts[0];  // then() on a copy of the task, as an application holding a copy would
    if constexpr (std::is_void_v<T>) {
        copy.then(e.ctxObj, LateContVoid { &e, e.sentinel, self });
    } else {
        copy.then(e.ctxObj, LateCont<T> { &e, e.sentinel, self });
    }
}

template<typename T>
int liveOf()
{
    if constexpr (std::is_void_v<T>) {
        return 0;
    } else {
        return T::live;
    }
}

template<typename T>
QJsonObject observe(Env<T> &e)
{
    int fin = -1, has = -1;
    if (!e.ts.empty()) {
        fin = e.ts[0].isFinished();
        if constexpr (!std::is_void_v<T>) {
            has = e.ts[0].hasResult();
        } else {
            has = 0;
        }
    } else if (!e.ps.empty()) {
        auto t = e.ps[0].task();
        fin = t.isFinished();
        if constexpr (!std::is_void_v<T>) {
            has = t.hasResult();
        } else {
            has = 0;
        }
    }
    return QJsonObject {
        { "runs", e.runs }, { "got", e.got }, { "fin", fin }, { "has", has },
        { "lv", liveOf<T>() }, { "lc", int(e.sentinel.use_count()) - 1 },
        { "p", int(e.ps.size()) }, { "t", int(e.ts.size()) }, { "refin", e.refinished },
        { "ctx", e.ctxObj ? "alive" : "dead" }
    };
}

template<typename T>
void runBehaviour(Ctx &ctx, const QString &caseId, const QString &kind, const QJsonArray &steps)
{
    ctx.reset(caseId, { { "kind", kind } });
    {
        Env<T> e;
        e.ctxObj = new QObject;
        e.ps.emplace_back();
        e.reThen = [&e] { attachLate<T>(e, false); };
        for (const auto &sv : steps) {
            auto s = sv.toObject();
            auto a = s["a"].toString();
            QJsonObject ev { { "e", a } };
            // The behaviour comes from the model; if the implementation diverged (e.g. a body ran
            // that the model did not expect and dropped handles) an operation may be impossible
            // on the real handles: end the execution there instead of inventing behaviour.
            bool possible = true;
            if (a == "CopyPromise" || a == "DropPromise" || a == "Finish") {
                possible = !e.ps.empty();
            } else if (a == "DropTask") {
                possible = !e.ts.empty();
            } else if (a == "ThenReplace") {
                possible = !e.ts.empty() && !e.ts[0].isFinished();
            } else if (a == "Then" || a == "ThenLate") {
                possible = !e.ts.empty() && e.ctxObj;
            } else if (a == "MakeTask") {
                possible = !e.ps.empty() || !e.ts.empty();
            } else if (a == "DestroyCtx") {
                possible = e.ctxObj != nullptr;
            }
            if (a == "Finish" && possible) {
                possible = !(e.ts.empty() ? e.ps[0].task().isFinished() : e.ts[0].isFinished());
            }
            if (!possible) {
                break;
            }
            if (a == "CopyPromise") {
                e.ps.push_back(e.ps[0]);
            } else if (a == "MakeTask") {
                if (!e.ps.empty()) {
                    e.ts.push_back(e.ps[0].task());
                } else {
                    e.ts.push_back(e.ts[0]);
                }
            } else if (a == "DropPromise") {
                e.ps.pop_back();
            } else if (a == "DropTask") {
                e.ts.pop_back();
            } else if (a == "DestroyCtx") {
                delete e.ctxObj;
                e.ctxObj = nullptr;
            } else if (a == "DropAll") {
                e.ps.clear();
                e.ts.clear();
                delete e.ctxObj;
                e.ctxObj = nullptr;
            } else if (a == "Then") {
                e.body = s["b"].toString();
                ev["b"] = e.body;
                bool sc = s["sc"].toBool();
                ev["sc"] = sc;
                e.executing = 't';
                // (a shared_ptr keeps the functor copyable for move-only results; each copy of the
                // functor shares the one captured task copy, as a lambda capturing by value would)
                auto self = sc ? std::make_shared<QXmppTask<T>>(e.ts[0]) : std::shared_ptr<QXmppTask<T>>();
                if constexpr (std::is_void_v<T>) {
                    e.ts[0].then(e.ctxObj, ContVoid { &e, e.sentinel, self });
                } else {
                    e.ts[0].then(e.ctxObj, Cont<T> { &e, e.sentinel, self });
                }
                e.executing = 0;
            } else if (a == "ThenReplace") {
                // a second then() before finish(), registered with a context object of its own
                bool sc = s["sc"].toBool();
                auto old = s["old"].toString();
                ev["sc"] = sc;
                ev["old"] = old;
                auto *ctx2 = new QObject;
                auto self = sc ? std::make_shared<QXmppTask<T>>(e.ts[0]) : std::shared_ptr<QXmppTask<T>>();
                e.executing = 't';
                if constexpr (std::is_void_v<T>) {
                    e.ts[0].then(ctx2, ContVoid { &e, e.sentinel, self });
                } else {
                    e.ts[0].then(ctx2, Cont<T> { &e, e.sentinel, self });
                }
                e.executing = 0;
                if (e.ctxObj) {
                    if (old == "destroy") {
                        delete e.ctxObj;
                    } else {
                        e.oldCtx.push_back(e.ctxObj);
                    }
                }
                e.ctxObj = ctx2;
            } else if (a == "ThenLate") {
                bool sc = s["sc"].toBool();
                ev["sc"] = sc;
                // only when the implementation is where the model is: finished and nothing stored
                bool gone = e.ts[0].isFinished();
                if constexpr (!std::is_void_v<T>) {
                    gone = gone && !e.ts[0].hasResult();
                }
                if (!gone) {
                    break;
                }
                attachLate<T>(e, sc);
            } else if (a == "Finish") {
                e.body = s["b"].toString();
                int v = s["v"].toInt();
                ev["b"] = e.body;
                ev["v"] = v;
                e.executing = 'p';
                if constexpr (std::is_void_v<T>) {
                    e.ps[0].finish();
                } else {
                    T val(v);
                    e.ps[0].finish(std::move(val));
                }
                e.executing = 0;
            } else {
                fprintf(stderr, "task: unknown op %s\n", qPrintable(a));
                exit(2);
            }
            ev["o"] = observe(e);
            ev["r2"] = e.runs2;
            ctx.emit_(ev);
        }
        // end of behaviour: drop everything, then observe release
        e.ps.clear();
        e.ts.clear();
        delete e.ctxObj;
        e.ctxObj = nullptr;
        for (auto *o : e.oldCtx) {
            delete o;
        }
        e.oldCtx.clear();
        e.reThen = nullptr;
        QJsonObject ev { { "e", "DropAll" }, { "o", observe(e) }, { "r2", e.runs2 } };
        ctx.emit_(ev);
    }
}

}  // namespace

QXV_DRIVER(task)
{
    auto behs = ctx.behaviours();
    int n = 0;
    for (const auto &bv : behs) {
        auto b = bv.toObject();
        auto kind = b["kind"].toString();
        auto steps = b["steps"].toArray();
        auto id = QString("t%1").arg(++n);
        if (kind == "void") {
            runBehaviour<void>(ctx, id, kind, steps);
        } else if (kind == "copy") {
            runBehaviour<CopyVal>(ctx, id, kind, steps);
        } else {
            runBehaviour<MoveVal>(ctx, id, kind, steps);
        }
    }
    return 0;
}
