// qxv iq — drives a real QXmppClient along behaviours of spec/IqTracker.tla (property C07, raw
// request layer).  Requests are issued with QXmppClient::sendIq / sendGenericIq; every returned
// task gets a continuation that counts its runs and records the value it saw.  Session steps are
// real connections to a scripted server on 127.0.0.1 (srvscript.h); replies are written by the
// server with the sender class the behaviour prescribes and a distinct payload marker.
//
// Behaviour: {"steps":[{"a":"Open","k":"smr"},{"a":"Send","id":"i1","to":"full","c":"fresh|empty|dup-i2"},
//                      {"a":"Recv","id":"i1","ty":"result","from":"bareOf"},{"a":"Close","k":"cut"},...]}
// Trace line per step (see spec/IqTrackerTrace.tla): the step, for Recv the marker "m", and
//   o = {req:{i1:{n,v,got},i2:…,i3:…}, passed:n, up:bool}
//   n run count of the continuation, v what it saw ("none","result","error","local"), got the
//   payload marker of the element / error text it was completed with, passed = iqReceived signals
//   of this step (response IQs the tracker did not consume), up = isConnected().
// {"a":"Attempt","r":"authfail|bindfail|userabort|precut|abandon"}: a connection attempt that ends before a session
// exists (scripted over the real socket, see SrvScript::attempt), or disconnectFromServer() without a connection.
// A Send with "b":"sendNew": the continuation of that request issues request k<n> (same addressee, fresh id) from
// inside, whenever and however it runs; every line carries sp = the requests issued that way during the step.
// Send lines also carry wk ("own": the stanza went out with the caller's id, "new": with another one,
// "none": without an id) and clash (the id written is empty or that of a request still pending);
// replies for request i carry the id request i's stanza was really written with.
#include "qxv.h"
#include "srvscript.h"

#include "QXmppDiscoveryIq.h"
#include "QXmppError.h"
#include "QXmppIq.h"
#include "QXmppSendResult.h"
#include "QXmppTask.h"

#include <map>
#include <memory>

namespace {

const QStringList kIds { "i1", "i2", "i3", "k1", "k2" };  // k*: requests issued from inside the continuation of i*
const QString kOwnBare = QStringLiteral("me@example.org");
const QString kOwnFull = QStringLiteral("me@example.org/dev1");

QString toJid(const QString &to)
{
    if (to == "server") return QStringLiteral("example.org");
    if (to == "bare") return QStringLiteral("c1@contacts.example");
    if (to == "full") return QStringLiteral("c1@contacts.example/r1");
    return {};  // "none": the user's own account
}

QString bareOf(const QString &jid) { return jid.section('/', 0, 0); }

// sender classes of spec/IqTracker.tla, relative to the addressee of the request
QString fromJid(const QString &to, const QString &f)
{
    const QString expected = to == "none" ? kOwnBare : toJid(to);
    if (f == "exact") return expected;
    if (f == "absent") return {};
    if (f == "bareOf") return bareOf(expected);
    if (f == "otherRes") return bareOf(expected) + "/other";
    if (f == "ownFull") return kOwnFull;
    if (f == "ownOther") return kOwnBare + "/other";
    if (f == "ownBare") return kOwnBare;
    if (f == "server") return QStringLiteral("example.org");
    if (f == "stranger") return QStringLiteral("mallory@evil.example/x");
    if (f == "look") {  // the addressee's domain is a prefix of the sender's domain
        const auto res = expected.contains('/') ? expected.mid(expected.indexOf('/')) : QString();
        return bareOf(expected) + ".evil.example" + res;
    }
    if (f == "look2") return expected + "x";  // the whole addressee JID is a prefix
    return QStringLiteral("unknown@class.invalid");
}

struct Rec {
    int n = 0;
    QString v = QStringLiteral("none");
    int got = 0;
};

int markerOfError(const QXmppError &e)
{
    // the server puts "m<marker>" into the <text/> of the errors it sends
    return e.description.startsWith('m') ? e.description.mid(1).toInt() : 0;
}

struct Env {
    std::unique_ptr<TestClient> c;
    std::unique_ptr<SrvScript> srv;
    QObject ctxObj;  // context of the continuations: outlives the client
    std::map<QString, Rec> recs;  // node-based: references handed to continuations stay valid
    int passed = 0;

    explicit Env(LoopPeer &peer) : c(new TestClient(TestClient::NoExtensions, kOwnFull)), srv(new SrvScript(peer, *c))
    {
        QObject::connect(c.get(), &QXmppClient::iqReceived, &ctxObj, [this](const QXmppIq &) { ++passed; });
    }

    void local(Rec &r, const QXmppError &e)
    {
        if (e.holdsType<QXmppStanza::Error>()) {
            r.v = "error";
            r.got = markerOfError(e);
        } else {
            r.v = "local";
            r.got = 0;
        }
    }

    QStringList spawned;      // requests issued from inside continuations during the current step
    bool destroying = false;  // the client object is going away: a continuation must not touch it

    // body "sendNew": the continuation of request id re-enters the API and issues the child request k<n>
    void runBody(const QString &id, const QString &to, const QString &body)
    {
        if (body != "sendNew" || destroying || !c) {
            return;
        }
        const auto kid = "k" + id.mid(1);
        if (recs.count(kid)) {
            return;
        }
        spawned << kid;
        send(kid, to, "q-" + kid, QStringLiteral("none"));
    }

    // callerId: what the application puts into the IQ (may be empty or the id of a pending request)
    void send(const QString &id, const QString &to, const QString &callerId, const QString &body)
    {
        Rec &r = recs[id];
        const auto realId = callerId;
        if (id == "i2") {
            // the generic variant: chainIq on top of the raw task
            QXmppIq iq(QXmppIq::Set);
            iq.setId(realId);
            iq.setTo(toJid(to));
            c->sendGenericIq(std::move(iq)).then(&ctxObj, [this, &r, id, to, body](QXmppClient::EmptyResult &&res) {
                ++r.n;
                if (auto *e = std::get_if<QXmppError>(&res)) {
                    local(r, *e);
                } else {
                    r.v = "result";
                    r.got = 0;  // the payload is not handed out by this API
                }
                runBody(id, to, body);
            });
            return;
        }
        auto then = [this, &r, id, to, body](QXmppClient::IqResult &&res) {
            ++r.n;
            if (auto *e = std::get_if<QXmppError>(&res)) {
                local(r, *e);
            } else {
                r.v = "result";
                const auto mk = std::get<QDomElement>(res).firstChildElement("x").attribute("n");
                r.got = mk.isEmpty() ? -2 : mk.toInt();
            }
            runBody(id, to, body);
        };
        if (id == "i3" || id == "k2") {
            QXmppDiscoveryIq iq;
            iq.setType(QXmppIq::Get);
            iq.setQueryType(QXmppDiscoveryIq::InfoQuery);
            iq.setId(realId);
            iq.setTo(toJid(to));
            c->sendIq(std::move(iq)).then(&ctxObj, then);
        } else {
            QXmppIq iq(QXmppIq::Get);
            iq.setId(realId);
            iq.setTo(toJid(to));
            c->sendIq(std::move(iq)).then(&ctxObj, then);
        }
    }

    QJsonObject observe()
    {
        QJsonObject req;
        for (const auto &i : kIds) {
            const auto it = recs.find(i);
            const Rec r = it == recs.end() ? Rec() : it->second;
            req[i] = QJsonObject { { "n", r.n }, { "v", r.v }, { "got", r.got } };
        }
        QJsonObject o { { "req", req }, { "passed", passed }, { "up", c && c->isConnected() } };
        passed = 0;
        if (c) {
            c->takeSent();
        }
        return o;
    }
};

void runBehaviour(Ctx &ctx, LoopPeer &peer, const QString &caseId, const QJsonArray &steps, bool sasl2)
{
    ctx.reset(caseId, { { "ids", jarr(kIds) } });
    ctx.out.flush();  // a crash inside the library must not lose the executions already recorded
    Env e(peer);
    e.srv->setSasl2(sasl2);  // "transport":"sasl2": sessions are negotiated with SASL 2 / bind 2 / inline stream management
    QMap<QString, QString> toOf;
    QMap<QString, QString> wireOf;  // the id each request's stanza was written with (read from what the client wrote)
    int stepNo = 0;
    for (const auto &sv : steps) {
        const auto s = sv.toObject();
        const auto a = s["a"].toString();
        ++stepNo;
        QJsonObject ev = s;
        ev.remove("a");
        ev["e"] = a;
        bool ok = true;
        QString why;
        // The behaviour comes from the model; if the implementation did something else an operation
        // may be impossible on the real objects: end the execution there.
        if (!e.c) {
            ok = false;
            why = "client destroyed";
        } else if (a == "Open") {
            SrvScript::Kind k;
            ok = SrvScript::kindFrom(s["k"].toString(), k) && !e.c->isConnected() && e.srv->connect(k);
            why = e.srv->why;
        } else if (a == "Attempt") {
            ok = !e.c->isConnected() && e.srv->attempt(s["r"].toString());
            why = e.srv->why.isEmpty() ? QStringLiteral("connected") : e.srv->why;
        } else if (a == "Close") {
            if (!peer.isOpen() || !e.c->isConnected()) {
                ok = false;
                why = "not connected";
            } else {
                ok = s["k"].toString() == "user" ? e.srv->userDisconnect() : e.srv->cut();
                why = e.srv->why;
            }
        } else if (a == "Send") {
            const auto id = s["id"].toString();
            if (e.recs.count(id)) {
                ok = false;
                why = "id already used";
            } else {
                const qint64 sent0 = e.c->sentBytes, recv0 = peer.totalReceived;
                const bool open = peer.isOpen();
                toOf[id] = s["to"].toString();
                const auto cid = s["c"].toString("fresh");
                QString callerId = "q-" + id;
                if (cid == "empty") {
                    callerId.clear();
                } else if (cid.startsWith("dup-")) {
                    callerId = wireOf.value(cid.mid(4), "q-" + cid.mid(4));
                }
                e.c->takeSent();
                e.send(id, s["to"].toString(), callerId, s["b"].toString("none"));
                qxvDrain(2);
                // the id that really went into the stanza: the peer can only answer with that one
                QString wire;
                bool seen = false;
                for (const auto &x : std::as_const(e.c->sent)) {
                    if (!seen && x.startsWith("<iq")) {  // the first one: a continuation may have sent more
                        wire = QxvXml(x).el.attribute("id");
                        seen = true;
                    }
                }
                if (!seen) {
                    wire = callerId;  // nothing was serialised (cannot happen with the code as written)
                }
                bool clash = wire.isEmpty();
                for (auto it = wireOf.constBegin(); it != wireOf.constEnd(); ++it) {
                    const auto rit = e.recs.find(it.key());
                    clash = clash || (it.value() == wire && rit != e.recs.end() && rit->second.n == 0);
                }
                wireOf[id] = wire;
                ev["wk"] = wire.isEmpty() ? "none" : wire == callerId ? "own" : "new";
                ev["clash"] = clash;  // empty, or equal to the id of a request that is still pending
                if (open) {
                    ok = e.srv->flushClient(sent0, recv0);
                    why = "request did not reach the server";
                    e.srv->absorb();
                }
            }
        } else if (a == "Recv") {
            const auto id = s["id"].toString();
            const auto ty = s["ty"].toString();
            const auto from = fromJid(toOf.value(id, "none"), s["from"].toString());
            const auto wid = wireOf.value(id, "q-" + id);  // the reply carries the id the request went out with
            const auto fromA = from.isEmpty() ? QString() : QStringLiteral(" from='%1'").arg(from);
            ev["m"] = stepNo;
            QString xml;
            if (ty == "result" || ty == "set" || ty == "get") {
                xml = QStringLiteral("<iq type='%1' id='%2'%3 to='%4'><x xmlns='urn:qxv:m' n='%5'/></iq>")
                          .arg(ty, wid, fromA, kOwnFull)
                          .arg(stepNo);
            } else if (ty == "error") {
                xml = QStringLiteral("<iq type='error' id='%1'%2 to='%3'><error type='cancel'><item-not-found "
                                     "xmlns='urn:ietf:params:xml:ns:xmpp-stanzas'/><text xmlns='urn:ietf:params:xml:ns:xmpp-stanzas'>m%4</text>"
                                     "</error></iq>")
                          .arg(wid, fromA, kOwnFull)
                          .arg(stepNo);
            } else {  // errorBare: type error without an <error/> child
                xml = QStringLiteral("<iq type='error' id='%1'%2 to='%3'/>").arg(wid, fromA, kOwnFull);
            }
            ok = e.srv->deliver(xml);
            why = e.srv->why;
        } else if (a == "Destroy") {
            e.destroying = true;
            e.srv.reset();
            e.c.reset();
            qxvDrain(2);
            peer.takeReceived();
        } else {
            fprintf(stderr, "iq: unknown step %s\n", qPrintable(a));
            exit(2);
        }
        if (!ok) {
            ctx.emit_({ { "e", "Abort" }, { "at", a }, { "why", why } });
            break;
        }
        // requests issued from continuations during this step: they carry the fresh ids the body chose
        for (const auto &kid : std::as_const(e.spawned)) {
            wireOf[kid] = "q-" + kid;
            toOf[kid] = toOf.value("i" + kid.mid(1), "none");
        }
        ev["sp"] = jarr(e.spawned);
        e.spawned.clear();
        ev["o"] = e.observe();
        ctx.emit_(ev);
        ctx.out.flush();  // if the next step kills the process this line says how far the execution got
    }
    if (peer.isOpen()) {
        peer.cut();
        if (e.c) {
            qxvSpin([&] { return !e.c->isConnected(); }, 1000);
        }
    }
}

}  // namespace

QXV_DRIVER(iq)
{
    LoopPeer peer;
    auto behs = ctx.behaviours();
    int n = 0;
    const int first = ctx.optInt("first", 1);  // resume after an execution that crashed the process
    for (const auto &bv : behs) {
        if (++n < first) {
            continue;
        }
        runBehaviour(ctx, peer, QString("q%1").arg(n), bv.toObject()["steps"].toArray(), bv.toObject()["transport"].toString() == "sasl2");
    }
    return 0;
}
