// qxv framing — C03: stream framing is independent of how the byte stream is split into reads.
//
// A real QXmpp::Private::XmppSocket on a real QSslSocket (plain TCP) is connected to the scripted
// LoopPeer over 127.0.0.1. For every execution the peer writes the corpus stream in the chunks of
// the requested split. "chunk = read" holds by construction: a readyRead slot connected BEFORE
// XmppSocket::setSocket() counts the bytes the socket wrapper is about to consume, and the next
// chunk is written only when everything written so far has been consumed and nothing is pending.
//
// Input (ndjson, written by lib/props/C03.py from spec/Framing behaviours and the byte corpus):
//   {"def":{"sid":"c2","hex":"3c3f...","s":{"n":..,"elems":[..],"chars":[..],"sync":[..]}}}
//        defines a stream (s = its description for spec/FramingTrace.tla, atoms = bytes); the
//        one-read reference execution "<sid>/ref" is run immediately. Large streams come with coarse
//        atoms: "at":[byte offset of the end of every atom]; all their cuts must be atom boundaries
//        (explicit "cuts" jobs only) and Read.n / End.pos are logged in atoms ("nb" = bytes).
//   {"sid":"c2","cuts":[17,40],"src":"tlc"}      one execution with exactly these cut offsets
//   {"sid":"c2","gen":"all2"[,"from":a,"to":b]}  every 2-way split (every byte offset [in a..b])
//   {"sid":"c2","gen":"bytes"}                   one byte at a time
//   {"sid":"c2","gen":"rand","count":N}          N seeded random k-way splits (ctx.rng)
// Positions listed in s.sync are always cuts (stream restart: the peer waits for the receiver).
//
// Trace: see spec/FramingTrace.tla.
#include "loopback.h"
#include "qxv.h"

#include "XmppSocket.h"

#include <QCryptographicHash>
#include <QDomElement>
#include <QSet>

#include <algorithm>
#include <sys/socket.h>

using QXmpp::Private::ServerAddress;
using QXmpp::Private::XmppSocket;

namespace {

QString escText(const QString &s)
{
    QString r;
    r.reserve(s.size());
    for (QChar c : s) {
        switch (c.unicode()) {
        case '<': r += "&lt;"; break;
        case '>': r += "&gt;"; break;
        case '&': r += "&amp;"; break;
        case '"': r += "&quot;"; break;
        case '\n': r += "&#10;"; break;
        case '\r': r += "&#13;"; break;
        case '\t': r += "&#9;"; break;
        default: r += c;
        }
    }
    return r;
}

// Canonical form of a delivered element: expanded names, attributes sorted, adjacent text and
// CDATA merged, comments and processing instructions ignored (not allowed in XMPP). Independent
// of QDom's attribute hashing order and of prefixes.
void canon(const QDomElement &el, QString &out, bool children)
{
    auto name = [](const QString &ns, const QString &local, const QString &fallback) {
        return "{" + ns + "}" + (local.isEmpty() ? fallback : local);
    };
    out += "<" + name(el.namespaceURI(), el.localName(), el.tagName());
    QStringList attrs;
    auto map = el.attributes();
    for (int i = 0; i < map.count(); i++) {
        auto a = map.item(i).toAttr();
        attrs << " " + name(a.namespaceURI(), a.localName(), a.name()) + "=\"" + escText(a.value()) + "\"";
    }
    attrs.sort();
    out += attrs.join(QString()) + ">";
    if (children) {
        QString text;
        for (auto n = el.firstChild(); !n.isNull(); n = n.nextSibling()) {
            if (n.isText() || n.isCDATASection()) {
                text += n.toCharacterData().data();
            } else if (n.isElement()) {
                out += escText(text);
                text.clear();
                canon(n.toElement(), out, true);
            }
        }
        out += escText(text);
    }
    out += "</>";
}

QString digest(const QString &c)
{
    return QString::fromLatin1(QCryptographicHash::hash(c.toUtf8(), QCryptographicHash::Sha1).toHex().left(16));
}

struct StreamDef {
    QString sid;
    QByteArray bytes;
    QJsonObject model;
    QVector<int> sync;
    QVector<int> atomEnds;  // empty: an atom of the description is a byte; else byte offset of the end of every atom

    // number of atoms of bytes (from, to]; -1 if a boundary is not an atom boundary
    int atoms(int from, int to) const
    {
        if (atomEnds.isEmpty()) {
            return to - from;
        }
        auto idx = [this](int p) {
            if (p == 0) {
                return 0;
            }
            auto it = std::lower_bound(atomEnds.begin(), atomEnds.end(), p);
            return it != atomEnds.end() && *it == p ? int(it - atomEnds.begin()) + 1 : -1;
        };
        const int a = idx(from), b = idx(to);
        return a < 0 || b < 0 ? -1 : b - a;
    }
};

struct Delivery {
    QString k, d, x;
};

void lingerZero(QSslSocket *s)
{
    // close with RST: tens of thousands of short connections must not pile up in TIME_WAIT
    auto fd = s->socketDescriptor();
    if (fd != -1) {
        struct linger lg { 1, 0 };
        setsockopt(int(fd), SOL_SOCKET, SO_LINGER, &lg, sizeof lg);
    }
}

// hang detector only (the machine may be heavily loaded); exceeding it is a harness failure, exit 2
constexpr int HangMs = 60000;
// A chunk larger than this does not arrive in one piece over TCP. To keep "chunk = read" the socket's
// signals are blocked while the chunk is in flight (the bytes pile up in the socket's own buffer, the
// wrapper is not told) and readyRead is emitted once when all of it is there.
constexpr int GateBytes = 4096;
constexpr int ShowChars = 400;  // canonical XML kept in the trace (the digest covers all of it)

struct Runner {
    Ctx &ctx;
    LoopPeer peer;
    bool verbose;
    qint64 executions = 0;
    QStringList lastDelivered;  // canonical form of every non-null delivery of the last execution

    explicit Runner(Ctx &c) : ctx(c), verbose(c.optInt("verbose", 0) != 0) { }

    // One execution: new connection, new XmppSocket; returns false if the harness itself failed.
    bool run(const StreamDef &def, const QString &caseId, QVector<int> cuts, bool isRef, const QString &src)
    {
        const int n = def.bytes.size();
        for (int p : def.sync) {
            cuts.append(p);
        }
        std::sort(cuts.begin(), cuts.end());
        cuts.erase(std::unique(cuts.begin(), cuts.end()), cuts.end());
        cuts.erase(std::remove_if(cuts.begin(), cuts.end(), [n](int p) { return p <= 0 || p >= n; }), cuts.end());

        auto *sock = new QSslSocket;
        auto *xs = new XmppSocket(nullptr);
        qint64 consumed = 0;
        int rr = 0, started = 0;
        QVector<Delivery> got;
        // connected before setSocket(): runs before the wrapper's own readyRead handler and sees
        // exactly the bytes that handler's readAll() is going to take
        QObject::connect(sock, &QSslSocket::readyRead, sock, [&] {
            consumed += sock->bytesAvailable();
            ++rr;
        });
        xs->setSocket(sock);
        QObject::connect(xs, &XmppSocket::started, xs, [&] { ++started; });
        QObject::connect(xs, &XmppSocket::streamReceived, xs, [&](const QDomElement &el) {
            QString c;
            canon(el, c, false);
            got.append({ "open", digest(c), c });
        });
        QObject::connect(xs, &XmppSocket::stanzaReceived, xs, [&](const QDomElement &el) {
            if (el.isNull()) {
                got.append({ "null", "", "" });
                return;
            }
            QString c;
            canon(el, c, true);
            got.append({ "stanza", digest(c), c });
        });
        QObject::connect(xs, &XmppSocket::streamClosed, xs, [&] { got.append({ "close", "", "" }); });

        const int c0 = peer.connections;
        xs->connectToHost(ServerAddress { ServerAddress::Tcp, "127.0.0.1", peer.port() });
        bool up = qxvSpin([&] {
            return peer.connections > c0 && peer.isOpen() && sock->state() == QAbstractSocket::ConnectedState && started >= 1;
        }, HangMs);
        QJsonArray jc;
        for (int p : cuts) {
            jc.append(p);
        }
        ctx.reset(caseId, { { "sid", def.sid }, { "ref", isRef }, { "src", src }, { "cuts", jc }, { "started", started }, { "up", up } });
        ++executions;
        lastDelivered.clear();
        bool ok = up;
        qint64 written = 0;
        int nd = 0, nulls = 0;
        cuts.append(n);
        int from = 0;
        for (int i = 0; ok && i < cuts.size(); i++) {
            const int to = cuts[i];
            got.clear();
            rr = 0;
            const bool gated = to - from > GateBytes;
            if (gated) {
                sock->blockSignals(true);
            }
            peer.write(def.bytes.mid(from, to - from));
            written += to - from;
            if (gated) {
                ok = qxvSpin([&] { return consumed + sock->bytesAvailable() >= written || sock->state() != QAbstractSocket::ConnectedState; }, HangMs) &&
                    consumed + sock->bytesAvailable() == written;
                sock->blockSignals(false);
                if (ok) {
                    Q_EMIT sock->readyRead();  // the one read of this chunk
                }
            }
            ok = ok && qxvSpin([&] { return consumed >= written && sock->bytesAvailable() == 0; }, HangMs);
            const int natoms = def.atoms(from, to);
            if (natoms < 0) {
                fprintf(stderr, "framing: %s: cut %d/%d is not an atom boundary of the description\n", qPrintable(caseId), from, to);
                ok = false;
            }
            QJsonArray dl;
            for (const auto &g : got) {
                QJsonObject o { { "k", g.k }, { "d", g.d } };
                if (verbose || isRef) {
                    o["x"] = g.x.size() > ShowChars ? g.x.left(ShowChars) + QString(" ...(%1 chars)").arg(g.x.size()) : g.x;
                }
                dl.append(o);
                g.k == "null" ? ++nulls : ++nd;
                if (g.k != "null") {
                    lastDelivered << (g.k == "close" ? QString("close") : g.k + " " + g.d + " " + g.x.left(ShowChars));
                }
            }
            QJsonObject o { { "nd", nd }, { "nulls", nulls }, { "rr", rr } };
            if (!ok) {
                o["stall"] = true;
            }
            if (gated) {
                o["gated"] = true;
            }
            ctx.emit_({ { "e", "Read" }, { "n", natoms }, { "nb", to - from }, { "dl", dl }, { "o", o } });
            from = to;
        }
        if (ok) {
            // nothing may be delivered without input: let posted events run once and look again
            got.clear();
            QCoreApplication::processEvents();
            ctx.emit_({ { "e", "End" }, { "o", QJsonObject { { "pos", def.atoms(0, int(consumed)) }, { "bytes", int(consumed) }, { "nd", nd }, { "late", int(got.size()) } } } });
        }
        QObject::disconnect(sock, nullptr, nullptr, nullptr);
        lingerZero(sock);
        sock->abort();
        delete xs;
        delete sock;
        QCoreApplication::sendPostedEvents(nullptr, QEvent::DeferredDelete);
        if (!ok) {
            fprintf(stderr, "framing: harness stalled in %s (up=%d consumed=%lld written=%lld)\n", qPrintable(caseId), up,
                    (long long)consumed, (long long)written);
        }
        return ok;
    }
};

}  // namespace

QXV_DRIVER(framing)
{
    Runner r(ctx);
    QMap<QString, StreamDef> defs;
    QMap<QString, int> counter;
    auto next = [&](const QString &sid) { return QString("%1/%2").arg(sid).arg(++counter[sid]); };
    for (const auto &bv : ctx.behaviours()) {
        auto b = bv.toObject();
        if (b.contains("def")) {
            auto d = b["def"].toObject();
            StreamDef def;
            def.sid = d["sid"].toString();
            def.bytes = QByteArray::fromHex(d["hex"].toString().toLatin1());
            def.model = d["s"].toObject();
            for (const auto &v : def.model["sync"].toArray()) {
                def.sync.append(v.toInt());
            }
            for (const auto &v : d["at"].toArray()) {
                def.atomEnds.append(v.toInt());
            }
            if (!def.atomEnds.isEmpty()) {
                // restart positions of the description are atom indices: the peer needs byte offsets
                for (auto &p : def.sync) {
                    p = p >= 1 && p <= def.atomEnds.size() ? def.atomEnds[p - 1] : 0;
                }
            }
            if (def.atoms(0, def.bytes.size()) != def.model["n"].toInt() || def.bytes.isEmpty()) {
                fprintf(stderr, "framing: stream %s: description does not match the bytes\n", qPrintable(def.sid));
                return 2;
            }
            defs[def.sid] = def;
            ctx.emit_({ { "e", "Stream" }, { "sid", def.sid }, { "s", def.model } });
            if (!r.run(def, def.sid + "/ref", {}, true, "ref")) {
                return 2;
            }
            continue;
        }
        auto sid = b["sid"].toString();
        if (!defs.contains(sid)) {
            fprintf(stderr, "framing: job for undefined stream %s\n", qPrintable(sid));
            return 2;
        }
        const auto &def = defs[sid];
        const int n = def.bytes.size();
        auto gen = b["gen"].toString();
        bool ok = true;
        if (gen.isEmpty()) {
            QVector<int> cuts;
            for (const auto &v : b["cuts"].toArray()) {
                cuts.append(v.toInt());
            }
            ok = r.run(def, next(sid), cuts, false, b["src"].toString("job"));
        } else if (gen == "all2") {
            const int lo = std::max(1, b["from"].toInt(1)), hi = std::min(n - 1, b["to"].toInt(n - 1));
            for (int p = lo; ok && p <= hi; p++) {
                ok = r.run(def, next(sid), { p }, false, "all2");
            }
        } else if (gen == "bytes") {
            QVector<int> cuts;
            for (int p = 1; p < n; p++) {
                cuts.append(p);
            }
            ok = r.run(def, next(sid), cuts, false, "bytes");
        } else if (gen == "rand") {
            const int count = b["count"].toInt(100);
            for (int i = 0; ok && i < count; i++) {
                QVector<int> cuts;
                if (i % 4 == 3) {
                    // dense: every offset is a cut with probability t/n, t = 8, 24 or 64 expected cuts
                    static const int target[] = { 8, 24, 64 };
                    const int t = target[ctx.rnd(3)];
                    for (int p = 1; p < n; p++) {
                        if (int(ctx.rnd(n)) < t) {
                            cuts.append(p);
                        }
                    }
                } else {
                    // k-way: k-1 uniformly chosen offsets, k in 3..12
                    const int k = 3 + int(ctx.rnd(10));
                    for (int j = 0; j < k - 1 && n > 1; j++) {
                        cuts.append(1 + int(ctx.rnd(n - 1)));
                    }
                }
                ok = r.run(def, next(sid), cuts, false, "rand");
            }
        } else {
            fprintf(stderr, "framing: unknown generator %s\n", qPrintable(gen));
            return 2;
        }
        if (!ok) {
            return 2;
        }
    }
    return 0;
}

// qxv framing_demo — stand-alone demonstration of the C03 defects of the pinned tree: three small
// valid streams, each delivered in one read and in one particular 2-way split, through the same
// loopback rig. Prints what XmppSocket delivered; exit 1 if any split run differs from its one-read run.
QXV_DRIVER(framing_demo)
{
    const QByteArray hdr = "<stream:stream xmlns='jabber:client' xmlns:stream='http://etherx.jabber.org/streams' version='1.0'";
    struct Demo {
        const char *what;
        QByteArray bytes;
        int cut;
    };
    const QByteArray s1 = hdr + " id='s1'><message><body>gr\xc3\xbc\xc3\x9f""e</body></message>";
    const QByteArray s2 = hdr + " id='a>b'><r xmlns='urn:xmpp:sm:3'/></stream:stream>";
    const QByteArray s3 = hdr + " id='s3'><r xmlns='urn:xmpp:sm:3'/></stream:stream>\r\n";
    const QVector<Demo> demos {
        { "read boundary inside a 2-byte UTF-8 character", s1, int(s1.indexOf("\xc3\xbc")) + 1 },
        { "'>' inside a header attribute value, read boundary after the header", s2, int(s2.indexOf("<r ")) },
        { "CR LF after the close tag, read boundary before it", s3, int(s3.size()) - 2 },
    };
    Runner r(ctx);
    r.verbose = true;
    int differing = 0, i = 0;
    for (const auto &d : demos) {
        StreamDef def;
        def.sid = QString("demo%1").arg(++i);
        def.bytes = d.bytes;
        def.model = QJsonObject { { "n", d.bytes.size() }, { "elems", QJsonArray() }, { "chars", QJsonArray() }, { "sync", QJsonArray() } };
        if (!r.run(def, def.sid + "/ref", {}, true, "ref")) {
            return 2;
        }
        const auto one = r.lastDelivered;
        if (!r.run(def, def.sid + "/1", { d.cut }, false, "demo")) {
            return 2;
        }
        const auto split = r.lastDelivered;
        printf("%s\n  stream (%d bytes): %s\n  one read       : %s\n  split at byte %d: %s\n  => %s\n", d.what, int(d.bytes.size()),
               d.bytes.toPercentEncoding(" <>='/:.-_", "", '%').constData(), qPrintable(one.join(" | ")), d.cut, qPrintable(split.join(" | ")),
               one == split ? "same" : "DIFFERENT");
        differing += one != split;
    }
    return differing ? 1 : 0;
}
