// codec_registry.h — every class of the library that has a parser and a serializer,
// one line per class.  Used by `qxv codec` (harness/drv_codec.cpp) for C01 and C02.
//
// An entry knows three things about its class:
//   admits(el)  the class's own type check (isXyz(), isXyzIq(), checkIqType(), fromDom() != nullopt,
//               bool parse()); entries without a type check admit every element;
//   run(el)     parse the element into a fresh object and serialize that object;
//   style       how the above are spelled (documentation only).
// The static build makes the private nonza structs of src/base/*_p.h linkable.
#pragma once

#include "QXmppArchiveIq.h"
#include "QXmppBindIq.h"
#include "QXmppBitsOfBinaryContentId.h"
#include "QXmppBitsOfBinaryData.h"
#include "QXmppBitsOfBinaryDataList.h"
#include "QXmppBitsOfBinaryIq.h"
#include "QXmppBookmarkSet.h"
#include "QXmppByteStreamIq.h"
#include "QXmppDataForm.h"
#include "QXmppDiscoveryIq.h"
#include "QXmppElement.h"
#include "QXmppEncryptedFileSource.h"
#include "QXmppEntityTimeIq.h"
#include "QXmppExternalService.h"
#include "QXmppExternalServiceDiscoveryIq.h"
#include "QXmppFallback.h"
#include "QXmppFileMetadata.h"
#include "QXmppFileShare.h"
#include "QXmppGeolocItem.h"
#include "QXmppHash.h"
#include "QXmppHttpFileSource.h"
#include "QXmppHttpUploadIq.h"
#include "QXmppIbbIq.h"
#include "QXmppIq.h"
#include "QXmppJingleData.h"
#include "QXmppMamIq.h"
#include "QXmppMessage.h"
#include "QXmppMessageReaction.h"
#include "QXmppMixConfigItem.h"
#include "QXmppMixInfoItem.h"
#include "QXmppMixInvitation.h"
#include "QXmppMixIq.h"
#include "QXmppMixIq_p.h"
#include "QXmppMixParticipantItem.h"
#include "QXmppMucIq.h"
#include "QXmppNonSASLAuth.h"
#include "QXmppOutOfBandUrl.h"
#include "QXmppPingIq.h"
#include "QXmppPresence.h"
#include "QXmppPubSubAffiliation.h"
#include "QXmppPubSubBaseItem.h"
#include "QXmppPubSubEvent.h"
#include "QXmppPubSubIq_p.h"
#include "QXmppPubSubMetadata.h"
#include "QXmppPubSubNodeConfig.h"
#include "QXmppPubSubSubAuthorization.h"
#include "QXmppPubSubSubscribeOptions.h"
#include "QXmppPubSubSubscription.h"
#include "QXmppPushEnableIq.h"
#include "QXmppRegisterIq.h"
#include "QXmppResultSet.h"
#include "QXmppRosterIq.h"
#include "QXmppRpcIq.h"
#include "QXmppSasl_p.h"
#include "QXmppStanza.h"
#include "QXmppStreamError_p.h"
#include "QXmppStreamFeatures.h"
#include "QXmppStreamInitiationIq_p.h"
#include "QXmppStreamManagement_p.h"
#include "QXmppThumbnail.h"
#include "QXmppTransferManager.h"
#include "QXmppTrustMessageElement.h"
#include "QXmppTrustMessageKeyOwner.h"
#include "QXmppUserTuneItem.h"
#include "QXmppVCardIq.h"
#include "QXmppVersionIq.h"
#include "QXmppAccountMigrationManager.h"
#include "QXmppDialback.h"
#include "Stream.h"
#include "compat/QXmppPubSubItem.h"
#include "compat/QXmppSessionIq.h"
#include "compat/QXmppStartTlsPacket.h"

#include <QByteArray>
#include <QDomElement>
#include <QXmlStreamWriter>

#include <functional>
#include <optional>
#include <variant>
#include <vector>

struct CodecEntry {
    const char *name;
    const char *style;
    bool checked;     // the class has a type check of its own
    bool parseOnly;   // no serializer (only the "terminates safely" clause applies)
    std::function<bool(const QDomElement &)> admits;
    // false: the parser itself refused the element (bool parse() == false, fromDom() == nullopt)
    std::function<bool(const QDomElement &, QByteArray &)> run;
};

namespace qxvcodec {

// Serialize as the library does in context: several classes end with writeEmptyElement() or write a
// sequence of sibling elements and rely on the enclosing element being closed by their caller, so
// the object is written inside a wrapper element, which is then stripped: the result is a
// fragment of zero or more elements.
inline QByteArray stripFragmentWrapper(QByteArray out)
{
    if (out == "<qxvfrag/>") {
        return {};
    }
    return out.mid(9, out.size() - 19);  // <qxvfrag> ... </qxvfrag>
}

template<typename T>
QByteArray ser(const T &o)
{
    QByteArray out;
    {
        QXmlStreamWriter w(&out);
        w.writeStartElement(QStringLiteral("qxvfrag"));
        o.toXml(&w);
        w.writeEndElement();
    }
    return stripFragmentWrapper(out);
}

template<typename T>
bool parseInto(T &o, const QDomElement &el)
{
    if constexpr (std::is_same_v<decltype(o.parse(el)), bool>) {
        return o.parse(el);
    } else {
        o.parse(el);
        return true;
    }
}

template<typename T>
struct is_variant : std::false_type { };
template<typename... A>
struct is_variant<std::variant<A...>> : std::true_type { };

// parse()/toXml() members
template<typename T>
CodecEntry plain(const char *name)
{
    constexpr bool boolParse = std::is_same_v<decltype(std::declval<T &>().parse(std::declval<const QDomElement &>())), bool>;
    return { name, boolParse ? "bool parse()/toXml()" : "parse()/toXml()", false, false,
             [](const QDomElement &) { return true; },
             [](const QDomElement &el, QByteArray &out) {
                 T o;
                 if (!parseInto(o, el)) {
                     return false;
                 }
                 out = ser(o);
                 return true;
             } };
}

// static bool isXyz(el) + parse()/toXml()
template<typename T>
CodecEntry checked(const char *name, bool (*check)(const QDomElement &))
{
    auto e = plain<T>(name);
    e.style = "isXyz() + parse()/toXml()";
    e.checked = true;
    e.admits = check;
    return e;
}

// static std::optional<T> / std::variant<T, QXmppError> fromDom(el) + toXml()
template<typename T>
CodecEntry fromDom(const char *name)
{
    using R = decltype(T::fromDom(std::declval<const QDomElement &>()));
    auto get = [](const QDomElement &el) -> std::optional<T> {
        auto r = T::fromDom(el);
        if constexpr (is_variant<R>::value) {
            if (auto *v = std::get_if<T>(&r)) {
                return std::move(*v);
            }
            return std::nullopt;
        } else {
            return r;
        }
    };
    return { name, "fromDom()/toXml()", true, false,
             [get](const QDomElement &el) { return get(el).has_value(); },
             [get](const QDomElement &el, QByteArray &out) {
                 auto o = get(el);
                 if (!o) {
                     return false;
                 }
                 out = ser(*o);
                 return true;
             } };
}

// parser without serializer
template<typename F>
CodecEntry parseOnly(const char *name, F f)
{
    return { name, "parse only", false, true,
             [](const QDomElement &) { return true; },
             [f](const QDomElement &el, QByteArray &out) {
                 f(el);
                 out.clear();
                 return true;
             } };
}

// QXmppPubSubMetadata has no public fromDataForm() and QXmppPubSubPublishOptions::fromDataForm() is
// declared but not defined in the library: reach the protected static one of their base
template<typename T>
struct FormAccess : T {
    static std::optional<T> get(const QXmppDataForm &f)
    {
        T m;
        if (QXmppDataFormBase::fromDataForm(f, m)) {
            return m;
        }
        return std::nullopt;
    }
};
template<typename T>
std::optional<T> formAccess(const QXmppDataForm &f)
{
    if constexpr (std::is_same_v<T, QXmppPubSubMetadata> || std::is_same_v<T, QXmppPubSubPublishOptions>) {
        return FormAccess<T>::get(f);
    } else {
        return T::fromDataForm(f);
    }
}

// typed data forms: QXmppDataForm -> T::fromDataForm() -> toDataForm() -> toXml()
template<typename T>
CodecEntry typedForm(const char *name)
{
    auto get = [](const QDomElement &el) -> std::optional<T> {
        QXmppDataForm f;
        f.parse(el);
        return formAccess<T>(f);
    };
    return { name, "QXmppDataForm::parse() + fromDataForm()/toDataForm().toXml()", true, false,
             [get](const QDomElement &el) { return get(el).has_value(); },
             [get](const QDomElement &el, QByteArray &out) {
                 auto o = get(el);
                 if (!o) {
                     return false;
                 }
                 out = ser(o->toDataForm());
                 return true;
             } };
}

template<typename T>
bool iqTypeCheck(const QDomElement &el)
{
    auto child = el.firstChildElement();
    return T::checkIqType(child.tagName(), child.namespaceURI());
}

}  // namespace qxvcodec

#define QXV_PLAIN(T) r.push_back(qxvcodec::plain<T>(#T))
#define QXV_CHECKED(T, CHECK) r.push_back(qxvcodec::checked<T>(#T, [](const QDomElement &el) -> bool { return CHECK(el); }))
#define QXV_CHECKED_AS(NAME, T, CHECK) r.push_back(qxvcodec::checked<T>(NAME, [](const QDomElement &el) -> bool { return CHECK(el); }))
#define QXV_FROMDOM(T) r.push_back(qxvcodec::fromDom<T>(#T))
#define QXV_TYPEDFORM(T) r.push_back(qxvcodec::typedForm<T>(#T))

inline const std::vector<CodecEntry> &codecRegistry()
{
    using namespace QXmpp::Private;
    static const std::vector<CodecEntry> reg = [] {
        std::vector<CodecEntry> r;
        // ---- stanzas and generic containers (no type check: they get every element) ----
        QXV_PLAIN(QXmppMessage);
        QXV_PLAIN(QXmppPresence);
        QXV_PLAIN(QXmppIq);
        QXV_PLAIN(QXmppStanza::Error);
        QXV_PLAIN(QXmppExtendedAddress);
        QXV_PLAIN(QXmppDataForm);
        r.push_back({ "QXmppElement", "QXmppElement(el)/toXml()", false, false,
                      [](const QDomElement &) { return true; },
                      [](const QDomElement &el, QByteArray &out) {
                          QXmppElement o(el);
                          out = qxvcodec::ser(o);
                          return true;
                      } });
        QXV_PLAIN(QXmppResultSetQuery);
        QXV_PLAIN(QXmppResultSetReply);
        // ---- IQ payload classes with isXyzIq() ----
        QXV_CHECKED(QXmppArchiveChatIq, QXmppArchiveChatIq::isArchiveChatIq);
        QXV_CHECKED(QXmppArchiveListIq, QXmppArchiveListIq::isArchiveListIq);
        QXV_CHECKED(QXmppArchiveRemoveIq, QXmppArchiveRemoveIq::isArchiveRemoveIq);
        QXV_CHECKED(QXmppArchiveRetrieveIq, QXmppArchiveRetrieveIq::isArchiveRetrieveIq);
        QXV_CHECKED(QXmppArchivePrefIq, QXmppArchivePrefIq::isArchivePrefIq);
        QXV_CHECKED(QXmppBindIq, QXmppBindIq::isBindIq);
        QXV_CHECKED(QXmppBitsOfBinaryIq, QXmppBitsOfBinaryIq::isBitsOfBinaryIq);
        QXV_CHECKED(QXmppByteStreamIq, QXmppByteStreamIq::isByteStreamIq);
        QXV_CHECKED(QXmppDiscoveryIq, QXmppDiscoveryIq::isDiscoveryIq);
        QXV_CHECKED(QXmppEntityTimeIq, QXmppEntityTimeIq::isEntityTimeIq);
        QXV_CHECKED(QXmppExternalServiceDiscoveryIq, QXmppExternalServiceDiscoveryIq::isExternalServiceDiscoveryIq);
        QXV_CHECKED(QXmppHttpUploadRequestIq, QXmppHttpUploadRequestIq::isHttpUploadRequestIq);
        QXV_CHECKED(QXmppHttpUploadSlotIq, QXmppHttpUploadSlotIq::isHttpUploadSlotIq);
        QXV_CHECKED(QXmppIbbOpenIq, QXmppIbbOpenIq::isIbbOpenIq);
        QXV_CHECKED(QXmppIbbCloseIq, QXmppIbbCloseIq::isIbbCloseIq);
        QXV_CHECKED(QXmppIbbDataIq, QXmppIbbDataIq::isIbbDataIq);
        QXV_CHECKED(QXmppJingleIq, QXmppJingleIq::isJingleIq);
        QXV_CHECKED(QXmppMamQueryIq, QXmppMamQueryIq::isMamQueryIq);
        QXV_CHECKED(QXmppMamResultIq, QXmppMamResultIq::isMamResultIq);
        QXV_CHECKED(QXmppMixIq, QXmppMixIq::isMixIq);
        QXV_CHECKED(QXmppMixSubscriptionUpdateIq, QXmppMixSubscriptionUpdateIq::isMixSubscriptionUpdateIq);
        QXV_CHECKED(QXmppMixInvitationRequestIq, QXmppMixInvitationRequestIq::isMixInvitationRequestIq);
        QXV_CHECKED(QXmppMixInvitationResponseIq, QXmppMixInvitationResponseIq::isMixInvitationResponseIq);
        QXV_CHECKED(QXmppMucAdminIq, QXmppMucAdminIq::isMucAdminIq);
        QXV_CHECKED(QXmppMucOwnerIq, QXmppMucOwnerIq::isMucOwnerIq);
        QXV_CHECKED(QXmppNonSASLAuthIq, QXmppNonSASLAuthIq::isNonSASLAuthIq);
        QXV_CHECKED(QXmppPingIq, QXmppPingIq::isPingIq);
        QXV_CHECKED(QXmppPushEnableIq, QXmppPushEnableIq::isPushEnableIq);
        QXV_CHECKED(QXmppRegisterIq, QXmppRegisterIq::isRegisterIq);
        QXV_CHECKED(QXmppRosterIq, QXmppRosterIq::isRosterIq);
        QXV_CHECKED(QXmppRpcResponseIq, QXmppRpcResponseIq::isRpcResponseIq);
        QXV_CHECKED(QXmppRpcInvokeIq, QXmppRpcInvokeIq::isRpcInvokeIq);
        QXV_CHECKED(QXmppRpcErrorIq, QXmppRpcErrorIq::isRpcErrorIq);
        QXV_CHECKED(QXmppStreamInitiationIq, QXmppStreamInitiationIq::isStreamInitiationIq);
        QXV_CHECKED(QXmppVCardIq, QXmppVCardIq::isVCard);
        QXV_CHECKED(QXmppVersionIq, QXmppVersionIq::isVersionIq);
        QXV_CHECKED(QXmppSessionIq, QXmppSessionIq::isSessionIq);
        QXV_CHECKED(PubSubIq<QXmppPubSubBaseItem>, PubSubIq<QXmppPubSubBaseItem>::isPubSubIq);
        QXV_CHECKED(PubSubIq<QXmppGeolocItem>, PubSubIq<QXmppGeolocItem>::isPubSubIq);
        QXV_CHECKED(PubSubIq<QXmppTuneItem>, PubSubIq<QXmppTuneItem>::isPubSubIq);
        QXV_CHECKED(PubSubIq<QXmppMixInfoItem>, PubSubIq<QXmppMixInfoItem>::isPubSubIq);
        QXV_CHECKED(PubSubIq<QXmppMixConfigItem>, PubSubIq<QXmppMixConfigItem>::isPubSubIq);
        QXV_CHECKED(PubSubIq<QXmppMixParticipantItem>, PubSubIq<QXmppMixParticipantItem>::isPubSubIq);
        // the same IQ classes through the newer checkIqType(tag, namespace) entry point
        QXV_CHECKED_AS("QXmppDiscoveryIq[checkIqType]", QXmppDiscoveryIq, qxvcodec::iqTypeCheck<QXmppDiscoveryIq>);
        QXV_CHECKED_AS("QXmppEntityTimeIq[checkIqType]", QXmppEntityTimeIq, qxvcodec::iqTypeCheck<QXmppEntityTimeIq>);
        QXV_CHECKED_AS("QXmppExternalServiceDiscoveryIq[checkIqType]", QXmppExternalServiceDiscoveryIq, qxvcodec::iqTypeCheck<QXmppExternalServiceDiscoveryIq>);
        QXV_CHECKED_AS("QXmppVCardIq[checkIqType]", QXmppVCardIq, qxvcodec::iqTypeCheck<QXmppVCardIq>);
        QXV_CHECKED_AS("QXmppVersionIq[checkIqType]", QXmppVersionIq, qxvcodec::iqTypeCheck<QXmppVersionIq>);
        // ---- messages carrying pubsub events ----
        QXV_CHECKED(QXmppPubSubEvent<QXmppPubSubBaseItem>, QXmppPubSubEvent<QXmppPubSubBaseItem>::isPubSubEvent);
        QXV_CHECKED(QXmppPubSubEvent<QXmppGeolocItem>, QXmppPubSubEvent<QXmppGeolocItem>::isPubSubEvent);
        QXV_CHECKED(QXmppPubSubEvent<QXmppTuneItem>, QXmppPubSubEvent<QXmppTuneItem>::isPubSubEvent);
        QXV_CHECKED(QXmppPubSubEvent<QXmppMixInfoItem>, QXmppPubSubEvent<QXmppMixInfoItem>::isPubSubEvent);
        QXV_CHECKED(QXmppPubSubEvent<QXmppMixConfigItem>, QXmppPubSubEvent<QXmppMixConfigItem>::isPubSubEvent);
        QXV_CHECKED(QXmppPubSubEvent<QXmppMixParticipantItem>, QXmppPubSubEvent<QXmppMixParticipantItem>::isPubSubEvent);
        // ---- pubsub items ----
        QXV_CHECKED(QXmppPubSubBaseItem, QXmppPubSubBaseItem::isItem);
        QXV_CHECKED(QXmppGeolocItem, QXmppGeolocItem::isItem);
        QXV_CHECKED(QXmppTuneItem, QXmppTuneItem::isItem);
        QXV_CHECKED(QXmppMixInfoItem, QXmppMixInfoItem::isItem);
        QXV_CHECKED(QXmppMixConfigItem, QXmppMixConfigItem::isItem);
        QXV_CHECKED(QXmppMixParticipantItem, QXmppMixParticipantItem::isItem);
        QXV_PLAIN(QXmppPubSubItem);
        QXV_CHECKED(QXmppPubSubAffiliation, QXmppPubSubAffiliation::isAffiliation);
        QXV_CHECKED(QXmppPubSubSubscription, QXmppPubSubSubscription::isSubscription);
        // ---- extension elements with a type check ----
        QXV_CHECKED(QXmppStreamFeatures, QXmppStreamFeatures::isStreamFeatures);
        QXV_CHECKED(QXmppStartTlsPacket, QXmppStartTlsPacket::isStartTlsPacket);
        QXV_CHECKED(QXmppDialback, QXmppDialback::isDialback);
        QXV_CHECKED(QXmppBookmarkSet, QXmppBookmarkSet::isBookmarkSet);
        QXV_CHECKED(QXmppExternalService, QXmppExternalService::isExternalService);
        QXV_CHECKED(QXmppSdpParameter, QXmppSdpParameter::isSdpParameter);
        QXV_CHECKED(QXmppJingleRtpCryptoElement, QXmppJingleRtpCryptoElement::isJingleRtpCryptoElement);
        QXV_CHECKED(QXmppJingleRtpEncryption, QXmppJingleRtpEncryption::isJingleRtpEncryption);
        QXV_CHECKED(QXmppJingleRtpFeedbackProperty, QXmppJingleRtpFeedbackProperty::isJingleRtpFeedbackProperty);
        QXV_CHECKED(QXmppJingleRtpFeedbackInterval, QXmppJingleRtpFeedbackInterval::isJingleRtpFeedbackInterval);
        QXV_CHECKED(QXmppJingleRtpHeaderExtensionProperty, QXmppJingleRtpHeaderExtensionProperty::isJingleRtpHeaderExtensionProperty);
        QXV_CHECKED(QXmppJingleMessageInitiationElement, QXmppJingleMessageInitiationElement::isJingleMessageInitiationElement);
        QXV_CHECKED(QXmppCallInviteElement, QXmppCallInviteElement::isCallInviteElement);
        QXV_CHECKED(QXmppMessageReaction, QXmppMessageReaction::isMessageReaction);
        QXV_CHECKED(QXmppMixInvitation, QXmppMixInvitation::isMixInvitation);
        QXV_CHECKED(QXmppTrustMessageElement, QXmppTrustMessageElement::isTrustMessageElement);
        QXV_CHECKED(QXmppTrustMessageKeyOwner, QXmppTrustMessageKeyOwner::isTrustMessageKeyOwner);
        r.push_back({ "QXmppBitsOfBinaryData", "isBitsOfBinaryData() + parseElementFromChild()/toXmlElementFromChild()", true, false,
                      [](const QDomElement &el) { return QXmppBitsOfBinaryData::isBitsOfBinaryData(el); },
                      [](const QDomElement &el, QByteArray &out) {
                          QXmppBitsOfBinaryData o;
                          o.parseElementFromChild(el);
                          {
                              QXmlStreamWriter w(&out);
                              w.writeStartElement(QStringLiteral("qxvfrag"));
                              o.toXmlElementFromChild(&w);
                              w.writeEndElement();
                          }
                          out = qxvcodec::stripFragmentWrapper(out);
                          return true;
                      } });
        // ---- extension elements whose parser reports refusal (bool parse()) ----
        QXV_PLAIN(QXmppEncryptedFileSource);
        QXV_PLAIN(QXmppFileMetadata);
        QXV_PLAIN(QXmppFileShare);
        QXV_PLAIN(QXmppHash);
        QXV_PLAIN(QXmppHashUsed);
        QXV_PLAIN(QXmppHttpFileSource);
        QXV_PLAIN(QXmppOutOfBandUrl);
        QXV_PLAIN(QXmppThumbnail);
        QXV_FROMDOM(QXmppFallback);
        // a document-level serializer (writes the XML declaration itself)
        r.push_back({ "QXmppExportData", "fromDom()/toXml() (document)", true, false,
                      [](const QDomElement &el) { return std::holds_alternative<QXmppExportData>(QXmppExportData::fromDom(el)); },
                      [](const QDomElement &el, QByteArray &out) {
                          auto v = QXmppExportData::fromDom(el);
                          auto *o = std::get_if<QXmppExportData>(&v);
                          if (!o) {
                              return false;
                          }
                          out.clear();
                          {
                              QXmlStreamWriter w(&out);
                              o->toXml(&w);
                          }
                          if (out.startsWith("<?xml")) {
                              out = out.mid(out.indexOf("?>") + 2);
                          }
                          return true;
                      } });
        // ---- typed data forms ----
        QXV_TYPEDFORM(QXmppPubSubNodeConfig);
        QXV_TYPEDFORM(QXmppPubSubPublishOptions);
        QXV_TYPEDFORM(QXmppPubSubMetadata);
        QXV_TYPEDFORM(QXmppPubSubSubAuthorization);
        QXV_TYPEDFORM(QXmppPubSubSubscribeOptions);
        // ---- sub-elements without a type check ----
        QXV_PLAIN(QXmppBitsOfBinaryDataList);
        QXV_PLAIN(QXmppJinglePayloadType);
        QXV_PLAIN(QXmppJingleDescription);
        QXV_PLAIN(QXmppJingleCandidate);
        QXV_PLAIN(QXmppJingleReason);
        QXV_PLAIN(QXmppJingleIq::Content);
        QXV_PLAIN(QXmppCallInviteElement::Jingle);
        QXV_PLAIN(QXmppMucItem);
        QXV_PLAIN(QXmppRosterIq::Item);
        QXV_PLAIN(QXmppVCardAddress);
        QXV_PLAIN(QXmppVCardEmail);
        QXV_PLAIN(QXmppVCardPhone);
        QXV_PLAIN(QXmppVCardOrganization);
        QXV_PLAIN(QXmppArchiveChat);
        QXV_PLAIN(QXmppTransferFileInfo);
        // ---- private nonzas (src/base/*_p.h, Stream.h) ----
        QXV_FROMDOM(SmEnable);
        QXV_FROMDOM(SmEnabled);
        QXV_FROMDOM(SmResume);
        QXV_FROMDOM(SmResumed);
        QXV_FROMDOM(SmFailed);
        QXV_FROMDOM(SmAck);
        QXV_FROMDOM(SmRequest);
        QXV_FROMDOM(Sasl::Auth);
        QXV_FROMDOM(Sasl::Challenge);
        QXV_FROMDOM(Sasl::Failure);
        QXV_FROMDOM(Sasl::Response);
        QXV_FROMDOM(Sasl::Success);
        QXV_FROMDOM(Bind2Feature);
        QXV_FROMDOM(Bind2Request);
        QXV_FROMDOM(Bind2Bound);
        QXV_FROMDOM(FastFeature);
        QXV_FROMDOM(FastTokenRequest);
        QXV_FROMDOM(FastToken);
        QXV_FROMDOM(FastRequest);
        QXV_FROMDOM(Sasl2::StreamFeature);
        QXV_FROMDOM(Sasl2::UserAgent);
        QXV_FROMDOM(Sasl2::Authenticate);
        QXV_FROMDOM(Sasl2::Challenge);
        QXV_FROMDOM(Sasl2::Response);
        QXV_FROMDOM(Sasl2::Success);
        QXV_FROMDOM(Sasl2::Failure);
        QXV_FROMDOM(Sasl2::Continue);
        QXV_FROMDOM(Sasl2::Abort);
        QXV_FROMDOM(StarttlsRequest);
        QXV_FROMDOM(StarttlsProceed);
        // ---- parsers without a serializer ----
        r.push_back(qxvcodec::parseOnly("StreamErrorElement", [](const QDomElement &el) { (void)StreamErrorElement::fromDom(el); }));
        return r;
    }();
    return reg;
}
