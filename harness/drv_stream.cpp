// qxv stream — replays behaviours of spec/ClientStream.tla on a real QXmppClient connected over
// loopback TCP/TLS to a scripted peer living in the same thread.
// Behaviour: {"cfg":{"tls":"Required","sasl2":true,"sasl":true,"legacy":false},"steps":[{"k":"Connect"},{"k":"Hdr","versioned":true},…]}
// Trace line per step: {"e":<k>, <arguments>, "out":[{"k":kind,"enc":bool}…], "sig":[…],
//                       "post":{sock,enc,lst,ver,authed,session,bindAvail,smAvail,smEnabled,smResumed,canResume,redirect,iq,conn},
//                       "rawLeak":bool, "hang":bool}
#include "fixture.h"
#include "QXmppRegisterIq.h"
#include "QXmppRegistrationManager.h"
#include "loopback.h"
#include "qxv.h"

#include "QXmppIq.h"

#include <QCryptographicHash>

namespace {

const char *NS_TLS = "urn:ietf:params:xml:ns:xmpp-tls";
const char *NS_SASL = "urn:ietf:params:xml:ns:xmpp-sasl";
const char *NS_SASL2 = "urn:xmpp:sasl:2";
const char *NS_SM = "urn:xmpp:sm:3";
const char *NS_BIND = "urn:ietf:params:xml:ns:xmpp-bind";
const QString PASSWORD = QStringLiteral("s3cr3t-pw-qxv");
const QString USER = QStringLiteral("me");
const QString DOMAIN_ = QStringLiteral("example.org");

struct Sent {
    QString kind;
    bool enc;
    QString id;
    QString payload;  // text content of the element (SASL payloads)
};

// projection: serialized element -> abstract kind (the only place XML meets the spec)
Sent classify(const QString &xml, bool enc)
{
    Sent s { "Other", enc, {}, {} };
    if (xml.startsWith("<?xml") || xml.startsWith("<stream:stream")) {
        s.kind = "StreamOpen";
        return s;
    }
    if (xml == "</stream:stream>") {
        s.kind = "StreamClose";
        return s;
    }
    QxvXml x(xml);
    auto el = x.el;
    auto tag = el.tagName();
    auto ns = el.namespaceURI();
    s.id = el.attribute("id");
    s.payload = el.text();
    if (ns == NS_TLS && tag == "starttls") {
        s.kind = "Starttls";
    } else if (ns == NS_SASL) {
        s.kind = tag == "auth" ? "SaslAuth" : tag == "response" ? "SaslResponse" : tag == "abort" ? "SaslAbort" : "Other";
    } else if (ns == NS_SASL2) {
        s.kind = tag == "authenticate" ? "Sasl2Authenticate" : tag == "response" ? "Sasl2Response" : tag == "abort" ? "Sasl2Abort" : "Other";
        if (tag == "authenticate") {
            s.payload = el.firstChildElement("initial-response").text();
        }
    } else if (ns == NS_SM) {
        s.kind = tag == "enable" ? "SmEnable" : tag == "resume" ? "SmResume" : tag == "a" ? "SmAck" : tag == "r" ? "SmReq" : "Other";
    } else if (ns == "jabber:client") {
        if (tag == "iq") {
            auto q = el.firstChildElement();
            if (q.namespaceURI() == "jabber:iq:auth") {
                s.kind = el.attribute("type") == "get" ? "LegacyAuthQuery" : "LegacyAuthSet";
            } else if (q.namespaceURI() == NS_BIND && el.attribute("type") == "set") {
                s.kind = "BindRequest";
            } else {
                s.kind = "Iq";
            }
        } else if (tag == "message") {
            s.kind = "Message";
        } else if (tag == "presence") {
            s.kind = "Presence";
        }
    }
    return s;
}

struct Runner {
    Ctx &ctx;
    LoopPeer peer;
    std::unique_ptr<TestClient> c;
    QStringList sig;
    int sentSeen = 0;      // index into c->sent already reported
    int iqDone = 0;
    bool iqIssued = false;
    QString bindId, legacyQueryId, legacySetId, probeId, saslPayload, sasl2Payload;
    QStringList secrets;
    bool hang = false;
    int hangs = 0;   // executions ended by the hang detector (0 on a conforming implementation)
    int reads = 0;   // readyRead notifications of the client socket (counted after XmppSocket handled them)
    bool lastHang = false;
    QMap<QString, qint64> usPerKind;
    QElapsedTimer stepClock;

    explicit Runner(Ctx &ctx) : ctx(ctx) { }

    void newClient(const QJsonObject &cfg, bool keepAlive = false)
    {
        c.reset(new TestClient(TestClient::NoExtensions, USER + "@" + DOMAIN_ + "/qxv"));
        sig.clear();
        sentSeen = 0;
        iqDone = 0;
        iqIssued = false;
        bindId.clear();
        legacyQueryId.clear();
        legacySetId.clear();
        probeId.clear();
        saslPayload.clear();
        sasl2Payload.clear();
        hang = false;
        auto &conf = c->configuration();
        conf.setHost("127.0.0.1");
        conf.setPort(peer.port());
        conf.setPassword(PASSWORD);
        conf.setAutoReconnectionEnabled(false);
        conf.setIgnoreSslErrors(true);
        // keep-alive pings only in behaviours that let time pass (step "Stall"): 1 s interval
        conf.setKeepAliveInterval(keepAlive ? 1 : 0);
        conf.setDisabledSaslMechanisms({});  // PLAIN allowed: the password itself travels, so leaks are visible
        auto tls = cfg["tls"].toString();
        conf.setStreamSecurityMode(tls == "Required" ? QXmppConfiguration::TLSRequired : tls == "Enabled" ? QXmppConfiguration::TLSEnabled : QXmppConfiguration::TLSDisabled);
        conf.setUseSasl2Authentication(cfg["sasl2"].toBool());
        conf.setUseSASLAuthentication(cfg["sasl"].toBool());
        conf.setUseNonSASLAuthentication(cfg["legacy"].toBool());
        // in-band registration on connect: the extension acts on the stream features before the stream
        if (auto reg = cfg["reg"].toString(); !reg.isEmpty() && reg != "none") {
            auto *rm = new QXmppRegistrationManager;
            c->addExtension(rm);
            rm->setRegisterOnConnectEnabled(true);
            if (reg == "form") {
                QXmppRegisterIq form;
                form.setUsername(USER);
                form.setPassword(PASSWORD);
                rm->setRegistrationFormToSend(form);
            }
        }
        QObject::connect(c->stream()->socket(), &QIODevice::readyRead, c.get(), [this] { ++reads; });
        QObject::connect(c.get(), &QXmppClient::connected, c.get(), [this] { sig << "connected"; });
        QObject::connect(c.get(), &QXmppClient::disconnected, c.get(), [this] { sig << "disconnected"; });
        QObject::connect(c.get(), &QXmppClient::error, c.get(), [this](QXmppClient::Error) { sig << "error"; });
        // secrets whose appearance on an unencrypted link is a leak regardless of classification
        secrets = QStringList {
            PASSWORD,
            QString::fromLatin1(PASSWORD.toUtf8().toBase64()),
            QString::fromLatin1((QByteArray(1, '\0') + USER.toUtf8() + QByteArray(1, '\0') + PASSWORD.toUtf8()).toBase64()),
        };
    }

    bool clientSocketUp() const { return c->stream()->socket()->state() == QAbstractSocket::ConnectedState; }
    bool clientSocketIdle() const { return c->stream()->socket()->state() == QAbstractSocket::UnconnectedState; }
    // neither connecting nor closing: only then is the projected state meaningful
    bool clientSocketSettled() const { return clientSocketUp() || clientSocketIdle(); }

    // wait until the client has consumed what the peer wrote and the peer has seen what the client wrote
    void settle(int receivedBefore, bool expectConsume)
    {
        bool ok = qxvSpin([&] {
            return !expectConsume || c->receivedCount > receivedBefore || !clientSocketUp();
        });
        qxvDrain();
        // bytes the client logged as sent vs bytes the peer got: equal once the link is quiet
        ok = ok && qxvSpin([&] {
            if (clientSocketUp() && c->stream()->socket()->bytesToWrite() > 0) {
                return false;
            }
            return true;
        });
        qxvDrain();
        // a closing socket (TLS shutdown, pending writes) must finish closing before the state is read
        ok = ok && qxvSpin([&] { return clientSocketSettled(); });
        qxvDrain();
        if (!ok) {
            hang = true;
        }
    }

    QJsonObject post()
    {
        auto *p = c->streamPrivate();
        static const char *names[] = { "Core", "Starttls", "Legacy", "Sasl", "Sasl2", "Sm", "Bind" };
        QString lst = names[p->listener.index()];
        auto sm = c->smProbe();
        if (lst == "Sm") {
            lst = sm.request == 1 ? "SmResume" : sm.request == 2 ? "SmEnable" : "Sm";
        }
        return QJsonObject {
            { "sock", clientSocketUp() ? "On" : clientSocketIdle() ? "Off" : "Mid" },
            { "enc", c->stream()->socket()->isEncrypted() && clientSocketUp() },
            { "lst", lst },
            { "ver", p->streamVersion.isEmpty() ? "none" : "v1" },
            { "authed", c->isAuthenticated() },
            { "session", p->sessionStarted },
            { "isConnected", c->isConnected() },
            { "bindAvail", p->bindModeAvailable },
            { "smAvail", sm.avail },
            { "smEnabled", sm.enabled },
            { "smResumed", sm.resumed },
            { "canResume", sm.canResume },
            { "redirect", p->redirect.has_value() },
            { "iq", !iqIssued ? "none" : iqDone == 0 ? "out" : "done" },
            { "iqDone", iqDone },
            { "conn", peer.connections },
            { "state", int(c->state()) },
        };
    }

    void emitStep(QJsonObject ev)
    {
        if (!clientSocketSettled()) {
            bool ok = qxvSpin([&] { return clientSocketSettled(); });
            qxvDrain();
            hang = hang || !ok;
        }
        QJsonArray out;
        bool rawLeak = false;
        for (; sentSeen < c->sent.size(); ++sentSeen) {
            auto s = classify(c->sent[sentSeen], c->sentEnc[sentSeen]);
            out.append(QJsonObject { { "k", s.kind }, { "enc", s.enc } });
            if (s.kind == "BindRequest") {
                bindId = s.id;
            } else if (s.kind == "LegacyAuthQuery") {
                legacyQueryId = s.id;
            } else if (s.kind == "LegacyAuthSet") {
                legacySetId = s.id;
            } else if (s.kind == "SaslAuth") {
                saslPayload = s.payload;
            } else if (s.kind == "Sasl2Authenticate") {
                sasl2Payload = s.payload;
            }
            if (!s.enc) {
                for (const auto &sec : std::as_const(secrets)) {
                    if (c->sent[sentSeen].contains(sec)) {
                        rawLeak = true;
                    }
                }
            }
        }
        ev["out"] = out;
        ev["sig"] = jarr(sig);
        sig.clear();
        ev["post"] = post();
        ev["rawLeak"] = rawLeak;
        ev["hang"] = hang;
        if (ctx.opt.contains("timing")) {
            ev["dt_us"] = double(stepClock.nsecsElapsed() / 1000);
        }
        if (hang) {
            ev["hangInfo"] = QJsonObject { { "clientSocketState", int(c->stream()->socket()->state()) }, { "clientMode", int(c->stream()->socket()->mode()) },
                                           { "peerGot", QString::fromLatin1(peer.received.left(24).toHex()) }, { "peerOpen", peer.isOpen() } };
        }
        lastHang = hang;
        if (hang) {
            ++hangs;
        }
        hang = false;
        ctx.emit_(ev);
    }

    QByteArray scramChallenge(const QString &initialB64, bool good) const
    {
        if (!good) {
            return QByteArray("garbage").toBase64();
        }
        auto first = QByteArray::fromBase64(initialB64.toLatin1());  // n,,n=user,r=nonce
        auto idx = first.indexOf(",r=");
        auto nonce = idx >= 0 ? first.mid(idx + 3) : QByteArray("x");
        return ("r=" + nonce + "srvnonce,s=" + QByteArray("saltsalt").toBase64() + ",i=64").toBase64();
    }

    static QByteArray header(bool versioned, int n)
    {
        return "<?xml version='1.0'?><stream:stream xmlns='jabber:client' xmlns:stream='http://etherx.jabber.org/streams' id='sid" +
            QByteArray::number(n) + "' from='example.org'" + (versioned ? " version='1.0'" : "") + ">";
    }

    static QByteArray features(const QJsonObject &f)
    {
        QByteArray x = "<stream:features>";
        auto tls = f["tls"].toString();
        if (tls == "optional") {
            x += "<starttls xmlns='urn:ietf:params:xml:ns:xmpp-tls'/>";
        } else if (tls == "required") {
            x += "<starttls xmlns='urn:ietf:params:xml:ns:xmpp-tls'><required/></starttls>";
        }
        auto mechList = [](const QString &m) -> QByteArray {
            if (m == "plain") {
                return "<mechanism>PLAIN</mechanism>";
            }
            if (m == "scram") {
                return "<mechanism>SCRAM-SHA-1</mechanism>";
            }
            if (m == "unknown") {
                return "<mechanism>X-QXV-UNKNOWN</mechanism>";
            }
            return {};
        };
        if (f["register"].toBool()) {
            x += "<register xmlns='http://jabber.org/features/iq-register'/>";
        }
        if (f["mechs"].toString() != "none") {
            x += "<mechanisms xmlns='urn:ietf:params:xml:ns:xmpp-sasl'>" + mechList(f["mechs"].toString()) + "</mechanisms>";
        }
        if (f["s2"].toString() != "none") {
            QByteArray inl;
            auto b2 = f["b2"].toString();
            if (b2 == "plain") {
                inl += "<bind xmlns='urn:xmpp:bind:0'/>";
            } else if (b2 == "sm") {
                inl += "<bind xmlns='urn:xmpp:bind:0'><inline><feature var='urn:xmpp:sm:3'/></inline></bind>";
            }
            if (f["r2"].toBool()) {
                inl += "<sm xmlns='urn:xmpp:sm:3'/>";
            }
            x += "<authentication xmlns='urn:xmpp:sasl:2'>" + mechList(f["s2"].toString()) +
                (inl.isEmpty() ? QByteArray() : "<inline>" + inl + "</inline>") + "</authentication>";
        }
        if (f["legacy"].toBool()) {
            x += "<auth xmlns='http://jabber.org/features/iq-auth'/>";
        }
        if (f["bind"].toBool()) {
            x += "<bind xmlns='urn:ietf:params:xml:ns:xmpp-bind'/>";
        }
        if (f["sm"].toBool()) {
            x += "<sm xmlns='urn:xmpp:sm:3'/>";
        }
        return x + "</stream:features>";
    }

    // one environment move; returns false if the behaviour cannot be continued on the real objects
    bool step(const QJsonObject &s, bool &hung)
    {
        auto k = s["k"].toString();
        stepClock.start();
        QJsonObject ev = s;
        ev.remove("k");
        ev["e"] = k;
        int rc0 = c->receivedCount;
        if (k == "Connect") {
            if (!clientSocketIdle()) {
                return false;
            }
            int n0 = peer.connections;
            c->connectToServer(c->configuration());
            bool ok = peer.waitConnection(n0 + 1) && qxvSpin([&] { return peer.received.contains("<stream:stream") || clientSocketIdle(); });
            c->stream()->socket()->setSocketOption(QAbstractSocket::LowDelayOption, 1);
            qxvDrain();
            hang = !ok;
            emitStep(ev);
            hung = lastHang;
            return true;
        }
        if (k == "SendIq") {
            if (!clientSocketUp() || iqIssued) {
                return false;
            }
            QXmppIq iq(QXmppIq::Get);
            iq.setTo(DOMAIN_);
            probeId = iq.id();
            iqIssued = true;
            c->sendIq(std::move(iq)).then(c.get(), [this](auto &&) { ++iqDone; });
            settle(rc0, false);
            emitStep(ev);
            hung = lastHang;
            return true;
        }
        if (k == "Disconnect") {
            if (!clientSocketUp()) {
                return false;
            }
            c->disconnectFromServer();
            bool ok = qxvSpin([&] { return clientSocketIdle(); });
            qxvDrain();
            hang = !ok;
            emitStep(ev);
            hung = lastHang;
            return true;
        }
        if (k == "Stall") {
            // the remote end goes silent for longer than the keep-alive interval (1 s in these
            // behaviours); whatever the client writes meanwhile is reported with this step
            if (!clientSocketUp()) {
                return false;
            }
            qxvSpin([] { return false; }, 1300);
            qxvDrain();
            emitStep(ev);
            hung = lastHang;
            return true;
        }
        if (k == "Cut") {
            if (!clientSocketUp()) {
                return false;
            }
            peer.cut();
            bool redirectPending = c->streamPrivate()->redirect.has_value();
            int n0 = peer.connections;
            bool ok = qxvSpin([&] {
                return redirectPending ? (peer.connections > n0 && peer.received.contains("<stream:stream")) : clientSocketIdle();
            });
            qxvDrain();
            hang = !ok;
            emitStep(ev);
            hung = lastHang;
            return true;
        }
        // --- server elements ---
        if (!clientSocketUp() || !peer.isOpen()) {
            return false;
        }
        QByteArray x;
        bool tlsAfter = false;
        bool redirect = false;
        if (k == "Hdr") {
            x = header(s["versioned"].toBool(), peer.connections);
        } else if (k == "Features") {
            x = features(s["f"].toObject());
        } else if (k == "Proceed") {
            x = "<proceed xmlns='urn:ietf:params:xml:ns:xmpp-tls'/>";
            tlsAfter = true;
        } else if (k == "ProceedThen") {
            // <proceed/> and a plaintext features element in one segment, then the handshake
            x = "<proceed xmlns='urn:ietf:params:xml:ns:xmpp-tls'/>" + features(s["f"].toObject());
            tlsAfter = true;
        } else if (k == "TlsFailure") {
            x = "<failure xmlns='urn:ietf:params:xml:ns:xmpp-tls'/>";
        } else if (k == "Success") {
            x = "<success xmlns='urn:ietf:params:xml:ns:xmpp-sasl'/>";
        } else if (k == "Failure") {
            x = "<failure xmlns='urn:ietf:params:xml:ns:xmpp-sasl'><not-authorized/></failure>";
        } else if (k == "Challenge") {
            x = "<challenge xmlns='urn:ietf:params:xml:ns:xmpp-sasl'>" + scramChallenge(saslPayload, s["good"].toBool()) + "</challenge>";
        } else if (k == "Success2") {
            QByteArray inner;
            auto bnd = s["bnd"].toString();
            if (bnd == "plain") {
                inner += "<bound xmlns='urn:xmpp:bind:0'/>";
            } else if (bnd == "enabled") {
                inner += "<bound xmlns='urn:xmpp:bind:0'><enabled xmlns='urn:xmpp:sm:3' id='qxv-sm' resume='true'/></bound>";
            } else if (bnd == "enabledNoResume") {
                inner += "<bound xmlns='urn:xmpp:bind:0'><enabled xmlns='urn:xmpp:sm:3' id='qxv-sm'/></bound>";
            } else if (bnd == "smfailed") {
                inner += "<bound xmlns='urn:xmpp:bind:0'><failed xmlns='urn:xmpp:sm:3'><internal-server-error xmlns='urn:ietf:params:xml:ns:xmpp-stanzas'/></failed></bound>";
            }
            auto res = s["res"].toString();
            if (res == "resumed") {
                inner += "<resumed xmlns='urn:xmpp:sm:3' h='0' previd='qxv-sm'/>";
            } else if (res == "failed") {
                inner += "<failed xmlns='urn:xmpp:sm:3'><item-not-found xmlns='urn:ietf:params:xml:ns:xmpp-stanzas'/></failed>";
            }
            x = "<success xmlns='urn:xmpp:sasl:2'><authorization-identifier>me@example.org/qxv</authorization-identifier>" + inner + "</success>";
        } else if (k == "Failure2") {
            x = "<failure xmlns='urn:xmpp:sasl:2'><not-authorized xmlns='urn:ietf:params:xml:ns:xmpp-sasl'/></failure>";
        } else if (k == "Challenge2") {
            x = "<challenge xmlns='urn:xmpp:sasl:2'>" + scramChallenge(sasl2Payload, s["good"].toBool()) + "</challenge>";
        } else if (k == "Continue2") {
            x = "<continue xmlns='urn:xmpp:sasl:2'><tasks><task>X-QXV-TASK</task></tasks></continue>";
        } else if (k == "IqOther") {
            x = "<iq type='result' id='qxv-unrelated'/>";
        } else if (k == "IqReply") {
            x = "<iq type='result' id='" + probeId.toUtf8() + "'/>";
        } else if (k == "AuthFields") {
            auto id = legacyQueryId.isEmpty() ? QString("qxv-q") : legacyQueryId;
            x = "<iq type='result' id='" + id.toUtf8() + "'><query xmlns='jabber:iq:auth'><username/>" +
                QByteArray(s["plain"].toBool() ? "<password/>" : "") + QByteArray(s["digest"].toBool() ? "<digest/>" : "") + "<resource/></query></iq>";
        } else if (k == "LegacyResult") {
            auto id = legacySetId.isEmpty() ? QString("qxv-s") : legacySetId;
            x = "<iq type='result' id='" + id.toUtf8() + "'/>";
        } else if (k == "BindResult") {
            auto id = bindId.isEmpty() ? QString("qxv-b") : bindId;
            if (s["ok"].toBool()) {
                x = "<iq type='result' id='" + id.toUtf8() + "'><bind xmlns='urn:ietf:params:xml:ns:xmpp-bind'><jid>me@example.org/qxv</jid></bind></iq>";
            } else {
                x = "<iq type='error' id='" + id.toUtf8() + "'><bind xmlns='urn:ietf:params:xml:ns:xmpp-bind'/><error type='cancel'><conflict xmlns='urn:ietf:params:xml:ns:xmpp-stanzas'/></error></iq>";
            }
        } else if (k == "Enabled") {
            x = QByteArray("<enabled xmlns='urn:xmpp:sm:3' id='qxv-sm'") + (s["resume"].toBool() ? " resume='true'" : "") + "/>";
        } else if (k == "Resumed") {
            x = "<resumed xmlns='urn:xmpp:sm:3' h='0' previd='qxv-sm'/>";
        } else if (k == "SmFailed") {
            x = "<failed xmlns='urn:xmpp:sm:3'><item-not-found xmlns='urn:ietf:params:xml:ns:xmpp-stanzas'/></failed>";
        } else if (k == "SeeOtherHost") {
            x = "<stream:error><see-other-host xmlns='urn:ietf:params:xml:ns:xmpp-streams'>127.0.0.1:" + QByteArray::number(peer.port()) + "</see-other-host></stream:error>";
            redirect = true;
        } else if (k == "StreamError") {
            x = "<stream:error><policy-violation xmlns='urn:ietf:params:xml:ns:xmpp-streams'/></stream:error>";
        } else if (k == "Whitespace") {
            x = " ";
        } else if (k == "Partial") {
            // the beginning of an element / of a multi-byte character; nothing follows (the behaviour
            // continues with a cut or a local disconnect)
            x = s["what"].toString() == "utf8" ? QByteArray("<message xmlns='jabber:client' from='example.org'><body>caf\xC3")
                                               : QByteArray("<message xmlns='jabber:client' from='example.org'><bo");
        } else {
            fprintf(stderr, "stream: unknown step %s\n", qPrintable(k));
            exit(2);
        }
        int n0 = peer.connections;
        peer.takeReceived();
        const int reads0 = reads;
        peer.write(x);
        if (k == "Partial") {
            // nothing is delivered or logged for a fragment: the step is over when the client's socket
            // has handed the bytes to XmppSocket
            bool ok = qxvSpin([&] { return reads > reads0 || !clientSocketUp(); });
            qxvDrain();
            hang = !ok;
        } else if (tlsAfter) {
            // The server side must switch to TLS right after <proceed/>, before the event loop
            // runs: the client's ClientHello would otherwise be read as stream data. A client that
            // rejects <proceed/> closes the connection, which ends the handshake attempt.
            bool ok = peer.startTls(2000);
            if (ok) {
                ok = qxvSpin([&] { return peer.received.contains("<stream:stream") || !clientSocketUp(); });
                hang = !ok;
            } else {
                // no TLS: either the client closed (fine) or it sits there without a handshake
                qxvSpin([&] { return !clientSocketUp(); }, 300);
            }
            qxvDrain();
            if (k == "ProceedThen" && !clientSocketUp() && !clientSocketIdle()) {
                // the client gave up while the handshake it had started was still pending: its
                // socket finishes closing once the peer hangs up too
                peer.cut();
                bool down = qxvSpin([&] { return clientSocketIdle(); });
                qxvDrain();
                hang = !down;
            }
        } else {
            settle(rc0, true);
        }
        if (redirect) {
            // a redirect accepted by the client shows up as a new connection to the peer
            // (connectToHost is called from the socket's disconnected handler, so the client socket
            // is never idle while a redirect is being followed)
            bool ok = qxvSpin([&] { return clientSocketIdle() || (clientSocketUp() && !c->streamPrivate()->redirect.has_value() && (peer.connections == n0 || peer.received.contains("<stream:stream"))); });
            hang = hang || !ok;
            qxvDrain();
        }
        emitStep(ev);
        hung = lastHang;
        return true;
    }

    void run(const QString &caseId, const QJsonObject &beh)
    {
        auto cfg = beh["cfg"].toObject();
        bool stalls = false;
        for (const auto &sv : beh["steps"].toArray()) {
            stalls = stalls || sv.toObject()["k"].toString() == "Stall";
        }
        newClient(cfg, stalls);
        ctx.reset(caseId, { { "cfg", cfg }, { "conn0", peer.connections } });
        const auto steps = beh["steps"].toArray();
        // The honest reconnection appended to the behaviour (see lib/props/_stream.py) lies between
        // EpilogueStart and EpilogueMark.  If it cannot be carried through -- the client does not
        // react (hang detector) or has closed the connection (step impossible) -- the reconnection
        // did not succeed: the Epilogue event is emitted all the same and judged on what was reached.
        bool inEpilogue = false;
        for (const auto &sv : steps) {
            if (sv.toObject()["k"].toString() == "EpilogueStart") {
                inEpilogue = true;
                continue;
            }
            if (sv.toObject()["k"].toString() == "EpilogueMark") {
                ctx.emit_({ { "e", "Epilogue" }, { "skipped", false }, { "complete", true } });
                inEpilogue = false;
                continue;
            }
            bool was = false;
            QElapsedTimer stepTimer;
            stepTimer.start();
            struct Acc { QMap<QString, qint64> *m; QString k; QElapsedTimer *t; ~Acc() { (*m)[k] += t->nsecsElapsed() / 1000; if (t->elapsed() > 100 && qEnvironmentVariableIsSet("QXV_SLOW")) fprintf(stderr, "slow %s %lld ms\n", qPrintable(k), (long long)t->elapsed()); } } acc { &usPerKind, sv.toObject()["k"].toString(), &stepTimer };
            if (!step(sv.toObject(), was)) {
                ctx.emit_({ { "e", "Impossible" }, { "step", sv.toObject() } });
                if (inEpilogue) {
                    ctx.emit_({ { "e", "Epilogue" }, { "skipped", false }, { "complete", false } });
                }
                break;
            }
            if (was) {
                // the implementation did not react within the hang-detector bound: stop this
                // execution (already recorded with "hang":true), do not pile timeouts on top
                if (inEpilogue) {
                    ctx.emit_({ { "e", "Epilogue" }, { "skipped", false }, { "complete", false } });
                }
                break;
            }
        }
        // end of behaviour: the client object goes away; every request ever issued must have
        // completed exactly once by then (destruction cancels what is still retained)
        c.reset();
        qxvDrain();
        ctx.emit_({ { "e", "End" }, { "iqIssued", iqIssued }, { "iqDone", iqDone } });
    }
};

}  // namespace

QXV_DRIVER(stream)
{
    Runner r(ctx);
    int n = 0;
    const auto behs = ctx.behaviours();
    // A broken variant of the implementation can make most executions end in the hang detector
    // (4 s each); the executions recorded up to the budget are enough to report it.
    const int maxHangs = ctx.optInt("maxhangs", 60);
    for (const auto &bv : behs) {
        r.run(QString("s%1").arg(++n), bv.toObject());
        if (r.hangs >= maxHangs) {
            fprintf(stderr, "qxv stream: hang budget (%d) used up after %d of %d behaviours; the rest is not replayed\n", maxHangs, n, int(behs.size()));
            break;
        }
    }
    if (ctx.opt.contains("timing")) {
        for (auto it = r.usPerKind.begin(); it != r.usPerKind.end(); ++it) {
            fprintf(stderr, "  %-14s %8.1f ms\n", qPrintable(it.key()), it.value() / 1000.0);
        }
    }
    return 0;
}
