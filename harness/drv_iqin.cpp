// qxv iqin — drives a real QXmppClient with a chosen extension set along behaviours of
// spec/IqDispatch.tla (property C08): every step injects one <iq/> through the real receive path
// (QXmppOutgoingClient::handlePacketReceived) and records which IQ stanzas of type result/error the
// client sent afterwards.
//
// Behaviour: {"ext":"none|default|all|allrev",
//             "steps":[{"a":"Recv","t":<type kind>,"p":<payload kind>,"f":<sender class>,"k":<id kind>} |
//                      {"a":"SendRequest","peer":<sender class>},...]}
// SendRequest: the client issues a tracked request of its own (real QXmppClient::sendIq, disco#info get, to the
// JID of the sender class `peer`) that stays unanswered; a later Recv with id kind "pending" carries its id.
// Within one execution a sender class always maps to the same JID (so "from the peer asked" is meaningful).
// Trace lines (see spec/IqDispatchTrace.tla):
//   {"e":"SendRequest","peer":..,"x":{"id":..,"to":..},"nsent":n}
// Deferred replies (extension set "all", QXmppTransferManager with an application that listens to fileReceived):
//   steps {"a":"OfferSI"|"AppAccept"|"AppDecline"|"HostsOffer","nh":n|"SecondHosts"|"AbortJob"|"HostAccepts"|"HostCloses"}
//   The stream hosts are QTcpServers of the harness on the loopback interface that hold the client's SOCKS5
//   greeting until the behaviour says how the attempt ends (complete the handshake / close the connection).
//   Quiescence without sleeping: the harness connects its own slots to the job's candidate socket *after* the
//   job did, so when the harness slot has run, the job's slot for the same signal has run before it.
//   Trace line: {"e":<action>,["nh":n,] "track":[{"tag":"offer|hosts|second","id":..,"n":replies so far}..],
//                "closed":bool,"ok":bool}   ("ok":false: the step could not be driven, the execution ends)
//   {"e":"Recv","t":..,"p":..,"f":..,"k":..,
//    "x":{"id":..,"from":..,"own":B,"domain":D,"type":<concrete type attribute, "" = absent>},
//    "out":[{"type":"result|error","id":..,"to":..,"cond":..}...],   IQ result/error stanzas sent
//    "oreq":n,      other stanzas sent (IQ get/set of a manager's own, messages, presences)
//    "pend":bool,   a tracked request of the client was outstanding when the IQ was injected
//    "tdone":n,     how often the continuation of that request ran while the IQ was handled
//    "closed":bool} the client reported a stream error (it closes the stream)
#include "fixture.h"
#include "qxv.h"

#include "QXmppAccountMigrationManager.h"
#include "QXmppArchiveManager.h"
#include "QXmppAtmManager.h"
#include "QXmppAtmTrustMemoryStorage.h"
#include "QXmppAttentionManager.h"
#include "QXmppBindIq.h"
#include "QXmppBlockingManager.h"
#include "QXmppBookmarkManager.h"
#include "QXmppByteStreamIq.h"
#include "QXmppCallInviteManager.h"
#include "QXmppCarbonManager.h"
#include "QXmppCarbonManagerV2.h"
#include "QXmppDiscoveryIq.h"
#include "QXmppDiscoveryManager.h"
#include "QXmppEntityTimeIq.h"
#include "QXmppEntityTimeManager.h"
#include "QXmppExternalServiceDiscoveryManager.h"
#include "QXmppFileSharingManager.h"
#include "QXmppHttpUploadIq.h"
#include "QXmppHttpUploadManager.h"
#include "QXmppIbbIq.h"
#include "QXmppJingleMessageInitiationManager.h"
#include "QXmppMamIq.h"
#include "QXmppMamManager.h"
#include "QXmppMessageReceiptManager.h"
#include "QXmppMixManager.h"
#include "QXmppMovedManager.h"
#include "QXmppMucManager.h"
#include "QXmppPingIq.h"
#include "QXmppPubSubManager.h"
#include "QXmppRegisterIq.h"
#include "QXmppRegistrationManager.h"
#include "QXmppRosterIq.h"
#include "QXmppRosterManager.h"
#include "QXmppRpcIq.h"
#include "QXmppRpcManager.h"
#include "QXmppTransferManager.h"
#include "QXmppUploadRequestManager.h"
#include "QXmppUserLocationManager.h"
#include "QXmppUserTuneManager.h"
#include "QXmppVCardIq.h"
#include "QXmppVCardManager.h"
#include "QXmppVersionIq.h"
#include "QXmppVersionManager.h"

#include "QXmppSocks.h"

#include <QBuffer>
#include <QCryptographicHash>
#include <QElapsedTimer>
#include <QPointer>
#include <QTcpServer>
#include <QTcpSocket>
#include <QXmlStreamWriter>

#include <functional>

#include <memory>

namespace {

struct Rnd {
    std::mt19937_64 g;
    quint64 n(quint64 m) { return m ? g() % m : 0; }
    QString word(int minLen = 3, int maxLen = 8)
    {
        static const char cs[] = "abcdefghijklmnopqrstuvwxyz0123456789";
        int len = minLen + int(n(maxLen - minLen + 1));
        QString s;
        for (int i = 0; i < len; i++) {
            s += QChar(cs[n(sizeof(cs) - 1)]);
        }
        return s;
    }
};

QString esc(const QString &s) { return s.toHtmlEscaped(); }

// children of a serialized library IQ ("real serialized instances")
QString childrenOf(const QXmppIq &iq)
{
    QString xml;
    QXmlStreamWriter w(&xml);
    iq.toXml(&w);
    int open = xml.indexOf('>');
    int close = xml.lastIndexOf("</iq>");
    if (open < 0 || close < 0 || close < open) {
        return {};  // <iq .../>
    }
    return xml.mid(open + 1, close - open - 1);
}

const QString kErrorChild = QStringLiteral("<error type=\"cancel\"><service-unavailable xmlns=\"urn:ietf:params:xml:ns:xmpp-stanzas\"/></error>");

// payload kind -> child XML of the <iq/>
QString payloadXml(const QString &p, Rnd &r)
{
    if (p == "none") {
        return {};
    } else if (p == "text") {
        return "just text " + r.word();
    } else if (p == "unknown") {
        return "<foo xmlns=\"urn:example:unknown:" + r.word() + "\"><bar/></foo>";
    } else if (p == "unknownQuery") {
        return "<query xmlns=\"urn:example:unknown\"/>";
    } else if (p == "version") {
        return childrenOf(QXmppVersionIq());
    } else if (p == "discoInfo" || p == "discoInfoNode" || p == "discoItems") {
        QXmppDiscoveryIq iq;
        iq.setQueryType(p == "discoItems" ? QXmppDiscoveryIq::ItemsQuery : QXmppDiscoveryIq::InfoQuery);
        if (p == "discoInfoNode") {
            iq.setQueryNode("urn:example:no-such-node#" + r.word());
        }
        return childrenOf(iq);
    } else if (p == "time") {
        return "<time xmlns=\"urn:xmpp:time\"/>";
    } else if (p == "ping") {
        return childrenOf(QXmppPingIq());
    } else if (p == "vcard") {
        QXmppVCardIq iq;
        iq.setFullName("Full " + r.word());
        iq.setNickName(r.word());
        return childrenOf(iq);
    } else if (p == "roster") {
        QXmppRosterIq iq;
        QXmppRosterIq::Item item;
        item.setBareJid(r.word() + "@example.net");
        item.setSubscriptionType(QXmppRosterIq::Item::Both);
        iq.addItem(item);
        return childrenOf(iq);
    } else if (p == "rosterEmpty") {
        return childrenOf(QXmppRosterIq());
    } else if (p == "archiveChat") {
        return "<chat xmlns=\"urn:xmpp:archive\" with=\"juliet@capulet.example\" start=\"1469-07-21T02:56:15Z\"/>";
    } else if (p == "archiveList") {
        return "<list xmlns=\"urn:xmpp:archive\" with=\"juliet@capulet.example\"/>";
    } else if (p == "archivePref") {
        return "<pref xmlns=\"urn:xmpp:archive\"/>";
    } else if (p == "archiveRetrieve") {
        return "<retrieve xmlns=\"urn:xmpp:archive\" with=\"juliet@capulet.example\" start=\"1469-07-21T02:56:15Z\"/>";
    } else if (p == "block") {
        return "<block xmlns=\"urn:xmpp:blocking\"><item jid=\"" + r.word() + "@spam.example\"/></block>";
    } else if (p == "unblock") {
        return "<unblock xmlns=\"urn:xmpp:blocking\"><item jid=\"" + r.word() + "@spam.example\"/></unblock>";
    } else if (p == "blocklist") {
        return "<blocklist xmlns=\"urn:xmpp:blocking\"/>";
    } else if (p == "private") {
        return "<query xmlns=\"jabber:iq:private\"><storage xmlns=\"storage:bookmarks\"><conference jid=\"room@muc.example\" autojoin=\"true\"/></storage></query>";
    } else if (p == "mamFin") {
        QXmppMamResultIq iq;
        iq.setComplete(true);
        return childrenOf(iq);
    } else if (p == "mamQuery") {
        return "<query xmlns=\"urn:xmpp:mam:2\" queryid=\"" + r.word() + "\"/>";
    } else if (p == "mucAdmin") {
        return "<query xmlns=\"http://jabber.org/protocol/muc#admin\"><item affiliation=\"member\" jid=\"a@b.example\"/></query>";
    } else if (p == "mucOwner") {
        return "<query xmlns=\"http://jabber.org/protocol/muc#owner\"><x xmlns=\"jabber:x:data\" type=\"form\"/></query>";
    } else if (p == "register") {
        QXmppRegisterIq iq;
        iq.setUsername(r.word());
        iq.setPassword(r.word());
        return childrenOf(iq);
    } else if (p == "rpc" || p == "rpcBad") {
        QXmppRpcInvokeIq iq;
        iq.setMethod(p == "rpc" ? "Iface.method" : "nodotmethod");
        iq.setArguments({ QVariant(1), QVariant(QString("x")) });
        return childrenOf(iq);
    } else if (p == "ibbOpen") {
        QXmppIbbOpenIq iq;
        iq.setSid("sid-" + r.word());
        iq.setBlockSize(4096);
        return childrenOf(iq);
    } else if (p == "ibbData") {
        QXmppIbbDataIq iq;
        iq.setSid("sid-" + r.word());
        iq.setSequence(0);
        iq.setPayload("hello");
        return childrenOf(iq);
    } else if (p == "ibbClose") {
        QXmppIbbCloseIq iq;
        iq.setSid("sid-" + r.word());
        return childrenOf(iq);
    } else if (p == "bytestreams") {
        QXmppByteStreamIq iq;
        iq.setSid("sid-" + r.word());
        QXmppByteStreamIq::StreamHost h;
        h.setJid("proxy.example");
        h.setHost("127.0.0.1");
        h.setPort(1);
        iq.setStreamHosts({ h });
        return childrenOf(iq);
    } else if (p == "si" || p == "siBadProfile") {
        QString profile = p == "si" ? "http://jabber.org/protocol/si/profile/file-transfer" : "urn:example:profile";
        return "<si xmlns=\"http://jabber.org/protocol/si\" id=\"" + r.word() + "\" profile=\"" + profile + "\">"
               "<file xmlns=\"http://jabber.org/protocol/si/profile/file-transfer\" name=\"a.txt\" size=\"5\"/>"
               "<feature xmlns=\"http://jabber.org/protocol/feature-neg\"><x xmlns=\"jabber:x:data\" type=\"form\">"
               "<field var=\"stream-method\" type=\"list-single\"><option><value>http://jabber.org/protocol/ibb</value></option>"
               "<option><value>http://jabber.org/protocol/bytestreams</value></option></field></x></feature></si>";
    } else if (p == "uploadRequest") {
        QXmppHttpUploadRequestIq iq;
        iq.setFileName("a.txt");
        iq.setSize(5);
        return childrenOf(iq);
    } else if (p == "uploadSlot") {
        return "<slot xmlns=\"urn:xmpp:http:upload:0\"><put url=\"https://up.example/a\"/><get url=\"https://up.example/a\"/></slot>";
    } else if (p == "jingle") {
        return "<jingle xmlns=\"urn:xmpp:jingle:1\" action=\"session-initiate\" initiator=\"a@b.example/c\" sid=\"" + r.word() + "\"/>";
    } else if (p == "pubsub") {
        return "<pubsub xmlns=\"http://jabber.org/protocol/pubsub\"><items node=\"urn:xmpp:mix:nodes:messages\"/></pubsub>";
    } else if (p == "pubsubOwner") {
        return "<pubsub xmlns=\"http://jabber.org/protocol/pubsub#owner\"><delete node=\"n\"/></pubsub>";
    } else if (p == "bind") {
        QXmppBindIq iq;
        iq.setResource(r.word());
        return childrenOf(iq);
    } else if (p == "session") {
        return "<session xmlns=\"urn:ietf:params:xml:ns:xmpp-session\"/>";
    } else if (p == "carbonsEnable") {
        return "<enable xmlns=\"urn:xmpp:carbons:2\"/>";
    } else if (p == "extdisco") {
        return "<services xmlns=\"urn:xmpp:extdisco:2\"/>";
    } else if (p == "pushEnable") {
        return "<enable xmlns=\"urn:xmpp:push:0\" jid=\"push.example\" node=\"n\"/>";
    } else if (p == "mixJoin") {
        return "<client-join xmlns=\"urn:xmpp:mix:pam:2\" channel=\"c@mix.example\"><join xmlns=\"urn:xmpp:mix:core:1\"/></client-join>";
    } else if (p == "bob") {
        return "<data xmlns=\"urn:xmpp:bob\" cid=\"sha1+8f35fef110ffc5df08d579a50083ff9308fb6242@bob.xmpp.org\"/>";
    } else if (p == "errorOnly") {
        return kErrorChild;
    } else if (p.contains('+')) {
        QString s;
        for (const auto &part : p.split('+')) {
            s += payloadXml(part, r);
        }
        return s;
    }
    fprintf(stderr, "iqin: unknown payload kind %s\n", qPrintable(p));
    exit(2);
}

class Dummy : public QXmppClientExtension
{
};

QXmppAtmTrustMemoryStorage *installAll(TestClient &c, bool reversed)
{
    QList<QXmppClientExtension *> extra;
    extra << new QXmppArchiveManager << new QXmppBlockingManager << new QXmppBookmarkManager << new QXmppMamManager
          << new QXmppMucManager << new QXmppRegistrationManager << new QXmppRpcManager << new QXmppTransferManager
          << new QXmppUploadRequestManager << new QXmppPubSubManager << new QXmppCarbonManager << new QXmppCarbonManagerV2
          << new QXmppAttentionManager << new QXmppCallInviteManager << new QXmppJingleMessageInitiationManager
          << new QXmppMessageReceiptManager << new QXmppExternalServiceDiscoveryManager << new QXmppHttpUploadManager
          << new QXmppUserLocationManager << new QXmppUserTuneManager << new QXmppMixManager << new QXmppMovedManager
          << new QXmppAccountMigrationManager << new QXmppFileSharingManager << new Dummy;
    auto *storage = new QXmppAtmTrustMemoryStorage;
    extra << new QXmppAtmManager(storage);
    if (!reversed) {
        for (auto *e : extra) {
            c.addExtension(e);
        }
    } else {
        // Mix/Moved look up the discovery and pubsub managers when registered: keep those two orders valid
        for (auto *e : extra) {
            bool needsOthers = dynamic_cast<QXmppMixManager *>(e) || dynamic_cast<QXmppMovedManager *>(e);
            if (needsOthers) {
                c.addExtension(e);
            } else {
                c.insertExtension(0, e);
            }
        }
    }
    return storage;
}

struct Sent {
    QString tag, type, id, to, cond;
    bool parsed = false;
};

Sent parseSent(const QString &xml)
{
    Sent s;
    QString wrapped = QStringLiteral("<stream:stream xmlns='jabber:client' xmlns:stream='http://etherx.jabber.org/streams'>") + xml +
        QStringLiteral("</stream:stream>");
    QDomDocument doc;
    if (!doc.setContent(wrapped, true)) {
        s.tag = xml.startsWith("</stream:stream") ? "streamclose" : "unparsable";
        return s;
    }
    auto el = doc.documentElement().firstChildElement();
    s.parsed = true;
    s.tag = el.tagName();
    s.type = el.attribute("type");
    s.id = el.attribute("id");
    s.to = el.attribute("to");
    auto err = el.firstChildElement("error");
    if (!err.isNull()) {
        s.cond = err.firstChildElement().tagName();
    }
    return s;
}

// A SOCKS5 stream host on the loopback interface that waits for the behaviour to decide its fate.
class StreamHost : public QObject
{
public:
    StreamHost()
    {
        if (!server.listen(QHostAddress::LocalHost)) {
            fprintf(stderr, "iqin: cannot listen on loopback\n");
            exit(2);
        }
        connect(&server, &QTcpServer::newConnection, this, [this]() {
            socket = server.nextPendingConnection();
            connect(socket, &QTcpSocket::readyRead, this, [this]() {
                received += socket->readAll();
                if (finish) {
                    talk();
                }
            });
        });
    }
    bool greeted() const { return socket && received.size() >= 3; }
    void closeNow()
    {
        if (socket) {
            socket->close();
        }
    }
    void finishHandshake()
    {
        finish = true;
        talk();
    }
    void talk()
    {
        if (step == 0 && received.size() >= 3) {
            socket->write(QByteArray("\x05\x00", 2));
            received.remove(0, 3);
            step = 1;
        }
        if (step == 1 && received.size() >= 7) {
            QByteArray reply("\x05\x00\x00", 3);
            reply += received.mid(3);
            socket->write(reply);
            received.clear();
            step = 2;
        }
    }
    QTcpServer server;
    QPointer<QTcpSocket> socket;
    QByteArray received;
    bool finish = false;
    int step = 0;
};

// deferred replies of QXmppTransferManager: the incoming SOCKS5 file-transfer negotiation
struct DeferEnv {
    TestClient &c;
    Rnd &r;
    QString peer, me;
    bool listening = false;
    QPointer<QXmppTransferJob> job;
    QBuffer sink;
    std::vector<std::unique_ptr<StreamHost>> hosts, spare;
    int cur = -1;  // host being tried
    QString sid;
    QStringList tags;             // in order of creation
    QMap<QString, QString> ids;   // tag -> id of the request
    QMap<QString, int> replies;   // tag -> result/error IQs with that id sent to the peer so far
    int candReady = 0, candGone = 0;
    QSet<QObject *> watched;

    void note(const Sent &se)
    {
        if (se.tag == "iq" && (se.type == "result" || se.type == "error") && se.to == peer) {
            for (const auto &tag : std::as_const(tags)) {
                if (ids[tag] == se.id) {
                    replies[tag]++;
                }
            }
        }
    }
    void track(const QString &tag, const QString &id)
    {
        tags << tag;
        ids[tag] = id;
        replies[tag] = 0;
    }
    QJsonArray trackJson() const
    {
        QJsonArray a;
        for (const auto &tag : tags) {
            a.append(QJsonObject { { "tag", tag }, { "id", ids[tag] }, { "n", replies[tag] } });
        }
        return a;
    }
    static void drain()
    {
        for (int i = 0; i < 4; i++) {
            QCoreApplication::processEvents();
            QCoreApplication::sendPostedEvents();
        }
    }
    // spin the event loop until pred() holds; the bound is a hang detector, not a delay
    static bool waitFor(const std::function<bool()> &pred, int boundMs = 2000)
    {
        QElapsedTimer t;
        t.start();
        while (!pred()) {
            if (t.elapsed() > boundMs) {
                return false;
            }
            QCoreApplication::processEvents(QEventLoop::AllEvents, 5);
        }
        return true;
    }
    // connect to the candidate sockets of the job after the job itself did
    void watchCandidates()
    {
        if (!job) {
            return;
        }
        const auto socks = job->findChildren<QXmppSocksClient *>();
        for (auto *sock : socks) {
            if (watched.contains(sock)) {
                continue;
            }
            watched.insert(sock);
            QObject::connect(sock, &QXmppSocksClient::ready, &c, [this]() { ++candReady; });
            QObject::connect(sock, &QAbstractSocket::disconnected, &c, [this]() { ++candGone; });
        }
    }
    QString hostsXml(const QString &id, const std::vector<std::unique_ptr<StreamHost>> &hs) const
    {
        QString x = "<iq type=\"set\" id=\"" + id + "\" from=\"" + esc(peer) + "\" to=\"" + esc(me) + "\">"
                    "<query xmlns=\"http://jabber.org/protocol/bytestreams\" sid=\"" + sid + "\" mode=\"tcp\">";
        for (const auto &h : hs) {
            x += QString("<streamhost jid=\"%1\" host=\"127.0.0.1\" port=\"%2\"/>").arg(esc(peer)).arg(h->server.serverPort());
        }
        return x + "</query></iq>";
    }

    // returns false if the step cannot be performed on the real objects (the implementation diverged)
    bool step(const QString &a, const QJsonObject &s)
    {
        auto *tm = c.findExtension<QXmppTransferManager>();
        if (!tm) {
            return false;
        }
        if (a == "OfferSI") {
            if (!listening) {
                listening = true;
                sink.open(QIODevice::WriteOnly);
                QObject::connect(tm, &QXmppTransferManager::fileReceived, &c, [this](QXmppTransferJob *j) { job = j; });
            }
            sid = "sid-" + r.word();
            const QString id = "offer-" + r.word(3, 6);
            track("offer", id);
            c.inject("<iq type=\"set\" id=\"" + id + "\" from=\"" + esc(peer) + "\" to=\"" + esc(me) + "\">"
                     "<si xmlns=\"http://jabber.org/protocol/si\" id=\"" + sid + "\" profile=\"http://jabber.org/protocol/si/profile/file-transfer\">"
                     "<file xmlns=\"http://jabber.org/protocol/si/profile/file-transfer\" name=\"a.txt\" size=\"5\"/>"
                     "<feature xmlns=\"http://jabber.org/protocol/feature-neg\"><x xmlns=\"jabber:x:data\" type=\"form\">"
                     "<field var=\"stream-method\" type=\"list-single\"><option><value>http://jabber.org/protocol/bytestreams</value></option></field>"
                     "</x></feature></si></iq>");
            drain();
            return job != nullptr;
        }
        if (!job) {
            return false;
        }
        if (a == "AppAccept") {
            job->accept(&sink);
            drain();
            return true;
        }
        if (a == "AppDecline" || a == "AbortJob") {
            job->abort();
            drain();
            return true;
        }
        if (a == "HostsOffer") {
            const int nh = s["nh"].toInt();
            for (int i = 0; i < nh; i++) {
                hosts.push_back(std::make_unique<StreamHost>());
            }
            const QString id = "hosts-" + r.word(3, 6);
            track("hosts", id);
            cur = 0;
            c.inject(hostsXml(id, hosts));
            // the attempt is pending once the first host holds the client's greeting
            bool pendingNow = waitFor([this]() { return hosts[0]->greeted() || !c.sent.isEmpty(); }) && hosts[0]->greeted();
            watchCandidates();
            drain();
            return pendingNow;
        }
        if (a == "SecondHosts") {
            spare.push_back(std::make_unique<StreamHost>());
            const QString id = "second-" + r.word(3, 6);
            track("second", id);
            c.inject(hostsXml(id, spare));
            drain();
            watchCandidates();
            return true;
        }
        if (a == "HostAccepts" || a == "HostCloses") {
            if (cur < 0 || cur >= int(hosts.size()) || !hosts[cur]->greeted()) {
                return false;
            }
            if (a == "HostAccepts") {
                const int before = candReady;
                hosts[cur]->finishHandshake();
                bool ok = waitFor([this, before]() { return candReady > before; });
                drain();
                cur = -1;
                return ok;
            }
            const int before = candGone;
            hosts[cur]->closeNow();
            bool ok = waitFor([this, before]() { return candGone > before; });
            drain();
            ++cur;
            if (ok && cur < int(hosts.size())) {
                // the job goes on to the next host: pending again once that one holds the greeting
                ok = waitFor([this]() { return hosts[cur]->greeted() || !c.sent.isEmpty(); }) && hosts[cur]->greeted();
                watchCandidates();
                drain();
            }
            return ok;
        }
        fprintf(stderr, "iqin: unknown step %s\n", qPrintable(a));
        exit(2);
    }
};

void runBehaviour(Ctx &ctx, const QString &caseId, const QJsonObject &b)
{
    const auto ext = b["ext"].toString();
    const auto steps = b["steps"].toArray();

    Rnd r;
    {
        auto h = QCryptographicHash::hash(QJsonDocument(b).toJson(QJsonDocument::Compact), QCryptographicHash::Sha1);
        quint64 s = ctx.seed;
        for (int i = 0; i < 8; i++) {
            s = s * 1099511628211ULL + quint8(h[i]);
        }
        r.g.seed(s);
    }

    std::unique_ptr<DeferEnv> defer;                      // outlives the client (its slots and stream hosts)
    std::unique_ptr<QXmppAtmTrustMemoryStorage> storage;  // outlives the client and its extensions
    auto client = std::make_unique<TestClient>(ext == "none" ? TestClient::NoExtensions : TestClient::DefaultExtensions);
    auto &c = *client;
    c.configuration().setAutoReconnectionEnabled(false);
    if (ext == "all" || ext == "allrev") {
        storage.reset(installAll(c, ext == "allrev"));
    } else if (ext != "none" && ext != "default") {
        fprintf(stderr, "iqin: unknown extension set %s\n", qPrintable(ext));
        exit(2);
    }
    const QString B = c.configuration().jidBare(), R = c.configuration().resource(), D = c.configuration().domain();
    c.fakeSession();
    bool closed = false;
    QObject::connect(&c, &QXmppClient::errorOccurred, &c, [&closed](const QXmppError &) { closed = true; });
    QCoreApplication::processEvents();
    c.takeSent();

    ctx.reset(caseId, { { "ext", ext } });

    int n = 0;
    QString lastId;
    // the client's own outstanding tracked request
    QString pendId;          // id of the last request issued ("" = none issued yet)
    bool pendOutstanding = false;
    int taskRuns = 0;        // continuation runs of the tracked request(s), total
    // sender class -> JID, fixed for the execution at first use
    QMap<QString, QString> jids;
    auto jidOf = [&](const QString &f) -> QString {
        auto it = jids.find(f);
        if (it != jids.end()) {
            return *it;
        }
        QString j;
        if (f == "OwnBare") {
            j = B;
        } else if (f == "OwnFullSelf") {
            j = B + "/" + R;
        } else if (f == "OwnFullOther") {
            j = B + "/" + (r.n(2) ? QString("other") : r.word());
        } else if (f == "Domain") {
            j = D;
        } else if (f == "Contact") {
            j = r.n(2) ? QString("alice@example.net/phone") : r.word() + "@" + r.word() + ".example/" + r.word();
        } else if (f == "ContactBare") {
            j = r.n(2) ? QString("alice@example.net") : r.word() + "@" + r.word() + ".example";
        } else {
            fprintf(stderr, "iqin: unknown sender class %s\n", qPrintable(f));
            exit(2);
        }
        jids.insert(f, j);
        return j;
    };
    // every stanza the client sent since the last call, parsed; deferred replies are attributed on the way
    auto drainSent = [&]() {
        QList<Sent> l;
        for (const auto &raw : c.takeSent()) {
            l << parseSent(raw);
            if (defer) {
                defer->note(l.last());
            }
        }
        return l;
    };
    for (const auto &sv : steps) {
        const auto s = sv.toObject();
        const auto act = s["a"].toString();
        if (act != "Recv" && act != "SendRequest") {
            if (!defer) {
                defer.reset(new DeferEnv { c, r, QString(), B + "/" + R });
                defer->peer = jidOf("Contact");
            }
            drainSent();
            const bool ok = defer->step(act, s);
            drainSent();
            QJsonObject line { { "e", act }, { "track", defer->trackJson() }, { "closed", closed }, { "ok", ok } };
            if (s.contains("nh")) {
                line["nh"] = s["nh"].toInt();
            }
            ctx.emit_(line);
            if (!ok || closed) {
                break;  // the step was impossible on the real objects (the implementation diverged): end here
            }
            continue;
        }
        if (s["a"].toString() == "SendRequest") {
            const auto peer = s["peer"].toString();
            const QString to = jidOf(peer);
            // QXmpp numbers its ids qxmpp1, qxmpp2, ...: the id a peer running QXmpp would use as well
            pendId = QString("qxmpp%1").arg(1 + r.n(40));
            QXmppDiscoveryIq req;
            req.setType(QXmppIq::Get);
            req.setQueryType(QXmppDiscoveryIq::InfoQuery);
            req.setId(pendId);
            // a request to the own account may be sent without `to` (the stream then expects the own bare JID)
            if (!(peer == "OwnBare" && r.n(2))) {
                req.setTo(to);
            }
            drainSent();
            const int runs0 = taskRuns;
            c.sendIq(std::move(req)).then(&c, [&taskRuns](QXmppClient::IqResult &&) { ++taskRuns; });
            QCoreApplication::processEvents();
            pendOutstanding = taskRuns == runs0;  // (it completes at once only if it could not be issued)
            const auto sentNow = drainSent();
            const int nsent = sentNow.size();
            if (!sentNow.isEmpty()) {
                pendId = sentNow.first().id;  // the id that really went out
            }
            ctx.emit_({ { "e", "SendRequest" }, { "peer", peer }, { "x", QJsonObject { { "id", pendId }, { "to", to } } }, { "nsent", nsent } });
            continue;
        }
        const auto t = s["t"].toString(), p = s["p"].toString(), f = s["f"].toString(), k = s["k"].toString();
        ++n;
        // concrete type attribute
        QString type = t;
        bool hasType = true;
        if (t == "absent") {
            hasType = false;
            type.clear();
        } else if (t == "garbage") {
            static const QStringList g = { "foo", "GET", "Result", "", "get ", "subscribe", "chat" };
            type = g[int(r.n(g.size()))];
        }
        // concrete sender
        QString from;
        bool hasFrom = true;
        if (f == "Empty") {
            hasFrom = r.n(2) == 0;
        } else {
            from = jidOf(f);
        }
        // concrete id
        QString id;
        if (k == "fresh") {
            id = QString("q%1-%2").arg(n).arg(r.word(2, 5));
        } else if (k == "dup") {
            id = lastId.isEmpty() ? QString("q%1-first").arg(n) : lastId;
        } else if (k == "empty") {
            id = QString();
        } else if (k == "pending") {
            // the id of the client's own (last) tracked request; if it never issued one, an id of that shape
            id = pendId.isEmpty() ? QString("qxmpp%1").arg(1 + r.n(40)) : pendId;
        } else {
            fprintf(stderr, "iqin: unknown id kind %s\n", qPrintable(k));
            exit(2);
        }
        if (k != "pending") {
            lastId = id;  // "dup" repeats the previous id that was not the pending request's (that case is "pending")
        }

        QString payload = payloadXml(p, r);
        if (t == "error" && p != "none" && p != "text" && !p.contains("error", Qt::CaseInsensitive)) {
            payload += kErrorChild;  // an error response echoes the request payload, then carries <error/>
        }
        QString xml = "<iq";
        if (hasType) {
            xml += " type=\"" + esc(type) + "\"";
        }
        if (!id.isEmpty()) {
            xml += " id=\"" + esc(id) + "\"";
        }
        if (hasFrom) {
            xml += " from=\"" + esc(from) + "\"";
        }
        xml += " to=\"" + esc(B + "/" + R) + "\">" + payload + "</iq>";

        drainSent();
        const bool hadPending = pendOutstanding;
        const int runsBefore = taskRuns;
        c.inject(xml);
        // quiescence: nothing in this in-memory client depends on sockets or timers; drain posted events
        for (int i = 0; i < 4; i++) {
            QCoreApplication::processEvents();
            QCoreApplication::sendPostedEvents();
        }

        QJsonArray out;
        int oreq = 0;
        for (const auto &se : drainSent()) {
            if (se.tag == "iq" && (se.type == "result" || se.type == "error")) {
                out.append(QJsonObject { { "type", se.type }, { "id", se.id }, { "to", se.to }, { "cond", se.cond } });
            } else {
                ++oreq;
            }
        }
        ctx.emit_({ { "e", "Recv" }, { "t", t }, { "p", p }, { "f", f }, { "k", k },
                    { "x", QJsonObject { { "id", id }, { "from", from }, { "own", B }, { "domain", D }, { "type", type }, { "hastype", hasType } } },
                    { "out", out }, { "oreq", oreq }, { "closed", closed }, { "pend", hadPending },
                    { "tdone", taskRuns - runsBefore }, { "raw", xml },
                    { "track", defer ? defer->trackJson() : QJsonArray() } });
        if (taskRuns > runsBefore) {
            pendOutstanding = false;
        }
        if (closed) {
            break;  // the client gave up on this stream: nothing more can be delivered on it
        }
    }
}

}  // namespace

QXV_DRIVER(iqin)
{
    int n = 0;
    for (const auto &bv : ctx.behaviours()) {
        auto b = bv.toObject();
        if (!b.contains("steps")) {
            continue;
        }
        runBehaviour(ctx, QString("q%1").arg(++n), b);
    }
    return 0;
}
