// Helpers of `qxv clientaux` (drv_clientaux.cpp): the server side of the script (stream header,
// features before / after authentication) and the projection of what the client wrote into the
// element records of spec/ClientAux.tla.  Header-only; used by that driver alone.
#pragma once

#include "fixture.h"
#include "loopback.h"

#include "QXmppCarbonManagerV2.h"
#include "QXmppSasl2UserAgent.h"
#include "QXmppSaslManager_p.h"
#include "QXmppSasl_p.h"

#include <QDateTime>
#include <QJsonArray>
#include <QJsonObject>
#include <QMessageAuthenticationCode>
#include <QUuid>

namespace qxvaux {

inline const char *NS_SASL = "urn:ietf:params:xml:ns:xmpp-sasl";
inline const char *NS_SASL2 = "urn:xmpp:sasl:2";
inline const char *NS_SM = "urn:xmpp:sm:3";
inline const char *NS_BIND = "urn:ietf:params:xml:ns:xmpp-bind";
inline const char *NS_BIND2 = "urn:xmpp:bind:0";
inline const char *NS_CSI = "urn:xmpp:csi:0";
inline const char *NS_CARBONS = "urn:xmpp:carbons:2";
inline const char *NS_FAST = "urn:xmpp:fast:0";
inline const QString PASSWORD = QStringLiteral("s3cr3t-pw-qxv");
inline const QString USER = QStringLiteral("me");
inline const QString DOMAIN_ = QStringLiteral("example.org");

// token n of an execution: 1 = stored before the first connection, 2, 3, … issued by the peer
inline QString tokenName(int n) { return QStringLiteral("tok%1").arg(n); }
inline int tokenIndex(const QString &secret)
{
    if (secret.startsWith("tok")) {
        bool ok = false;
        int n = secret.mid(3).toInt(&ok);
        if (ok) {
            return n;
        }
    }
    return -1;
}

// an element the client wrote, in the shape of ClientAux!E
struct Sent {
    QString kind = "none";
    QString id;
    QString mech;
    bool bind = false, inact = false, carb = false, sm = false, res = false, rtok = false, fast = false;
    int tok = 0;

    QJsonObject toJson() const
    {
        return QJsonObject { { "k", kind }, { "mech", mech }, { "bind", bind }, { "inact", inact }, { "carb", carb },
                             { "sm", sm }, { "res", res }, { "rtok", rtok }, { "fast", fast }, { "tok", tok } };
    }
};

inline QDomElement child(const QDomElement &el, const QString &tag, const QString &ns)
{
    for (auto c = el.firstChildElement(); !c.isNull(); c = c.nextSiblingElement()) {
        if (c.tagName() == tag && c.namespaceURI() == ns) {
            return c;
        }
    }
    return {};
}

inline bool isStanza(const QString &xml)
{
    return xml.startsWith("<iq") || xml.startsWith("<presence") || xml.startsWith("<message");
}

// projection: serialized element -> element record (the only place XML meets the spec).
// `tokens`: how many tokens exist in this execution (to recognise which one an HT response proves).
inline Sent classify(const QString &xml, int tokens)
{
    Sent s;
    s.kind = "Other";
    if (xml.startsWith("<?xml") || xml.startsWith("<stream:stream")) {
        s.kind = "StreamOpen";
        return s;
    }
    if (xml == "</stream:stream>") {
        s.kind = "StreamClose";
        return s;
    }
    QxvXml x(xml);
    auto el = x.el;
    auto tag = el.tagName();
    auto ns = el.namespaceURI();
    s.id = el.attribute("id");
    if (ns == NS_SASL && tag == "auth") {
        s.kind = "SaslAuth";
        s.mech = el.attribute("mechanism");
    } else if (ns == NS_SASL2 && tag == "authenticate") {
        s.kind = "Sasl2Authenticate";
        auto mech = el.attribute("mechanism");
        s.mech = mech.startsWith("HT-") ? QStringLiteral("HT") : mech;
        auto b = child(el, "bind", NS_BIND2);
        s.bind = !b.isNull();
        s.inact = !child(b, "inactive", NS_CSI).isNull();
        s.carb = !child(b, "enable", NS_CARBONS).isNull();
        s.sm = !child(b, "enable", NS_SM).isNull();
        s.res = !child(el, "resume", NS_SM).isNull();
        s.rtok = !child(el, "request-token", NS_FAST).isNull();
        s.fast = !child(el, "fast", NS_FAST).isNull();
        if (s.mech == "HT") {
            // initial response = authcid NUL HMAC(token, "Initiator"): find the token it proves
            auto resp = QByteArray::fromBase64(child(el, "initial-response", NS_SASL2).text().toLatin1());
            auto mac = resp.mid(resp.indexOf('\0') + 1);
            s.tok = -1;
            for (int n = 1; n <= tokens; ++n) {
                QMessageAuthenticationCode h(QCryptographicHash::Sha256, tokenName(n).toUtf8());
                h.addData("Initiator");
                if (h.result() == mac) {
                    s.tok = n;
                }
            }
        }
    } else if (ns == NS_SASL2 || ns == NS_SASL) {
        s.kind = "SaslOther";
    } else if (ns == NS_SM) {
        s.kind = tag == "enable" ? "SmEnable" : tag == "resume" ? "SmResume" : tag == "a" ? "SmAck" : tag == "r" ? "SmReq" : "Other";
    } else if (ns == NS_CSI) {
        s.kind = tag == "active" ? "CsiActive" : tag == "inactive" ? "CsiInactive" : "Other";
    } else if (ns == "jabber:client") {
        if (tag == "iq") {
            auto q = el.firstChildElement();
            if (q.namespaceURI() == NS_BIND && el.attribute("type") == "set") {
                s.kind = "BindRequest";
            } else if (q.namespaceURI() == NS_CARBONS && q.tagName() == "enable" && el.attribute("type") == "set") {
                s.kind = "CarbonsIq";
            } else {
                s.kind = "Iq";
            }
        } else if (tag == "message") {
            s.kind = "Message";
        } else if (tag == "presence") {
            s.kind = "Presence";
        }
    }
    return s;
}

inline QByteArray streamHeader(int n)
{
    return "<?xml version='1.0'?><stream:stream xmlns='jabber:client' xmlns:stream='http://etherx.jabber.org/streams' id='sid" +
        QByteArray::number(n) + "' from='example.org' version='1.0'>";
}

// <stream:features/> before authentication: SASL PLAIN, or SASL 2 with its inline features
inline QByteArray preFeatures(const QJsonObject &f)
{
    QByteArray x = "<stream:features>";
    if (!f["s2"].toBool()) {
        x += "<mechanisms xmlns='urn:ietf:params:xml:ns:xmpp-sasl'><mechanism>PLAIN</mechanism></mechanisms>";
    } else {
        QByteArray inl;
        if (f["b2"].toBool()) {
            QByteArray feats;
            if (f["b2csi"].toBool()) {
                feats += "<feature var='urn:xmpp:csi:0'/>";
            }
            if (f["b2carb"].toBool()) {
                feats += "<feature var='urn:xmpp:carbons:2'/>";
            }
            if (f["b2sm"].toBool()) {
                feats += "<feature var='urn:xmpp:sm:3'/>";
            }
            inl += "<bind xmlns='urn:xmpp:bind:0'>" + (feats.isEmpty() ? QByteArray() : "<inline>" + feats + "</inline>") + "</bind>";
        }
        if (f["fast"].toBool()) {
            inl += "<fast xmlns='urn:xmpp:fast:0'><mechanism>HT-SHA-256-NONE</mechanism></fast>";
        }
        if (f["r2"].toBool()) {
            inl += "<sm xmlns='urn:xmpp:sm:3'/>";
        }
        x += "<authentication xmlns='urn:xmpp:sasl:2'><mechanism>PLAIN</mechanism>" +
            (inl.isEmpty() ? QByteArray() : "<inline>" + inl + "</inline>") + "</authentication>";
    }
    return x + "</stream:features>";
}

// <stream:features/> after authentication
inline QByteArray postFeatures(const QJsonObject &g, bool offerBind)
{
    QByteArray x = "<stream:features>";
    if (offerBind) {
        x += "<bind xmlns='urn:ietf:params:xml:ns:xmpp-bind'/>";
    }
    if (g["sm"].toBool()) {
        x += "<sm xmlns='urn:xmpp:sm:3'/>";
    }
    if (g["csi"].toBool()) {
        x += "<csi xmlns='urn:xmpp:csi:0'/>";
    }
    return x + "</stream:features>";
}

}  // namespace qxvaux
