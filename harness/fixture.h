// In-memory client fixture. Uses the repository's own mock seam: the classes
// QXmppClient, QXmppOutgoingClient, C2sStreamManager and QXmppStanza declare
// `friend class TestClient`, so a harness class of that name may reach the exact
// receive entry point the socket signal is connected to
// (QXmppOutgoingClient::handlePacketReceived) without any hook in /repo.
#pragma once

#include "QXmppClient.h"
#include "QXmppClientExtension.h"
#include "QXmppClient_p.h"
#include "QXmppConfiguration.h"
#include "QXmppLogger.h"
#include "QXmppOutgoingClient.h"
#include "QXmppOutgoingClient_p.h"
#include "QXmppStanza.h"

#include <QCoreApplication>
#include <QDomDocument>
#include <QSslSocket>
#include <QStringList>

inline QDomDocument qxvParseStream(const QString &inner, const QString &defaultNs = QStringLiteral("jabber:client"))
{
    // same wrapping as XmppSocket::processData: a stream root that carries the default and the
    // stream namespace, so stanzas and <stream:features/> get the namespaces they have on the wire
    QString wrapped = QStringLiteral("<stream:stream xmlns='%1' xmlns:stream='http://etherx.jabber.org/streams'>").arg(defaultNs) +
        inner + QStringLiteral("</stream:stream>");
    QDomDocument doc;
    QString err;
    if (!doc.setContent(wrapped, true, &err)) {
        fprintf(stderr, "qxv fixture: injected XML is not well-formed (%s): %s\n", qPrintable(err), qPrintable(inner));
        exit(2);
    }
    return doc;
}

class TestClient : public QXmppClient
{
public:
    enum Ext { NoExtensions,
               DefaultExtensions };

    explicit TestClient(Ext ext = NoExtensions, const QString &jid = QStringLiteral("me@example.org/dev1"))
        : QXmppClient()
    {
        if (ext == NoExtensions) {
            qDeleteAll(d->extensions);
            d->extensions.clear();
        }
        configuration().setJid(jid);
        configuration().setPassword(QStringLiteral("pw"));
        // a logger of its own: the default is the process-wide QXmppLogger::getLogger(), which would
        // mix the records of several clients living in one harness
        auto *ownLogger = new QXmppLogger(this);
        ownLogger->setLoggingType(QXmppLogger::SignalLogging);
        setLogger(ownLogger);
        QObject::connect(ownLogger, &QXmppLogger::message, this, [this](QXmppLogger::MessageType type, const QString &text) {
            if (type == QXmppLogger::SentMessage) {
                sent << text;
                sentEnc << (d->stream->socket() && d->stream->socket()->isEncrypted());
                sentBytes += text.toUtf8().size();
            } else if (type == QXmppLogger::ReceivedMessage) {
                ++receivedCount;
            } else if (type == QXmppLogger::WarningMessage) {
                warnings << text;
            }
        });
    }

    QXmppOutgoingClient *stream() const { return d->stream; }
    QXmppOutgoingClientPrivate *streamPrivate() const { return d->stream->d.get(); }

    // Feed elements through the real receive path (as if parsed by XmppSocket).
    void inject(const QString &xml)
    {
        auto doc = qxvParseStream(xml);
        for (auto el = doc.documentElement().firstChildElement(); !el.isNull(); el = el.nextSiblingElement()) {
            d->stream->handlePacketReceived(el);
        }
        QCoreApplication::processEvents();
    }
    void injectElement(const QDomElement &el)
    {
        d->stream->handlePacketReceived(el);
        QCoreApplication::processEvents();
    }

    // Pretend a session is established (no socket): what the repository's own TestClient does,
    // plus the session flag, so that managers which look at the session see one.
    void fakeSession(bool smEnabled = true, bool smResumed = false)
    {
        d->stream->d->sessionStarted = true;
        d->stream->d->isAuthenticated = true;
        if (smEnabled) {
            d->stream->enableStreamManagement(true);
            d->stream->c2sStreamManager().m_enabled = true;
            d->stream->c2sStreamManager().m_streamResumed = smResumed;
        }
    }
    // the two session signals, as QXmppOutgoingClient emits them
    void emitConnected(bool smEnabled, bool smResumed)
    {
        QXmpp::Private::SessionBegin s { smEnabled, smResumed, false, false, QXmpp::Private::AuthenticationMethod::Sasl };
        Q_EMIT d->stream->connected(s);
        QCoreApplication::processEvents();
    }
    void emitDisconnected(bool canResume)
    {
        QXmpp::Private::SessionEnd s { canResume };
        Q_EMIT d->stream->disconnected(s);
        QCoreApplication::processEvents();
    }

    QStringList takeSent(bool dropSmRequests = true)
    {
        QStringList r;
        for (const auto &s : std::as_const(sent)) {
            if (dropSmRequests && s == QStringLiteral("<r xmlns=\"urn:xmpp:sm:3\"/>")) {
                continue;
            }
            r << s;
        }
        sent.clear();
        sentEnc.clear();
        return r;
    }

    // projections of private stream state (friend seam; read-only)
    struct SmProbe {
        bool avail, enabled, resumed, canResume;
        int request;  // 0 none, 1 resume pending, 2 enable pending
    };
    SmProbe smProbe() const
    {
        auto &m = d->stream->c2sStreamManager();
        return { m.m_smAvailable, m.m_enabled, m.m_streamResumed, m.m_canResume, int(m.m_request.index()) };
    }
    int listenerIndex() const { return int(d->stream->d->listener.index()); }

    static void resetIdCounter() { QXmppStanza::s_uniqeIdNo = 0; }

    QStringList sent;
    QList<bool> sentEnc;        // per entry of `sent`: was the socket encrypted when it was written
    qint64 sentBytes = 0;       // bytes handed to the socket wrapper so far (all connections)
    int receivedCount = 0;      // ReceivedMessage log records (one per successfully parsed read buffer)
    QStringList warnings;
};

// attribute / child helpers for projecting sent XML into abstract records
struct QxvXml {
    QDomDocument doc;  // keeps the nodes alive
    QDomElement el;    // first child of the stream root
    explicit QxvXml(const QString &xml) : doc(qxvParseStream(xml)), el(doc.documentElement().firstChildElement()) { }
};
