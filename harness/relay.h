// Helpers shared by the transfer drivers (drv_ibb.cpp, drv_ibbs5.cpp): names of job states and
// errors, a per-client logger, the counting receive device, seeded file contents.
#pragma once

#include "fixture.h"
#include "qxv.h"

#include "QXmppTransferManager.h"

#include <QBuffer>
#include <QXmlStreamWriter>

#include <random>

namespace {

inline QString stateName(QXmppTransferJob::State s)
{
    switch (s) {
    case QXmppTransferJob::OfferState:
        return "Offer";
    case QXmppTransferJob::StartState:
        return "Start";
    case QXmppTransferJob::TransferState:
        return "Transfer";
    case QXmppTransferJob::FinishedState:
        return "Finished";
    }
    return "?";
}

inline QString errorName(QXmppTransferJob::Error e)
{
    switch (e) {
    case QXmppTransferJob::NoError:
        return "NoError";
    case QXmppTransferJob::AbortError:
        return "Abort";
    case QXmppTransferJob::FileAccessError:
        return "FileAccess";
    case QXmppTransferJob::FileCorruptError:
        return "FileCorrupt";
    case QXmppTransferJob::ProtocolError:
        return "Protocol";
    }
    return "?";
}

template<typename T>
inline QString toXmlString(const T &stanza)
{
    QByteArray buf;
    QXmlStreamWriter w(&buf);
    stanza.toXml(&w);
    return QString::fromUtf8(buf);
}

// QXmppClient uses the process-wide QXmppLogger by default, so two clients would see each other's
// "sent" records: give each client a logger of its own, feeding the fixture's capture list.
inline void isolateLogger(TestClient *c)
{
    auto *lg = new QXmppLogger(c);
    lg->setLoggingType(QXmppLogger::SignalLogging);
    c->setLogger(lg);
    QObject::connect(lg, &QXmppLogger::message, c, [c](QXmppLogger::MessageType type, const QString &text) {
        if (type == QXmppLogger::SentMessage) {
            c->sent << text;
        } else if (type == QXmppLogger::WarningMessage) {
            c->warnings << text;
        }
    });
}

// the receiving application's device: counts the blocks written
class CountingBuffer : public QBuffer
{
public:
    qint64 writes = 0;

protected:
    qint64 writeData(const char *data, qint64 len) override
    {
        ++writes;
        return QBuffer::writeData(data, len);
    }
};

inline QByteArray randomBytes(qint64 n, quint64 seed)
{
    QByteArray r(int(n), '\0');
    std::mt19937_64 g(seed);
    qint64 i = 0;
    for (; i + 8 <= n; i += 8) {
        quint64 v = g();
        memcpy(r.data() + i, &v, 8);
    }
    for (; i < n; i++) {
        r[int(i)] = char(g());
    }
    return r;
}


}  // namespace
