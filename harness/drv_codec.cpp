// qxv codec — C01 (codecs lose nothing) and C02 (parsing any well-formed XML is safe and
// normalising).  Jobs (ndjson, --in) are produced by lib/props/C01.py / C02.py from the
// behaviours of spec/Codec.tla and spec/XmlMutate.tla and from the XML literals harvested from
// the repository's tests (--seeds).  Every job is announced with a flushed {"e":"Begin"} line
// before it is executed, so that a sanitizer abort or a hang is attributed to the job.
//
//   {"k":"seed","seed":i}                      every registered parser on the seed and its descendants
//   {"k":"mut","seed":i,"off":n,"anchor":a,"steps":[..]}  a plan of XmlMutate's abstract tree, anchored at an element
//   {"k":"pos","seed":i,"heavyEvery":k}        every one-step move at every element/attribute/text position of the seed
//   {"k":"subst","seed":i,"nrand":n}           value substitution at probe-confirmed free-text slots
//   {"k":"obj","cls":name,"map":r,"vals":[..]} object built through setters along a Codec plan
//   {"k":"scalar"}                             typed scalar helpers at their bounds
//   {"k":"list"}                               registry and object tables (for the evidence)
//
// One pass:  el -> parse -> O1 -> toXml X1 -> parse -> O2 -> toXml X2.
#include "codec_fields.h"
#include "codec_xml.h"
#include "codec_registry.h"
#include "fixture.h"
#include "qxv.h"

#include "QXmppAttentionManager.h"
#include "QXmppBlockingManager.h"
#include "QXmppBookmarkManager.h"
#include "QXmppCallInviteManager.h"
#include "QXmppCarbonManagerV2.h"
#include "QXmppDiscoveryManager.h"
#include "QXmppEntityTimeManager.h"
#include "QXmppHttpUploadManager.h"
#include "QXmppJingleMessageInitiationManager.h"
#include "QXmppMamManager.h"
#include "QXmppMessageReceiptManager.h"
#include "QXmppMixManager.h"
#include "QXmppMucManager.h"
#include "QXmppPubSubManager.h"
#include "QXmppRegistrationManager.h"
#include "QXmppRpcManager.h"
#include "QXmppTransferManager.h"
#include "QXmppUploadRequestManager.h"
#include "QXmppUserLocationManager.h"
#include "QXmppUserTuneManager.h"

#include <QCryptographicHash>
#include <QElapsedTimer>
#include <QSet>
#include <QTextStream>

#include <algorithm>
#include <csignal>
#include <cstring>
#include <memory>
#include <unistd.h>

namespace {

int g_maxDescent = 24;

void allElements(const QDomElement &e, const QString &path, QList<QPair<QString, QDomElement>> &out, int depth = 0)
{
    out << qMakePair(path, e);
    if (depth >= g_maxDescent) {
        return;  // deep Nest() chains: the root and the first levels are what the parsers look at
    }
    QMap<QString, int> count;
    for (const auto &c : childElements(e)) {
        int k = ++count[c.tagName()];
        allElements(c, path + QChar('/') + c.tagName() + QChar('[') + QString::number(k) + QChar(']'), out, depth + 1);
    }
}

// --------------------------------------------------------------------------- one pass
struct Pass {
    bool admitted = false;   // type check (if any) admits the element
    bool refused = false;    // the parser itself refused (bool parse() false / fromDom nullopt)
    bool wf1 = true;         // X1 is a well-formed fragment
    bool empty1 = false;     // X1 is empty (the object serializes to nothing)
    bool readmit = true;     // the class's own type check admits X1 (informational)
    bool refused2 = false;   // the parser refused its own output
    bool fix = true;         // X1 == X2 (up to sibling order)
    bool fixBytes = true;
    bool pass3 = false;      // the difference appeared between the second and the third serialization
    QByteArray x1, x2;
    Fragment f1;
    QDomElement e1;          // the element of X1 handed to the second pass
};

// second pass on `e`: parse, serialize, compare with X1
bool secondPass(const CodecEntry &c, Pass &p, const QDomElement &e, const QString &ns)
{
    QByteArray x2;
    if (!c.run(e, x2)) {
        p.refused2 = true;
        return false;
    }
    p.refused2 = false;
    p.x2 = x2;
    p.fixBytes = p.x1 == x2;
    if (p.fixBytes) {
        p.fix = true;
        return true;
    }
    auto f2 = parseFragment(x2, ns);
    p.fix = f2.wf && canon(p.f1.root, false, true) == canon(f2.root, false, true);
    if (p.fix && f2.n >= 1) {
        // X1 and X2 are equal only up to attribute/sibling order: what is parsed in the next pass is not
        // the same text any more, so the drift may start one pass later.  Third pass: X2 -> parse -> X3 = X2.
        // (If X1 = X2 bytewise the parser is deterministic and X3 = X2 follows.)
        QByteArray x3;
        const auto e2 = (e == p.f1.root || f2.n != 1) ? f2.root : f2.single();
        if (c.run(e2, x3) && x3 != x2) {
            auto f3 = parseFragment(x3, ns);
            if (!f3.wf || canon(f2.root, false, true) != canon(f3.root, false, true)) {
                p.fix = false;
                p.pass3 = true;
                p.x1 = x2;   // reported pair: the second and the third serialization
                p.f1 = f2;
                p.x2 = x3;
            }
        }
    }
    return p.fix;
}

Pass onePass(const CodecEntry &c, const QDomElement &el)
{
    Pass p;
    p.admitted = c.admits(el);
    if (!p.admitted) {
        return p;
    }
    if (!c.run(el, p.x1)) {
        p.refused = true;
        return p;
    }
    if (c.parseOnly) {
        return p;
    }
    const auto ns = el.namespaceURI();
    p.f1 = parseFragment(p.x1, ns);
    if (!p.f1.wf) {
        p.wf1 = false;
        return p;
    }
    if (p.f1.n == 0) {
        p.empty1 = true;   // nothing to parse again
        return p;
    }
    if (p.f1.n == 1) {
        p.e1 = p.f1.single();
        p.readmit = c.admits(p.e1);
        if (secondPass(c, p, p.e1, ns)) {
            return p;
        }
    }
    // serializers of element lists (and of groups of siblings) are parsed from the parent element
    Pass q = p;
    q.e1 = q.f1.root;
    if (secondPass(c, q, q.f1.root, ns)) {
        q.readmit = true;
        return q;
    }
    if (p.f1.n == 1) {
        return p;
    }
    return q;
}

bool g_dump = false;  // --dump: full documents in the trace (diagnosis)

QString clip(const QByteArray &b, int n = 400)
{
    if (g_dump) {
        return QString::fromUtf8(b);
    }
    auto s = QString::fromUtf8(b);
    return s.size() > n ? s.left(n) + QStringLiteral("...(%1 chars)").arg(s.size()) : s;
}

// --------------------------------------------------------------------------- every parser on a document
struct Sweep {
    int runs = 0;          // parser executions (admitted)
    int admittedChecked = 0;
    int reorderOnly = 0;   // X1 != X2 bytewise but equal up to sibling order (not a finding)
    int emptyOut = 0;      // the object serializes to nothing (nothing to parse again)
    int notReadmitted = 0; // the class's type check does not admit the class's own output (not a finding)
    QJsonArray bad;
    QJsonArray notes;
    QJsonArray own;        // entries for which the root element is reproduced (library's own output form)
    QStringList digests;   // "<class>=<digest of X1>" per run on the root (determinism across heap fill patterns)
};

struct Dedup {
    QSet<QByteArray> seen;
    bool fresh(int entry, const QString &xml)
    {
        QCryptographicHash h(QCryptographicHash::Sha1);
        h.addData(QByteArray::number(entry));
        h.addData(xml.toUtf8());
        auto k = h.result().left(10);
        if (seen.contains(k)) {
            return false;
        }
        if (seen.size() < 4000000) {
            seen.insert(k);
        }
        return true;
    }
};
Dedup g_dedup;

// A parser that does not return: SIGALRM ends the process; the handler names the document and the
// class that was running (async-signal-safe: write() of buffers prepared beforehand).
char g_hangCase[160] = "";
const char *volatile g_hangClass = "harness";
void onAlarm(int)
{
    const char *cls = g_hangClass;
    (void)!write(2, "\nqxv-hang ", 10);
    (void)!write(2, g_hangCase, strlen(g_hangCase));
    (void)!write(2, " ", 1);
    (void)!write(2, cls, strlen(cls));
    (void)!write(2, "\n", 1);
    _exit(124);
}
QSet<QString> g_skip;   // classes not run any more in this process (already reported as hanging)
QString g_only;         // confirmation run: this class only
bool classEnabled(const char *name)
{
    const auto n = QString::fromLatin1(name);
    return !g_skip.contains(n) && (g_only.isEmpty() || g_only == n);
}
QMap<int, qint64> g_profile;

void sweep(const QDomElement &root, bool deep, bool wantOwn, Sweep &s)
{
    const auto &reg = codecRegistry();
    QList<QPair<QString, QDomElement>> els;
    allElements(root, QChar('/') + root.tagName(), els);
    for (int k = 0; k < els.size(); k++) {
        const auto &path = els[k].first;
        const auto &el = els[k].second;
        const bool isRoot = k == 0;
        QString xml;
        for (int i = 0; i < int(reg.size()); i++) {
            const auto &c = reg[i];
            // parsers without a type check: the root, and (deep) the first levels below it
            if (!isRoot && !c.checked && (!deep || path.count(QChar('/')) > 4)) {
                continue;
            }
            if (!classEnabled(c.name)) {
                continue;
            }
            g_hangClass = c.name;
            if (c.checked && !c.admits(el)) {
                g_hangClass = "harness";
                continue;
            }
            if (!isRoot || !wantOwn) {
                if (xml.isNull()) {
                    xml = saveElement(el);
                }
                if (!g_dedup.fresh(i, xml)) {
                    continue;
                }
            }
            QElapsedTimer tm;
            tm.start();
            auto p = onePass(c, el);
            g_hangClass = "harness";
            g_profile[i] += tm.nsecsElapsed();
            if (!p.admitted || p.refused) {
                continue;
            }
            s.runs++;
            if (c.checked) {
                s.admittedChecked++;
            }
            if (isRoot && wantOwn) {
                s.digests << QString::fromLatin1(c.name) + QChar('=') +
                        QString::fromLatin1(QCryptographicHash::hash(p.x1, QCryptographicHash::Sha1).toHex().left(8));
            }
            if (c.parseOnly) {
                continue;
            }
            auto report = [&](const char *kind) {
                if (s.bad.size() < 40) {
                    QString where;
                    if (p.wf1 && !p.refused2) {
                        auto f2 = parseFragment(p.x2, el.namespaceURI());
                        where = f2.wf ? diffLocus(p.f1.root, f2.root) : QStringLiteral("x2-illformed");
                    }
                    s.bad.append(QJsonObject { { "c", c.name }, { "k", kind }, { "el", path }, { "where", where },
                                               { "x1", clip(p.x1) }, { "x2", clip(p.x2) } });
                }
            };
            if (!p.wf1) {
                report("illformed");
                continue;
            }
            if (p.empty1) {
                s.emptyOut++;
                continue;
            }
            if (p.refused2) {
                report("reparse-rejected");
                continue;
            }
            if (!p.readmit) {
                s.notReadmitted++;
            }
            if (!p.fix) {
                report("fixpoint");
                continue;
            }
            if (!p.fixBytes) {
                s.reorderOnly++;
                if (s.notes.size() < 3) {
                    s.notes.append(QJsonObject { { "c", c.name }, { "k", "bytes-differ-canonical-equal" }, { "x1", clip(p.x1, 200) }, { "x2", clip(p.x2, 200) } });
                }
            }
            if (isRoot && wantOwn && p.f1.n == 1 && canon(p.f1.single(), false, true) == canon(el, false, true)) {
                s.own.append(c.name);
            }
        }
    }
}

// --------------------------------------------------------------------------- connected client
std::unique_ptr<TestClient> g_client;
int g_clientUses = 0;

TestClient &client()
{
    if (!g_client || g_clientUses >= 20) {
        g_client.reset();
        g_client = std::make_unique<TestClient>(TestClient::DefaultExtensions);
        auto *c = g_client.get();
        c->addNewExtension<QXmppMucManager>();
        c->addNewExtension<QXmppPubSubManager>();
        c->addNewExtension<QXmppMamManager>();
        c->addNewExtension<QXmppCarbonManagerV2>();
        c->addNewExtension<QXmppBlockingManager>();
        c->addNewExtension<QXmppMixManager>();
        c->addNewExtension<QXmppBookmarkManager>();
        c->addNewExtension<QXmppMessageReceiptManager>();
        c->addNewExtension<QXmppJingleMessageInitiationManager>();
        c->addNewExtension<QXmppCallInviteManager>();
        c->addNewExtension<QXmppUserTuneManager>();
        c->addNewExtension<QXmppUserLocationManager>();
        c->addNewExtension<QXmppAttentionManager>();
        c->addNewExtension<QXmppRegistrationManager>();
        c->addNewExtension<QXmppRpcManager>();
        c->addNewExtension<QXmppUploadRequestManager>();
        c->addNewExtension<QXmppTransferManager>();
        c->fakeSession();
        g_clientUses = 0;
    }
    g_clientUses++;
    return *g_client;
}

// Feed the element to a connected client (receive path of the socket signal).  Returns the
// number of stanzas the client sent in reaction; bad gets an entry if one of them is not
// well-formed.
int feedClient(const QString &xml, QJsonArray &bad)
{
    QDomDocument doc;
    bool ok = false;
    auto el = parseWrapped(doc, xml, QStringLiteral("jabber:client"), &ok);
    if (!ok || !classEnabled("client")) {
        return -1;
    }
    g_hangClass = "client";
    auto &c = client();
    c.injectElement(el);
    g_hangClass = "harness";
    const auto sent = c.takeSent(false);
    for (const auto &s : sent) {
        QDomDocument d;
        bool wf = false;
        // what the client writes may be several elements and a stream header: only complete elements are checked
        if (s.startsWith(QLatin1String("<?xml")) || s.startsWith(QLatin1String("<stream:stream")) || s.startsWith(QLatin1String("</stream"))) {
            continue;
        }
        QString w = QStringLiteral("<stream:stream xmlns='jabber:client' xmlns:stream='http://etherx.jabber.org/streams'>") + s +
            QStringLiteral("</stream:stream>");
        wf = d.setContent(w, true);
        if (!wf && bad.size() < 40) {
            bad.append(QJsonObject { { "c", "client" }, { "k", "illformed" }, { "el", "/" }, { "x1", s.left(400) }, { "x2", "" } });
        }
    }
    // a stream-level reaction (error, disconnect) leaves the client unusable for the next document
    if (!c.stream() || el.namespaceURI() == NS_STREAM || el.tagName() != QLatin1String("message")) {
        g_clientUses += 4;
    }
    return sent.size();
}

// --------------------------------------------------------------------------- mutations (XmlMutate.tla)
struct AttrRef {
    QString name;   // "#text" = the element's character data
    QString value;
};

QList<AttrRef> attrRefs(const QDomElement &e)
{
    QList<AttrRef> r;
    auto am = e.attributes();
    for (int i = 0; i < am.count(); i++) {
        auto a = am.item(i).toAttr();
        if (!isNsDecl(a.name())) {
            r << AttrRef { a.name(), a.value() };
        }
    }
    std::sort(r.begin(), r.end(), [](const AttrRef &a, const AttrRef &b) { return a.name < b.name; });
    if (childElements(e).isEmpty() && !e.text().isEmpty()) {
        r << AttrRef { QStringLiteral("#text"), e.text() };
    }
    return r;
}

QString kindOfValue(const QString &v)
{
    static const QRegularExpression num(QStringLiteral("^-?[0-9]+(\\.[0-9]+)?$"));
    static const QRegularExpression word(QStringLiteral("^[A-Za-z][A-Za-z0-9_.:-]{0,23}$"));
    if (num.match(v).hasMatch()) {
        return QStringLiteral("num");
    }
    if (word.match(v).hasMatch() || v == QLatin1String("1") || v == QLatin1String("0")) {
        return QStringLiteral("enum");
    }
    return QStringLiteral("text");
}

QString abstractKind(const QString &a)
{
    if (a == QLatin1String("n") || a == QLatin1String("k")) {
        return QStringLiteral("num");
    }
    if (a == QLatin1String("type") || a == QLatin1String("e")) {
        return QStringLiteral("enum");
    }
    return QStringLiteral("text");
}

void setValue(QDomElement &e, const QString &name, const QString &value, bool drop)
{
    if (name == QLatin1String("#text")) {
        QList<QDomNode> texts;
        for (auto n = e.firstChild(); !n.isNull(); n = n.nextSibling()) {
            if (n.isText() || n.isCDATASection()) {
                texts << n;
            }
        }
        for (auto &n : texts) {
            e.removeChild(n);
        }
        if (!drop && !value.isEmpty()) {
            e.appendChild(e.ownerDocument().createTextNode(value));
        }
    } else if (drop) {
        e.removeAttribute(name);
    } else {
        e.setAttribute(name, value);
    }
}

QDomElement resolve(QDomElement cur, const QJsonArray &path, int off)
{
    for (const auto &pv : path) {
        auto kids = childElements(cur);
        if (kids.isEmpty()) {
            break;
        }
        cur = kids[(pv.toInt() - 1 + off) % kids.size()];
    }
    return cur;
}

// returns false if the step has nothing to act on in this document
int g_hugeLength = 70000;  // > 65535; shorter when the plan also nests (the product is what costs)

// Two addressing modes.  Plans of the abstract tree (multi-step plans of XmlMutateGen): `root` is
// the element of the seed that takes the place of the abstract root (the anchor), path indices
// select child (i-1+off) mod n, attributes are chosen by kind.  Position plans ("abs": true,
// every enabled move of XmlMutate!Moves on the concrete seed): the path, the child index and the
// attribute name are exact.
QDomElement resolveExact(QDomElement cur, const QJsonArray &path)
{
    for (const auto &pv : path) {
        cur = childElements(cur).value(pv.toInt() - 1);
        if (cur.isNull()) {
            break;
        }
    }
    return cur;
}

bool applyStep(QDomDocument &doc, QDomElement &root, QDomElement &anchor, const QJsonObject &st, int off)
{
    const auto op = st["op"].toString();
    const bool exact = st["abs"].toBool();
    auto cur = exact ? resolveExact(root, st["p"].toArray()) : resolve(anchor, st["p"].toArray(), off);
    if (cur.isNull()) {
        return false;
    }
    auto kids = childElements(cur);
    if (op == "DeleteChild" || op == "DuplicateChild" || op == "SwapSiblings" || op == "MoveUnderSibling") {
        if (kids.isEmpty()) {
            return false;
        }
        int i = exact ? st["i"].toInt() - 1 : (st["i"].toInt() - 1 + off) % kids.size();
        if (i < 0 || i >= kids.size()) {
            return false;
        }
        if (op == "DeleteChild") {
            cur.removeChild(kids[i]);
        } else if (op == "DuplicateChild") {
            cur.insertAfter(kids[i].cloneNode(true), kids[i]);
        } else {
            if (kids.size() < 2) {
                return false;
            }
            int j = (i + 1) % kids.size();
            if (exact && op == "SwapSiblings" && i + 1 >= kids.size()) {
                return false;
            }
            if (exact && i + 1 >= kids.size()) {
                j = i - 1;  // the last child moves under its left neighbour
            }
            if (op == "SwapSiblings") {
                auto a = kids[i], b = kids[j];
                auto marker = doc.createElement(QStringLiteral("qxvmarker"));
                cur.replaceChild(marker, a);
                cur.replaceChild(a, b);
                cur.replaceChild(b, marker);
            } else {
                kids[j].appendChild(kids[i]);
            }
        }
        return true;
    }
    if (op == "AddKnownSibling") {
        // next to `cur` an element of another kind the parent's parser knows (kinds harvested from the
        // corpus), empty or carrying the character data of `cur`
        auto parent = cur.parentNode();
        if (parent.isNull() || cur == root) {
            return false;
        }
        const auto ns = st["ns"].toString();
        auto sib = ns.isEmpty() ? doc.createElement(st["name"].toString()) : doc.createElementNS(ns, st["name"].toString());
        if (st["txt"].toBool()) {
            QString text;
            for (auto n = cur.firstChild(); !n.isNull(); n = n.nextSibling()) {
                if (n.isText() || n.isCDATASection()) {
                    text += n.nodeValue();
                }
            }
            if (text.isEmpty()) {
                return false;
            }
            sib.appendChild(doc.createTextNode(text));
        }
        if (st["after"].toBool(true)) {
            parent.insertAfter(sib, cur);
        } else {
            parent.insertBefore(sib, cur);
        }
        return true;
    }
    if (op == "DuplicateWithOtherChild") {
        // a copy of `cur` (its own attributes, none of its children) holding one child of another kind its
        // parser knows, with the attributes that kind has at its first occurrence in the corpus
        auto parent = cur.parentNode();
        if (parent.isNull() || cur == root) {
            return false;
        }
        auto copy = cur.cloneNode(false).toElement();
        const auto ns = st["ns"].toString();
        auto child = ns.isEmpty() ? doc.createElement(st["name"].toString()) : doc.createElementNS(ns, st["name"].toString());
        const auto attrs = st["attrs"].toObject();
        for (auto it = attrs.begin(); it != attrs.end(); ++it) {
            child.setAttribute(it.key(), it.value().toString());
        }
        copy.appendChild(child);
        parent.insertAfter(copy, cur);
        return true;
    }
    if (op == "MoveText") {
        // the character data of `cur` moves to its right neighbour
        auto next = cur.nextSiblingElement();
        QList<QDomNode> texts;
        for (auto n = cur.firstChild(); !n.isNull(); n = n.nextSibling()) {
            if (n.isText() || n.isCDATASection()) {
                texts << n;
            }
        }
        if (next.isNull() || texts.isEmpty()) {
            return false;
        }
        for (auto &n : texts) {
            next.appendChild(n);
        }
        return true;
    }
    if (op == "AddUnknownChild") {
        const auto ns = st["ns"].toString();
        auto child = ns.isEmpty() ? doc.createElement(QStringLiteral("qxv-unknown")) : doc.createElementNS(ns, QStringLiteral("qxv-unknown"));
        cur.insertBefore(child, cur.firstChild());
        return true;
    }
    if (op == "Renamespace" || op == "Nest" || op == "Rename") {
        auto parent = cur.parentNode();
        QDomElement outer;
        if (op == "Renamespace" || op == "Rename") {
            // an element cannot be renamed in place: a new one takes over attributes and children
            outer = op == "Renamespace" ? doc.createElementNS(QStringLiteral("urn:qxv:foreign"), localOf(cur))
                                        : (cur.namespaceURI().isEmpty() ? doc.createElement(QStringLiteral("qxv-unknown"))
                                                                        : doc.createElementNS(cur.namespaceURI(), QStringLiteral("qxv-unknown")));
            auto am = cur.attributes();
            for (int i = 0; i < am.count(); i++) {
                auto a = am.item(i).toAttr();
                if (!isNsDecl(a.name())) {
                    outer.setAttribute(a.name(), a.value());
                }
            }
            QList<QDomNode> nodes;
            for (auto n = cur.firstChild(); !n.isNull(); n = n.nextSibling()) {
                nodes << n;
            }
            for (auto &n : nodes) {
                outer.appendChild(n);
            }
            parent.replaceChild(outer, cur);
        } else {
            static const int depths[] = { 0, 3, 8, 24 };
            int d = depths[qBound(1, st["d"].toInt(), 3)];
            outer = cur.cloneNode(false).toElement();
            auto inner = outer;
            for (int i = 1; i < d; i++) {
                auto next = cur.cloneNode(false).toElement();
                inner.appendChild(next);
                inner = next;
            }
            parent.replaceChild(outer, cur);
            inner.appendChild(cur);
        }
        if (cur == root) {
            root = outer;
        }
        if (cur == anchor) {
            anchor = outer;
        }
        return true;
    }
    // attribute operations
    auto refs = attrRefs(cur);
    if (refs.isEmpty()) {
        return false;
    }
    AttrRef target;
    if (exact) {
        bool found = false;
        for (const auto &r : refs) {
            if (r.name == st["a"].toString()) {
                target = r;
                found = true;
            }
        }
        if (!found) {
            return false;
        }
    } else {
        const auto want = abstractKind(st["a"].toString());
        QList<AttrRef> cands;
        for (const auto &r : refs) {
            if (kindOfValue(r.value) == want) {
                cands << r;
            }
        }
        const auto &pool = cands.isEmpty() ? refs : cands;
        target = pool[off % pool.size()];
    }
    if (op == "DropAttr") {
        setValue(cur, target.name, {}, true);
    } else if (op == "EmptyAttr") {
        setValue(cur, target.name, QString(), false);
        if (target.name != QLatin1String("#text")) {
            cur.setAttribute(target.name, QString());
        }
    } else if (op == "HugeAttr") {
        setValue(cur, target.name, (off % 2) ? QStringLiteral("9").repeated(40) : QStringLiteral("A").repeated(g_hugeLength), false);
    } else if (op == "NegativeAttr") {
        static const char *neg[] = { "-1", "-2147483649", "-9223372036854775809", "-0", "-128", "-32769" };
        setValue(cur, target.name, QString::fromLatin1(neg[off % 6]), false);
    } else if (op == "NonNumericAttr") {
        static const QStringList nn = { QStringLiteral("1x"), QStringLiteral("NaN"), QStringLiteral("\uff11\uff12"), QStringLiteral("0x10"),
                                        QStringLiteral("1e3"), QStringLiteral("+"), QStringLiteral("1 2"), QStringLiteral("\u0663") };
        setValue(cur, target.name, nn[off % nn.size()], false);
    } else if (op == "UnknownEnum") {
        setValue(cur, target.name, QStringLiteral("qxv-unknown"), false);
    } else {
        return false;
    }
    return true;
}

// --------------------------------------------------------------------------- value substitution (C01)
struct Position {
    QList<int> path;   // child element indices from the root
    QString name;      // attribute name or "#text"
    QString value;
};

void collectPositions(const QDomElement &e, QList<int> path, QList<Position> &out)
{
    for (const auto &r : attrRefs(e)) {
        out << Position { path, r.name, r.value };
    }
    auto kids = childElements(e);
    for (int i = 0; i < kids.size(); i++) {
        auto p = path;
        p << i;
        collectPositions(kids[i], p, out);
    }
}

QDomElement follow(QDomElement cur, const QList<int> &path)
{
    for (int i : path) {
        cur = childElements(cur).value(i);
        if (cur.isNull()) {
            break;
        }
    }
    return cur;
}

// locators (namespace/tag path without indices + attribute name) at which `value` occurs as a
// whole attribute value or as the whole character data of an element
void findValue(const QDomElement &e, const QString &loc, const QString &value, QStringList &out)
{
    const QString here = loc + QChar('/') + QChar('{') + e.namespaceURI() + QChar('}') + localOf(e);
    auto am = e.attributes();
    for (int i = 0; i < am.count(); i++) {
        auto a = am.item(i).toAttr();
        if (!isNsDecl(a.name()) && a.value() == value) {
            out << here + QChar('@') + a.name();
        }
    }
    auto kids = childElements(e);
    if (kids.isEmpty()) {
        if (e.text() == value) {
            out << here + QStringLiteral("#text");
        }
    }
    for (const auto &k : kids) {
        findValue(k, here, value, out);
    }
}

struct ClassValues {
    // class -> concrete strings; every string is non-blank and has no leading/trailing white space
    QMap<QString, QStringList> fixed;
    ClassValues()
    {
        fixed["Plain"] = QStringList { "qxvplain", "Zz09.-_~!*()" };
        fixed["Lt"] = QStringList { "<", "q<z", "<b>x</b>", "</iq><iq>", "<![CDATA[x]]>", "<!--", "<?pi?>" };
        fixed["Gt"] = QStringList { ">", "q>z", "]]>", "a]]>b", "/>" };
        fixed["Amp"] = QStringList { "&", "q&z", "&amp;", "&lt;", "&#60;", "&#x3c;", "&unknown;", "&&" };
        fixed["Quot"] = QStringList { "\"", "q\"z", "\"/><inj x=\"", "\" y=\"1" };
        fixed["Apos"] = QStringList { "'", "q'z", "'/><inj x='", "' y='1" };
        fixed["NonAscii"] = QStringList { QStringLiteral("\u00e9"), QStringLiteral("q\u00e4\u00f6\u00fc\u00dfz"), QStringLiteral("\u65e5\u672c\u8a9e"),
                                          QStringLiteral("e\u0301"), QStringLiteral("x\u00a0y"), QStringLiteral("\ufffd"), QStringLiteral("x\u200b\u200fy"),
                                          QStringLiteral("\u0416\u05d0\u0639") };
        fixed["Astral"] = QStringList { QStringLiteral("\U0001F600"), QStringLiteral("q\U0001D11Ez"), QStringLiteral("\U0001F468\u200d\U0001F469\u200d\U0001F467"),
                                        QStringLiteral("\U0010FFFDx") };
        fixed["InnerSpace"] = QStringList { "a b", "a  b", "a   b c" };
        fixed["Newline"] = QStringList { "a\nb", "a\tb", "a\n\nb", "a \n b" };
    }
    static const QStringList &classes()
    {
        static const QStringList c { "Plain", "Lt", "Gt", "Amp", "Quot", "Apos", "NonAscii", "Astral", "InnerSpace", "Newline" };
        return c;
    }
    QString random(Ctx &ctx, const QString &cls) const
    {
        static const QString plain = QStringLiteral("abcXYZ0189-_.:;/@#%+=,!?()[]{}|~^$*`\\");
        const auto &own = fixed[cls];
        int n = 1 + int(ctx.rnd(10));
        QString s;
        for (int i = 0; i < n; i++) {
            switch (ctx.rnd(3)) {
            case 0:
                s += plain[int(ctx.rnd(plain.size()))];
                break;
            case 1: {
                // a character of the class itself
                const auto &src = own[0];
                s += (cls == "InnerSpace") ? QStringLiteral(" ") : (cls == "Newline") ? (ctx.rnd(2) ? QStringLiteral("\n") : QStringLiteral("\t")) : src;
                break;
            }
            default: {
                // any class: mixtures
                const auto &cl = classes()[int(ctx.rnd(classes().size()))];
                s += (cl == "InnerSpace") ? QStringLiteral(" ") : (cl == "Newline") ? QStringLiteral("\n") : fixed[cl][0];
            }
            }
        }
        // non-blank, no white space at the edges
        s = QStringLiteral("r") + s + QStringLiteral("z");
        if (ctx.rnd(2)) {
            s = s.mid(1, s.size() - 2).trimmed();
            if (s.isEmpty()) {
                s = own[0].trimmed().isEmpty() ? QStringLiteral("q") : own[0];
            }
        }
        return s;
    }
};

QJsonObject substJob(Ctx &ctx, const QString &seedId, const QString &seedXml, int nrand, int stride, int phase, int nfixed)
{
    static const ClassValues values;
    const auto &reg = codecRegistry();
    QJsonArray bad;
    int slots = 0, positionsTotal = 0, tried = 0, entries = 0;
    QJsonArray slotNames;

    QDomDocument doc;
    bool ok = false;
    auto root = parseWrapped(doc, seedXml, QString(), &ok);
    if (!ok) {
        return { { "e", "Subst" }, { "seed", seedId }, { "skipped", true }, { "entries", 0 }, { "positions", 0 }, { "slots", 0 }, { "tried", 0 }, { "bad", bad } };
    }
    QList<Position> positions;
    collectPositions(root, {}, positions);
    const auto seedCanon = canon(root, false, true);

    for (int ci = 0; ci < int(reg.size()); ci++) {
        const auto &c = reg[ci];
        if (c.parseOnly) {
            continue;
        }
        auto base = onePass(c, root);
        if (!base.admitted || base.refused || !base.wf1 || base.empty1 || base.refused2 || !base.fix || base.f1.n != 1) {
            continue;
        }
        // only documents in the library's own output form for this class
        if (canon(base.f1.single(), false, true) != seedCanon) {
            continue;
        }
        entries++;
        for (int pi = 0; pi < positions.size(); pi++) {
            if (stride > 1 && (pi + ci + phase) % stride != 0) {
                continue;
            }
            const auto &pos = positions[pi];
            positionsTotal++;
            // run the class on the seed with `v` substituted at the position
            auto runWith = [&](const QString &v, Pass &p, QDomDocument &keep) -> bool {
                keep = doc.cloneNode(true).toDocument();
                auto r = keep.documentElement().firstChildElement();
                auto target = follow(r, pos.path);
                if (target.isNull()) {
                    return false;
                }
                setValue(target, pos.name, v, false);
                // what goes to the parser is what a peer would have sent: serialize and parse again
                QDomDocument re;
                bool wf = false;
                auto el = parseWrapped(re, saveElement(r), QString(), &wf);
                if (!wf) {
                    return false;
                }
                keep = re;
                p = onePass(c, el);
                return p.admitted && !p.refused;
            };
            const QString probeA = QStringLiteral("qxvA%1").arg(pi);
            const QString probeB = QStringLiteral("qxv %1:/@\u00e9#?+=;,B").arg(pi);
            Pass pa, pb;
            QDomDocument ka, kb;
            if (!runWith(probeA, pa, ka) || !pa.wf1 || pa.f1.n != 1) {
                continue;
            }
            QStringList locA;
            findValue(pa.f1.single(), QString(), probeA, locA);
            if (locA.isEmpty()) {
                continue;
            }
            if (!runWith(probeB, pb, kb) || !pb.wf1 || pb.f1.n != 1) {
                continue;
            }
            QStringList locB;
            findValue(pb.f1.single(), QString(), probeB, locB);
            locA.sort();
            locB.sort();
            if (locA != locB) {
                continue;  // a typed field (URL, JID with normalisation, token list, ...): not free text
            }
            const auto structure = canon(pa.f1.root, false, false);
            if (canon(pb.f1.root, false, false) != structure) {
                continue;
            }
            slots++;
            if (slotNames.size() < 12) {
                slotNames.append(QString(c.name) + QChar(':') + locA.first());
            }
            // every class representative, then seeded random strings of every class
            QList<QPair<QString, QString>> vals;
            for (const auto &cls : ClassValues::classes()) {
                int taken = 0;
                for (const auto &v : values.fixed[cls]) {
                    if (nfixed > 0 && taken++ >= nfixed) {
                        break;
                    }
                    vals << qMakePair(cls, v);
                }
                for (int r = 0; r < nrand; r++) {
                    vals << qMakePair(cls, values.random(ctx, cls));
                }
            }
            for (const auto &cv : vals) {
                Pass pv;
                QDomDocument kv;
                tried++;
                auto fail = [&](const char *kind) {
                    if (bad.size() < 30) {
                        bad.append(QJsonObject { { "c", c.name }, { "k", kind }, { "slot", locA.first() }, { "cls", cv.first }, { "v", cv.second },
                                                 { "x1", clip(pv.x1) }, { "x2", clip(pv.x2) } });
                    }
                };
                if (!runWith(cv.second, pv, kv)) {
                    // the harness could not build the document (e.g. QDom refuses the value), or the
                    // class's type check depends on the value: outside the claim
                    tried--;
                    continue;
                }
                if (!pv.wf1) {
                    fail("illformed");
                    continue;
                }
                if (canon(pv.f1.root, false, false) != structure) {
                    fail("structure");
                    continue;
                }
                QStringList locV;
                if (pv.f1.n == 1) {
                    findValue(pv.f1.single(), QString(), cv.second, locV);
                }
                locV.sort();
                bool all = true;
                for (const auto &l : locA) {
                    all = all && locV.contains(l);
                }
                if (!all) {
                    fail("value");
                    continue;
                }
                if (pv.refused2) {
                    fail("reparse-rejected");
                    continue;
                }
                if (!pv.fix) {
                    fail("fixpoint");
                }
            }
        }
    }
    return { { "e", "Subst" }, { "seed", seedId }, { "skipped", false }, { "entries", entries }, { "positions", positionsTotal },
             { "slots", slots }, { "tried", tried }, { "slotNames", slotNames }, { "bad", bad } };
}

// --------------------------------------------------------------------------- seeds file
struct Seed {
    QString id, src, xml;
};

QVector<Seed> loadSeeds(const QString &path)
{
    QVector<Seed> r;
    QFile f(path);
    if (!f.open(QIODevice::ReadOnly)) {
        fprintf(stderr, "codec: cannot open seeds %s\n", qPrintable(path));
        exit(2);
    }
    while (!f.atEnd()) {
        auto line = f.readLine().trimmed();
        if (line.isEmpty()) {
            continue;
        }
        auto o = QJsonDocument::fromJson(line).object();
        r.append(Seed { o["id"].toString(), o["src"].toString(), o["xml"].toString() });
    }
    return r;
}

}  // namespace

static void quietMessages(QtMsgType, const QMessageLogContext &, const QString &) { }

QXV_DRIVER(codec)
{
    // parsers report unknown values with qWarning(): keep stderr for the sanitizers
    qInstallMessageHandler(quietMessages);
    const auto seeds = ctx.opt.contains("seeds") ? loadSeeds(ctx.opt["seeds"]) : QVector<Seed>();
    const auto jobs = ctx.behaviours();
    const int budget = ctx.optInt("alarm", 60);
    g_maxDescent = ctx.optInt("descent", 24);
    g_dump = ctx.opt.contains("dump");
    for (const auto &s : ctx.opt.value("skip").split(QChar(','), Qt::SkipEmptyParts)) {
        g_skip.insert(s);
    }
    g_only = ctx.opt.value("only");
    std::signal(SIGALRM, onAlarm);
    int n = 0;
    for (const auto &jv : jobs) {
        const auto job = jv.toObject();
        const auto kind = job["k"].toString();
        const auto caseId = job.contains("id") ? job["id"].toString() : QStringLiteral("j%1").arg(n);
        n++;
        // announce, flush: a crash or a hang is attributed to this job
        ctx.emit_({ { "e", "Begin" }, { "case", caseId } });
        ctx.out.flush();
        // UBSan reports and continues: a marker on stderr attributes its reports to the job
        fprintf(stderr, "qxv-case %s\n", qPrintable(caseId));
        qstrncpy(g_hangCase, caseId.toLatin1().constData(), sizeof(g_hangCase));
        alarm(budget);  // a hang ends the process (SIGALRM): "terminates ... within a step budget"
        ctx.cases++;
        QElapsedTimer jobTimer;
        jobTimer.start();
        TestClient::resetIdCounter();  // generated stanza ids do not depend on the jobs run before

        if (kind == "list") {
            QJsonArray a;
            for (const auto &c : codecRegistry()) {
                a.append(QJsonObject { { "name", c.name }, { "style", c.style }, { "checked", c.checked }, { "parseOnly", c.parseOnly } });
            }
            QJsonArray objs;
            for (const auto &t : objectTypes()) {
                objs.append(QJsonObject { { "name", t.name }, { "fields", jarr(t.fields) }, { "kinds", jarr(t.kinds) } });
            }
            ctx.emit_({ { "e", "List" }, { "case", caseId }, { "registry", a }, { "objects", objs } });
            continue;
        }
        if (kind == "scalar") {
            auto res = scalarChecks();
            res.insert("e", "Scalar");
            res.insert("case", caseId);
            ctx.emit_(res);
            continue;
        }
        if (kind == "obj") {
            auto res = objectCase(ctx, job["cls"].toString(), job["map"].toInt(), job["vals"].toArray(), job["variant"].toInt(), job["getters"].toBool(), job.contains("shape") ? job["shape"].toInt() : -1);
            res.insert("e", "Obj");
            res.insert("case", caseId);
            ctx.emit_(res);
            continue;
        }

        const int si = job["seed"].toInt();
        if (si < 0 || si >= seeds.size()) {
            ctx.emit_({ { "e", "Skip" }, { "case", caseId }, { "why", "no such seed" } });
            continue;
        }
        const auto &seed = seeds[si];

        if (kind == "subst") {
            auto res = substJob(ctx, seed.id, seed.xml, job["nrand"].toInt(), qMax(1, job["stride"].toInt(1)), job["phase"].toInt(), job["nfixed"].toInt());
            res.insert("case", caseId);
            ctx.emit_(res);
            continue;
        }

        QDomDocument doc;
        bool ok = false;
        auto root = parseWrapped(doc, seed.xml, QString(), &ok);
        if (!ok) {
            ctx.emit_({ { "e", "Skip" }, { "case", caseId }, { "seed", seed.id }, { "why", "seed is not namespace-well-formed" } });
            continue;
        }

        if (kind == "seed") {
            Sweep s;
            sweep(root, true, true, s);
            int sent = job["client"].toBool() ? feedClient(seed.xml, s.bad) : -1;
            ctx.emit_({ { "e", "Seed" }, { "case", caseId }, { "seed", seed.id }, { "src", seed.src }, { "done", true }, { "runs", s.runs },
                        { "admitted", s.admittedChecked }, { "reorder", s.reorderOnly }, { "empty", s.emptyOut }, { "notReadmitted", s.notReadmitted },
                        { "sent", sent }, { "own", s.own }, { "notes", s.notes }, { "dig", s.digests.join(QChar(',')) }, { "bad", s.bad } });
            continue;
        }

        // one mutated document: apply the steps to a copy of the seed, hand the result to the parsers
        auto runDocument = [&](const QString &docId, const QJsonArray &steps, int off, bool deep, bool withClient, int anchorIndex,
                               const QString &planText) {
            auto copy = doc.cloneNode(true).toDocument();
            auto droot = copy.documentElement().firstChildElement();
            auto anchor = droot;
            if (anchorIndex > 0) {
                QList<QPair<QString, QDomElement>> els;
                allElements(droot, QString(), els);
                anchor = els[anchorIndex % els.size()].second;
            }
            QJsonArray applied;
            int napplied = 0;
            bool nests = false;
            for (const auto &sv : steps) {
                nests = nests || sv.toObject()["op"].toString() == QLatin1String("Nest");
            }
            g_hugeLength = nests ? 5000 : 70000;
            for (const auto &sv : steps) {
                bool a = applyStep(copy, droot, anchor, sv.toObject(), off);
                applied.append(a);
                napplied += a;
            }
            // the mutated tree as a peer would send it: serialize, parse again
            const auto xml = saveElement(droot);
            QDomDocument mdoc;
            bool wf = false;
            auto mroot = parseWrapped(mdoc, xml, QString(), &wf);
            // outside the size bound of the quantifier (HugeAttr multiplied by Nest/DuplicateChild)
            const bool oversize = xml.size() > 300000;
            if (!wf || napplied == 0 || oversize) {
                ctx.emit_({ { "e", "Doc" }, { "case", docId }, { "seed", seed.id }, { "steps", steps }, { "off", off }, { "applied", applied },
                            { "wfdoc", wf }, { "oversize", oversize }, { "done", true }, { "runs", 0 }, { "admitted", 0 }, { "sent", -1 },
                            { "plan", planText }, { "bad", QJsonArray() } });
                return;
            }
            QElapsedTimer docTimer;
            docTimer.start();
            Sweep s;
            sweep(mroot, deep, false, s);
            int sent = withClient ? feedClient(xml, s.bad) : -1;
            ctx.emit_({ { "e", "Doc" }, { "case", docId }, { "seed", seed.id }, { "steps", steps }, { "off", off }, { "applied", applied },
                        { "wfdoc", true }, { "done", true }, { "runs", s.runs }, { "admitted", s.admittedChecked }, { "reorder", s.reorderOnly },
                        { "sent", sent }, { "size", xml.size() }, { "ms", int(docTimer.elapsed()) }, { "xml", g_dump ? xml : QString() },
                        { "plan", planText },
                        { "h", QString::fromLatin1(QCryptographicHash::hash(xml.toUtf8(), QCryptographicHash::Sha1).toHex().left(12)) }, { "bad", s.bad } });
        };

        if (kind == "mut") {
            // a plan of the abstract tree, anchored at an element of the seed
            QStringList ops;
            const auto steps = job["steps"].toArray();
            for (const auto &sv : steps) {
                const auto so = sv.toObject();
                ops << so["op"].toString() +
                        (so.contains("ns") ? QStringLiteral("({") + so["ns"].toString() + QChar('}') + so["name"].toString() +
                                 (so.contains("after") ? (so["after"].toBool() ? QStringLiteral(",after") : QStringLiteral(",before")) +
                                          (so["txt"].toBool() ? QStringLiteral(",text") : QString())
                                                       : QString()) +
                                 QChar(')')
                                            : QString());
            }
            runDocument(caseId, steps, job["off"].toInt(), job["deep"].toBool(), job["client"].toBool(), job["anchor"].toInt(),
                        ops.join(QChar('+')) + QStringLiteral("@anchor%1").arg(job["anchor"].toInt()));
            continue;
        }

        if (kind == "pos") {
            // every enabled one-step move of XmlMutate!Moves on the concrete seed: every element, every
            // attribute, every character-data position.  heavy: HugeAttr and Nest(2), Nest(3) at every
            // heavyEvery-th position (1 = everywhere, 0 = nowhere); from: resume behind a crashed document.
            // rot: rotation of the sampled positions and of the value tables; part of the job, so that a
            // restarted or confirming process numbers the documents of the job identically
            const int rot = job["rot"].toInt();
            const int heavyEvery = job["heavyEvery"].toInt();
            // second-line moves (DuplicateChild, SwapSiblings, MoveUnderSibling, Renamespace, Nest(3), EmptyAttr): at
            // every secondEvery-th position (1 = everywhere)
            const int secondEvery = qMax(1, job["secondEvery"].toInt(1));
            const int from = job["from"].toInt();
            const bool withClient = job["client"].toBool();
            QList<QPair<QString, QDomElement>> els;
            allElements(root, QChar('/') + root.tagName(), els);
            // concrete child-index paths
            QList<QJsonArray> paths;
            for (const auto &pe : els) {
                QJsonArray p;
                QList<int> rev;
                for (auto e = pe.second; e != root; e = e.parentNode().toElement()) {
                    int idx = 1;
                    for (auto s = e.previousSiblingElement(); !s.isNull(); s = s.previousSiblingElement()) {
                        idx++;
                    }
                    rev.prepend(idx);
                }
                for (int x : rev) {
                    p.append(x);
                }
                paths << p;
            }
            QList<QPair<QJsonObject, QString>> plans;
            int position = 0;
            for (int k = 0; k < els.size(); k++) {
                const auto &where = els[k].first;
                const auto &e = els[k].second;
                const auto p = paths[k];
                const bool heavy = heavyEvery > 0 && (position + si + rot) % heavyEvery == 0;
                const bool second = (position + si + rot) % secondEvery == 0;
                position++;
                auto add = [&](QJsonObject st, const QString &suffix = QString()) {
                    st["abs"] = true;
                    plans << qMakePair(st, st["op"].toString() + QChar(':') + where + suffix);
                };
                if (!p.isEmpty()) {
                    QJsonArray pp = p;
                    const int i = pp.last().toInt();
                    pp.removeLast();
                    const int nsib = childElements(e.parentNode().toElement()).size();
                    add({ { "op", "DeleteChild" }, { "p", pp }, { "i", i } });
                    if (second) {
                        add({ { "op", "DuplicateChild" }, { "p", pp }, { "i", i } });
                        if (i < nsib) {
                            add({ { "op", "SwapSiblings" }, { "p", pp }, { "i", i } });
                        }
                        if (nsib >= 2) {
                            add({ { "op", "MoveUnderSibling" }, { "p", pp }, { "i", i } });
                        }
                    }
                    add({ { "op", "Rename" }, { "p", p } });
                    if (i < nsib && !e.text().isEmpty() && childElements(e).isEmpty()) {
                        add({ { "op", "MoveText" }, { "p", p } });
                    }
                }
                // Renamespace: at every element that has element children (a container that keeps its valid content
                // but leaves the namespace its parser expects), otherwise second-line
                if (second || !childElements(e).isEmpty()) {
                    add({ { "op", "Renamespace" }, { "p", p } });
                }
                if (second) {
                    add({ { "op", "Nest" }, { "p", p }, { "d", 1 } }, QStringLiteral("*3"));
                }
                if (heavy) {
                    add({ { "op", "Nest" }, { "p", p }, { "d", 2 } }, QStringLiteral("*8"));
                    add({ { "op", "Nest" }, { "p", p }, { "d", 3 } }, QStringLiteral("*24"));
                }
                for (const auto &a : attrRefs(e)) {
                    const bool heavyA = heavyEvery > 0 && (position + si + rot) % heavyEvery == 0;
                    const bool secondA = (position + si + rot) % secondEvery == 0;
                    position++;
                    const auto suffix = (a.name == QLatin1String("#text") ? QString() : QStringLiteral("@")) + a.name;
                    const auto vk = kindOfValue(a.value);
                    add({ { "op", "DropAttr" }, { "p", p }, { "a", a.name } }, suffix);
                    if (secondA) {
                        add({ { "op", "EmptyAttr" }, { "p", p }, { "a", a.name } }, suffix);
                    }
                    if (heavyA) {
                        add({ { "op", "HugeAttr" }, { "p", p }, { "a", a.name } }, suffix);
                    }
                    if (vk == QLatin1String("num")) {
                        add({ { "op", "NegativeAttr" }, { "p", p }, { "a", a.name } }, suffix);
                    }
                    if (vk == QLatin1String("num") || a.name == QLatin1String("#text")) {
                        add({ { "op", "NonNumericAttr" }, { "p", p }, { "a", a.name } }, suffix);
                    }
                    if (vk == QLatin1String("enum")) {
                        add({ { "op", "UnknownEnum" }, { "p", p }, { "a", a.name } }, suffix);
                    }
                }
            }
            ctx.emit_({ { "e", "Positions" }, { "case", caseId }, { "seed", seed.id }, { "elements", els.size() }, { "positions", position },
                        { "plans", plans.size() }, { "from", from } });
            const int upto = job["upto"].toInt() > 0 ? qMin(job["upto"].toInt(), plans.size()) : plans.size();
            for (int n2 = from; n2 < upto; n2++) {
                const auto docId = caseId + QChar('.') + QString::number(n2);
                ctx.emit_({ { "e", "Begin" }, { "case", docId }, { "seed", seed.id }, { "src", seed.src }, { "plan", plans[n2].second } });
                ctx.out.flush();
                fprintf(stderr, "qxv-case %s\n", qPrintable(docId));
                qstrncpy(g_hangCase, docId.toLatin1().constData(), sizeof(g_hangCase));
                alarm(budget);
                TestClient::resetIdCounter();
                runDocument(docId, QJsonArray { plans[n2].first }, si * 131 + n2 + rot, false, withClient, 0, plans[n2].second);
            }
            continue;
        }
        ctx.emit_({ { "e", "Skip" }, { "case", caseId }, { "why", "unknown job kind" } });
    }
    alarm(0);
    g_client.reset();
    if (ctx.opt.contains("profile")) {
        for (auto it = g_profile.begin(); it != g_profile.end(); ++it) {
            fprintf(stderr, "profile %8.1f ms %s\n", it.value() / 1e6, codecRegistry()[it.key()].name);
        }
    }
    return 0;
}
