// qxv iqapi — drives the request APIs of the bundled managers along behaviours of spec/IqApi.tla
// (property C07, manager layer).  A real QXmppClient with the managers registered is connected
// to a scripted server on 127.0.0.1 (srvscript.h, stream management with resumption); an API is
// called, the server sees the IQ requests it produces and answers the oldest unanswered one the
// way the behaviour prescribes; the continuation of the returned task counts its runs.
//
// Behaviour: {"steps":[{"a":"Call","api":{"k":"gen","i":7},"name":"pubsub.requestNodes"},
//                      {"a":"Reply","from":"stranger","p":"empty"},{"a":"Reply","from":"addressee","p":"foreign"},
//                      {"a":"Close"}]}
//   k = "gen": entry i of the registry below; "mam"/"mame": QXmppMamManager::retrieveMessages without /
//   with an encryption extension (then also Msg{enc}, DecryptDone{i}).
// Trace line per step (see spec/IqApiTrace.tla):
//   o = {n, v, pend, jobs, newreq}   n runs of the task's continuation, v "none|ok|error",
//   pend = requests of this call the server has received and not answered (ground truth of the
//   scripted server), jobs = decryption jobs the stub extension has been given and not finished,
//   newreq = requests that arrived during this step.
// `qxv iqapi --list=1` prints the registry (names) as one JSON array.
#include "qxv.h"
#include "srvscript.h"

#include "QXmppBlockingManager.h"
#include "QXmppDiscoveryManager.h"
#include "QXmppE2eeExtension.h"
#include "QXmppEntityTimeManager.h"
#include "QXmppExternalServiceDiscoveryManager.h"
#include "QXmppGeolocItem.h"
#include "QXmppEntityTimeIq.h"
#include "QXmppExternalService.h"
#include "QXmppDiscoveryIq.h"
#include "QXmppRosterIq.h"
#include "QXmppPubSubAffiliation.h"
#include "QXmppPubSubSubscription.h"
#include "QXmppMamIq.h"
#include "QXmppHttpUploadIq.h"
#include "QXmppMamManager.h"
#include "QXmppMessage.h"
#include "QXmppMixConfigItem.h"
#include "QXmppMixInfoItem.h"
#include "QXmppMixInvitation.h"
#include "QXmppMixParticipantItem.h"
#include "QXmppMixManager.h"
#include "QXmppMovedManager.h"
#include "QXmppPromise.h"
#include "QXmppPubSubBaseItem.h"
#include "QXmppPubSubManager.h"
#include "QXmppPubSubNodeConfig.h"
#include "QXmppPubSubPublishOptions.h"
#include "QXmppPubSubSubscribeOptions.h"
#include "QXmppRosterManager.h"
#include "QXmppUploadRequestManager.h"
#include "QXmppUserLocationManager.h"
#include "QXmppUserTuneItem.h"
#include "QXmppUserTuneManager.h"
#include "QXmppVCardIq.h"
#include "QXmppVCardManager.h"

#include <QMimeDatabase>

#include <functional>
#include <memory>
#include <vector>

namespace {

const QString kOwnBare = QStringLiteral("me@example.org");
const QString kOwnFull = QStringLiteral("me@example.org/dev1");
const QString kSvc = QStringLiteral("pubsub.example.org");
const QString kChan = QStringLiteral("channel@mix.example.org");
const QString kMix = QStringLiteral("mix.example.org");
const QString kPeer = QStringLiteral("c1@contacts.example/r1");
const QString kPeerBare = QStringLiteral("c1@contacts.example");

template<typename T>
struct HasError : std::false_type { };
template<typename... Ts>
struct HasError<std::variant<Ts...>> : std::bool_constant<(std::is_same_v<Ts, QXmppError> || ...)> { };

// stub encryption extension: a message is "encrypted" iff it carries <encrypted xmlns='urn:qxv:enc'/>;
// decryption jobs stay open until the behaviour finishes them
class StubE2ee : public QXmppE2eeExtension
{
public:
    std::vector<std::pair<QXmppPromise<MessageDecryptResult>, QXmppMessage>> jobs;
    std::vector<bool> finished;

    QXmppTask<MessageEncryptResult> encryptMessage(QXmppMessage &&m, const std::optional<QXmppSendStanzaParams> &) override
    {
        QXmppPromise<MessageEncryptResult> p;
        p.finish(MessageEncryptResult { std::make_unique<QXmppMessage>(std::move(m)) });
        return p.task();
    }
    QXmppTask<MessageDecryptResult> decryptMessage(QXmppMessage &&m) override
    {
        jobs.emplace_back(QXmppPromise<MessageDecryptResult>(), std::move(m));
        finished.push_back(false);
        return jobs.back().first.task();
    }
    QXmppTask<IqEncryptResult> encryptIq(QXmppIq &&iq, const std::optional<QXmppSendStanzaParams> &) override
    {
        QXmppPromise<IqEncryptResult> p;
        p.finish(IqEncryptResult { std::make_unique<QXmppIq>(std::move(iq)) });
        return p.task();
    }
    QXmppTask<IqDecryptResult> decryptIq(const QDomElement &) override
    {
        QXmppPromise<IqDecryptResult> p;
        p.finish(IqDecryptResult { NotEncrypted {} });
        return p.task();
    }
    bool isEncrypted(const QDomElement &el) override
    {
        return !el.firstChildElement("encrypted").isNull();
    }
    bool isEncrypted(const QXmppMessage &) override { return false; }

    int open() const
    {
        int k = 0;
        for (bool f : finished) {
            k += !f;
        }
        return k;
    }
    bool finish(size_t k)
    {
        if (k >= jobs.size() || finished[k]) {
            return false;
        }
        finished[k] = true;
        auto msg = jobs[k].second;
        msg.setBody(QStringLiteral("decrypted"));
        jobs[k].first.finish(MessageDecryptResult { std::move(msg) });
        return true;
    }
};

struct Req {
    QString id, to, queryId;
};

struct ApiEnv {
    TestClient c;
    SrvScript srv;
    QObject ctxObj;
    StubE2ee e2ee;
    QXmppDiscoveryManager *disco;
    QXmppPubSubManager *pubsub;
    QXmppMamManager *mam;
    QXmppRosterManager *roster;
    QXmppVCardManager *vcard;
    QXmppEntityTimeManager *etime;
    QXmppBlockingManager *blocking;
    QXmppUploadRequestManager *upload;
    QXmppExternalServiceDiscoveryManager *extdisco;
    QXmppMixManager *mix;
    QXmppMovedManager *moved;
    QXmppUserLocationManager *geoloc;
    QXmppUserTuneManager *tune;
    int n = 0;
    QString v = QStringLiteral("none");
    QList<Req> pend;
    std::optional<Req> lastAnswered;
    int newreq = 0;
    std::vector<int> encIndex;  // message number (1-based) of the k-th encrypted message

    explicit ApiEnv(LoopPeer &peer) : c(TestClient::NoExtensions, kOwnFull), srv(peer, c)
    {
        disco = c.addNewExtension<QXmppDiscoveryManager>();
        pubsub = c.addNewExtension<QXmppPubSubManager>();
        mam = c.addNewExtension<QXmppMamManager>();
        roster = c.addNewExtension<QXmppRosterManager>(&c);
        vcard = c.addNewExtension<QXmppVCardManager>();
        etime = c.addNewExtension<QXmppEntityTimeManager>();
        blocking = c.addNewExtension<QXmppBlockingManager>();
        upload = c.addNewExtension<QXmppUploadRequestManager>();
        extdisco = c.addNewExtension<QXmppExternalServiceDiscoveryManager>();
        mix = c.addNewExtension<QXmppMixManager>();
        moved = c.addNewExtension<QXmppMovedManager>();
        geoloc = c.addNewExtension<QXmppUserLocationManager>();
        tune = c.addNewExtension<QXmppUserTuneManager>();
    }

    template<typename T>
    void track(QXmppTask<T> &&task)
    {
        task.then(&ctxObj, [this](T &&val) {
            ++n;
            if constexpr (HasError<T>::value) {
                v = std::holds_alternative<QXmppError>(val) ? "error" : "ok";
            } else {
                v = "ok";
            }
        });
    }

    // requests the server has received since the last call
    void absorbRequests()
    {
        const auto data = srv.absorb();
        if (data.trimmed().isEmpty() || data.contains("</stream:stream>")) {
            return;
        }
        auto doc = qxvParseStream(QString::fromUtf8(data));
        for (auto el = doc.documentElement().firstChildElement(); !el.isNull(); el = el.nextSiblingElement()) {
            const auto type = el.attribute("type");
            if (el.tagName() == "iq" && (type == "get" || type == "set")) {
                pend << Req { el.attribute("id"), el.attribute("to"), el.firstChildElement("query").attribute("queryid") };
                ++newreq;
            }
        }
    }

    QJsonObject observe()
    {
        QJsonObject o { { "n", n }, { "v", v }, { "pend", pend.size() }, { "jobs", e2ee.open() }, { "newreq", newreq } };
        newreq = 0;
        c.takeSent();
        return o;
    }
};

using ApiFn = std::function<void(ApiEnv &)>;
struct Api {
    const char *name;
    ApiFn fn;
};

const std::vector<Api> &registry()
{
    using Item = QXmppPubSubBaseItem;
    static const std::vector<Api> r = {
        // --- client
        { "client.sendIq", [](ApiEnv &e) { QXmppIq iq(QXmppIq::Get); iq.setTo(kPeer); e.track(e.c.sendIq(std::move(iq))); } },
        { "client.sendGenericIq", [](ApiEnv &e) { QXmppIq iq(QXmppIq::Set); iq.setTo(kPeer); e.track(e.c.sendGenericIq(std::move(iq))); } },
        { "client.sendSensitiveIq", [](ApiEnv &e) { QXmppIq iq(QXmppIq::Get); iq.setTo(kPeer); e.track(e.c.sendSensitiveIq(std::move(iq))); } },
        { "client.sendSensitiveIq+e2ee", [](ApiEnv &e) { e.c.setEncryptionExtension(&e.e2ee); QXmppIq iq(QXmppIq::Get); iq.setTo(kPeer); e.track(e.c.sendSensitiveIq(std::move(iq))); } },
        // --- service discovery
        { "disco.requestDiscoInfo", [](ApiEnv &e) { e.track(e.disco->requestDiscoInfo(kPeer)); } },
        { "disco.requestDiscoInfo(node)", [](ApiEnv &e) { e.track(e.disco->requestDiscoInfo(kSvc, "n1")); } },
        { "disco.requestDiscoItems", [](ApiEnv &e) { e.track(e.disco->requestDiscoItems(kSvc)); } },
        { "disco.requestDiscoItems(own server)", [](ApiEnv &e) { e.track(e.disco->requestDiscoItems("example.org", "n1")); } },
        // --- PubSub
        { "pubsub.requestNodes", [](ApiEnv &e) { e.track(e.pubsub->requestNodes(kSvc)); } },
        { "pubsub.createNode", [](ApiEnv &e) { e.track(e.pubsub->createNode(kSvc, "n1")); } },
        { "pubsub.createNode(config)", [](ApiEnv &e) { e.track(e.pubsub->createNode(kSvc, "n1", QXmppPubSubNodeConfig())); } },
        { "pubsub.createInstantNode", [](ApiEnv &e) { e.track(e.pubsub->createInstantNode(kSvc)); } },
        { "pubsub.createInstantNode(config)", [](ApiEnv &e) { e.track(e.pubsub->createInstantNode(kSvc, QXmppPubSubNodeConfig())); } },
        { "pubsub.deleteNode", [](ApiEnv &e) { e.track(e.pubsub->deleteNode(kSvc, "n1")); } },
        { "pubsub.requestItemIds", [](ApiEnv &e) { e.track(e.pubsub->requestItemIds(kSvc, "n1")); } },
        { "pubsub.requestItem", [](ApiEnv &e) { e.track(e.pubsub->requestItem<Item>(kSvc, "n1", "item1")); } },
        { "pubsub.requestItem(Current)", [](ApiEnv &e) { e.track(e.pubsub->requestItem<Item>(kSvc, "n1", QXmppPubSubManager::Current)); } },
        { "pubsub.requestItems", [](ApiEnv &e) { e.track(e.pubsub->requestItems<Item>(kSvc, "n1")); } },
        { "pubsub.requestItems(ids)", [](ApiEnv &e) { e.track(e.pubsub->requestItems<Item>(kSvc, "n1", QStringList { "a", "b" })); } },
        { "pubsub.publishItem", [](ApiEnv &e) { e.track(e.pubsub->publishItem(kSvc, "n1", Item("item1"))); } },
        { "pubsub.publishItem(options)", [](ApiEnv &e) { e.track(e.pubsub->publishItem(kSvc, "n1", Item("item1"), QXmppPubSubPublishOptions())); } },
        { "pubsub.publishItems", [](ApiEnv &e) { e.track(e.pubsub->publishItems(kSvc, "n1", QVector<Item> { Item("a"), Item("b") })); } },
        { "pubsub.publishItems(options)", [](ApiEnv &e) { e.track(e.pubsub->publishItems(kSvc, "n1", QVector<Item> { Item("a") }, QXmppPubSubPublishOptions())); } },
        { "pubsub.retractItem", [](ApiEnv &e) { e.track(e.pubsub->retractItem(kSvc, "n1", "item1")); } },
        { "pubsub.retractItem(Current)", [](ApiEnv &e) { e.track(e.pubsub->retractItem(kSvc, "n1", QXmppPubSubManager::Current)); } },
        { "pubsub.purgeItems", [](ApiEnv &e) { e.track(e.pubsub->purgeItems(kSvc, "n1")); } },
        { "pubsub.requestSubscriptions", [](ApiEnv &e) { e.track(e.pubsub->requestSubscriptions(kSvc)); } },
        { "pubsub.requestSubscriptions(node)", [](ApiEnv &e) { e.track(e.pubsub->requestSubscriptions(kSvc, "n1")); } },
        { "pubsub.requestNodeAffiliations", [](ApiEnv &e) { e.track(e.pubsub->requestNodeAffiliations(kSvc, "n1")); } },
        { "pubsub.requestAffiliations", [](ApiEnv &e) { e.track(e.pubsub->requestAffiliations(kSvc)); } },
        { "pubsub.requestAffiliations(node)", [](ApiEnv &e) { e.track(e.pubsub->requestAffiliations(kSvc, "n1")); } },
        { "pubsub.requestSubscribeOptions", [](ApiEnv &e) { e.track(e.pubsub->requestSubscribeOptions(kSvc, "n1")); } },
        { "pubsub.requestSubscribeOptions(jid)", [](ApiEnv &e) { e.track(e.pubsub->requestSubscribeOptions(kSvc, "n1", kOwnBare)); } },
        { "pubsub.setSubscribeOptions", [](ApiEnv &e) { e.track(e.pubsub->setSubscribeOptions(kSvc, "n1", QXmppPubSubSubscribeOptions())); } },
        { "pubsub.setSubscribeOptions(jid)", [](ApiEnv &e) { e.track(e.pubsub->setSubscribeOptions(kSvc, "n1", QXmppPubSubSubscribeOptions(), kOwnBare)); } },
        { "pubsub.requestNodeConfiguration", [](ApiEnv &e) { e.track(e.pubsub->requestNodeConfiguration(kSvc, "n1")); } },
        { "pubsub.configureNode", [](ApiEnv &e) { e.track(e.pubsub->configureNode(kSvc, "n1", QXmppPubSubNodeConfig())); } },
        { "pubsub.cancelNodeConfiguration", [](ApiEnv &e) { e.track(e.pubsub->cancelNodeConfiguration(kSvc, "n1")); } },
        { "pubsub.subscribeToNode", [](ApiEnv &e) { e.track(e.pubsub->subscribeToNode(kSvc, "n1", kOwnBare)); } },
        { "pubsub.unsubscribeFromNode", [](ApiEnv &e) { e.track(e.pubsub->unsubscribeFromNode(kSvc, "n1", kOwnBare)); } },
        { "pubsub.requestOwnPepNodes", [](ApiEnv &e) { e.track(e.pubsub->requestOwnPepNodes()); } },
        { "pubsub.createOwnPepNode", [](ApiEnv &e) { e.track(e.pubsub->createOwnPepNode("n1")); } },
        { "pubsub.deleteOwnPepNode", [](ApiEnv &e) { e.track(e.pubsub->deleteOwnPepNode("n1")); } },
        { "pubsub.requestOwnPepItem", [](ApiEnv &e) { e.track(e.pubsub->requestOwnPepItem<Item>("n1", "item1")); } },
        { "pubsub.requestOwnPepItems", [](ApiEnv &e) { e.track(e.pubsub->requestOwnPepItems<Item>("n1")); } },
        { "pubsub.requestOwnPepItemIds", [](ApiEnv &e) { e.track(e.pubsub->requestOwnPepItemIds("n1")); } },
        { "pubsub.publishOwnPepItem", [](ApiEnv &e) { e.track(e.pubsub->publishOwnPepItem("n1", Item("item1"))); } },
        { "pubsub.publishOwnPepItem(options)", [](ApiEnv &e) { e.track(e.pubsub->publishOwnPepItem("n1", Item("item1"), QXmppPubSubPublishOptions())); } },
        { "pubsub.publishOwnPepItems", [](ApiEnv &e) { e.track(e.pubsub->publishOwnPepItems("n1", QVector<Item> { Item("a") })); } },
        { "pubsub.retractOwnPepItem", [](ApiEnv &e) { e.track(e.pubsub->retractOwnPepItem("n1", "item1")); } },
        { "pubsub.purgeOwnPepItems", [](ApiEnv &e) { e.track(e.pubsub->purgeOwnPepItems("n1")); } },
        { "pubsub.requestOwnPepNodeConfiguration", [](ApiEnv &e) { e.track(e.pubsub->requestOwnPepNodeConfiguration("n1")); } },
        { "pubsub.configureOwnPepNode", [](ApiEnv &e) { e.track(e.pubsub->configureOwnPepNode("n1", QXmppPubSubNodeConfig())); } },
        { "pubsub.cancelOwnPepNodeConfiguration", [](ApiEnv &e) { e.track(e.pubsub->cancelOwnPepNodeConfiguration("n1")); } },
        // --- PEP based managers
        { "geoloc.request", [](ApiEnv &e) { e.track(e.geoloc->request(kPeerBare)); } },
        { "geoloc.publish", [](ApiEnv &e) { e.track(e.geoloc->publish(QXmppGeolocItem())); } },
        { "tune.request", [](ApiEnv &e) { e.track(e.tune->request(kPeerBare)); } },
        { "tune.publish", [](ApiEnv &e) { e.track(e.tune->publish(QXmppTuneItem())); } },
        // --- roster, vCard, time, blocking, upload, external services, moved
        { "roster.addRosterItem", [](ApiEnv &e) { e.track(e.roster->addRosterItem(kPeerBare, "name")); } },
        { "roster.removeRosterItem", [](ApiEnv &e) { e.track(e.roster->removeRosterItem(kPeerBare)); } },
        { "roster.renameRosterItem(unknown)", [](ApiEnv &e) { e.track(e.roster->renameRosterItem(kPeerBare, "name")); } },
        { "vcard.fetchVCard", [](ApiEnv &e) { e.track(e.vcard->fetchVCard(kPeerBare)); } },
        { "vcard.setVCard", [](ApiEnv &e) { e.track(e.vcard->setVCard(QXmppVCardIq())); } },
        { "time.requestEntityTime", [](ApiEnv &e) { e.track(e.etime->requestEntityTime(kPeer)); } },
        { "blocking.fetchBlocklist", [](ApiEnv &e) { e.track(e.blocking->fetchBlocklist()); } },
        { "blocking.block", [](ApiEnv &e) { e.track(e.blocking->block(kPeerBare)); } },
        { "blocking.unblock", [](ApiEnv &e) { e.track(e.blocking->unblock(QVector<QString> { kPeerBare, "x@y.example" })); } },
        { "upload.requestSlot", [](ApiEnv &e) { e.track(e.upload->requestSlot("f.txt", 10, QMimeDatabase().mimeTypeForName("text/plain"), "upload.example.org")); } },
        { "upload.requestSlot(no service)", [](ApiEnv &e) { e.track(e.upload->requestSlot("f.txt", 10, QMimeDatabase().mimeTypeForName("text/plain"))); } },
        { "extdisco.requestServices", [](ApiEnv &e) { e.track(e.extdisco->requestServices("example.org")); } },
        { "moved.publishStatement", [](ApiEnv &e) { e.track(e.moved->publishStatement("new@example.net")); } },
        { "moved.verifyStatement", [](ApiEnv &e) { e.track(e.moved->verifyStatement("old@example.net", kPeerBare)); } },
        // --- MIX
        { "mix.createChannel", [](ApiEnv &e) { e.track(e.mix->createChannel(kMix, "channel")); } },
        { "mix.createChannel(random)", [](ApiEnv &e) { e.track(e.mix->createChannel(kMix)); } },
        { "mix.requestChannelJids", [](ApiEnv &e) { e.track(e.mix->requestChannelJids(kMix)); } },
        { "mix.requestChannelNodes", [](ApiEnv &e) { e.track(e.mix->requestChannelNodes(kChan)); } },
        { "mix.requestChannelConfiguration", [](ApiEnv &e) { e.track(e.mix->requestChannelConfiguration(kChan)); } },
        { "mix.updateChannelConfiguration", [](ApiEnv &e) { e.track(e.mix->updateChannelConfiguration(kChan, QXmppMixConfigItem())); } },
        { "mix.requestChannelInformation", [](ApiEnv &e) { e.track(e.mix->requestChannelInformation(kChan)); } },
        { "mix.updateChannelInformation", [](ApiEnv &e) { e.track(e.mix->updateChannelInformation(kChan, QXmppMixInfoItem())); } },
        { "mix.joinChannel", [](ApiEnv &e) { e.track(e.mix->joinChannel(kChan, "nick")); } },
        { "mix.updateNickname", [](ApiEnv &e) { e.track(e.mix->updateNickname(kChan, "nick2")); } },
        { "mix.updateSubscriptions", [](ApiEnv &e) { e.track(e.mix->updateSubscriptions(kChan)); } },
        { "mix.requestInvitation", [](ApiEnv &e) { e.track(e.mix->requestInvitation(kChan, kPeerBare)); } },
        { "mix.requestAllowedJids", [](ApiEnv &e) { e.track(e.mix->requestAllowedJids(kChan)); } },
        { "mix.allowJid", [](ApiEnv &e) { e.track(e.mix->allowJid(kChan, kPeerBare)); } },
        { "mix.disallowJid", [](ApiEnv &e) { e.track(e.mix->disallowJid(kChan, kPeerBare)); } },
        { "mix.disallowAllJids", [](ApiEnv &e) { e.track(e.mix->disallowAllJids(kChan)); } },
        { "mix.requestBannedJids", [](ApiEnv &e) { e.track(e.mix->requestBannedJids(kChan)); } },
        { "mix.banJid", [](ApiEnv &e) { e.track(e.mix->banJid(kChan, kPeerBare)); } },
        { "mix.unbanJid", [](ApiEnv &e) { e.track(e.mix->unbanJid(kChan, kPeerBare)); } },
        { "mix.unbanAllJids", [](ApiEnv &e) { e.track(e.mix->unbanAllJids(kChan)); } },
        { "mix.requestParticipants", [](ApiEnv &e) { e.track(e.mix->requestParticipants(kChan)); } },
        { "mix.leaveChannel", [](ApiEnv &e) { e.track(e.mix->leaveChannel(kChan)); } },
        { "mix.deleteChannel", [](ApiEnv &e) { e.track(e.mix->deleteChannel(kChan)); } },
    };
    return r;
}

QString replyXml(const Req &r, bool stranger, const QString &p, int nmsgs)
{
    QString from = stranger ? QStringLiteral("mallory@evil.example/x") : r.to;
    const auto fromA = from.isEmpty() ? QString() : QStringLiteral(" from='%1'").arg(from);
    if (p == "error") {
        return QStringLiteral("<iq type='error' id='%1'%2 to='%3'><error type='cancel'><item-not-found "
                              "xmlns='urn:ietf:params:xml:ns:xmpp-stanzas'/></error></iq>")
            .arg(r.id, fromA, kOwnFull);
    }
    QString payload;
    if (p == "foreign") {
        payload = QStringLiteral("<foreign xmlns='urn:qxv:foreign'><junk a='1'/><query xmlns='urn:qxv:other'/></foreign>");
    } else if (p == "fin") {
        payload = QStringLiteral("<fin xmlns='urn:xmpp:mam:2' complete='true'><set xmlns='http://jabber.org/protocol/rsm'><count>%1</count></set></fin>").arg(nmsgs);
    }
    return QStringLiteral("<iq type='result' id='%1'%2 to='%3'>%4</iq>").arg(r.id, fromA, kOwnFull, payload);
}

void runBehaviour(Ctx &ctx, LoopPeer &peer, const QString &caseId, const QJsonArray &steps)
{
    ctx.reset(caseId);
    ctx.out.flush();  // a crash inside the library must not lose the executions already recorded
    ApiEnv e(peer);
    if (!e.srv.connect(SrvScript::SmR)) {
        ctx.emit_({ { "e", "Abort" }, { "at", "connect" }, { "why", e.srv.why } });
        return;
    }
    e.srv.absorb();  // whatever the managers ask for on their own when a session opens is not part of the call
    int nmsgs = 0;
    bool closed = false;
    for (const auto &sv : steps) {
        const auto s = sv.toObject();
        const auto a = s["a"].toString();
        QJsonObject ev = s;
        ev.remove("a");
        ev["e"] = a;
        bool ok = true;
        QString why;
        if (a == "Call") {
            const auto api = s["api"].toObject();
            const auto k = api["k"].toString();
            const qint64 sent0 = e.c.sentBytes, recv0 = peer.totalReceived;
            if (k == "gen") {
                const int i = api["i"].toInt();
                if (i < 1 || i > int(registry().size())) {
                    fprintf(stderr, "iqapi: no registry entry %d\n", i);
                    exit(2);
                }
                ev["name"] = registry()[i - 1].name;
                registry()[i - 1].fn(e);
            } else {
                if (k == "mame") {
                    e.c.setEncryptionExtension(&e.e2ee);
                }
                ev["name"] = k == "mame" ? "mam.retrieveMessages+e2ee" : "mam.retrieveMessages";
                e.track(e.mam->retrieveMessages({}, {}, kPeerBare));
            }
            qxvDrain(2);
            ok = e.srv.flushClient(sent0, recv0);
            why = "request did not reach the server";
            e.absorbRequests();
        } else if (a == "Reply") {
            const bool stranger = s["from"].toString() == "stranger";
            const auto p = s["p"].toString();
            if (closed) {
                ok = false;
                why = "session closed";
            } else if (!e.pend.isEmpty()) {
                const auto r = e.pend.first();
                if (!stranger) {
                    e.pend.removeFirst();
                    e.lastAnswered = r;
                }
                ok = e.srv.deliver(replyXml(r, stranger, p, nmsgs));
                why = e.srv.why;
                e.absorbRequests();
            } else if (e.lastAnswered) {
                ok = e.srv.deliver(replyXml(*e.lastAnswered, stranger, p, nmsgs));  // duplicate of an answer already given
                why = e.srv.why;
                e.absorbRequests();
            }
        } else if (a == "Msg") {
            if (closed || e.pend.isEmpty() || e.pend.first().queryId.isEmpty()) {
                ok = false;
                why = "no archive query outstanding";
            } else {
                const auto r = e.pend.first();
                ++nmsgs;
                if (s["enc"].toBool()) {
                    e.encIndex.push_back(nmsgs);
                }
                ok = e.srv.deliver(QStringLiteral("<message from='%1' to='%2'><result xmlns='urn:xmpp:mam:2' queryid='%3' id='a%4'>"
                                                  "<forwarded xmlns='urn:xmpp:forward:0'><delay xmlns='urn:xmpp:delay' stamp='2020-01-01T00:00:00Z'/>"
                                                  "<message xmlns='jabber:client' from='%5' to='%2' type='chat'><body>m%4</body>%6</message>"
                                                  "</forwarded></result></message>")
                                       .arg(r.to.isEmpty() ? kOwnBare : r.to, kOwnFull, r.queryId)
                                       .arg(nmsgs)
                                       .arg(kPeer, s["enc"].toBool() ? QStringLiteral("<encrypted xmlns='urn:qxv:enc'/>") : QString()));
                why = e.srv.why;
            }
        } else if (a == "DecryptDone") {
            // job k of the stub = k-th encrypted message; the behaviour names the message number
            const int msgNo = s["i"].toInt();
            int k = -1;
            for (size_t j = 0; j < e.encIndex.size(); j++) {
                if (e.encIndex[j] == msgNo) {
                    k = int(j);
                }
            }
            ok = k >= 0 && e.e2ee.finish(size_t(k));
            why = "no such decryption job";
            qxvDrain(2);
        } else if (a == "Close") {
            ok = !closed && e.srv.userDisconnect();
            why = e.srv.why;
            closed = true;
            e.pend.clear();
        } else {
            fprintf(stderr, "iqapi: unknown step %s\n", qPrintable(a));
            exit(2);
        }
        if (!ok) {
            ctx.emit_({ { "e", "Abort" }, { "at", a }, { "why", why } });
            break;
        }
        ev["o"] = e.observe();
        ctx.emit_(ev);
        ctx.out.flush();  // if the next step kills the process this line says how far the execution got
    }
    if (peer.isOpen()) {
        peer.cut();
        qxvSpin([&] { return !e.c.isConnected(); }, 1000);
    }
}

}  // namespace

QXV_DRIVER(iqapi)
{
    if (ctx.opt.contains("list")) {
        QStringList names;
        for (const auto &a : registry()) {
            names << a.name;
        }
        ctx.out.write(QJsonDocument(jarr(names)).toJson(QJsonDocument::Compact) + "\n");
        return 0;
    }
    LoopPeer peer;
    auto behs = ctx.behaviours();
    int n = 0;
    const int first = ctx.optInt("first", 1);  // resume after an execution that crashed the process
    for (const auto &bv : behs) {
        if (++n < first) {
            continue;
        }
        runBehaviour(ctx, peer, QString("a%1").arg(n), bv.toObject()["steps"].toArray());
    }
    return 0;
}
