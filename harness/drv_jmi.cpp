// qxv jmi — drives a real QXmppClient + QXmppCarbonManagerV2 + QXmppJingleMessageInitiationManager along
// behaviours of spec/Jmi.tla (extension `jmi`).
//
// The client is the in-memory TestClient of fixture.h.  How a send completes is the `mode` of the behaviour:
//   "sm"    socketpair + stream management on: the task of QXmppClient::send() finishes when the stanza is
//           acknowledged (step Ack: <a h='n'/> through the real receive path) or when the cache is reset
//           (step FailAll: StreamAckManager::resetCache(), what QXmppClient::connectToServer() with another
//           account and the destruction of the stream do)
//   "up"    socketpair, no stream management: finishes successfully inside send()
//   "down"  no connected socket, no stream management: finishes with SocketWriteError inside send()
// Everything the call partner "sends" is injected through QXmppOutgoingClient::handlePacketReceived; a carbon
// copy is the real <sent xmlns='urn:xmpp:carbons:2'> wrapper, unwrapped by the real QXmppCarbonManagerV2.
// The user is the public API only: QXmppJingleMessageInitiationManager::propose(), the JMI handles obtained
// from its result and from proposed(), and ring/proceed/reject/retract/finish on them.
//
// Behaviour: {"mode":"sm","steps":[{"a":"Propose","p":"p1"},{"a":"Ack"},
//             {"a":"Recv","from":"p1","res":"r1","t":"proceed","id":"o1","wf":"ok","v":"plain"}, ...]}
// Trace line per step (see spec/JmiTrace.tla): the event with its arguments, "e" = its kind, and
//   o = {sent:[{t,to,id,rs,ex}], sig:[{s,k,a,b,c}], handled, list:[{k,peer,id,proc}], pend}
// sent     JMI elements written during the step (parsed from what the client wrote)
// sig      signals (proposed / ringing / proceeded / closed) and task results (res) in emission order; k = handle
//          (creation order of the JMI objects as the user got to know them)
// handled  the injected message was consumed (QXmppClient::messageReceived not emitted)
// list     the manager's list read through the friend seam (jmi_probe.h); ids and JIDs as tokens
#include "fixture.h"
#include "jmi_probe.h"
#include "qxv.h"

#include "QXmppCarbonManagerV2.h"
#include "QXmppJingleMessageInitiationManager.h"
#include "QXmppMessage.h"
#include "QXmppUtils.h"

#include <QTextStream>

#include <memory>

#include <sys/socket.h>
#include <unistd.h>

namespace {

using Jmi = QXmppJingleMessageInitiation;
const QString kOwnBare = QStringLiteral("me@example.org");
const QString kOwnFull = QStringLiteral("me@example.org/dev1");
const char *kJmiNs = "urn:xmpp:jingle-message:0";

// id tokens of the partners (spec/Jmi.tla: Rank): below / above every random UUID of ours; nlo / nhi are
// no UUIDs and sort (as strings) below / above every UUID
const QMap<QString, QString> kIds {
    { "lo1", "00000000-0000-4000-8000-000000000001" },
    { "lo2", "00000000-0000-4000-8000-000000000002" },
    { "hi1", "ffffffff-ffff-4fff-bfff-fffffffffff1" },
    { "hi2", "ffffffff-ffff-4fff-bfff-fffffffffff2" },
    { "nlo", "!call-1" },
    { "nhi", "zcall-1" },
    { "m1", "88888888-8888-4888-8888-888888888888" },
};

QString reasonName(const std::optional<QXmppJingleReason> &r)
{
    if (!r) {
        return "-";
    }
    switch (r->type()) {
    case QXmppJingleReason::Busy:
        return "busy";
    case QXmppJingleReason::Cancel:
        return "cancel";
    case QXmppJingleReason::Success:
        return "success";
    case QXmppJingleReason::Expired:
        return "expired";
    default:
        return QStringLiteral("other%1").arg(int(r->type()));
    }
}

struct Env {
    std::unique_ptr<TestClient> c;
    QXmppJingleMessageInitiationManager *mgr = nullptr;
    QObject guard;  // context of the continuations the "user" attaches
    QString mode;
    int peerFd = -1;
    QVector<std::shared_ptr<Jmi>> handles;  // the JMIs the user knows, in the order he got to know them
    QStringList ownIds;                     // concrete ids of our proposals: o1, o2, ...
    QJsonArray sig;
    int unhandled = 0;  // QXmppClient::messageReceived during the step
    int written = 0;    // stanzas written under stream management
    int acked = 0;      // ... acknowledged or failed so far
    int n = 0;

    ~Env()
    {
        // Sends still pending are failed while the client is intact.  Left to ~QXmppClient they are failed from
        // ~QXmppOutgoingClient, after QXmppClientPrivate has been freed: a continuation that touches the client
        // then (none of the specified ones does; a diverging implementation may) would be a use after free.
        if (c) {
            c->stream()->streamAckManager().resetCache();
        }
        handles.clear();
        c.reset();
        if (peerFd >= 0) {
            ::close(peerFd);
        }
    }

    QString idToken(const QString &id) const
    {
        if (id.isEmpty()) {
            return "";
        }
        for (auto it = kIds.begin(); it != kIds.end(); ++it) {
            if (it.value() == id) {
                return it.key();
            }
        }
        const int i = ownIds.indexOf(id);
        return i >= 0 ? QStringLiteral("o%1").arg(i + 1) : "?" + id;
    }
    QString idConcrete(const QString &tok) const
    {
        if (kIds.contains(tok)) {
            return kIds[tok];
        }
        if (tok.startsWith('o')) {
            const int i = tok.mid(1).toInt();
            if (i >= 1 && i <= ownIds.size()) {
                return ownIds[i - 1];
            }
        }
        return "unknown-" + tok;
    }
    static QString jidOf(const QString &tok) { return tok + QStringLiteral("@example.org"); }
    static QString jidToken(const QString &jid)
    {
        return jid.endsWith("@example.org") ? jid.left(jid.indexOf('@')) : "?" + jid;
    }

    void signal(const QString &s, int k, const QString &a = {}, const QString &b = {}, const QString &cc = {})
    {
        sig.append(QJsonObject { { "s", s }, { "k", k }, { "a", a }, { "b", b }, { "c", cc } });
    }

    // Handles are numbered in the order of the propose() calls and proposed() signals (as the creation indices
    // of spec/Jmi.tla).  A propose() call reserves its number at once; the JMI is entered when it is first seen: in
    // the manager's list right after the call, or in the result of propose().
    int adopt(const std::shared_ptr<Jmi> &jmi, int slot = -1)
    {
        if (slot < 0) {
            handles << jmi;
            slot = handles.size() - 1;
        } else {
            if (handles[slot] == jmi) {
                return slot + 1;
            }
            handles[slot] = jmi;
        }
        const int k = slot + 1;
        auto *q = jmi.get();
        QObject::connect(q, &Jmi::ringing, &guard, [this, k] { signal("ringing", k); });
        QObject::connect(q, &Jmi::proceeded, &guard, [this, k](const QString &id, const QString &res) {
            signal("proceeded", k, idToken(id), res);
        });
        QObject::connect(q, &Jmi::closed, &guard, [this, k](const Jmi::Result &r) {
            if (auto *x = std::get_if<Jmi::Rejected>(&r)) {
                signal("closed", k, "Rejected", reasonName(x->reason), x->containsTieBreak ? "tb" : "");
            } else if (auto *y = std::get_if<Jmi::Retracted>(&r)) {
                signal("closed", k, "Retracted", reasonName(y->reason), y->containsTieBreak ? "tb" : "");
            } else if (auto *z = std::get_if<Jmi::Finished>(&r)) {
                signal("closed", k, "Finished", reasonName(z->reason), idToken(z->migratedTo));
            } else {
                signal("closed", k, "Error");
            }
        });
        return k;
    }

    void start(const QString &m, const QString &ownFull = kOwnFull)
    {
        mode = m;
        TestClient::resetIdCounter();
        c = std::make_unique<TestClient>(TestClient::NoExtensions, ownFull);
        c->addExtension(new QXmppCarbonManagerV2);
        mgr = new QXmppJingleMessageInitiationManager;
        c->addExtension(mgr);
        QObject::connect(mgr, &QXmppJingleMessageInitiationManager::proposed, &guard,
                         [this](const std::shared_ptr<Jmi> &jmi, const QString &id, const std::optional<QXmppJingleDescription> &) {
                             const int k = adopt(jmi);
                             signal("proposed", k, idToken(id));
                         });
        QObject::connect(c.get(), &QXmppClient::messageReceived, &guard, [this](const QXmppMessage &) { ++unhandled; });
        if (mode != "down") {
            // a connected socket nobody answers on (one end of a socketpair)
            int fds[2];
            if (::socketpair(AF_UNIX, SOCK_STREAM, 0, fds) != 0) {
                fprintf(stderr, "jmi: socketpair failed\n");
                exit(2);
            }
            peerFd = fds[1];
            if (!c->stream()->socket()->setSocketDescriptor(fds[0], QAbstractSocket::ConnectedState) ||
                c->stream()->socket()->state() != QAbstractSocket::ConnectedState) {
                fprintf(stderr, "jmi: the client socket does not accept the socketpair descriptor\n");
                exit(2);
            }
        }
        c->fakeSession(mode == "sm", false);
        c->takeSent();
    }

    // JMI elements written during the step
    QJsonArray sentProjection()
    {
        QJsonArray r;
        for (const auto &s : c->takeSent()) {
            if (!s.startsWith("<message") && !s.startsWith("<iq") && !s.startsWith("<presence")) {
                continue;  // <a/>, <r/>
            }
            if (mode == "sm") {
                ++written;
            }
            QxvXml x(s);
            QJsonObject el { { "t", "other:" + x.el.tagName() }, { "to", jidToken(x.el.attribute("to")) }, { "id", "" }, { "rs", "-" }, { "ex", "" } };
            bool store = false;
            QDomElement j;
            for (auto ch = x.el.firstChildElement(); !ch.isNull(); ch = ch.nextSiblingElement()) {
                if (ch.namespaceURI() == kJmiNs) {
                    j = ch;
                } else if (ch.tagName() == "store" && ch.namespaceURI() == "urn:xmpp:hints") {
                    store = true;
                }
            }
            if (x.el.tagName() == "message" && !j.isNull()) {
                QString t = j.tagName();
                if (x.el.attribute("type") != "chat") {
                    t += "!nochat";
                }
                if (!store) {
                    t += "!nostore";
                }
                el["t"] = t;
                el["id"] = idToken(j.attribute("id"));
                QStringList ex;
                for (auto ch = j.firstChildElement(); !ch.isNull(); ch = ch.nextSiblingElement()) {
                    if (ch.tagName() == "reason") {
                        for (auto rc = ch.firstChildElement(); !rc.isNull(); rc = rc.nextSiblingElement()) {
                            if (rc.tagName() != "text") {
                                el["rs"] = rc.tagName();
                            }
                        }
                    } else if (ch.tagName() == "tie-break") {
                        ex << "tb";
                    } else if (ch.tagName() == "migrated") {
                        ex << idToken(ch.attribute("to"));
                    }
                }
                el["ex"] = ex.join('+');
            }
            r.append(el);
        }
        return r;
    }

    QJsonObject observe(bool inbound)
    {
        QJsonArray list;
        for (const auto &j : JmiProbe::list(*mgr)) {
            int k = 0;
            for (int i = 0; i < handles.size(); ++i) {
                if (handles[i] == j) {
                    k = i + 1;
                }
            }
            list.append(QJsonObject { { "k", k }, { "peer", jidToken(JmiProbe::partner(*j)) }, { "id", idToken(JmiProbe::id(*j)) },
                                      { "proc", JmiProbe::proceeded(*j) } });
        }
        auto sent = sentProjection();
        QJsonObject o { { "sent", sent }, { "sig", sig }, { "handled", inbound && unhandled == 0 }, { "list", list }, { "pend", written - acked } };
        sig = {};
        unhandled = 0;
        return o;
    }
};

QString elementXml(const Env &e, const QString &t, const QString &idTok, const QString &v)
{
    const auto id = e.idConcrete(idTok);
    QString inner;
    if (t == "propose") {
        inner = QStringLiteral("<description xmlns='urn:xmpp:jingle:apps:rtp:1' media='audio'/>");
    } else if (t == "reject" || t == "retract" || t == "finish") {
        if (v != "nore") {
            inner = t == "reject" ? QStringLiteral("<reason xmlns='urn:xmpp:jingle:1'><busy/><text>Busy</text></reason>")
                : t == "retract"  ? QStringLiteral("<reason xmlns='urn:xmpp:jingle:1'><cancel/><text>Retracted</text></reason>")
                                  : QStringLiteral("<reason xmlns='urn:xmpp:jingle:1'><success/><text>Success</text></reason>");
        }
        if (v == "tb") {
            inner += QStringLiteral("<tie-break/>");
        } else if (v == "mig") {
            inner += QStringLiteral("<migrated to='%1'/>").arg(kIds["m1"]);
        }
    }
    return QStringLiteral("<%1 xmlns='%2' id='%3'>%4</%1>").arg(t, kJmiNs, id.toHtmlEscaped(), inner);
}

void runBehaviour(Ctx &ctx, const QString &caseId, const QJsonObject &beh)
{
    const auto mode = beh["mode"].toString("sm");
    ctx.reset(caseId, { { "mode", mode } });
    ctx.out.flush();  // a crash inside the library must not lose the executions already recorded
    Env e;
    e.start(mode);
    auto &c = *e.c;
    for (const auto &sv : beh["steps"].toArray()) {
        const auto s = sv.toObject();
        const auto a = s["a"].toString();
        QJsonObject ev = s;
        ev["e"] = a;
        bool inbound = false;
        if (a == "Propose") {
            QXmppJingleDescription d;
            d.setMedia(QStringLiteral("audio"));
            d.setType(QStringLiteral("urn:xmpp:jingle:apps:rtp:1"));
            const int before = c.sent.size();
            const int slot = e.handles.size();
            e.handles << nullptr;
            auto task = e.mgr->propose(Env::jidOf(s["p"].toString()), d);
            for (const auto &j : JmiProbe::list(*e.mgr)) {
                if (!e.handles.contains(j)) {
                    e.adopt(j, slot);  // the proposal is a session from now on
                    break;
                }
            }
            // our id is whatever the propose just written carries
            QString own;
            for (int i = before; i < c.sent.size(); ++i) {
                if (c.sent[i].startsWith("<message")) {
                    QxvXml x(c.sent[i]);
                    for (auto ch = x.el.firstChildElement(); !ch.isNull(); ch = ch.nextSiblingElement()) {
                        if (ch.namespaceURI() == kJmiNs && ch.tagName() == "propose") {
                            own = ch.attribute("id");
                        }
                    }
                }
            }
            // ... and it has to lie strictly between the "lo" and the "hi" tokens (a random UUID does)
            if (own.size() != 36 || own.startsWith("00000000") || own.startsWith("ffffffff") || own != own.toLower()) {
                // not an assumption about the library that is judged here: propose() documents no id format
                e.ownIds << (own.isEmpty() ? QStringLiteral("missing-own-id-%1").arg(e.ownIds.size() + 1) : own);
                ctx.emit_(QJsonObject { { "e", "Abort" }, { "why", "own id '" + own + "' is not a lower-case UUID between the tokens" } });
                return;
            }
            e.ownIds << own;
            task.then(&e.guard, [&e, slot](QXmppJingleMessageInitiationManager::ProposeResult r) {
                if (auto *jmi = std::get_if<std::shared_ptr<Jmi>>(&r); jmi && *jmi) {
                    if (e.handles[slot] && e.handles[slot] != *jmi) {
                        e.signal("res", slot + 1, "propose", "ok:another-jmi");
                    } else {
                        e.signal("res", e.adopt(*jmi, slot), "propose", "ok");
                    }
                } else {
                    e.signal("res", slot + 1, "propose", "err");
                }
            });
        } else if (a == "Ring" || a == "Proceed" || a == "Reject" || a == "Retract" || a == "Finish") {
            const int k = s["k"].toInt();
            if (k < 1 || k > e.handles.size() || !e.handles[k - 1]) {
                // the implementation created fewer JMIs than the model: the call is impossible
                ctx.emit_(QJsonObject { { "e", "Abort" }, { "why", QStringLiteral("no handle %1").arg(k) } });
                return;
            }
            auto jmi = e.handles[k - 1];
            const auto name = a.toLower();
            auto task = a == "Ring" ? jmi->ring()
                : a == "Proceed"    ? jmi->proceed()
                : a == "Reject"     ? jmi->reject(std::nullopt)
                : a == "Retract"    ? jmi->retract(std::nullopt)
                                    : jmi->finish(std::nullopt);
            task.then(&e.guard, [&e, k, name](QXmpp::SendResult r) {
                e.signal("res", k, name, std::holds_alternative<QXmppError>(r) ? "err" : "ok");
            });
        } else if (a == "Recv") {
            inbound = true;
            const auto res = s["res"].toString(), wf = s["wf"].toString();
            const auto from = Env::jidOf(s["from"].toString()) + (res == "-" ? QString() : "/" + res);
            c.inject(QStringLiteral("<message from='%1' to='%2' type='%3' id='m%4'>%5%6</message>")
                         .arg(from, kOwnFull, wf == "nochat" ? "normal" : "chat")
                         .arg(++e.n)
                         .arg(elementXml(e, s["t"].toString(), s["id"].toString(), s["v"].toString()),
                              wf == "nostore" ? QString() : QStringLiteral("<store xmlns='urn:xmpp:hints'/>")));
        } else if (a == "Carbon") {
            inbound = true;
            c.inject(QStringLiteral("<message from='%1' to='%2' type='chat'><sent xmlns='urn:xmpp:carbons:2'><forwarded xmlns='urn:xmpp:forward:0'>"
                                    "<message xmlns='jabber:client' from='%1/dev2' to='%3' type='chat' id='c%4'>%5<store xmlns='urn:xmpp:hints'/></message>"
                                    "</forwarded></sent></message>")
                         .arg(kOwnBare, kOwnFull, Env::jidOf(s["p"].toString()))
                         .arg(++e.n)
                         .arg(elementXml(e, s["t"].toString(), s["id"].toString(), "plain")));
        } else if (a == "Ack") {
            if (e.acked < e.written) {
                ++e.acked;
            }
            c.inject(QStringLiteral("<a xmlns='urn:xmpp:sm:3' h='%1'/>").arg(e.acked));
        } else if (a == "FailAll") {
            c.stream()->streamAckManager().resetCache();
            e.acked = e.written;
        } else {
            fprintf(stderr, "jmi: unknown step %s\n", qPrintable(a));
            exit(2);
        }
        QCoreApplication::processEvents();
        auto o = e.observe(inbound);
        if (a == "FailAll") {
            // sends started by continuations of the failed ones (none in the specification) count as written after the reset
            e.acked = e.written;
            o["pend"] = 0;
        }
        ev["o"] = o;
        ctx.emit_(ev);
    }
}


// ------------------------------------------------------------------------------------------------
// qxv jmipair — two real managers talking to each other (closed loop, no TLC): what one client writes is
// delivered to the other (from= added, as the server does) until nothing is in flight or `cap` stanzas were
// delivered.  Scenarios (--in: one {"scn":..,"acks":..} per line):
//   call    A proposes, B rings and proceeds, A finishes
//   glare   A and B propose at the same time (both proposals in flight), then A finishes
// acks: "early" every stanza is acknowledged as soon as it is written, "late" only when nothing else is in flight.
// One trace line per scenario: {"e":"Pair","scn","acks","delivered","quiescent","wire":[..],"a":{..},"b":{..}}.
struct Side {
    QString bare, full;
    Env env;
    QStringList closed;     // closed() results
    QStringList proceededIds;
    int proposed = 0;
};

static QString withFrom(const QString &xml, const QString &from)
{
    QxvXml x(xml);
    auto el = x.el;
    el.setAttribute("from", from);
    QString out;
    QTextStream ts(&out);
    el.save(ts, 0);
    return out;
}

static void runPair(Ctx &ctx, const QString &caseId, const QJsonObject &b)
{
    const auto scn = b["scn"].toString(), acks = b["acks"].toString("early");
    const int cap = b["cap"].toInt(60);
    ctx.reset(caseId, { { "mode", "sm" } });
    ctx.out.flush();
    Side A, B;
    A.bare = "a@example.org", A.full = "a@example.org/devA";
    B.bare = "b@example.org", B.full = "b@example.org/devB";
    QStringList wire;
    A.env.start("sm", A.full);
    B.env.start("sm", B.full);
    struct Flight { bool toB; QString xml; };
    QList<Flight> flight;
    auto describe = [](const QString &xml) {
        QxvXml x(xml);
        for (auto ch = x.el.firstChildElement(); !ch.isNull(); ch = ch.nextSiblingElement()) {
            if (ch.namespaceURI() == kJmiNs) {
                return ch.tagName() + " " + ch.attribute("id").left(8);
            }
        }
        return QStringLiteral("?");
    };
    auto collect = [&](Side &s, bool toB) {
        for (const auto &x : s.env.c->takeSent()) {
            if (x.startsWith("<message")) {
                ++s.env.written;
                flight.append({ toB, withFrom(x, s.full) });
                wire << QString(toB ? "A>B " : "B>A ") + describe(x);
            }
        }
    };
    auto ackAll = [&](Side &s) {
        if (s.env.acked < s.env.written) {
            s.env.acked = s.env.written;
            s.env.c->inject(QStringLiteral("<a xmlns='urn:xmpp:sm:3' h='%1'/>").arg(s.env.acked));
        }
    };
    auto settle = [&](int &delivered) {
        // deliver until nothing is in flight (or the cap is hit)
        for (;;) {
            collect(A, true);
            collect(B, false);
            if (acks == "early") {
                ackAll(A);
                ackAll(B);
                collect(A, true);
                collect(B, false);
            }
            if (flight.isEmpty()) {
                if (A.env.acked == A.env.written && B.env.acked == B.env.written) {
                    return true;
                }
                ackAll(A);
                ackAll(B);
                continue;
            }
            if (delivered >= cap) {
                return false;
            }
            auto f = flight.takeFirst();
            ++delivered;
            (f.toB ? B : A).env.c->inject(f.xml);
        }
    };
    auto side = [](Side &s) {
        QJsonArray list;
        for (const auto &j : JmiProbe::list(*s.env.mgr)) {
            list.append(QJsonObject { { "peer", JmiProbe::partner(*j) }, { "id", JmiProbe::id(*j) }, { "proc", JmiProbe::proceeded(*j) } });
        }
        QJsonArray sig;
        for (const auto &v : s.env.sig) {
            const auto o = v.toObject();
            sig.append(o["s"].toString() + ":" + QString::number(o["k"].toInt()) + ":" + o["a"].toString() + ":" + o["b"].toString() + ":" + o["c"].toString());
        }
        return QJsonObject { { "list", list }, { "sig", sig }, { "handles", s.env.handles.size() } };
    };
    QJsonObject midA, midB;
    QXmppJingleDescription d;
    d.setMedia(QStringLiteral("audio"));
    d.setType(QStringLiteral("urn:xmpp:jingle:apps:rtp:1"));
    int delivered = 0;
    bool quiescent = true;
    auto propose = [&](Side &s, const QString &to) {
        const int slot = s.env.handles.size();
        s.env.handles << nullptr;
        s.env.mgr->propose(to, d).then(&s.env.guard, [&s, slot](QXmppJingleMessageInitiationManager::ProposeResult r) {
            if (auto *jmi = std::get_if<std::shared_ptr<Jmi>>(&r); jmi && *jmi && (!s.env.handles[slot] || s.env.handles[slot] == *jmi)) {
                s.env.adopt(*jmi, slot);
            }
        });
        for (const auto &j : JmiProbe::list(*s.env.mgr)) {
            if (!s.env.handles.contains(j) && !s.env.handles[slot]) {
                s.env.adopt(j, slot);
            }
        }
    };
    if (scn == "call") {
        propose(A, B.bare);
        quiescent = settle(delivered);
        if (quiescent && !B.env.handles.isEmpty() && B.env.handles[0]) {
            B.env.handles[0]->ring();
            quiescent = settle(delivered);
            B.env.handles[0]->proceed();
            quiescent = quiescent && settle(delivered);
        }
        midA = side(A), midB = side(B);
        if (quiescent && !A.env.handles.isEmpty() && A.env.handles[0]) {
            A.env.handles[0]->finish(std::nullopt);
            quiescent = settle(delivered);
        }
    } else if (scn == "glare") {
        propose(A, B.bare);
        propose(B, A.bare);
        quiescent = settle(delivered);
        midA = side(A), midB = side(B);
        if (quiescent && !A.env.handles.isEmpty() && A.env.handles[0]) {
            A.env.handles[0]->finish(std::nullopt);
            quiescent = settle(delivered);
        }
    }
    ctx.emit_(QJsonObject { { "e", "Pair" }, { "scn", scn }, { "acks", acks }, { "delivered", delivered }, { "quiescent", quiescent },
                            { "wire", jarr(wire) }, { "mid", QJsonObject { { "a", midA }, { "b", midB } } }, { "a", side(A) }, { "b", side(B) } });
}

}  // namespace

QXV_DRIVER(jmipair)
{
    int n = 0;
    for (const auto &bv : ctx.behaviours()) {
        runPair(ctx, QString("p%1").arg(++n), bv.toObject());
    }
    return 0;
}

QXV_DRIVER(jmi)
{
    auto behs = ctx.behaviours();
    int n = ctx.optInt("base", 0);  // numbering offset: the suite replays chunks of behaviours side by side
    for (const auto &bv : behs) {
        runBehaviour(ctx, QString("j%1").arg(++n), bv.toObject());
    }
    return 0;
}
