// Scripted remote side of server-to-server streams for drv_s2s.cpp (extension `s2s`).
//
//  S2sWire      splits the bytes one side of a jabber:server stream wrote into abstract records
//               (stream header, dialback elements, stanzas, stream end)
//  S2sListener  the server of a remote domain: a TCP listener on <address of the domain>:5269 that
//               accepts any number of connections of the local server under test (QXmppOutgoingServer
//               objects: the originating stream and the verification streams) and lets the script
//               write on each of them
//  S2sClient    a remote party that connects to the s2s port of the server under test
//  s2sSockQuiet nothing in flight on a socket, in either direction (same criterion as drv_server.cpp)
//
// No wall-clock ordering anywhere: waiting is for conditions, the time bound is a hang detector.
#pragma once

#include "loopback.h"

#include <QDomDocument>
#include <QJsonArray>
#include <QJsonObject>
#include <QRegularExpression>
#include <QTcpServer>
#include <QTcpSocket>

#include <linux/sockios.h>
#include <netinet/in.h>
#include <netinet/tcp.h>
#include <poll.h>
#include <sys/ioctl.h>
#include <sys/socket.h>

inline bool s2sSockQuiet(QAbstractSocket *s)
{
    if (s->state() != QAbstractSocket::UnconnectedState && s->socketDescriptor() >= 0) {
        int one = 1, fd = int(s->socketDescriptor());
        setsockopt(fd, IPPROTO_TCP, TCP_NODELAY, &one, sizeof(one));
        setsockopt(fd, IPPROTO_TCP, TCP_QUICKACK, &one, sizeof(one));
    }
    if (s->state() == QAbstractSocket::HostLookupState || s->state() == QAbstractSocket::ConnectingState ||
        s->state() == QAbstractSocket::ClosingState) {
        return false;
    }
    if (s->bytesToWrite() > 0 || s->bytesAvailable() > 0) {
        return false;
    }
    if (s->state() == QAbstractSocket::UnconnectedState || s->socketDescriptor() < 0) {
        return true;
    }
    int fd = int(s->socketDescriptor()), outq = 0;
    if (ioctl(fd, SIOCOUTQ, &outq) == 0 && outq != 0) {
        return false;
    }
    pollfd p { fd, POLLIN | POLLRDHUP, 0 };
    return poll(&p, 1, 0) == 0;
}

// One element the other side wrote.
struct S2sEl {
    QString kind;   // hdr | feat | result | verify | message | end | other
    QString from, to, id, type, text;
};

// Incremental splitter of one direction of a stream.
struct S2sWire {
    QString tail;
    bool complete = true;
    QList<S2sEl> els;   // everything so far
    int reported = 0;
    qint64 bytes = 0;

    void feed(const QByteArray &d)
    {
        bytes += d.size();
        tail += QString::fromUtf8(d);
        complete = consume();
    }
    QList<S2sEl> takeNew()
    {
        QList<S2sEl> r = els.mid(reported);
        reported = els.size();
        return r;
    }
    bool consume()
    {
        static const QRegularExpression hdr(QStringLiteral("^\\s*(<\\?xml[^>]*\\?>)?\\s*<stream:stream((?:[^>'\"]|'[^']*'|\"[^\"]*\")*)>"));
        static const QRegularExpression attr(QStringLiteral("\\b(from|to|id)\\s*=\\s*(?:'([^']*)'|\"([^\"]*)\")"));
        static const QString open = QStringLiteral("<stream:stream xmlns='jabber:server' xmlns:db='jabber:server:dialback' "
                                                   "xmlns:stream='http://etherx.jabber.org/streams'>");
        while (!tail.trimmed().isEmpty()) {
            const QString t = tail.trimmed();
            if (t.startsWith(QStringLiteral("<?xml")) || t.startsWith(QStringLiteral("<stream:stream"))) {
                auto m = hdr.match(tail);
                if (!m.hasMatch()) {
                    return false;
                }
                S2sEl e;
                e.kind = QStringLiteral("hdr");
                auto it = attr.globalMatch(m.captured(2));
                while (it.hasNext()) {
                    auto a = it.next();
                    const QString v = a.captured(2).isNull() ? a.captured(3) : a.captured(2);
                    if (a.captured(1) == "from") {
                        e.from = v;
                    } else if (a.captured(1) == "to") {
                        e.to = v;
                    } else {
                        e.id = v;
                    }
                }
                els.append(e);
                tail = tail.mid(m.capturedLength());
                continue;
            }
            int nx = tail.indexOf(QStringLiteral("<?xml"));
            QString seg = nx < 0 ? tail : tail.left(nx);
            QString body = seg.trimmed();
            bool close = false;
            if (body.endsWith(QStringLiteral("</stream:stream>"))) {
                close = true;
                body.chop(16);
            }
            QDomDocument doc;
            if (!doc.setContent(open + body + QStringLiteral("</stream:stream>"), true)) {
                return false;
            }
            for (auto el = doc.documentElement().firstChildElement(); !el.isNull(); el = el.nextSiblingElement()) {
                S2sEl e;
                const QString ns = el.namespaceURI(), tag = el.tagName().section(':', -1);
                e.from = el.attribute("from");
                e.to = el.attribute("to");
                e.id = el.attribute("id");
                e.type = el.attribute("type");
                if (ns == "jabber:server:dialback" && (tag == "result" || tag == "verify")) {
                    e.kind = tag;
                    e.text = el.text();
                } else if (ns == "http://etherx.jabber.org/streams" && tag == "features") {
                    e.kind = QStringLiteral("feat");
                } else if (tag == "message" || tag == "iq" || tag == "presence") {
                    e.kind = tag;
                    e.text = el.firstChildElement("body").text();
                } else {
                    e.kind = QStringLiteral("other");
                    e.text = tag;
                }
                els.append(e);
            }
            if (close) {
                S2sEl e;
                e.kind = QStringLiteral("end");
                els.append(e);
            }
            tail = nx < 0 ? QString() : tail.mid(nx);
        }
        return true;
    }
};

// One connection accepted by a listener.
struct S2sPeerConn {
    QTcpSocket *sock = nullptr;
    QString dom;       // label of the domain whose listener accepted it
    S2sWire wire;
    bool closed = false;
    QString sid;       // stream id the script handed out on it
    QString key;       // key of the db:result the server under test wrote on it (observed)
    QString askedId;   // id of the db:verify the server under test wrote on it (observed)
    bool isOpen() const { return sock && sock->state() == QAbstractSocket::ConnectedState; }
    void write(const QByteArray &d)
    {
        if (isOpen()) {
            sock->write(d);
            sock->flush();
        }
    }
};

class S2sListener : public QObject
{
public:
    QTcpServer server;
    QHostAddress addr;
    QString label;
    std::function<void(QTcpSocket *, const QString &)> onAccept;

    S2sListener()
    {
        QObject::connect(&server, &QTcpServer::newConnection, this, [this] {
            while (auto *s = server.nextPendingConnection()) {
                s->setSocketOption(QAbstractSocket::LowDelayOption, 1);
                if (onAccept) {
                    onAccept(s, label);
                } else {
                    s->abort();
                    s->deleteLater();
                }
            }
        });
    }
    bool up(bool on)
    {
        if (on == server.isListening()) {
            return true;
        }
        if (!on) {
            server.close();
            return true;
        }
        return server.listen(addr, 5269);
    }
};

class S2sClient : public QObject
{
public:
    QTcpSocket sock;
    S2sWire wire;
    bool closed = false;
    bool used = false;
    QString sid;   // id of the stream as the server under test announced it

    S2sClient()
    {
        QObject::connect(&sock, &QTcpSocket::readyRead, this, [this] { wire.feed(sock.readAll()); });
        QObject::connect(&sock, &QTcpSocket::disconnected, this, [this] { closed = true; });
    }
    bool isOpen() const { return sock.state() == QAbstractSocket::ConnectedState; }
    bool connectTo(quint16 port)
    {
        used = true;
        sock.setSocketOption(QAbstractSocket::LowDelayOption, 1);
        sock.connectToHost(QHostAddress::LocalHost, port);
        return qxvSpin([&] { return sock.state() == QAbstractSocket::ConnectedState || sock.state() == QAbstractSocket::UnconnectedState; }, 3000) && isOpen();
    }
    void write(const QByteArray &d)
    {
        if (isOpen()) {
            sock.write(d);
            sock.flush();
        }
    }
};
